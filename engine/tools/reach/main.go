// reach: exhaustive call-graph reachability from native-contract handlers (everything passed to
// native.Register / NativeService.Register) to wall-clock / randomness / environment sources.
//
// usage: reach -overlay overlay.json -out result.json
// The call graph is CHA (sound over-approximation for interface and function-value calls) over SSA built from the
// repository's current sources (with the build overlay applied). The search only walks through functions of the
// repository module (third-party interiors are not entered: see DESIGN C16 scoping rule) and reports every edge
// repo-function -> forbidden source reachable from a root.
package main

import (
	"encoding/json"
	"flag"
	"fmt"
	"go/ast"
	"go/types"
	"os"
	"sort"
	"strings"

	"golang.org/x/tools/go/callgraph"
	"golang.org/x/tools/go/callgraph/cha"
	"golang.org/x/tools/go/packages"
	"golang.org/x/tools/go/ssa"
	"golang.org/x/tools/go/ssa/ssautil"
)

const mod = "github.com/polynetwork/poly"

type site struct {
	Caller string   `json:"caller"`
	Callee string   `json:"callee"`
	Pos    string   `json:"pos"`
	Path   []string `json:"path"` // one shortest call path root -> caller
}

func forbidden(f *ssa.Function) bool {
	if f == nil || f.Pkg == nil {
		return false
	}
	p := f.Pkg.Pkg.Path()
	n := f.Name()
	if f.Signature.Recv() != nil {
		// methods: only (*rand.Rand) style sources
		if p == "math/rand" {
			return true
		}
		return false
	}
	switch p {
	case "time":
		switch n {
		case "Now", "Since", "Until", "After", "Tick", "NewTimer", "NewTicker", "AfterFunc", "Sleep":
			return true
		}
	case "math/rand", "math/rand/v2":
		return ast.IsExported(n)
	case "crypto/rand":
		return n == "Read" || n == "Int" || n == "Prime"
	case "os":
		return n == "Getenv" || n == "LookupEnv" || n == "Environ" || n == "Hostname" || n == "Getpid"
	}
	return false
}

func inRepo(f *ssa.Function) bool {
	if f == nil {
		return false
	}
	var p *types.Package
	if f.Pkg != nil {
		p = f.Pkg.Pkg
	} else if f.Object() != nil {
		p = f.Object().Pkg()
	} else if f.Parent() != nil {
		return inRepo(f.Parent())
	}
	if p == nil {
		return false
	}
	path := p.Path()
	if !strings.HasPrefix(path, mod+"/") && path != mod {
		return false
	}
	// logging is a sink whose timestamps never flow back into contract results
	if path == mod+"/common/log" {
		return false
	}
	return true
}

func main() {
	ov := flag.String("overlay", "", "go build overlay json")
	out := flag.String("out", "", "result json")
	dir := flag.String("dir", "/repo", "repo dir")
	flag.Parse()
	overlay := map[string][]byte{}
	goflags := "-mod=mod -tags=verif"
	if *ov != "" {
		b, err := os.ReadFile(*ov)
		if err != nil {
			fmt.Fprintln(os.Stderr, err)
			os.Exit(2)
		}
		var o struct{ Replace map[string]string }
		json.Unmarshal(b, &o)
		for k, v := range o.Replace {
			if v == "" {
				// deleted by the build overlay: go/packages cannot delete, so leave an empty file of the same package
				if orig, err := os.ReadFile(k); err == nil {
					for _, ln := range strings.Split(string(orig), "\n") {
						if strings.HasPrefix(ln, "package ") {
							overlay[k] = []byte(ln + "\n")
							break
						}
					}
				}
				continue
			}
			c, err := os.ReadFile(v)
			if err == nil {
				overlay[k] = c
			}
		}
	}
	// Only repository packages are loaded from source (SSA bodies); dependencies come from export data: the search never
	// enters third-party functions, it only needs to see calls INTO them.
	mode := packages.NeedName | packages.NeedFiles | packages.NeedCompiledGoFiles | packages.NeedImports |
		packages.NeedTypes | packages.NeedTypesSizes | packages.NeedSyntax | packages.NeedTypesInfo
	cfg := &packages.Config{Mode: mode, Dir: *dir, Overlay: overlay,
		Env: append(os.Environ(), "GOFLAGS="+goflags, "GOPROXY=off", "GOSUMDB=off", "GOTOOLCHAIN=local"),
		BuildFlags: []string{}}
	pkgs, err := packages.Load(cfg, "./native/...", "./core/...", "./common/...", "./merkle/...", "./consensus/vbft/config", "./events/...", "./errors/...")
	if err != nil {
		fmt.Fprintln(os.Stderr, "load:", err)
		os.Exit(2)
	}
	nerr := 0
	packages.Visit(pkgs, nil, func(p *packages.Package) {
		if p.IllTyped && strings.HasPrefix(p.PkgPath, mod) {
			fmt.Fprintln(os.Stderr, "ill-typed:", p.PkgPath, len(p.Errors), p.CompiledGoFiles, p.TypeErrors)
			for ip, dep := range p.Imports {
				if dep.IllTyped {
					fmt.Fprintln(os.Stderr, "   dep ill-typed:", ip, dep.Errors)
				}
			}
		}
		for _, e := range p.Errors {
			if strings.HasPrefix(p.PkgPath, mod) {
				fmt.Fprintln(os.Stderr, "pkg error:", p.PkgPath, e)
				nerr++
			}
		}
	})
	if nerr > 0 {
		os.Exit(2)
	}
	prog, _ := ssautil.Packages(pkgs, ssa.InstantiateGenerics)
	prog.Build()

	// roots: every function value passed to a method named Register on *native.NativeService
	roots := map[*ssa.Function]bool{}
	for fn := range ssautil.AllFunctions(prog) {
		if !inRepo(fn) {
			continue
		}
		for _, b := range fn.Blocks {
			for _, ins := range b.Instrs {
				call, ok := ins.(ssa.CallInstruction)
				if !ok {
					continue
				}
				cc := call.Common()
				callee := cc.StaticCallee()
				if callee == nil || callee.Name() != "Register" || callee.Signature.Recv() == nil {
					continue
				}
				if !strings.Contains(callee.Signature.Recv().Type().String(), mod+"/native.NativeService") {
					continue
				}
				for _, a := range cc.Args {
					var f *ssa.Function
					switch v := a.(type) {
					case *ssa.Function:
						f = v
					case *ssa.MakeClosure:
						f, _ = v.Fn.(*ssa.Function)
					case *ssa.ChangeType:
						f, _ = v.X.(*ssa.Function)
					}
					if f != nil {
						roots[f] = true
					}
				}
			}
		}
	}
	// block execution itself
	for fn := range ssautil.AllFunctions(prog) {
		if fn.Pkg != nil && fn.Pkg.Pkg.Path() == mod+"/core/store/ledgerstore" && fn.Name() == "executeBlock" {
			roots[fn] = true
		}
	}
	cg := cha.CallGraph(prog)
	// BFS through repo functions
	parent := map[*ssa.Function]*ssa.Function{}
	var queue []*ssa.Function
	var rootNames []string
	for f := range roots {
		parent[f] = nil
		queue = append(queue, f)
		rootNames = append(rootNames, f.String())
	}
	sort.Strings(rootNames)
	sort.Slice(queue, func(i, j int) bool { return queue[i].String() < queue[j].String() })
	var sites []site
	seenSite := map[string]bool{}
	thirdParty := 0
	visited := 0
	edges := 0
	for len(queue) > 0 {
		f := queue[0]
		queue = queue[1:]
		visited++
		n := cg.Nodes[f]
		if n == nil {
			continue
		}
		outs := append([]*callgraph.Edge{}, n.Out...)
		sort.Slice(outs, func(i, j int) bool { return outs[i].Callee.Func.String() < outs[j].Callee.Func.String() })
		for _, e := range outs {
			edges++
			c := e.Callee.Func
			if forbidden(c) {
				key := f.String() + " -> " + c.String()
				if !seenSite[key] {
					seenSite[key] = true
					var path []string
					for x := f; x != nil; x = parent[x] {
						path = append([]string{x.String()}, path...)
					}
					pos := ""
					if e.Site != nil {
						pos = prog.Fset.Position(e.Site.Pos()).String()
					}
					sites = append(sites, site{Caller: f.String(), Callee: c.String(), Pos: pos, Path: path})
				}
				continue
			}
			if !inRepo(c) {
				thirdParty++
				continue
			}
			if _, ok := parent[c]; ok {
				continue
			}
			parent[c] = f
			queue = append(queue, c)
		}
	}
	sort.Slice(sites, func(i, j int) bool { return sites[i].Caller+sites[i].Callee < sites[j].Caller+sites[j].Callee })
	res := map[string]any{"roots": rootNames, "functions_visited": visited, "edges_examined": edges,
		"third_party_edges_not_entered": thirdParty, "sites": sites}
	b, _ := json.MarshalIndent(res, "", " ")
	if *out != "" {
		os.WriteFile(*out, b, 0o644)
	} else {
		os.Stdout.Write(b)
	}
}
