// Package ev is the evidence / verdict plumbing shared by every property driver.
//
// A driver does:
//
//	r := ev.Start("C03", "exploration")
//	... r.Eval(); r.Case("n=5/distinct"); r.Sample(x); r.Violation(key, detail) ...
//	r.Finish(map[string]any{"states": n, ...})
//
// Finish writes /verif/evidence/<id>.json, prints KNOWN-FINDING / VIOLATION lines and exits
// 0 (held), 1 (violation not listed in KNOWN_FINDINGS.txt) or 2 (harness error / vacuous run).
package ev

import (
	"crypto/sha256"
	"encoding/hex"
	"encoding/json"
	"flag"
	"fmt"
	"os"
	"path/filepath"
	"sort"
	"strconv"
	"strings"
	"sync"
	"time"
)

const Root = "/verif"

type viol struct {
	Key    string `json:"key"`
	Detail any    `json:"detail"`
}

type Run struct {
	ID    string
	Level string
	Tier  string
	Seed  int64

	ReplayPath string

	mu        sync.Mutex
	start     time.Time
	deadline  time.Time
	evals     int64
	cases     map[string]int64
	classes   map[string]int64
	samples   []any
	maxSample int
	viols     []viol
	violSeen  map[string]bool
	required  []string
	assume    []string
	capped    []string
	notes     map[string]any
}

// Start parses --tier / --replay / --budget and the VERIF_TIER / VERIF_SEED environment.
func Start(id, level string) *Run {
	tier := os.Getenv("VERIF_TIER")
	if tier == "" {
		tier = "quick"
	}
	fs := flag.NewFlagSet(id, flag.ExitOnError)
	ftier := fs.String("tier", tier, "quick|thorough")
	freplay := fs.String("replay", "", "replay file")
	fbudget := fs.Duration("budget", 0, "internal deadline (0 = tier default)")
	_ = fs.Parse(os.Args[1:])
	if *ftier != "quick" && *ftier != "thorough" {
		fmt.Fprintf(os.Stderr, "bad tier %q\n", *ftier)
		os.Exit(2)
	}
	seed, _ := strconv.ParseInt(os.Getenv("VERIF_SEED"), 10, 64)
	r := &Run{ID: id, Level: level, Tier: *ftier, Seed: seed, ReplayPath: *freplay,
		start: time.Now(), cases: map[string]int64{}, classes: map[string]int64{},
		violSeen: map[string]bool{}, maxSample: 6, notes: map[string]any{}}
	b := *fbudget
	if b == 0 {
		if r.Tier == "quick" {
			b = 4 * time.Minute
		} else {
			b = 40 * time.Minute
		}
	}
	r.deadline = r.start.Add(b)
	return r
}

func (r *Run) Quick() bool    { return r.Tier == "quick" }
func (r *Run) Thorough() bool { return r.Tier == "thorough" }

// QT picks the quick or thorough bound.
func (r *Run) QT(q, t int) int {
	if r.Quick() {
		return q
	}
	return t
}

// Expired reports whether the internal deadline has passed. A driver that stops because of it must
// call Capped so the evidence says exhaustive:false.
func (r *Run) Expired() bool { return time.Now().After(r.deadline) }

// Capped records that a (sub)space was cut short; the evidence then carries exhaustive:false.
func (r *Run) Capped(what string) {
	r.mu.Lock()
	defer r.mu.Unlock()
	for _, c := range r.capped {
		if c == what {
			return
		}
	}
	r.capped = append(r.capped, what)
}

func (r *Run) Eval() { r.mu.Lock(); r.evals++; r.mu.Unlock() }
func (r *Run) Evals(n int) {
	r.mu.Lock()
	r.evals += int64(n)
	r.mu.Unlock()
}

// Case registers one distinct non-trivial case key (shape/outcome); duplicates are counted once.
func (r *Run) Case(key string) {
	r.mu.Lock()
	r.cases[key]++
	r.mu.Unlock()
}

// Class counts an outcome class (accepted, rejected:<reason> ...). Used for vacuity guards.
func (r *Run) Class(c string) {
	r.mu.Lock()
	r.classes[c]++
	r.mu.Unlock()
}

// Require makes Finish fail (exit 2) if the class was never observed.
func (r *Run) Require(classes ...string) { r.required = append(r.required, classes...) }

func (r *Run) Assume(s ...string) { r.assume = append(r.assume, s...) }

func (r *Run) Note(k string, v any) {
	r.mu.Lock()
	r.notes[k] = v
	r.mu.Unlock()
}

func (r *Run) Sample(x any) {
	r.mu.Lock()
	if len(r.samples) < r.maxSample {
		r.samples = append(r.samples, x)
	}
	r.mu.Unlock()
}

// Violation records a property violation. key identifies the failing call site / input class and is
// what KNOWN_FINDINGS.txt matches on; detail is what goes into the replay file.
func (r *Run) Violation(key string, detail any) {
	r.mu.Lock()
	defer r.mu.Unlock()
	if r.violSeen[key] {
		return
	}
	r.violSeen[key] = true
	r.viols = append(r.viols, viol{key, detail})
}

func (r *Run) NViolations() int { r.mu.Lock(); defer r.mu.Unlock(); return len(r.viols) }

// HarnessError aborts the run with exit 2: the harness, not the code under test, is wrong.
func (r *Run) HarnessError(format string, a ...any) {
	fmt.Printf("HARNESS-ERROR property=%s %s\n", r.ID, fmt.Sprintf(format, a...))
	os.Exit(2)
}

type known struct {
	prop, key, text string
}

func loadKnown() []known {
	b, err := os.ReadFile(filepath.Join(Root, "KNOWN_FINDINGS.txt"))
	if err != nil {
		return nil
	}
	var out []known
	for _, ln := range strings.Split(string(b), "\n") {
		ln = strings.TrimSpace(ln)
		if !strings.HasPrefix(ln, "known:") {
			continue
		}
		f := strings.Fields(ln[len("known:"):])
		k := known{}
		rest := []string{}
		for _, w := range f {
			switch {
			case strings.HasPrefix(w, "property=") && k.prop == "":
				k.prop = w[len("property="):]
			case strings.HasPrefix(w, "key=") && k.key == "":
				k.key = w[len("key="):]
			default:
				rest = append(rest, w)
			}
		}
		k.text = strings.Join(rest, " ")
		out = append(out, k)
	}
	return out
}

func toJSONable(v any) any {
	b, err := json.Marshal(v)
	if err != nil {
		return fmt.Sprintf("%+v", v)
	}
	var x any
	_ = json.Unmarshal(b, &x)
	return x
}

// Finish writes the evidence and terminates the process with the verdict.
func (r *Run) Finish(cov map[string]any) {
	r.mu.Lock()
	defer r.mu.Unlock()
	if cov == nil {
		cov = map[string]any{}
	}
	wall := time.Since(r.start).Seconds()
	kn := loadKnown()
	newViol := 0
	knownHit := 0
	sort.Slice(r.viols, func(i, j int) bool { return r.viols[i].Key < r.viols[j].Key })
	var lines []string
	for _, v := range r.viols {
		matched := false
		for _, k := range kn {
			if k.prop == r.ID && k.key == v.Key {
				lines = append(lines, fmt.Sprintf("KNOWN-FINDING: property=%s %s [%s]", r.ID, k.text, k.key))
				matched = true
				knownHit++
				break
			}
		}
		if matched {
			continue
		}
		newViol++
		h := sha256.Sum256([]byte(v.Key))
		p := filepath.Join(Root, "replays", fmt.Sprintf("%s-%s.json", r.ID, hex.EncodeToString(h[:6])))
		_ = os.MkdirAll(filepath.Dir(p), 0o755)
		b, _ := json.MarshalIndent(map[string]any{"property_id": r.ID, "key": v.Key, "detail": toJSONable(v.Detail),
			"tier": r.Tier, "seed": r.Seed}, "", " ")
		_ = os.WriteFile(p, b, 0o644)
		lines = append(lines, fmt.Sprintf("VIOLATION property=%s replay=%s key=%s", r.ID, p, v.Key))
	}
	// vacuity guard
	var missing []string
	for _, c := range r.required {
		if r.classes[c] == 0 {
			missing = append(missing, c)
		}
	}
	if _, ok := cov["evaluations"]; !ok {
		cov["evaluations"] = r.evals
	}
	if _, ok := cov["distinct_nontrivial"]; !ok {
		cov["distinct_nontrivial"] = len(r.cases)
	}
	if _, ok := cov["samples"]; !ok {
		s := r.samples
		if len(s) == 0 {
			s = []any{"(no sample recorded)"}
		}
		cov["samples"] = toJSONable(s)
	}
	if _, ok := cov["exhaustive"]; !ok {
		cov["exhaustive"] = len(r.capped) == 0
	}
	if len(r.capped) > 0 {
		cov["exhaustive"] = false
		cov["caps_hit"] = r.capped
	}
	cov["outcome_classes"] = r.classes
	cov["known_findings_reported"] = knownHit
	for k, v := range r.notes {
		if _, ok := cov[k]; !ok {
			cov[k] = toJSONable(v)
		}
	}
	evd := map[string]any{
		"property_id": r.ID, "tier": r.Tier, "seed": r.Seed, "level": r.Level,
		"coverage": cov, "assumptions": r.assume, "wall_s": wall, "violations": newViol,
	}
	if r.assume == nil {
		evd["assumptions"] = []string{}
	}
	if r.ReplayPath == "" && os.Getenv("VERIF_EXTRA_OVERLAY") == "" { // mutant runs never touch the evidence
		b, _ := json.MarshalIndent(evd, "", " ")
		_ = os.MkdirAll(filepath.Join(Root, "evidence"), 0o755)
		if err := os.WriteFile(filepath.Join(Root, "evidence", r.ID+".json"), b, 0o644); err != nil {
			fmt.Printf("HARNESS-ERROR property=%s cannot write evidence: %v\n", r.ID, err)
			os.Exit(2)
		}
	}
	for _, l := range lines {
		fmt.Println(l)
	}
	fmt.Printf("SUMMARY property=%s tier=%s evaluations=%v distinct=%v states=%v transitions=%v exhaustive=%v known=%d violations=%d wall=%.1fs\n",
		r.ID, r.Tier, cov["evaluations"], cov["distinct_nontrivial"], cov["states"], cov["transitions"], cov["exhaustive"], knownHit, newViol, wall)
	if newViol > 0 { // a found violation takes precedence over the vacuity guard
		os.Exit(1)
	}
	if len(missing) > 0 {
		fmt.Printf("HARNESS-ERROR property=%s vacuous run: outcome classes never observed: %v\n", r.ID, missing)
		os.Exit(2)
	}
	os.Exit(0)
}

// LoadReplay reads the "detail" of a replay file into v.
func (r *Run) LoadReplay(v any) error {
	b, err := os.ReadFile(r.ReplayPath)
	if err != nil {
		return err
	}
	var w struct {
		Detail json.RawMessage `json:"detail"`
	}
	if err := json.Unmarshal(b, &w); err != nil {
		return err
	}
	return json.Unmarshal(w.Detail, v)
}

// Guard runs f and converts a panic into (recovered value, true).
func Guard(f func()) (rec any, panicked bool) {
	defer func() {
		if x := recover(); x != nil {
			rec, panicked = x, true
		}
	}()
	f()
	return nil, false
}
