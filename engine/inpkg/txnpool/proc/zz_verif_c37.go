//go:build verif

package proc

// /verif C37(a) accessors: the harness is the scheduler of the real handler functions of TXPoolServer / txPoolWorker.
// Every function below is the body of one arm of an actor's Receive / of txPoolWorker.start(), nothing more.

import (
	"time"

	"github.com/ontio/ontology-eventbus/actor"
	"github.com/polynetwork/poly/common"
	tx "github.com/polynetwork/poly/core/types"
	"github.com/polynetwork/poly/errors"
	tc "github.com/polynetwork/poly/txnpool/common"
	"github.com/polynetwork/poly/validator/types"
)

// VerifC37NewServer runs the real init with zero workers (so no goroutine is started) and then the real worker init
// for n workers that are never started.
func VerifC37NewServer(n int, disablePreExec bool) *TXPoolServer {
	s := NewTxPoolServer(0, disablePreExec, false)
	s.workers = make([]txPoolWorker, n)
	for i := range s.workers {
		s.workers[i].init(uint8(i), s)
	}
	return s
}

// VerifC37Submit = TxActor.Receive(*tc.TxReq).
func (s *TXPoolServer) VerifC37Submit(sender tc.SenderType, t *tx.Transaction, ch chan *tc.TxResult) {
	NewTxActor(s).handleTransaction(sender, nil, t, ch)
}

// VerifC37PermitNow pre-loads the permitted-address cache and stamps it as refreshed now (admission is C36's subject).
func VerifC37PermitNow(addrs ...common.Address) {
	lock.Lock()
	defer lock.Unlock()
	for _, a := range addrs {
		permittedAddrMap[a] = true
	}
	lastTime = time.Now().Unix()
}

func (s *TXPoolServer) VerifC37Slots() int { return len(s.slots) }

// VerifC37Dequeue = the rcvTXCh / stfTxCh arms of txPoolWorker.start(); false if the channel is empty.
func (s *TXPoolServer) VerifC37Dequeue(w int, stateful bool) bool {
	worker := &s.workers[w]
	if stateful {
		select {
		case t := <-worker.stfTxCh:
			worker.verifyStateful(t)
			return true
		default:
			return false
		}
	}
	select {
	case t := <-worker.rcvTXCh:
		worker.verifyTx(t)
		return true
	default:
		return false
	}
}

// VerifC37Response = VerifyRspActor.Receive(*types.CheckResponse) followed by the rspCh arm of the addressed worker.
func (s *TXPoolServer) VerifC37Response(rsp *types.CheckResponse) {
	s.assignRspToWorker(rsp)
	for i := range s.workers {
		select {
		case r := <-s.workers[i].rspCh:
			s.workers[i].handleRsp(r)
		default:
		}
	}
}

// VerifC37Timeout = the timer arm of txPoolWorker.start(); expire=true first back-dates every entry's start time
// (the wall-clock seam of handleTimeoutEvent).
func (s *TXPoolServer) VerifC37Timeout(w int, expire bool) {
	worker := &s.workers[w]
	if expire {
		for _, pt := range worker.pendingTxList {
			pt.valTime = time.Time{}
		}
	}
	worker.handleTimeoutEvent()
}

// TxPoolActor.Receive arms.
func (s *TXPoolServer) VerifC37GetTxPool(byCount bool, height uint32) []*tc.TXEntry {
	return s.getTxPool(byCount, height)
}
func (s *TXPoolServer) VerifC37VerifyBlock(req *tc.VerifyBlockReq, sender *actor.PID) {
	s.verifyBlock(req, sender)
}
func (s *TXPoolServer) VerifC37Clean(txs []*tx.Transaction, height uint32) {
	s.cleanTransactionList(txs, height)
}
func (s *TXPoolServer) VerifC37RegisterValidator(v *types.RegisterValidator) { s.registerValidator(v) }

// ---- observation (read-only)

type VerifC37Pend struct {
	Hash   common.Uint256
	Sender tc.SenderType
	HasCh  bool
}
type VerifC37WorkerTx struct {
	Hash    common.Uint256
	Flag    uint8
	Retries uint8
	Ret     []tc.TXAttr
}
type VerifC37Worker struct {
	Rcv, Stf []common.Uint256 // queue contents in order
	Rsp      int
	List     []VerifC37WorkerTx
}
type VerifC37BlkTx struct {
	Hash   common.Uint256
	Height uint32
	Err    errors.ErrCode
}
type VerifC37Snap struct {
	Height      uint32
	Pending     []VerifC37Pend
	Workers     []VerifC37Worker
	BlkHeight   uint32
	BlkHasSnd   bool
	BlkDone     []VerifC37BlkTx
	BlkWaiting  []common.Uint256
	Slots       int
	Stats       []uint64
	PoolEntries []*tc.TXEntry
}

func peek(ch chan *tx.Transaction) []common.Uint256 {
	n := len(ch)
	out := make([]common.Uint256, 0, n)
	for i := 0; i < n; i++ { // rotate once: order preserved, nothing else touches the channel
		t := <-ch
		out = append(out, t.Hash())
		ch <- t
	}
	return out
}

func (s *TXPoolServer) VerifC37Snapshot() VerifC37Snap {
	sn := VerifC37Snap{Height: s.height, Slots: len(s.slots), Stats: s.getStats(),
		BlkHeight: s.pendingBlock.height, BlkHasSnd: s.pendingBlock.sender != nil}
	for h, p := range s.allPendingTxs {
		sn.Pending = append(sn.Pending, VerifC37Pend{Hash: h, Sender: p.sender, HasCh: p.ch != nil})
	}
	for i := range s.workers {
		w := &s.workers[i]
		ws := VerifC37Worker{Rcv: peek(w.rcvTXCh), Stf: peek(w.stfTxCh), Rsp: len(w.rspCh)}
		for h, pt := range w.pendingTxList {
			e := VerifC37WorkerTx{Hash: h, Flag: pt.flag, Retries: pt.retries}
			for _, a := range pt.ret {
				e.Ret = append(e.Ret, *a)
			}
			ws.List = append(ws.List, e)
		}
		sn.Workers = append(sn.Workers, ws)
	}
	for h, v := range s.pendingBlock.processedTxs {
		sn.BlkDone = append(sn.BlkDone, VerifC37BlkTx{Hash: h, Height: v.Height, Err: v.ErrCode})
	}
	for h := range s.pendingBlock.unProcessedTxs {
		sn.BlkWaiting = append(sn.BlkWaiting, h)
	}
	sn.PoolEntries, _ = s.txPool.GetTxPool(false, 0)
	return sn
}
