//go:build verif

package proc

// /verif C36 accessors: TxActor admission (handleTransaction / isValidSender) and the wall-clock seam `lastTime`.

import (
	"github.com/polynetwork/poly/common"
	tx "github.com/polynetwork/poly/core/types"
	tc "github.com/polynetwork/poly/txnpool/common"
)

// VerifC36NewServer: real init with zero workers (no goroutine) + one real, never started worker that only queues.
func VerifC36NewServer() *TXPoolServer {
	s := NewTxPoolServer(0, true, false)
	s.workers = make([]txPoolWorker, 1)
	s.workers[0].init(0, s)
	return s
}

// VerifC36Submit = TxActor.Receive(*tc.TxReq).
func (s *TXPoolServer) VerifC36Submit(sender tc.SenderType, t *tx.Transaction, ch chan *tc.TxResult) {
	NewTxActor(s).handleTransaction(sender, nil, t, ch)
}

// VerifC36Tracked: the transaction was handed to a worker (is in the server's pending list).
func (s *TXPoolServer) VerifC36Tracked(h common.Uint256) bool { return s.checkTx(h) }
func (s *TXPoolServer) VerifC36Stats() []uint64               { return s.getStats() }

// The wall-clock seam of updatePermittedAddrMap: the refresh stamp. Nothing else of the package state is touched by
// the driver (the live process carries whatever caches it has across the whole history).
func VerifC36SetStamp(last int64) {
	lock.Lock()
	defer lock.Unlock()
	lastTime = last
}

func VerifC36Stamp() int64 {
	lock.RLock()
	defer lock.RUnlock()
	return lastTime
}
