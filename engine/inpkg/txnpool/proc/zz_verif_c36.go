//go:build verif

package proc

// /verif C36 accessors: TxActor admission (handleTransaction / isValidSender) and the permitted-address cache with its
// wall-clock seam `lastTime`.

import (
	"github.com/polynetwork/poly/common"
	tx "github.com/polynetwork/poly/core/types"
	tc "github.com/polynetwork/poly/txnpool/common"
)

// VerifC36NewServer: real init with zero workers (no goroutine) + one real, never started worker that only queues.
func VerifC36NewServer() *TXPoolServer {
	s := NewTxPoolServer(0, true, false)
	s.workers = make([]txPoolWorker, 1)
	s.workers[0].init(0, s)
	return s
}

// VerifC36Submit = TxActor.Receive(*tc.TxReq).
func (s *TXPoolServer) VerifC36Submit(sender tc.SenderType, t *tx.Transaction, ch chan *tc.TxResult) {
	NewTxActor(s).handleTransaction(sender, nil, t, ch)
}

// VerifC36Tracked: the transaction was handed to a worker (is in the server's pending list).
func (s *TXPoolServer) VerifC36Tracked(h common.Uint256) bool { return s.checkTx(h) }
func (s *TXPoolServer) VerifC36Stats() []uint64               { return s.getStats() }

// VerifC36SetCache installs a cache content and refresh stamp; VerifC36Cache reads them back.
func VerifC36SetCache(addrs []common.Address, last int64) {
	lock.Lock()
	defer lock.Unlock()
	for k := range permittedAddrMap {
		delete(permittedAddrMap, k)
	}
	for _, a := range addrs {
		permittedAddrMap[a] = true
	}
	lastTime = last
}

func VerifC36Cache() (addrs []common.Address, last int64) {
	lock.RLock()
	defer lock.RUnlock()
	for k, v := range permittedAddrMap {
		if v {
			addrs = append(addrs, k)
		}
	}
	return addrs, lastTime
}
