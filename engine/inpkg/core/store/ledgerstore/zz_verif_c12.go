//go:build verif

package ledgerstore

import (
	"github.com/polynetwork/poly/common"
	scom "github.com/polynetwork/poly/core/store/common"
)

// Accessors for the C12 / C13 drivers (read-only views of unexported ledger-store state).

// VerifStateCurrentBlock is the state store's own SYS_CURRENT_BLOCK record (state height).
func (this *LedgerStoreImp) VerifStateCurrentBlock() (common.Uint256, uint32, error) {
	return this.stateStore.GetCurrentBlock()
}

// VerifEventCurrentBlock is the event store's SYS_CURRENT_BLOCK record.
func (this *LedgerStoreImp) VerifEventCurrentBlock() (common.Uint256, uint32, error) {
	return this.eventStore.GetCurrentBlock()
}

func verifDump(it scom.StoreIterator) [][2][]byte {
	var out [][2][]byte
	for it.Next() {
		k := append([]byte{}, it.Key()...)
		v := append([]byte{}, it.Value()...)
		out = append(out, [2][]byte{k, v})
	}
	it.Release()
	return out
}

// VerifDump returns every key/value of one of the three stores ("block", "state", "event") in key order.
func (this *LedgerStoreImp) VerifDump(which string) [][2][]byte {
	switch which {
	case "block":
		return verifDump(this.blockStore.store.NewIterator(nil))
	case "state":
		return verifDump(this.stateStore.store.NewIterator(nil))
	default:
		return verifDump(this.eventStore.store.NewIterator(nil))
	}
}

// VerifBlockMerkleMem is the in-memory block accumulator (size, root) the next block root is computed from.
func (this *LedgerStoreImp) VerifBlockMerkleMem() (uint32, common.Uint256) {
	return this.stateStore.merkleTree.TreeSize(), this.stateStore.merkleTree.Root()
}

// VerifStateMerkleMem is the in-memory state (delta) merkle tree (size, root).
func (this *LedgerStoreImp) VerifStateMerkleMem() (uint32, common.Uint256) {
	return this.stateStore.deltaMerkleTree.TreeSize(), this.stateStore.deltaMerkleTree.Root()
}

// VerifHeaderIndex is a copy of the in-memory height -> hash index.
func (this *LedgerStoreImp) VerifHeaderIndex() map[uint32]common.Uint256 {
	this.lock.RLock()
	defer this.lock.RUnlock()
	out := make(map[uint32]common.Uint256, len(this.headerIndex))
	for k, v := range this.headerIndex {
		out[k] = v
	}
	return out
}

// VerifHashStoreOK reports whether the merkle hash file was opened (nil = persistence disabled).
func (this *LedgerStoreImp) VerifHashStoreOK() bool { return this.stateStore.merkleHashStore != nil }
