//go:build verif

package ledgerstore

// VerifC11RawState returns every raw key/value of the persistent state store whose key starts with prefix
// (read-only; the C11 driver compares the persisted contract storage of two nodes with its reference model).
func (this *LedgerStoreImp) VerifC11RawState(prefix []byte) map[string]string {
	out := map[string]string{}
	it := this.stateStore.store.NewIterator(prefix)
	defer it.Release()
	for ok := it.First(); ok; ok = it.Next() {
		out[string(it.Key())] = string(it.Value())
	}
	return out
}
