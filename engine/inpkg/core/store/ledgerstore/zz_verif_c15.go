//go:build verif

package ledgerstore

import (
	"github.com/polynetwork/poly/common"
	"github.com/polynetwork/poly/core/store"
	"github.com/polynetwork/poly/core/store/overlaydb"
	"github.com/polynetwork/poly/core/types"
	"github.com/polynetwork/poly/native/storage"
)

// VerifC15RawState returns every raw key/value of the persistent state store whose key starts with
// prefix (read-only accessor used by the C15 / C17 drivers to compare post-submit storage).
func (this *LedgerStoreImp) VerifC15RawState(prefix []byte) map[string]string {
	out := map[string]string{}
	it := this.stateStore.store.NewIterator(prefix)
	defer it.Release()
	for it.Next() {
		out[string(it.Key())] = string(it.Value())
	}
	return out
}

// VerifC15CrossStates returns the cross-chain record hashes persisted for a block height.
func (this *LedgerStoreImp) VerifC15CrossStates(height uint32) ([]common.Uint256, error) {
	return this.stateStore.GetCrossStates(height)
}

// VerifC15Sandbox is a reusable overlay + cache pair (executeBlock allocates a fresh 4 MB overlay per
// block, which dominates the cost of one-transaction blocks).
type VerifC15Sandbox struct {
	overlay *overlaydb.OverlayDB
	cache   *storage.CacheDB
}

func (this *LedgerStoreImp) VerifC15NewSandbox() *VerifC15Sandbox {
	o := this.stateStore.NewOverlayDB()
	return &VerifC15Sandbox{overlay: o, cache: storage.NewCacheDB(o)}
}

// VerifC15ExecOne runs ONE transaction through the real handleTransaction on an emptied overlay, i.e. what
// executeBlock does for a one-transaction block, and returns the pieces of its ExecuteResult.
func (this *LedgerStoreImp) VerifC15ExecOne(sb *VerifC15Sandbox, block *types.Block, tx *types.Transaction) (store.ExecuteResult, error) {
	sb.overlay.Reset()
	sb.cache.Reset()
	var res store.ExecuteResult
	n, h, err := this.handleTransaction(sb.overlay, sb.cache, block, tx)
	if err != nil {
		return res, err
	}
	res.Notify = append(res.Notify, n)
	res.CrossHashes = append(res.CrossHashes, h...)
	res.WriteSet = sb.overlay.GetWriteSet()
	return res, nil
}
