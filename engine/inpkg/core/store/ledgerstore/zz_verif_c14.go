//go:build verif

package ledgerstore

import (
	"unsafe"

	"github.com/polynetwork/poly/common"
	"github.com/polynetwork/poly/core/types"
)

// VerifC14PeerInfo returns copies of the validator sets in force for the header path and the block path.
func (this *LedgerStoreImp) VerifC14PeerInfo() (hdr, blk map[string]uint32) {
	this.lock.RLock()
	defer this.lock.RUnlock()
	hdr = make(map[string]uint32, len(this.vbftPeerInfoheader))
	for k, v := range this.vbftPeerInfoheader {
		hdr[k] = v
	}
	blk = make(map[string]uint32, len(this.vbftPeerInfoblock))
	for k, v := range this.vbftPeerInfoblock {
		blk[k] = v
	}
	return
}

// VerifC14SetHeaderTip makes GetCurrentHeaderHeight() (= len(headerIndex)-1) answer upto and chains a
// driver-made header `last` at that height (index entry + header cache) so that header upto+1 can be added.
//
// real=true : every absent height below upto gets a dummy non-zero hash (a genuine map of upto+1 entries,
//             about 1 GB for 20 000 001 entries).
// real=false: only heights below lowFill get dummy entries (so that committing blocks at those heights
//             overwrites instead of inserting) and the map's entry COUNT (first word of the runtime map
//             header, which is all that len() reads) is set to upto before `last` is inserted. Lookups,
//             inserts and overwrites keep working; only len() is affected, which is the one thing
//             verifyHeader consults.
func (this *LedgerStoreImp) VerifC14SetHeaderTip(upto uint32, last *types.Header, real bool, lowFill uint32) {
	this.lock.Lock()
	defer this.lock.Unlock()
	dummy := common.Uint256{0xd0, 0x0d}
	if real {
		idx := make(map[uint32]common.Uint256, int(upto)+64)
		for k, v := range this.headerIndex {
			idx[k] = v
		}
		for h := uint32(0); h < upto; h++ {
			if _, ok := idx[h]; !ok {
				idx[h] = dummy
			}
		}
		this.headerIndex = idx
	} else {
		for h := uint32(0); h < lowFill; h++ {
			if _, ok := this.headerIndex[h]; !ok {
				this.headerIndex[h] = dummy
			}
		}
		delete(this.headerIndex, upto)
		*(*int)(*(*unsafe.Pointer)(unsafe.Pointer(&this.headerIndex))) = int(upto)
	}
	this.headerIndex[upto] = last.Hash()
	this.headerCache[last.Hash()] = last
}
