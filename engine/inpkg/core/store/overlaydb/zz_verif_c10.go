//go:build verif

package overlaydb

import "github.com/polynetwork/poly/core/store/common"

// VerifNewOverlayDBCap is NewOverlayDB with a caller-chosen (advisory) MemDB capacity: the C10/C11 drivers
// create millions of fresh overlays and NewOverlayDB's 4 MiB arena costs ~0.7 ms each.
func VerifNewOverlayDBCap(store common.PersistStore, capacity, kvNum int) *OverlayDB {
	return &OverlayDB{store: store, memdb: NewMemDB(capacity, kvNum)}
}
