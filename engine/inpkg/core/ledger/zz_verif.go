//go:build verif

package ledger

import "github.com/polynetwork/poly/core/store"

// VerifNewLedger wraps an arbitrary LedgerStore (e.g. a driver-controlled double that only answers
// GetCurrentBlockHeight) so that it can be installed as DefLedger.
func VerifNewLedger(s store.LedgerStore) *Ledger { return &Ledger{ldgStore: s} }
