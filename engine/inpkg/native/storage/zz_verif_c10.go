//go:build verif

package storage

import "github.com/polynetwork/poly/core/store/overlaydb"

// VerifNewCacheDBCap is NewCacheDB with a caller-chosen (advisory) MemDB capacity (C10 creates ~10^6 of them).
func VerifNewCacheDBCap(store *overlaydb.OverlayDB, capacity, kvNum int) *CacheDB {
	return &CacheDB{backend: store, memdb: overlaydb.NewMemDB(capacity, kvNum)}
}
