//go:build verif

package side_chain_manager

import "github.com/polynetwork/poly/native"

// C17 replay accessors: thin exports of the unexported storage helpers (no logic).
func VerifC17PutSideChainApply(n *native.NativeService, s *SideChain) error {
	return putSideChainApply(n, s)
}
func VerifC17PutUpdateSideChain(n *native.NativeService, s *SideChain) error {
	return putUpdateSideChain(n, s)
}
func VerifC17PutQuitSideChain(n *native.NativeService, id uint64) error {
	return putQuitSideChain(n, id)
}
func VerifC17PutContractBind(n *native.NativeService, redeemChain, contractChain uint64, redeemKey, contractAddr []byte, ver uint64) error {
	return putContractBind(n, redeemChain, contractChain, redeemKey, contractAddr, ver)
}
func VerifC17PutBindSignInfo(n *native.NativeService, message []byte, info *BindSignInfo) error {
	return putBindSignInfo(n, message, info)
}
func VerifC17PutBtcTxParam(n *native.NativeService, redeemKey []byte, chain uint64, d *BtcTxParamDetial) error {
	return putBtcTxParam(n, redeemKey, chain, d)
}
func VerifC17PutBtcRedeemScript(n *native.NativeService, key string, script []byte, chain uint64) error {
	return putBtcRedeemScript(n, key, script, chain)
}
