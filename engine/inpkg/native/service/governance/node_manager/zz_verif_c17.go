//go:build verif

package node_manager

import (
	"github.com/polynetwork/poly/common"
	"github.com/polynetwork/poly/native"
)

// C17 replay accessors: thin exports of the unexported storage helpers (no logic).
func VerifC17PutPeerApply(n *native.NativeService, p *RegisterPeerParam) error {
	return putPeerApply(n, p)
}
func VerifC17PutPeerPoolMap(n *native.NativeService, m *PeerPoolMap, view uint32) {
	putPeerPoolMap(n, m, view)
}
func VerifC17PutConfig(n *native.NativeService, c *Configuration)          { putConfig(n, c) }
func VerifC17PutCandidateIndex(n *native.NativeService, i uint32)          { putCandidateIndex(n, i) }
func VerifC17PutGovernanceView(n *native.NativeService, g *GovernanceView) { putGovernanceView(n, g) }
func VerifC17PutConsensusSigns(n *native.NativeService, k common.Uint256, c *ConsensusSigns) {
	putConsensusSigns(n, k, c)
}
