//go:build verif

package neo3_state_manager

import "github.com/polynetwork/poly/native"

// C17 replay accessors: thin exports of the unexported storage helpers (no logic).
func VerifC17PutStateValidators(n *native.NativeService, l []string) error {
	return putStateValidators(n, l)
}
func VerifC17PutStateValidatorApply(n *native.NativeService, p *StateValidatorListParam) error {
	return putStateValidatorApply(n, p)
}
func VerifC17PutStateValidatorRemove(n *native.NativeService, p *StateValidatorListParam) error {
	return putStateValidatorRemove(n, p)
}
func VerifC17PutStateValidatorApplyID(n *native.NativeService, id uint64) error {
	return putStateValidatorApplyID(n, id)
}
func VerifC17PutStateValidatorRemoveID(n *native.NativeService, id uint64) error {
	return putStateValidatorRemoveID(n, id)
}
