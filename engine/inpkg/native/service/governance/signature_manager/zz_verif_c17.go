//go:build verif

package signature_manager

import "github.com/polynetwork/poly/native"

// C17 replay accessor: thin export of the unexported storage helper (no logic).
func VerifC17PutSigInfo(n *native.NativeService, id []byte, s *SigInfo) { putSigInfo(n, id, s) }
