//go:build verif

package relayer_manager

import (
	"github.com/polynetwork/poly/common"
	"github.com/polynetwork/poly/native"
)

// C17 replay accessors: thin exports of the unexported storage helpers (no logic).
func VerifC17PutRelayer(n *native.NativeService, a common.Address) error { return putRelayer(n, a) }
func VerifC17PutRelayerApply(n *native.NativeService, p *RelayerListParam) error {
	return putRelayerApply(n, p)
}
func VerifC17PutRelayerRemove(n *native.NativeService, p *RelayerListParam) error {
	return putRelayerRemove(n, p)
}
func VerifC17PutApplyID(n *native.NativeService, id uint64) error  { return putApplyID(n, id) }
func VerifC17PutRemoveID(n *native.NativeService, id uint64) error { return putRemoveID(n, id) }
