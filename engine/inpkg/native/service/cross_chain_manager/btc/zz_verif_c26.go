//go:build verif

package btc

import (
	"github.com/btcsuite/btcd/wire"
	"github.com/polynetwork/poly/native"
)

// C26 accessors: thin exports of unexported selector / storage helpers (no logic).

// VerifC26Selector builds a CoinSelector with the constants chooseUtxos uses.
func VerifC26Selector(sorted *Utxos, target, mc, feeRate uint64, outs []*wire.TxOut, m, n int) *CoinSelector {
	return &CoinSelector{sortedUtxos: sorted, target: target, maxP: MAX_FEE_COST_PERCENTS, tries: MAX_SELECTING_TRY_LIMIT,
		mc: mc, k: SELECTING_K, txOuts: outs, feeRate: feeRate, m: m, n: n}
}
func (s *CoinSelector) VerifC26Fee(sel []*Utxo) uint64 { return s.estimateTxFee(sel) }
func (s *CoinSelector) VerifC26MaxP() float64          { return s.maxP }
func (s *CoinSelector) VerifC26K() float64             { return s.k }

func VerifC26GetUtxos(n *native.NativeService, chain uint64, key string) (*Utxos, error) {
	return getUtxos(n, chain, key)
}
func VerifC26GetStxos(n *native.NativeService, chain uint64, key string) (*Utxos, error) {
	return getStxos(n, chain, key)
}
func VerifC26PutUtxos(n *native.NativeService, chain uint64, key string, u *Utxos) {
	putUtxos(n, chain, key, u)
}
func VerifC26ChooseUtxos(n *native.NativeService, chain uint64, amount int64, outs []*wire.TxOut, rk []byte, m, nn int) ([]*Utxo, int64, int64, error) {
	return chooseUtxos(n, chain, amount, outs, rk, m, nn)
}
