//go:build verif

package btc

import "github.com/polynetwork/poly/native"

// C17 replay accessors: thin exports of the unexported storage helpers (no logic).
func VerifC17PutUtxos(n *native.NativeService, chain uint64, key string, u *Utxos) {
	putUtxos(n, chain, key, u)
}
func VerifC17PutStxos(n *native.NativeService, chain uint64, key string, u *Utxos) {
	putStxos(n, chain, key, u)
}
func VerifC17PutBtcMultiSignInfo(n *native.NativeService, txid []byte, m *MultiSignInfo) error {
	return putBtcMultiSignInfo(n, txid, m)
}
func VerifC17PutBtcFromInfo(n *native.NativeService, txid []byte, f *BtcFromInfo) error {
	return putBtcFromInfo(n, txid, f)
}
