//go:build verif

package consensus_vote

import "github.com/polynetwork/poly/native"

// C17 replay accessor: thin export of the unexported storage helper (no logic).
func VerifC17PutVoteInfo(n *native.NativeService, id []byte, v *VoteInfo) { putVoteInfo(n, id, v) }
