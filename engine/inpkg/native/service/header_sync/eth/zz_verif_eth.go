//go:build verif

package eth

import "math/big"

// Accessors for the /verif drivers C27/C28 (no logic).

func VerifDiffPreLondon(time *big.Int, parent *Header) *big.Int {
	return difficultyCalculator(time, parent)
}

func VerifDiffWithDelay(delay *big.Int, time uint64, parent *Header) *big.Int {
	return makeDifficultyCalculator(delay)(time, parent)
}

func VerifIsLondon(h *Header) bool       { return isLondon(h) }
func VerifIsArrowGlacier(h *Header) bool { return isArrowGlacier(h) }

func VerifDatasetSize(block uint64) uint64 { return datasetSize(block) }
func VerifCacheSize(block uint64) uint64   { return cacheSize(block) }
func VerifCalcDatasetSize(epoch int) uint64 { return calcDatasetSize(epoch) }
func VerifCalcCacheSize(epoch int) uint64   { return calcCacheSize(epoch) }
func VerifSeedHash(block uint64) []byte     { return seedHash(block) }
