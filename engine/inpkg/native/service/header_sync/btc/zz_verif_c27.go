//go:build verif

package btc

import "math/big"

// VerifTotalWork exposes the unexported cumulative-work field of a stored header (C27 driver).
func VerifTotalWork(sh *StoredHeader) *big.Int { return sh.totalWork }
