//go:build verif

package polygon

// Accessor for the /verif drivers C29/C23 (no logic): switches the repo's own test-only flag that skips the
// heimdall span comparison of sprint-end headers, so that bor sprint hand-overs can be synthesised offline
// (the span proof needs a heimdall light client state; the seal / validator / difficulty rules are unaffected).
func VerifSkipSpanCheck(on bool) { skipVerifySpan = on }
