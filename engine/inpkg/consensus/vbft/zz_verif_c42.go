//go:build verif

package vbft

// VerifC42CommitQuorum feeds getCommitConsensus commit messages from the given distinct committers, all for the
// same proposer and non-empty, and reports whether consensus is declared.
func VerifC42CommitQuorum(N, C int, committers []uint32, proposer uint32) bool {
	msgs := make([]*blockCommitMsg, 0, len(committers))
	for _, c := range committers {
		msgs = append(msgs, &blockCommitMsg{Committer: c, BlockProposer: proposer, EndorsersSig: map[uint32][]byte{}})
	}
	p, _ := getCommitConsensus(msgs, C, N)
	return p == proposer
}
