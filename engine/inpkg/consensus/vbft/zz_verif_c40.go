//go:build verif

package vbft

import (
	vconfig "github.com/polynetwork/poly/consensus/vbft/config"
)

// Thin accessors for property C40 (participant selection). No logic.

// VerifSelServer is a Server carrying nothing but its index (buildParticipantConfig only logs Index/state).
func VerifSelServer(index uint32) *Server {
	return &Server{Index: index, stateMgr: &StateMgr{}}
}

// VerifSelServerWithConfig additionally has an INSTALLED chain config (Server.config), as every running server has;
// it may differ from the chain config passed to buildParticipantConfig in the round after a config-change block.
func VerifSelServerWithConfig(index uint32, installed *vconfig.ChainConfig) *Server {
	return &Server{Index: index, stateMgr: &StateMgr{}, config: installed}
}

func (self *Server) VerifBuildParticipantConfig(blkNum uint32, block *Block, chainCfg *vconfig.ChainConfig) (*BlockParticipantConfig, error) {
	return self.buildParticipantConfig(blkNum, block, chainCfg)
}

func VerifSelectionSeed(block *Block) vconfig.VRFValue { return getParticipantSelectionSeed(block) }

// VerifCalcParticipantPeers calls calcParticipantPeers with an explicit VRF value and the proposers chosen so far.
func VerifCalcParticipantPeers(vrf vconfig.VRFValue, proposers []uint32, chain *vconfig.ChainConfig, start, end int) []uint32 {
	cfg := &BlockParticipantConfig{Vrf: vrf, ChainConfig: chain, Proposers: proposers}
	return calcParticipantPeers(cfg, chain, start, end)
}

func VerifCalcParticipant(vrf vconfig.VRFValue, table []uint32, k uint32) uint32 {
	return calcParticipant(vrf, table, k)
}
