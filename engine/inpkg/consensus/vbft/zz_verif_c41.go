//go:build verif

package vbft

import (
	"github.com/ontio/ontology-crypto/keypair"
	"github.com/polynetwork/poly/common"
	vconfig "github.com/polynetwork/poly/consensus/vbft/config"
)

// Thin wiring/accessors for property C41 (BlockPool round decisions). No decision logic lives here.

// VerifPool is a BlockPool attached to a minimal Server: chain config, peer pool with every peer known (and connected
// unless listed), a participant config for the current block, no network, no actors, no ledger.
type VerifPool struct {
	Srv  *Server
	pool *BlockPool
}

func VerifNewPool(cfg *vconfig.ChainConfig, self uint32, blkNum uint32, proposers, endorsers, committers []uint32, disconnected []uint32) (*VerifPool, error) {
	srv := &Server{Index: self, config: cfg, currentBlockNum: blkNum, stateMgr: &StateMgr{}}
	srv.peerPool = NewPeerPool(int(cfg.N), srv)
	off := map[uint32]bool{}
	for _, d := range disconnected {
		off[d] = true
	}
	for _, p := range cfg.Peers {
		if err := srv.peerPool.addPeer(p); err != nil {
			return nil, err
		}
		if !off[p.Index] {
			srv.peerPool.peerConnected(p.Index)
		}
	}
	srv.currentParticipantConfig = &BlockParticipantConfig{BlockNum: blkNum, ChainConfig: cfg,
		Proposers: proposers, Endorsers: endorsers, Committers: committers}
	srv.chainStore = &ChainStore{chainedBlockNum: blkNum - 1, pendingBlocks: make(map[uint32]*PendingBlock)}
	pool := &BlockPool{server: srv, HistoryLen: 64, chainStore: srv.chainStore, candidateBlocks: make(map[uint32]*CandidateInfo)}
	srv.blockPool = pool
	return &VerifPool{Srv: srv, pool: pool}, nil
}

func (v *VerifPool) Clean() { v.pool.clean() }

// SetChained sets what the chain store reports as chained height (AddBlock is a no-op for heights <= it).
func (v *VerifPool) SetChained(n uint32) { v.Srv.chainStore.chainedBlockNum = n }

func (v *VerifPool) Proposal(blk *Block) error {
	return v.pool.newBlockProposal(&blockProposalMsg{Block: blk})
}

func (v *VerifPool) Endorse(endorser, proposer, blkNum uint32, hash common.Uint256, forEmpty bool, sig []byte) error {
	return v.pool.newBlockEndorsement(&blockEndorseMsg{Endorser: endorser, EndorsedProposer: proposer, BlockNum: blkNum,
		EndorsedBlockHash: hash, EndorseForEmpty: forEmpty, EndorserSig: sig})
}

func (v *VerifPool) Commit(committer, proposer, blkNum uint32, hash common.Uint256, forEmpty bool, endorsersSig map[uint32][]byte, sig []byte) error {
	return v.pool.newBlockCommitment(&blockCommitMsg{Committer: committer, BlockProposer: proposer, BlockNum: blkNum,
		CommitBlockHash: hash, CommitForEmpty: forEmpty, EndorsersSig: endorsersSig, CommitterSig: sig})
}

func (v *VerifPool) EndorseDone(blkNum uint32) (uint32, bool, bool) {
	return v.pool.endorseDone(blkNum, v.Srv.config.C)
}

func (v *VerifPool) CommitDone(blkNum uint32) (uint32, bool, bool) {
	return v.pool.commitDone(blkNum, v.Srv.config.C, v.Srv.config.N)
}

func (v *VerifPool) IsEndorser(blkNum, idx uint32) bool { return v.Srv.isEndorser(blkNum, idx) }

// AddSignatures runs addSignaturesToBlockLocked (under the pool lock) on the given block.
func (v *VerifPool) AddSignatures(blk *Block, forEmpty bool) error {
	v.pool.lock.Lock()
	defer v.pool.lock.Unlock()
	return v.pool.addSignaturesToBlockLocked(blk, forEmpty)
}

// SetBlockSealed is the production sealing entry (Server.sealBlock -> BlockPool.setBlockSealed(block, empty, sigdata=true)).
func (v *VerifPool) SetBlockSealed(blk *Block, forEmpty bool) error {
	return v.pool.setBlockSealed(blk, forEmpty, true)
}

func (v *VerifPool) SealedBlock(blkNum uint32) *Block {
	v.pool.lock.RLock()
	defer v.pool.lock.RUnlock()
	if c := v.pool.candidateBlocks[blkNum]; c != nil {
		return c.SealedBlock
	}
	return nil
}

func (v *VerifPool) PeerPubKey(idx uint32) keypair.PublicKey { return v.Srv.peerPool.GetPeerPubKey(idx) }

type VerifESig struct {
	Proposer uint32
	ForEmpty bool
	Sig      []byte
}

type VerifCommitRec struct {
	Committer, Proposer uint32
	ForEmpty            bool
	Hash                common.Uint256
	Carried             map[uint32][]byte
	Sig                 []byte
}

type VerifProposalRec struct {
	Proposer uint32
	Sig0     []byte
}

type VerifDump struct {
	Exists    bool
	Proposals []VerifProposalRec
	Commits   []VerifCommitRec
	Endorse   map[uint32][]VerifESig
}

// Dump copies the candidate info of one block number into plain exported records.
func (v *VerifPool) Dump(blkNum uint32) VerifDump {
	v.pool.lock.RLock()
	defer v.pool.lock.RUnlock()
	d := VerifDump{Endorse: map[uint32][]VerifESig{}}
	c := v.pool.candidateBlocks[blkNum]
	if c == nil {
		return d
	}
	d.Exists = true
	for _, p := range c.Proposals {
		d.Proposals = append(d.Proposals, VerifProposalRec{p.Block.getProposer(), p.Block.Block.Header.SigData[0]})
	}
	for _, m := range c.CommitMsgs {
		d.Commits = append(d.Commits, VerifCommitRec{m.Committer, m.BlockProposer, m.CommitForEmpty, m.CommitBlockHash, m.EndorsersSig, m.CommitterSig})
	}
	for e, l := range c.EndorseSigs {
		for _, s := range l {
			d.Endorse[e] = append(d.Endorse[e], VerifESig{s.EndorsedProposer, s.ForEmpty, s.Signature})
		}
	}
	return d
}
