//go:build verif

package vbft

import (
	"github.com/polynetwork/poly/common"
	vconfig "github.com/polynetwork/poly/consensus/vbft/config"
)

// Thin constructors/readers for the unexported VBFT message types (property C44). No logic.

func VerifMsgProposal(blk *Block) ConsensusMsg { return &blockProposalMsg{Block: blk} }

// VerifProposalBlock returns the Block carried by a proposal message (nil for other kinds).
func VerifProposalBlock(m ConsensusMsg) *Block {
	if p, ok := m.(*blockProposalMsg); ok {
		return p.Block
	}
	return nil
}

func VerifMsgEndorse(endorser, proposer, blockNum uint32, hash common.Uint256, forEmpty bool,
	faulty []*FaultyReport, proposerSig, endorserSig []byte) ConsensusMsg {
	return &blockEndorseMsg{Endorser: endorser, EndorsedProposer: proposer, BlockNum: blockNum, EndorsedBlockHash: hash,
		EndorseForEmpty: forEmpty, FaultyProposals: faulty, ProposerSig: proposerSig, EndorserSig: endorserSig}
}

func VerifMsgCommit(committer, proposer, blockNum uint32, hash common.Uint256, forEmpty bool,
	faulty []*FaultyReport, proposerSig []byte, endorsersSig map[uint32][]byte, committerSig []byte) ConsensusMsg {
	return &blockCommitMsg{Committer: committer, BlockProposer: proposer, BlockNum: blockNum, CommitBlockHash: hash,
		CommitForEmpty: forEmpty, FaultyVerifies: faulty, ProposerSig: proposerSig, EndorsersSig: endorsersSig, CommitterSig: committerSig}
}

func VerifMsgHandshake(num uint32, hash common.Uint256, leader uint32, cfg *vconfig.ChainConfig) ConsensusMsg {
	return &peerHandshakeMsg{CommittedBlockNumber: num, CommittedBlockHash: hash, CommittedBlockLeader: leader, ChainConfig: cfg}
}

func VerifMsgHeartbeat(num uint32, hash common.Uint256, leader uint32, endorsers, sigs [][]byte, view uint32) ConsensusMsg {
	return &peerHeartbeatMsg{CommittedBlockNumber: num, CommittedBlockHash: hash, CommittedBlockLeader: leader,
		Endorsers: endorsers, EndorsersSig: sigs, ChainConfigView: view}
}

func VerifMsgBlockFetch(blockNum uint32) ConsensusMsg { return &blockFetchMsg{BlockNum: blockNum} }

func VerifMsgProposalFetch(proposer, blockNum uint32) ConsensusMsg {
	return &proposalFetchMsg{ProposerID: proposer, BlockNum: blockNum}
}
