//go:build verif

// Package ssync is a drop-in replacement for the parts of "sync" used by the packages under test
// (Mutex, RWMutex, WaitGroup, Once) plus a cooperative, fully controlled scheduler. It exists only in
// /verif overlay builds: the overlay rewrites `import "sync"` of the files under test to this package.
//
// Outside an exploration (no active scheduler) every primitive behaves exactly like its sync counterpart.
// Inside one, every acquire/release is a scheduling point: exactly one harness thread runs at a time and
// the explorer decides who runs next, so all interleavings up to a preemption bound can be enumerated.
package ssync

import (
	"fmt"
	"sync"
)

type opKind int

const (
	opStart opKind = iota
	opYield
	opLock
	opUnlock
	opRLock
	opRUnlock
	opWait // WaitGroup.Wait
)

func (k opKind) String() string {
	return [...]string{"start", "yield", "Lock", "Unlock", "RLock", "RUnlock", "Wait"}[k]
}

type lockState struct {
	writer  bool
	readers int
}

type pending struct {
	kind opKind
	l    *lockState
	wg   *WaitGroup
}

type thread struct {
	id   int
	wake chan struct{}
	pend pending
	done bool
	fn   func()
	pnc  interface{}
}

// Point is one scheduling decision of an execution.
type Point struct {
	Enabled        []int // thread ids, canonical order: previously running thread first (if enabled), then ascending
	Chosen         int   // index into Enabled
	RunningEnabled bool  // the previously running thread could have continued (choosing another = a preemption)
	Op             string
}

type Exec struct {
	Points   []Point
	Choices  []int
	Deadlock bool
	Panics   []string
	Clock    int64
}

type Sched struct {
	threads []*thread
	cur     int
	yield   chan struct{}
	clock   int64
}

var active *Sched

// epoch counts explorations: controlled objects that keep state between calls (Pool) reset it when the epoch changes,
// so that every execution starts from the same state and a recorded schedule replays identically.
var epoch int64

// Active reports whether an exploration is in progress.
func Active() bool { return active != nil }

// Now returns the logical clock (number of scheduling steps so far) and advances it: used to timestamp
// operation invocations / responses for the linearizability check.
func Now() int64 {
	s := active
	if s == nil {
		return 0
	}
	s.clock++
	return s.clock
}

// Yield is an explicit scheduling point (between two operations of a harness thread).
func Yield() {
	if s := active; s != nil {
		s.point(pending{kind: opYield})
	}
}

func (s *Sched) point(p pending) {
	t := s.threads[s.cur]
	t.pend = p
	s.yield <- struct{}{}
	<-t.wake
}

func enabled(p pending) bool {
	switch p.kind {
	case opLock:
		return !p.l.writer && p.l.readers == 0
	case opRLock:
		return !p.l.writer
	case opWait:
		return p.wg.n <= 0
	}
	return true
}

func apply(p pending) {
	switch p.kind {
	case opLock:
		p.l.writer = true
	case opUnlock:
		if !p.l.writer {
			panic("ssync: unlock of unlocked mutex")
		}
		p.l.writer = false
	case opRLock:
		p.l.readers++
	case opRUnlock:
		if p.l.readers <= 0 {
			panic("ssync: RUnlock of unlocked RWMutex")
		}
		p.l.readers--
	}
}

// Run executes the thread bodies under the controlled scheduler. prefix fixes the first decisions (an
// out-of-range choice is a hard error: the execution is not reproducible); afterwards choice 0 is taken.
func Run(bodies []func(), prefix []int) (x Exec) {
	if active != nil {
		panic("ssync: nested Run")
	}
	s := &Sched{yield: make(chan struct{})}
	for i, f := range bodies {
		s.threads = append(s.threads, &thread{id: i, wake: make(chan struct{}), fn: f, pend: pending{kind: opStart}})
	}
	epoch++
	active = s
	defer func() { active = nil }()
	for _, t := range s.threads {
		t := t
		go func() {
			<-t.wake
			defer func() {
				if r := recover(); r != nil {
					t.pnc = r
				}
				t.done = true
				s.yield <- struct{}{}
			}()
			t.fn()
		}()
	}
	last := -1
	for {
		var en []int
		alive := 0
		runningEnabled := false
		for _, t := range s.threads {
			if t.done {
				continue
			}
			alive++
			if enabled(t.pend) {
				if t.id == last {
					runningEnabled = true
				} else {
					en = append(en, t.id)
				}
			}
		}
		if runningEnabled {
			en = append([]int{last}, en...)
		}
		if alive == 0 {
			break
		}
		if len(en) == 0 {
			x.Deadlock = true
			break // blocked goroutines are abandoned (they hold no real resources)
		}
		c := 0
		if len(x.Points) < len(prefix) {
			c = prefix[len(x.Points)]
			if c < 0 || c >= len(en) {
				panic(fmt.Sprintf("ssync: replay divergence at point %d: choice %d of %d enabled", len(x.Points), c, len(en)))
			}
		}
		t := s.threads[en[c]]
		x.Points = append(x.Points, Point{Enabled: en, Chosen: c, RunningEnabled: runningEnabled, Op: t.pend.kind.String()})
		x.Choices = append(x.Choices, c)
		apply(t.pend)
		s.cur = t.id
		last = t.id
		s.clock++
		t.wake <- struct{}{}
		<-s.yield
	}
	for _, t := range s.threads {
		if t.pnc != nil {
			x.Panics = append(x.Panics, fmt.Sprint(t.pnc))
		}
	}
	x.Clock = s.clock
	return x
}

// PreemptionsBefore counts the preemptions among the first i decisions.
func (x *Exec) PreemptionsBefore(i int) int {
	n := 0
	for k := 0; k < i && k < len(x.Points); k++ {
		if x.Points[k].RunningEnabled && x.Points[k].Chosen != 0 {
			n++
		}
	}
	return n
}

// ------------------------------------------------------------------------------------------------
// primitives

type Locker = sync.Locker

type Mutex struct {
	real sync.Mutex
	st   lockState
}

func (m *Mutex) Lock() {
	if s := active; s != nil {
		s.point(pending{kind: opLock, l: &m.st})
		return
	}
	m.real.Lock()
}

func (m *Mutex) Unlock() {
	if s := active; s != nil {
		s.point(pending{kind: opUnlock, l: &m.st})
		return
	}
	m.real.Unlock()
}

type RWMutex struct {
	real sync.RWMutex
	st   lockState
}

func (m *RWMutex) Lock() {
	if s := active; s != nil {
		s.point(pending{kind: opLock, l: &m.st})
		return
	}
	m.real.Lock()
}

func (m *RWMutex) Unlock() {
	if s := active; s != nil {
		s.point(pending{kind: opUnlock, l: &m.st})
		return
	}
	m.real.Unlock()
}

func (m *RWMutex) RLock() {
	if s := active; s != nil {
		s.point(pending{kind: opRLock, l: &m.st})
		return
	}
	m.real.RLock()
}

func (m *RWMutex) RUnlock() {
	if s := active; s != nil {
		s.point(pending{kind: opRUnlock, l: &m.st})
		return
	}
	m.real.RUnlock()
}

type WaitGroup struct {
	real sync.WaitGroup
	n    int
}

func (w *WaitGroup) Add(d int) {
	if active != nil {
		w.n += d
		return
	}
	w.real.Add(d)
}

func (w *WaitGroup) Done() { w.Add(-1) }

func (w *WaitGroup) Wait() {
	if s := active; s != nil {
		s.point(pending{kind: opWait, wg: w})
		return
	}
	w.real.Wait()
}

type Once = sync.Once
type Map = sync.Map
type Cond = sync.Cond

func NewCond(l Locker) *Cond { return sync.NewCond(l) }

// Pool is sync.Pool outside an exploration. Inside one it is a deterministic LIFO free list (sync.Pool's per-P caches
// and GC-driven eviction are nondeterminism the harness must own) whose Get and Put are scheduling points on BOTH
// sides of the operation: an object handed back to the pool while its bytes are still referenced by the caller is
// observable only if another thread can run right after the Put.
type Pool struct {
	New   func() interface{}
	real  sync.Pool
	items []interface{}
	ep    int64
}

func (p *Pool) sync() {
	if p.ep != epoch {
		p.ep = epoch
		p.items = nil
	}
}

func (p *Pool) Get() interface{} {
	if active == nil {
		if x := p.real.Get(); x != nil {
			return x
		}
		if p.New != nil {
			return p.New()
		}
		return nil
	}
	Yield()
	p.sync()
	var x interface{}
	if n := len(p.items); n > 0 {
		x = p.items[n-1]
		p.items = p.items[:n-1]
	} else if p.New != nil {
		x = p.New()
	}
	Yield()
	return x
}

func (p *Pool) Put(x interface{}) {
	if active == nil {
		p.real.Put(x)
		return
	}
	Yield()
	p.sync()
	p.items = append(p.items, x)
	Yield()
}
