#!/usr/bin/env python3
"""mkoverlay.py <cNN> : print the go build -overlay JSON for property driver cNN.
base.list + props/<cNN>/overlay.list (same format). Test files of overlaid harmony packages are dropped."""
import json, os, sys
ENG = os.path.dirname(os.path.abspath(__file__))
REPO = os.environ.get("VERIF_REPO", "/repo")
def load(p, rep):
    if not os.path.exists(p):
        return
    for ln in open(p):
        ln = ln.rstrip("\n")
        if not ln.strip() or ln.startswith("#"):
            continue
        parts = ln.split("\t")
        tgt = parts[0].strip()
        src = parts[1].strip() if len(parts) > 1 else ""
        rep[os.path.join(REPO, tgt)] = os.path.join(ENG, src) if src else ""
rep = {}
load(os.path.join(ENG, "overlay", "base.list"), rep)
for prop in sys.argv[1:]:
    load(os.path.join(ENG, "props", prop, "overlay.list"), rep)
extra = os.environ.get("VERIF_EXTRA_OVERLAY")
if extra:
    for ln in open(extra):
        ln = ln.rstrip("\n")
        if not ln.strip() or ln.startswith("#"):
            continue
        tgt, src = ln.split("\t")
        rep[os.path.join(REPO, tgt.strip())] = src.strip()  # absolute source path (mutated copy)
print(json.dumps({"Replace": rep}, indent=1))
