#!/usr/bin/env python3
"""mkoverlay.py <cNN> : print the go build -overlay JSON for property driver cNN.
base.list + props/<cNN>/overlay.list (same format). Test files of overlaid harmony packages are dropped."""
import json, os, sys
ENG = os.path.dirname(os.path.abspath(__file__))
REPO = os.environ.get("VERIF_REPO", "/repo")
def maporder(rep):
    """GOROOT overlay that lets the harness own map-iteration order (see lib/maporder)."""
    import subprocess
    goroot = subprocess.run(["go", "env", "GOROOT"], capture_output=True, text=True).stdout.strip()
    srcp = os.path.join(goroot, "src", "runtime", "map.go")
    s = open(srcp).read()
    a = "\tr := uintptr(rand())\n\tit.startBucket = r & bucketMask(h.B)"
    if s.count(a) != 1:
        sys.stderr.write("mkoverlay: runtime/map.go does not have the expected mapiterinit shape\n")
        sys.exit(3)
    s = s.replace(a, "\tr := uintptr(rand())\n\tif vr, ok := verifMapIterRand(h); ok {\n\t\tr = vr\n\t}\n\tit.startBucket = r & bucketMask(h.B)")
    out = os.path.join(os.path.dirname(ENG), ".build", "goroot")
    os.makedirs(out, exist_ok=True)
    dst = os.path.join(out, "map.go")
    if not os.path.exists(dst) or open(dst).read() != s:
        open(dst, "w").write(s)
    rep[srcp] = dst
    rep[os.path.join(goroot, "src", "runtime", "zz_verif_map.go")] = os.path.join(ENG, "overlay", "goroot", "zz_verif_map.go")

def load(p, rep):
    if not os.path.exists(p):
        return
    for ln in open(p):
        ln = ln.rstrip("\n")
        if not ln.strip() or ln.startswith("#"):
            continue
        if ln.strip() == "@maporder":
            maporder(rep)
            continue
        if ln.startswith("@syncshim-dir"):
            SHIMDIR.append(ln.split()[1])
            continue
        if ln.startswith("@syncshim"):
            SHIM.append(ln.split()[1])
            continue
        if ln.startswith("@yieldfuncs"):
            _, f, recv = ln.split()
            YIELD.append((f, recv))
            continue
        parts = ln.split("\t")
        tgt = parts[0].strip()
        src = parts[1].strip() if len(parts) > 1 else ""
        rep[os.path.join(REPO, tgt)] = os.path.join(ENG, src) if src else ""
SHIM = []
SHIMDIR = []
YIELD = []
rep = {}
load(os.path.join(ENG, "overlay", "base.list"), rep)
for prop in sys.argv[1:]:
    load(os.path.join(ENG, "props", prop, "overlay.list"), rep)
extra = os.environ.get("VERIF_EXTRA_OVERLAY")
if extra:
    for ln in open(extra):
        ln = ln.rstrip("\n")
        if not ln.strip() or ln.startswith("#"):
            continue
        tgt, src = ln.split("\t")
        rep[os.path.join(REPO, tgt.strip())] = src.strip()  # absolute source path (mutated copy)
# @syncshim <repo-rel file>: rewrite `import "sync"` of that file (as the build sees it, i.e. after any mutant
# overlay) to the controlled-scheduler shim, and add the shim package as a virtual package of the repo module.
# @syncshim-dir <repo-rel dir>: the same for every non-test .go file of that directory that imports "sync" (as the build
# sees them); files without the import are left alone, so a change that INTRODUCES package-level sync objects is shimmed too.
# @yieldfuncs <repo-rel file> <receiver type>: every method of that receiver gets a scheduling point (ssync.Yield) as its
# first statement, so that executions sharing only package-level state still interleave at storage-operation granularity.
import re
outd = os.path.join(os.path.dirname(ENG), ".build", "syncshim", "_".join(sys.argv[1:]) + ("_x" if extra else ""))
def seen(rel):
    tgt = os.path.join(REPO, rel)
    return tgt, rep.get(tgt, tgt)
def emit(rel, text):
    dst = os.path.join(outd, rel)
    os.makedirs(os.path.dirname(dst), exist_ok=True)
    if not os.path.exists(dst) or open(dst).read() != text:
        open(dst, "w").write(text)
    rep[os.path.join(REPO, rel)] = dst
IMP = r'(?m)^(\s*)"sync"\s*$'
IMPNEW = r'\1sync "github.com/polynetwork/poly/common/verifhook/ssync"'
for d in SHIMDIR:
    names = set(f for f in os.listdir(os.path.join(REPO, d)) if f.endswith(".go") and not f.endswith("_test.go"))
    for t in list(rep):  # files added by a mutant overlay
        if os.path.dirname(t) == os.path.join(REPO, d) and t.endswith(".go") and not t.endswith("_test.go") and rep[t]:
            names.add(os.path.basename(t))
    for f in sorted(names):
        rel = os.path.join(d, f)
        tgt, srcp = seen(rel)
        if not srcp or not os.path.exists(srcp):
            continue
        s = open(srcp).read()
        s2, n = re.subn(IMP, IMPNEW, s)
        if n == 1:
            emit(rel, s2)
        elif n > 1:
            sys.stderr.write("mkoverlay: %s imports \"sync\" more than once\n" % rel)
            sys.exit(3)
for rel in SHIM:
    tgt, srcp = seen(rel)
    s = open(srcp).read()
    s2, n = re.subn(IMP, IMPNEW, s)
    if n != 1:
        sys.stderr.write("mkoverlay: %s does not import \"sync\" exactly once\n" % rel)
        sys.exit(3)
    emit(rel, s2)
for rel, recv in YIELD:
    tgt, srcp = seen(rel)
    s = open(srcp).read()
    s2, n = re.subn(r'(?m)^(func \(\w+ \*?%s\) \w+\([^\n]*\{)[ \t]*$' % re.escape(recv), r'\1\n\tverifYield()', s)
    if n == 0:
        sys.stderr.write("mkoverlay: no method of %s found in %s\n" % (recv, rel))
        sys.exit(3)
    emit(rel, s2)
    pkg = re.search(r'(?m)^package (\w+)', s).group(1)
    emit(os.path.join(os.path.dirname(rel), "zz_verif_yield.go"),
         "//go:build verif\n\npackage %s\n\nimport \"github.com/polynetwork/poly/common/verifhook/ssync\"\n\nfunc verifYield() { ssync.Yield() }\n" % pkg)
if SHIM or SHIMDIR or YIELD:
    rep[os.path.join(REPO, "common/verifhook/ssync/ssync.go")] = os.path.join(ENG, "inpkg/common/verifhook/ssync/ssync.go")
print(json.dumps({"Replace": rep}, indent=1))
