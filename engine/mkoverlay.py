#!/usr/bin/env python3
"""mkoverlay.py <cNN> : print the go build -overlay JSON for property driver cNN.
base.list + props/<cNN>/overlay.list (same format). Test files of overlaid harmony packages are dropped."""
import json, os, sys
ENG = os.path.dirname(os.path.abspath(__file__))
REPO = os.environ.get("VERIF_REPO", "/repo")
def maporder(rep):
    """GOROOT overlay that lets the harness own map-iteration order (see lib/maporder)."""
    import subprocess
    goroot = subprocess.run(["go", "env", "GOROOT"], capture_output=True, text=True).stdout.strip()
    srcp = os.path.join(goroot, "src", "runtime", "map.go")
    s = open(srcp).read()
    a = "\tr := uintptr(rand())\n\tit.startBucket = r & bucketMask(h.B)"
    if s.count(a) != 1:
        sys.stderr.write("mkoverlay: runtime/map.go does not have the expected mapiterinit shape\n")
        sys.exit(3)
    s = s.replace(a, "\tr := uintptr(rand())\n\tif vr, ok := verifMapIterRand(h); ok {\n\t\tr = vr\n\t}\n\tit.startBucket = r & bucketMask(h.B)")
    out = os.path.join(os.path.dirname(ENG), ".build", "goroot")
    os.makedirs(out, exist_ok=True)
    dst = os.path.join(out, "map.go")
    if not os.path.exists(dst) or open(dst).read() != s:
        open(dst, "w").write(s)
    rep[srcp] = dst
    rep[os.path.join(goroot, "src", "runtime", "zz_verif_map.go")] = os.path.join(ENG, "overlay", "goroot", "zz_verif_map.go")

def load(p, rep):
    if not os.path.exists(p):
        return
    for ln in open(p):
        ln = ln.rstrip("\n")
        if not ln.strip() or ln.startswith("#"):
            continue
        if ln.strip() == "@maporder":
            maporder(rep)
            continue
        if ln.startswith("@syncshim"):
            SHIM.append(ln.split()[1])
            continue
        parts = ln.split("\t")
        tgt = parts[0].strip()
        src = parts[1].strip() if len(parts) > 1 else ""
        rep[os.path.join(REPO, tgt)] = os.path.join(ENG, src) if src else ""
SHIM = []
rep = {}
load(os.path.join(ENG, "overlay", "base.list"), rep)
for prop in sys.argv[1:]:
    load(os.path.join(ENG, "props", prop, "overlay.list"), rep)
extra = os.environ.get("VERIF_EXTRA_OVERLAY")
if extra:
    for ln in open(extra):
        ln = ln.rstrip("\n")
        if not ln.strip() or ln.startswith("#"):
            continue
        tgt, src = ln.split("\t")
        rep[os.path.join(REPO, tgt.strip())] = src.strip()  # absolute source path (mutated copy)
# @syncshim <repo-rel file>: rewrite `import "sync"` of that file (as the build sees it, i.e. after any mutant
# overlay) to the controlled-scheduler shim, and add the shim package as a virtual package of the repo module.
if SHIM:
    import re
    outd = os.path.join(os.path.dirname(ENG), ".build", "syncshim")
    for rel in SHIM:
        tgt = os.path.join(REPO, rel)
        srcp = rep.get(tgt, tgt)
        s = open(srcp).read()
        s2, n = re.subn(r'(?m)^(\s*)"sync"\s*$', r'\1sync "github.com/polynetwork/poly/common/verifhook/ssync"', s)
        if n != 1:
            sys.stderr.write("mkoverlay: %s does not import \"sync\" exactly once\n" % rel)
            sys.exit(3)
        dst = os.path.join(outd, rel)
        os.makedirs(os.path.dirname(dst), exist_ok=True)
        if not os.path.exists(dst) or open(dst).read() != s2:
            open(dst, "w").write(s2)
        rep[tgt] = dst
    rep[os.path.join(REPO, "common/verifhook/ssync/ssync.go")] = os.path.join(ENG, "inpkg/common/verifhook/ssync/ssync.go")
print(json.dumps({"Replace": rep}, indent=1))
