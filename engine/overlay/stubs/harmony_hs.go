// Stub used only by /verif overlay builds: the real Harmony router needs the cgo BLS library
// (bls/bls.h, libbls384_256) which is not installed in this sandbox.
package harmony

import (
	"fmt"

	"github.com/polynetwork/poly/native"
)

type Handler struct{}

func NewHandler() *Handler { return &Handler{} }

func (h *Handler) SyncGenesisHeader(native *native.NativeService) error {
	return fmt.Errorf("harmony router unavailable in verif build")
}
func (h *Handler) SyncBlockHeader(native *native.NativeService) error {
	return fmt.Errorf("harmony router unavailable in verif build")
}
func (h *Handler) SyncCrossChainMsg(native *native.NativeService) error {
	return fmt.Errorf("harmony router unavailable in verif build")
}
