// Stub used only by /verif overlay builds (see harmony_hs.go).
package harmony

import (
	"fmt"

	"github.com/polynetwork/poly/native"
	scom "github.com/polynetwork/poly/native/service/cross_chain_manager/common"
)

type Handler struct{}

func NewHandler() *Handler { return &Handler{} }

func (h *Handler) MakeDepositProposal(service *native.NativeService) (*scom.MakeTxParam, error) {
	return nil, fmt.Errorf("harmony router unavailable in verif build")
}
