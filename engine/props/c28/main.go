// C28 — Ethereum header rules of header_sync/eth match the Ethereum specification.
//
// Differential, bounded-exhaustive over boundary alphabets:
//  1. ethash dataset/cache sizes: all 2048 table epochs (+ computed epochs beyond the table) vs the spec formula.
//  2. header hash / seal hash: repo vs go-ethereum 1.9.15 types.Header.Hash (pre-London) and an independent RLP
//     (15- and 16-field lists).
//  3. difficulty: repo calculators vs the EIP formula (delays 3M/5M/9M/9.7M/10.7M) and go-ethereum's
//     Byzantium/Constantinople/MuirGlacier calculators.
//  4. gas-limit rule, EIP-1559 base fee and VerifyEip1559Header vs the EIP text.
//  5. through the real contract (SyncGenesisHeader + SyncBlockHeader, seal skipped by the verif hook): the
//     spec-conformant child of a parent is accepted in every era and every one-unit violation is rejected.
package main

import (
	"encoding/hex"
	"encoding/json"
	"fmt"
	"math/big"
	"runtime/debug"

	ethcommon "github.com/ethereum/go-ethereum/common"
	"github.com/ethereum/go-ethereum/consensus/ethash"
	"github.com/ethereum/go-ethereum/core/types"
	"github.com/ethereum/go-ethereum/params"
	"github.com/polynetwork/poly/common/config"
	"github.com/polynetwork/poly/common/verifhook"
	_ "github.com/polynetwork/poly/native/service"
	"github.com/polynetwork/poly/native/service/header_sync/eth"
	"github.com/polynetwork/poly/native/service/utils"
	"verif.local/engine/ev"
	"verif.local/engine/lib/hsenv"
	"verif.local/engine/polyenv"
)

var r *ev.Run

func pow2(n uint) *big.Int             { return new(big.Int).Lsh(big.NewInt(1), n) }
func bi(x uint64) *big.Int             { return new(big.Int).SetUint64(x) }
func sub1(x *big.Int) *big.Int         { return new(big.Int).Sub(x, big.NewInt(1)) }
func add(x *big.Int, d int64) *big.Int { return new(big.Int).Add(x, big.NewInt(d)) }

// ------------------------------------------------------------------------------------------------
// 1. ethash sizes

func checkSizes() {
	extra := uint64(r.QT(16, 256))
	for e := uint64(0); e < 2048+extra; e++ {
		wantD, wantC := refDatasetSize(e), refCacheSize(e)
		for _, blk := range []uint64{e * 30000, e*30000 + 1, e*30000 + 29999} {
			r.Evals(2)
			if got := eth.VerifDatasetSize(blk); got != wantD {
				r.Violation("sizes/dataset", map[string]any{"epoch": e, "block": blk, "repo": got, "spec": wantD})
			}
			if got := eth.VerifCacheSize(blk); got != wantC {
				r.Violation("sizes/cache", map[string]any{"epoch": e, "block": blk, "repo": got, "spec": wantC})
			}
		}
		// the computing functions must agree with the table as well
		if e < 2048 || e%16 == 0 {
			r.Evals(2)
			if got := eth.VerifCalcDatasetSize(int(e)); got != wantD {
				r.Violation("sizes/dataset-calc", map[string]any{"epoch": e, "repo": got, "spec": wantD})
			}
			if got := eth.VerifCalcCacheSize(int(e)); got != wantC {
				r.Violation("sizes/cache-calc", map[string]any{"epoch": e, "repo": got, "spec": wantC})
			}
		}
		r.Class("sizes:epoch")
	}
	r.Case("sizes/table-2048")
	r.Case("sizes/beyond-table")
}

// ------------------------------------------------------------------------------------------------
// 2. header hash

func toRepo(h *hdr) *eth.Header {
	x := &eth.Header{ParentHash: h.Parent, UncleHash: h.Uncle, Coinbase: h.Coinbase, Root: h.Root, TxHash: h.Tx, ReceiptHash: h.Rc,
		Bloom: h.Bloom, Difficulty: h.Difficulty, Number: h.Number, GasLimit: h.GasLimit, GasUsed: h.GasUsed, Time: h.Time,
		Extra: h.Extra, MixDigest: h.Mix, Nonce: h.Nonce, BaseFee: h.BaseFee}
	return x
}

func toGeth(h *hdr) *types.Header {
	return &types.Header{ParentHash: h.Parent, UncleHash: h.Uncle, Coinbase: h.Coinbase, Root: h.Root, TxHash: h.Tx, ReceiptHash: h.Rc,
		Bloom: h.Bloom, Difficulty: h.Difficulty, Number: h.Number, GasLimit: h.GasLimit, GasUsed: h.GasUsed, Time: h.Time,
		Extra: h.Extra, MixDigest: h.Mix, Nonce: h.Nonce}
}

func fill32(b byte) (o [32]byte) {
	for i := range o {
		o[i] = b
	}
	return
}

func mkExtra(n int, b byte) []byte {
	o := make([]byte, n)
	for i := range o {
		o[i] = b
	}
	return o
}

var faker = ethash.NewFaker()

func hashOne(h *hdr, what string) {
	r.Eval()
	rh := toRepo(h)
	want := refHash(h)
	got := rh.Hash()
	era := "pre-london"
	if h.BaseFee != nil {
		era = "london"
	}
	r.Class("hash:" + era)
	det := func() map[string]any {
		j, _ := json.Marshal(*rh)
		return map[string]any{"vary": what, "header": string(j), "repo": got.Hex(), "ref_rlp": hex.EncodeToString(want[:])}
	}
	if got != ethcommon.Hash(want) {
		r.Violation("hash/"+era+"/repo-vs-rlp", det())
	}
	seal := eth.HashHeader(rh)
	if ws := refSealHash(h); seal != ethcommon.Hash(ws) {
		r.Violation("sealhash/"+era+"/repo-vs-rlp", det())
	}
	if h.BaseFee == nil {
		gh := toGeth(h)
		if g := gh.Hash(); g != got {
			d := det()
			d["geth"] = g.Hex()
			r.Violation("hash/pre-london/repo-vs-geth", d)
		}
		if g := faker.SealHash(gh); g != seal {
			r.Violation("sealhash/pre-london/repo-vs-geth", det())
		}
	}
	// JSON round trip (what the contract hashes is the decoded header)
	j, err := json.Marshal(*rh)
	if err == nil {
		var back eth.Header
		if err := json.Unmarshal(j, &back); err != nil {
			r.Violation("hash/json-roundtrip-decode", map[string]any{"vary": what, "json": string(j), "err": err.Error()})
		} else if back.Hash() != got {
			r.Violation("hash/json-roundtrip", map[string]any{"vary": what, "json": string(j)})
		}
	}
}

func checkHash() {
	base := func() *hdr {
		return &hdr{Parent: fill32(0x11), Uncle: types.EmptyUncleHash, Root: fill32(0x22), Tx: types.EmptyRootHash, Rc: types.EmptyRootHash,
			Difficulty: pow2(52), Number: bi(12_000_000), GasLimit: 15_000_000, GasUsed: 7_500_000, Time: 1_600_000_000, Extra: []byte("poly")}
	}
	bigs := []*big.Int{bi(0), bi(1), bi(127), bi(128), bi(255), bi(256), pow2(52), sub1(pow2(64)), pow2(64), pow2(255), sub1(pow2(256))}
	u64s := []uint64{0, 1, 127, 128, 255, 256, 1 << 32, 1<<63 - 1, 1 << 63, 1<<64 - 1}
	extras := [][]byte{{}, {0}, {0x7f}, {0x80}, {1, 2}, mkExtra(31, 1), mkExtra(32, 0xff), mkExtra(33, 2), mkExtra(55, 3), mkExtra(56, 4), mkExtra(57, 5), mkExtra(255, 6), mkExtra(256, 7)}
	fees := []*big.Int{nil, bi(0), bi(1), bi(127), bi(128), bi(1_000_000_000), pow2(64), sub1(pow2(256))}
	// one field at a time, for legacy and London headers
	for _, fee := range []*big.Int{nil, bi(1_000_000_000)} {
		for _, v := range bigs {
			h := base()
			h.BaseFee, h.Difficulty = fee, v
			hashOne(h, "difficulty")
			h = base()
			h.BaseFee, h.Number = fee, v
			hashOne(h, "number")
		}
		for _, v := range u64s {
			h := base()
			h.BaseFee, h.GasLimit = fee, v
			hashOne(h, "gasLimit")
			h = base()
			h.BaseFee, h.GasUsed = fee, v
			hashOne(h, "gasUsed")
			h = base()
			h.BaseFee, h.Time = fee, v
			hashOne(h, "time")
		}
		for _, v := range extras {
			h := base()
			h.BaseFee, h.Extra = fee, v
			hashOne(h, "extra")
		}
		for _, b := range []byte{0, 1, 0x7f, 0x80, 0xff} {
			h := base()
			h.BaseFee = fee
			h.Parent, h.Uncle, h.Root, h.Tx, h.Rc, h.Mix = fill32(b), fill32(b+1), fill32(b+2), fill32(b+3), fill32(b+4), fill32(b+5)
			for i := range h.Coinbase {
				h.Coinbase[i] = b
			}
			for i := range h.Nonce {
				h.Nonce[i] = b
			}
			for i := range h.Bloom {
				h.Bloom[i] = b
			}
			hashOne(h, "fixed-width fields")
		}
	}
	for _, v := range fees {
		h := base()
		h.BaseFee = v
		hashOne(h, "baseFee")
	}
	// product of reduced alphabets over all variable-length fields
	pb := []*big.Int{bi(0), bi(127), bi(128), pow2(64)}
	pu := []uint64{0, 128, 1<<63 - 1}
	pe := [][]byte{{}, {0x7f}, {0x80}, mkExtra(32, 9), mkExtra(56, 9)}
	pf := []*big.Int{nil, bi(0), bi(7), pow2(64)}
	n := 0
	for _, d := range pb {
		for _, nu := range pb {
			for _, gl := range pu {
				for _, gu := range pu {
					for _, tm := range pu {
						for _, ex := range pe {
							for _, fe := range pf {
								h := base()
								h.Difficulty, h.Number, h.GasLimit, h.GasUsed, h.Time, h.Extra, h.BaseFee = d, nu, gl, gu, tm, ex, fe
								hashOne(h, "product")
								n++
							}
						}
					}
				}
			}
		}
	}
	r.Case("hash/one-field-sweeps")
	r.Case(fmt.Sprintf("hash/product-%d", n))
}

// ------------------------------------------------------------------------------------------------
// 3. difficulty (pure functions)

var nonEmptyUncles = ethcommon.HexToHash("0x0101010101010101010101010101010101010101010101010101010101010101")

func gethCfg(delay uint64) *params.ChainConfig {
	c := &params.ChainConfig{HomesteadBlock: big.NewInt(0), ByzantiumBlock: big.NewInt(0)}
	if delay >= 5_000_000 {
		c.ConstantinopleBlock = big.NewInt(0)
	}
	if delay >= 9_000_000 {
		c.MuirGlacierBlock = big.NewInt(0)
	}
	return c
}

func difficultyNumbers(delay uint64) []uint64 {
	set := map[uint64]bool{}
	addn := func(x uint64) {
		for _, e := range []int64{-1, 0, 1} {
			if int64(x)+e >= 1 {
				set[uint64(int64(x)+e)] = true
			}
		}
	}
	addn(2)
	for k := uint64(0); k <= 80; k++ {
		addn(delay + 100000*k)
	}
	for _, es := range specEras {
		for _, e := range es {
			addn(e.from)
		}
	}
	var out []uint64
	for x := range set {
		out = append(out, x)
	}
	return out
}

func checkDifficulty() {
	dts := []uint64{1, 2, 3, 4, 5, 6, 7, 8, 9, 10, 11, 12, 13, 14, 15, 16, 17, 18, 19, 20, 26, 27, 899, 900, 901, 908, 909, 917, 918, 10000}
	pds := []*big.Int{bi(131072), bi(131073), bi(133119), bi(133120), bi(133121), sub1(pow2(22)), pow2(22), add(pow2(22), 1), pow2(52), pow2(60), add(pow2(60), 2047)}
	if r.Quick() {
		dts = []uint64{1, 8, 9, 10, 17, 18, 19, 899, 900, 908, 909, 917, 918, 10000}
	}
	const ptime = 1_500_000_000
	for _, delay := range []uint64{3_000_000, 5_000_000, 9_000_000, 9_700_000, 10_700_000} {
		nums := difficultyNumbers(delay)
		for _, num := range nums {
			for _, unc := range []bool{false, true} {
				for _, pd := range pds {
					p := &eth.Header{UncleHash: types.EmptyUncleHash, Difficulty: pd, Number: bi(num - 1), Time: ptime}
					gp := &types.Header{UncleHash: types.EmptyUncleHash, Difficulty: pd, Number: bi(num - 1), Time: ptime}
					if unc {
						p.UncleHash, gp.UncleHash = nonEmptyUncles, nonEmptyUncles
					}
					for _, dt := range dts {
						r.Eval()
						t := uint64(ptime) + dt
						want := refDifficulty(delay, t, ptime, pd, unc, num-1)
						det := func(got *big.Int, which string) map[string]any {
							return map[string]any{"calculator": which, "bomb_delay": delay, "number": num, "parent_difficulty": pd.String(), "parent_has_uncles": unc,
								"dt": dt, "repo": got.String(), "eip": want.String()}
						}
						got := eth.VerifDiffWithDelay(bi(delay), t, p)
						if got.Cmp(want) != 0 {
							r.Violation(fmt.Sprintf("difficulty/delay=%d/repo-vs-eip", delay), det(got, "makeDifficultyCalculator"))
						}
						if delay == 9_000_000 {
							g2 := eth.VerifDiffPreLondon(bi(t), p)
							if g2.Cmp(want) != 0 {
								r.Violation("difficulty/pre-london/repo-vs-eip", det(g2, "difficultyCalculator"))
							}
						}
						if delay <= 9_000_000 {
							g := ethash.CalcDifficulty(gethCfg(delay), t, gp)
							if g.Cmp(got) != 0 {
								d := det(got, "makeDifficultyCalculator")
								d["geth"] = g.String()
								r.Violation(fmt.Sprintf("difficulty/delay=%d/repo-vs-geth", delay), d)
							}
						}
						r.Class("difficulty:evaluated")
					}
				}
			}
		}
		r.Case(fmt.Sprintf("difficulty/delay=%d/numbers=%d", delay, len(nums)))
	}
}

// ------------------------------------------------------------------------------------------------
// 4. gas limit, base fee, VerifyEip1559Header (pure functions)

func checkGasLimit() {
	ps := []uint64{0, 1, 1023, 1024, 1025, 4999, 5000, 5001, 5119, 5120, 5121, 6000, 5_120_000, 15_000_000, 30_000_000, 1<<62 - 1, 1 << 62, 1<<63 - 1}
	for _, p := range ps {
		lim := p / 1024
		cand := map[uint64]bool{4999: true, 5000: true, 5001: true, 0: true, 1<<63 - 1: true}
		max := sub1(pow2(63))
		for _, d := range []int64{-1, 0, 1} {
			for _, base := range []*big.Int{new(big.Int).Sub(bi(p), bi(lim)), bi(p), new(big.Int).Add(bi(p), bi(lim))} {
				x := add(base, d)
				if x.Sign() >= 0 && x.Cmp(max) <= 0 {
					cand[x.Uint64()] = true
				}
			}
		}
		for h := range cand {
			r.Eval()
			got := eth.VerifyGaslimit(p, h) == nil
			want := refGasLimitOK(bi(p), bi(h))
			if got {
				r.Class("gaslimit:ok")
			} else {
				r.Class("gaslimit:rejected")
			}
			if got != want {
				r.Violation("gaslimit/repo-vs-spec", map[string]any{"parent_gas_limit": p, "gas_limit": h, "repo_accepts": got, "spec_accepts": want})
			}
		}
	}
	r.Case("gaslimit/pure")
}

// netSpec maps a poly network id to the Ethereum network whose fork heights the repo configures for it.
func netSpec(id uint32) string {
	if id == config.NETWORK_ID_MAIN_NET {
		return "mainnet"
	}
	return "ropsten" // testnet and every unknown id fall back to the Ropsten London height, no Arrow Glacier
}

func specLondon(net string) uint64 {
	for _, e := range specEras[net] {
		if e.name == "london" {
			return e.from
		}
	}
	panic("no london")
}

func checkBaseFee(netID uint32) {
	config.DefConfig.P2PNode.NetworkId = netID
	net := netSpec(netID)
	L := specLondon(net)
	limits := []uint64{5000, 5001, 10000, 29_999_999, 30_000_000, 30_000_001}
	fees := []*big.Int{bi(0), bi(1), bi(7), bi(8), bi(9), bi(15), bi(16), bi(999_999_999), bi(1_000_000_000), bi(1_000_000_001), bi(7_000_000_000), sub1(pow2(64)), pow2(64), pow2(200)}
	for _, pn := range []uint64{L - 2, L - 1, L, L + 1, L + 1_000_000} {
		pLondon := pn >= L
		for _, gl := range limits {
			tgt := gl / 2
			for _, gu := range []uint64{0, 1, tgt - 1, tgt, tgt + 1, gl - 1, gl} {
				for _, fee := range fees {
					p := &eth.Header{Number: bi(pn), GasLimit: gl, GasUsed: gu, Difficulty: pow2(52), UncleHash: types.EmptyUncleHash}
					if pLondon {
						p.BaseFee = fee
					}
					r.Eval()
					want := refBaseFee(pLondon, gl, gu, fee)
					got := eth.CalcBaseFee(p)
					r.Class("basefee:evaluated")
					if got.Cmp(want) != 0 {
						r.Violation("basefee/repo-vs-eip1559", map[string]any{"net": net, "parent_number": pn, "parent_gas_limit": gl, "parent_gas_used": gu,
							"parent_base_fee": fee.String(), "repo": got.String(), "eip": want.String()})
					}
					// VerifyEip1559Header on children around every bound
					pgl := gl
					if !pLondon {
						pgl = gl * 2
					}
					lim := pgl / 1024
					for _, cgl := range []uint64{pgl - lim, pgl - lim + 1, pgl, pgl + lim - 1, pgl + lim, 4999, 5000} {
						for _, cf := range []*big.Int{nil, add(want, -1), want, add(want, 1)} {
							if cf != nil && cf.Sign() < 0 {
								continue
							}
							if fee != fees[0] && fee != fees[8] && (cgl != pgl || cf != want) { // full child alphabet only for two parent fees
								continue
							}
							c := &eth.Header{Number: bi(pn + 1), GasLimit: cgl, BaseFee: cf, Difficulty: pow2(52)}
							r.Eval()
							gotOK := eth.VerifyEip1559Header(p, c) == nil
							wantOK := refGasLimitOK(bi(pgl), bi(cgl)) && cf != nil && cf.Cmp(want) == 0
							if gotOK {
								r.Class("eip1559:ok")
							} else {
								r.Class("eip1559:rejected")
							}
							if gotOK != wantOK {
								r.Violation("eip1559/verify/repo-vs-eip", map[string]any{"net": net, "parent_number": pn, "parent_gas_limit": gl, "parent_gas_used": gu,
									"parent_base_fee": fee.String(), "gas_limit": cgl, "base_fee": fmt.Sprint(cf), "repo_accepts": gotOK, "spec_accepts": wantOK})
							}
						}
					}
					if !pLondon {
						break // parent base fee irrelevant
					}
				}
			}
		}
	}
	r.Case("basefee/" + net)
}

// ------------------------------------------------------------------------------------------------
// 5. through the contract

const ethChain = 2

type hctx struct {
	netID uint32
	net   string
	env   *hsenv.Env
	sim   *hsenv.Sim
	base  polyenv.Dump
}

func newCtx(netID uint32) *hctx {
	env := hsenv.Setup(netID)
	w := env.NewWorld()
	if err := env.RegisterSideChain(w, ethChain, utils.ETH_ROUTER, "eth", []byte{1}); err != nil {
		r.HarnessError("%v", err)
	}
	c := &hctx{netID: netID, net: netSpec(netID), env: env, sim: hsenv.NewSim(), base: w.Dump()}
	w.Close()
	return c
}

func raw(h *eth.Header) []byte {
	b, err := json.Marshal(*h)
	if err != nil {
		panic(err)
	}
	return b
}

// submit: fresh state, parent as trust root, then the child through SyncBlockHeader.
func (c *hctx) submit(parent, child *eth.Header) (bool, string) {
	c.sim.Load(c.base)
	if res := c.sim.Exec(c.env.GenesisTx(ethChain, raw(parent)), 2, 200); !res.OK {
		r.HarnessError("genesis header rejected: %v", res.Err)
	}
	res := c.sim.Exec(hsenv.HeadersTx(ethChain, raw(child)), 3, 300)
	r.Eval()
	if res.Panic != nil {
		r.Class("handler:panic")
		return false, fmt.Sprintf("panic: %v", res.Panic)
	}
	if !res.OK {
		r.Class("handler:reject")
		return false, res.Err.Error()
	}
	r.Class("handler:accept")
	// must be stored under the reference hash with TD = parent difficulty + own difficulty
	want := refHash(fromRepo(child))
	ns := c.sim.Reader()
	st, td, err := eth.GetHeaderByHash(ns, want[:], ethChain)
	if err != nil {
		r.Violation("handler/stored-under-other-hash", map[string]any{"net": c.net, "child": string(raw(child)), "ref_hash": hex.EncodeToString(want[:]), "err": err.Error()})
	} else {
		if st.Number.Cmp(child.Number) != 0 || st.Difficulty.Cmp(child.Difficulty) != 0 {
			r.Violation("handler/stored-header-differs", map[string]any{"child": string(raw(child))})
		}
		if td.Cmp(new(big.Int).Add(parent.Difficulty, child.Difficulty)) != 0 {
			r.Violation("handler/total-difficulty", map[string]any{"child": string(raw(child)), "td": td.String()})
		}
	}
	return true, ""
}

func fromRepo(h *eth.Header) *hdr {
	x := &hdr{Parent: h.ParentHash, Uncle: h.UncleHash, Coinbase: h.Coinbase, Root: h.Root, Tx: h.TxHash, Rc: h.ReceiptHash, Bloom: h.Bloom,
		Difficulty: h.Difficulty, Number: h.Number, GasLimit: h.GasLimit, GasUsed: h.GasUsed, Time: h.Time, Extra: h.Extra, Mix: h.MixDigest,
		Nonce: h.Nonce, BaseFee: h.BaseFee}
	return x
}

// specParent builds a spec-shaped trust root at the given number.
func (c *hctx) specParent(number uint64, uncles bool, gasLimit, gasUsed uint64, baseFee *big.Int) *eth.Header {
	p := &eth.Header{UncleHash: types.EmptyUncleHash, TxHash: types.EmptyRootHash, ReceiptHash: types.EmptyRootHash, Difficulty: pow2(52),
		Number: bi(number), GasLimit: gasLimit, GasUsed: gasUsed, Time: 1_600_000_000, Extra: []byte("root")}
	if uncles {
		p.UncleHash = nonEmptyUncles
	}
	if number >= specLondon(c.net) {
		p.BaseFee = baseFee
	}
	return p
}

// specChild builds the child every rule of the specification admits (reference formulas only).
func (c *hctx) specChild(p *eth.Header, dt uint64) *eth.Header {
	L := specLondon(c.net)
	num := p.Number.Uint64() + 1
	h := &eth.Header{ParentHash: ethcommon.Hash(refHash(fromRepo(p))), UncleHash: types.EmptyUncleHash, TxHash: types.EmptyRootHash,
		ReceiptHash: types.EmptyRootHash, Number: bi(num), GasLimit: p.GasLimit, Time: p.Time + dt, Extra: []byte("child")}
	if num >= L {
		pl := p.Number.Uint64() >= L
		if !pl {
			h.GasLimit = p.GasLimit * 2
		}
		h.BaseFee = refBaseFee(pl, p.GasLimit, p.GasUsed, p.BaseFee)
	}
	h.GasUsed = h.GasLimit / 2
	_, delay, ok := specDelay(c.net, num)
	if !ok {
		r.HarnessError("no EIP-100 era for %s #%d", c.net, num)
	}
	h.Difficulty = refDifficulty(delay, h.Time, p.Time, p.Difficulty, p.UncleHash != types.EmptyUncleHash, p.Number.Uint64())
	return h
}

func clone(h *eth.Header) *eth.Header {
	x := *h
	x.Difficulty = new(big.Int).Set(h.Difficulty)
	x.Number = new(big.Int).Set(h.Number)
	if h.BaseFee != nil {
		x.BaseFee = new(big.Int).Set(h.BaseFee)
	}
	x.Extra = append([]byte{}, h.Extra...)
	return &x
}

// expect runs one child and compares acceptance with the specification's verdict.
func (c *hctx) expect(key string, parent, child *eth.Header, wantOK bool, what string) {
	ok, why := c.submit(parent, child)
	r.Case("handler/" + c.net + "/" + key)
	if ok != wantOK {
		k := "handler/" + key + "/accepted-but-spec-rejects"
		if wantOK {
			k = "handler/" + key + "/rejected-but-spec-accepts"
		}
		r.Violation(k, map[string]any{"net": c.net, "poly_network_id": c.netID, "what": what, "parent": string(raw(parent)), "child": string(raw(child)), "handler_error": why})
	}
}

func (c *hctx) scenario(name string, pn uint64, uncles bool) {
	L := specLondon(c.net)
	era, delay, _ := specDelay(c.net, pn+1)
	tag := func(s string) string { return s + "/" + era }
	fee := bi(1_000_000_000)
	for _, dt := range []uint64{1, 8, 9, 17, 18, 900, 909} {
		for _, used := range []string{"target", "above", "below"} {
			gl := uint64(30_000_000)
			gu := gl / 2
			switch used {
			case "above":
				gu = gl - 7
			case "below":
				gu = 1234
			}
			p := c.specParent(pn, uncles, gl, gu, fee)
			if pn < L && used != "target" {
				continue // parent gas usage only matters after London
			}
			h := c.specChild(p, dt)
			c.expect(tag("spec-child"), p, h, true, fmt.Sprintf("%s: spec-conformant child, dt=%d parentGasUsed=%s", name, dt, used))
			if used != "target" && dt != 9 {
				continue
			}
			// --- one-unit violations
			m := clone(h)
			m.Difficulty = add(h.Difficulty, 1)
			c.expect(tag("difficulty+1"), p, m, false, name)
			m = clone(h)
			m.Difficulty = add(h.Difficulty, -1)
			c.expect(tag("difficulty-1"), p, m, false, name)
			if dt != 9 {
				continue
			}
			// difficulty of the neighbouring eras must be refused where it differs
			for _, od := range []uint64{9_000_000, 9_700_000, 10_700_000} {
				alt := refDifficulty(od, h.Time, p.Time, p.Difficulty, uncles, pn)
				if od != delay && alt.Cmp(h.Difficulty) != 0 {
					m = clone(h)
					m.Difficulty = alt
					c.expect(tag(fmt.Sprintf("difficulty-of-delay-%d", od)), p, m, false, name)
				}
			}
			// uncle flag ignored
			alt := refDifficulty(delay, h.Time, p.Time, p.Difficulty, !uncles, pn)
			m = clone(h)
			m.Difficulty = alt
			c.expect(tag("difficulty-uncle-flag-flipped"), p, m, false, name)
			// time
			m = clone(h)
			m.Time = p.Time
			c.expect(tag("time=parent"), p, m, false, name)
			m = clone(h)
			m.Time = p.Time - 1
			c.expect(tag("time<parent"), p, m, false, name)
			// number
			m = clone(h)
			m.Number = add(h.Number, 1)
			c.expect(tag("number+1"), p, m, false, name)
			m = clone(h)
			m.Number = add(h.Number, -1)
			c.expect(tag("number-1"), p, m, false, name)
			// parent hash
			m = clone(h)
			m.ParentHash[31] ^= 1
			c.expect(tag("parent-hash-bit"), p, m, false, name)
			// extra
			m = clone(h)
			m.Extra = mkExtra(32, 1)
			c.expect(tag("extra=32"), p, m, true, name)
			m = clone(h)
			m.Extra = mkExtra(33, 1)
			c.expect(tag("extra=33"), p, m, false, name)
			// gas used
			m = clone(h)
			m.GasUsed = m.GasLimit
			c.expect(tag("gasUsed=gasLimit"), p, m, true, name)
			m = clone(h)
			m.GasUsed = m.GasLimit + 1
			c.expect(tag("gasUsed=gasLimit+1"), p, m, false, name)
			// gas limit bounds (relative to the parent limit, doubled on the fork block)
			pgl := h.GasLimit
			lim := pgl / 1024
			for _, g := range []struct {
				v  uint64
				ok bool
			}{{pgl + lim - 1, true}, {pgl + lim, false}, {pgl - lim + 1, true}, {pgl - lim, false}} {
				m = clone(h)
				m.GasLimit = g.v
				m.GasUsed = 0
				c.expect(tag(fmt.Sprintf("gasLimit%+d", int64(g.v)-int64(pgl))), p, m, g.ok, name)
			}
			// base fee
			if pn+1 >= L {
				m = clone(h)
				m.BaseFee = add(h.BaseFee, 1)
				c.expect(tag("baseFee+1"), p, m, false, name)
				if h.BaseFee.Sign() > 0 {
					m = clone(h)
					m.BaseFee = add(h.BaseFee, -1)
					c.expect(tag("baseFee-1"), p, m, false, name)
				}
				m = clone(h)
				m.BaseFee = nil
				c.expect(tag("baseFee-missing"), p, m, false, name)
				if pn < L { // fork block: the pre-fork gas-limit rule (no doubling) must not be applied
					m = clone(h)
					m.GasLimit = p.GasLimit
					m.GasUsed = 0
					c.expect(tag("fork-block-gasLimit-not-doubled"), p, m, false, name)
				}
			} else {
				// a legacy-era header carrying a base fee (16-field RLP) is not a valid block before the fork; as a
				// London-style header it would be allowed a doubled gas limit and the 9.7M bomb delay.
				m = clone(h)
				m.BaseFee = bi(1_000_000_000)
				c.expect(tag("baseFee-before-fork"), p, m, false, name+": legacy header + baseFee, otherwise unchanged")
				m = clone(h)
				m.BaseFee = bi(1_000_000_000)
				m.GasLimit = p.GasLimit * 2
				m.GasUsed = 0
				m.Difficulty = refDifficulty(9_700_000, h.Time, p.Time, p.Difficulty, uncles, pn)
				c.expect(tag("london-style-header-before-fork"), p, m, false, name+": baseFee=1e9, gasLimit=2*parent (violates the 1/1024 bound), difficulty with the EIP-3554 delay")
			}
		}
	}
}

func checkHandler(netID uint32) {
	c := newCtx(netID)
	defer c.sim.Close()
	L := specLondon(c.net)
	type sc struct {
		name string
		pn   uint64
	}
	var scs []sc
	if c.net == "mainnet" {
		scs = []sc{{"muir-glacier mid", 10_000_000}, {"muir-glacier period boundary-1", 12_899_998}, {"muir-glacier period boundary", 12_899_999},
			{"last legacy -> london block", L - 1}, {"london -> london", L}, {"london period boundary-1", 12_999_998}, {"london period boundary", 12_999_999},
			{"last london -> arrow glacier block", 13_772_999}, {"arrow -> arrow", 13_773_000}, {"arrow period boundary-1", 13_799_998},
			{"arrow period boundary", 13_799_999}, {"arrow late", 15_000_000}}
	} else {
		scs = []sc{{"muir-glacier mid", 9_300_000}, {"last legacy -> london block", L - 1}, {"london -> london", L},
			{"london period boundary", 10_599_999}, {"no arrow glacier on this net", 13_773_000}, {"london late", 15_000_000}}
	}
	for _, s := range scs {
		for _, unc := range []bool{false, true} {
			c.scenario(s.name, s.pn, unc)
		}
	}
	// number sweep: every 100000-block boundary (+-1) and fork height (+-1) of the implemented eras, through the contract
	lo, hi := uint64(9_300_000), uint64(15_000_000)
	if c.net != "mainnet" {
		lo = 7_200_000
	}
	nums := map[uint64]bool{}
	for b := lo; b <= hi; b += 100_000 {
		nums[b-1], nums[b], nums[b+1] = true, true, true
	}
	for _, e := range specEras[c.net] {
		if e.from >= lo && e.from <= hi {
			nums[e.from-1], nums[e.from], nums[e.from+1] = true, true, true
		}
	}
	for n := range nums {
		p := c.specParent(n-1, false, 30_000_000, 15_000_000, bi(1_000_000_000))
		h := c.specChild(p, 13)
		era, _, _ := specDelay(c.net, n)
		c.expect("sweep/spec-child/"+era, p, h, true, fmt.Sprintf("number sweep, child #%d", n))
		m := clone(h)
		m.Difficulty = add(h.Difficulty, 1)
		c.expect("sweep/difficulty+1/"+era, p, m, false, fmt.Sprintf("number sweep, child #%d", n))
		m = clone(h)
		m.Difficulty = add(h.Difficulty, -1)
		c.expect("sweep/difficulty-1/"+era, p, m, false, fmt.Sprintf("number sweep, child #%d", n))
	}
	r.Note("handler_number_sweep_"+c.net, len(nums))
	// minimum gas limit and the 2^63-1 cap
	p := c.specParent(10_000_000, false, 5001, 0, nil)
	h := c.specChild(p, 9)
	h.GasLimit, h.GasUsed = 5000, 0
	c.expect("gasLimit=5000", p, h, true, "minimum gas limit")
	h = clone(h)
	h.GasLimit = 4999
	c.expect("gasLimit=4999", p, h, false, "below minimum gas limit (within the 1/1024 bound of parent 5001... bound is 4, diff 2)")
	p = c.specParent(10_000_000, false, 1<<63-1, 0, nil)
	h = c.specChild(p, 9)
	h.GasUsed = 0
	c.expect("gasLimit=2^63-1", p, h, true, "gas limit cap")
	h = clone(h)
	h.GasLimit = 1 << 63
	c.expect("gasLimit=2^63", p, h, false, "gas limit above 2^63-1")

	// eras of the specification the implementation does not know: recorded, not judged (see report)
	probe := map[string]any{}
	for _, e := range specEras[c.net] {
		if e.name == "muir-glacier" || e.name == "london" || e.name == "arrow-glacier" {
			continue
		}
		p := c.specParent(e.from+250_000, false, 30_000_000, 15_000_000, bi(1_000_000_000))
		h := c.specChild(p, 9)
		ok, why := c.submit(p, h)
		if len(why) > 160 {
			why = why[:160]
		}
		probe[e.name] = map[string]any{"child_number": e.from + 250_001, "spec_child_accepted": ok, "handler_error": why}
	}
	r.Note("eras_outside_implementation_"+c.net, probe)
}

func main() {
	r = ev.Start("C28", "exploration")
	verifhook.SkipSealFlag = true
	debug.SetGCPercent(400)
	hsenv.Setup(config.NETWORK_ID_MAIN_NET)
	r.Require("sizes:epoch", "hash:pre-london", "hash:london", "difficulty:evaluated", "gaslimit:ok", "gaslimit:rejected", "basefee:evaluated",
		"eip1559:ok", "eip1559:rejected", "handler:accept", "handler:reject")
	checkSizes()
	checkHash()
	checkDifficulty()
	checkGasLimit()
	for _, id := range []uint32{config.NETWORK_ID_MAIN_NET, config.NETWORK_ID_TEST_NET, 0} {
		checkBaseFee(id)
	}
	for _, id := range []uint32{config.NETWORK_ID_MAIN_NET, config.NETWORK_ID_TEST_NET, 0} {
		checkHandler(id)
	}
	r.Assume("the ethash seal (mix digest / nonce) is skipped by the verif hook in the contract-level part; sizes, hashes and formulas are compared directly",
		"difficulty eras judged: Muir Glacier (9M), London (9.7M), Arrow Glacier (10.7M) at the fork heights the repo configures per poly network id (1: mainnet, other: Ropsten London height, no Arrow Glacier); the generic calculator is additionally compared for the 3M/5M delays",
		"gas limits < 2^62 on the London fork block (doubling) — go-ethereum uses the same int64 arithmetic",
		"header timestamps are in the past (the wall-clock future-block test is constant)")
	r.Finish(map[string]any{
		"rule": "repo == specification reference on every member of the boundary alphabets; through the contract: spec child accepted, every one-unit violation rejected",
		"bounds": map[string]any{"size_epochs": 2048 + r.QT(16, 256), "difficulty_delays": []int{3000000, 5000000, 9000000, 9700000, 10700000},
			"period_boundaries_per_delay": 81, "poly_network_ids": []int{1, 2, 0}},
	})
}
