package main

// Independent references for C28, written from the specifications (EIP-100/649/1234/2384/3554/4345
// difficulty, Yellow Paper gas-limit rule, EIP-1559 base fee, ethash size definition, RLP). They share no
// code with /repo/native/service/header_sync/eth.

import (
	"math/big"

	"golang.org/x/crypto/sha3"
)

var (
	b1     = big.NewInt(1)
	b2048  = big.NewInt(2048)
	minDif = big.NewInt(131072)
)

// refDifficulty: EIP-100 adjustment with an ice-age delayed by `delay` blocks (EIP-649: 3M, EIP-1234: 5M,
// EIP-2384: 9M, EIP-3554: 9.7M, EIP-4345: 10.7M), formulated on the CHILD number as in the EIPs:
//
//	adj  = max((2 if parent has uncles else 1) - (time - parent.time) // 9, -99)
//	diff = max(parent.diff + parent.diff // 2048 * adj, 131072)
//	fake = max(0, number - delay); if fake // 100000 >= 2: diff += 2 ** (fake // 100000 - 2)
func refDifficulty(delay uint64, time, parentTime uint64, parentDiff *big.Int, parentUncles bool, parentNumber uint64) *big.Int {
	q := int64((time - parentTime) / 9)
	adj := int64(1)
	if parentUncles {
		adj = 2
	}
	if q > 1000 {
		q = 1000
	}
	adj -= q
	if adj < -99 {
		adj = -99
	}
	d := new(big.Int).Div(parentDiff, b2048)
	d.Mul(d, big.NewInt(adj))
	d.Add(d, parentDiff)
	if d.Cmp(minDif) < 0 {
		d.Set(minDif)
	}
	number := parentNumber + 1
	if number > delay {
		period := (number - delay) / 100000
		if period >= 2 {
			d.Add(d, new(big.Int).Lsh(b1, uint(period-2)))
		}
	}
	return d
}

// refGasLimitOK: Yellow Paper (56)/(57) and EIP-1559: |limit - parentLimit| < parentLimit // 1024 and limit >= 5000.
func refGasLimitOK(parentLimit, limit *big.Int) bool {
	bound := new(big.Int).Div(parentLimit, big.NewInt(1024))
	diff := new(big.Int).Sub(parentLimit, limit)
	diff.Abs(diff)
	return diff.Cmp(bound) < 0 && limit.Cmp(big.NewInt(5000)) >= 0
}

// refBaseFee: EIP-1559 (ELASTICITY_MULTIPLIER 2, BASE_FEE_MAX_CHANGE_DENOMINATOR 8, INITIAL_BASE_FEE 1e9).
func refBaseFee(parentIsLondon bool, parentGasLimit, parentGasUsed uint64, parentBaseFee *big.Int) *big.Int {
	if !parentIsLondon {
		return big.NewInt(1000000000)
	}
	target := new(big.Int).SetUint64(parentGasLimit / 2)
	used := new(big.Int).SetUint64(parentGasUsed)
	switch used.Cmp(target) {
	case 0:
		return new(big.Int).Set(parentBaseFee)
	case 1:
		delta := new(big.Int).Sub(used, target)
		delta.Mul(delta, parentBaseFee)
		delta.Div(delta, target)
		delta.Div(delta, big.NewInt(8))
		if delta.Cmp(b1) < 0 {
			delta.Set(b1)
		}
		return delta.Add(delta, parentBaseFee)
	default:
		delta := new(big.Int).Sub(target, used)
		delta.Mul(delta, parentBaseFee)
		delta.Div(delta, target)
		delta.Div(delta, big.NewInt(8))
		return delta.Sub(parentBaseFee, delta)
	}
}

// --- ethash sizes (ethash spec, "Parameters" / get_cache_size / get_full_size)

func isPrime(n uint64) bool {
	if n < 2 {
		return false
	}
	for d := uint64(2); d*d <= n; d++ {
		if n%d == 0 {
			return false
		}
	}
	return true
}

func refCacheSize(epoch uint64) uint64 {
	sz := uint64(1<<24) + uint64(1<<17)*epoch - 64
	for !isPrime(sz / 64) {
		sz -= 2 * 64
	}
	return sz
}

func refDatasetSize(epoch uint64) uint64 {
	sz := uint64(1<<30) + uint64(1<<23)*epoch - 128
	for !isPrime(sz / 128) {
		sz -= 2 * 128
	}
	return sz
}

// --- minimal RLP (Yellow Paper appendix B)

func rlpLen(n int, off byte) []byte {
	if n < 56 {
		return []byte{off + byte(n)}
	}
	var be []byte
	for x := n; x > 0; x >>= 8 {
		be = append([]byte{byte(x)}, be...)
	}
	return append([]byte{off + 55 + byte(len(be))}, be...)
}

func rlpBytes(b []byte) []byte {
	if len(b) == 1 && b[0] < 0x80 {
		return []byte{b[0]}
	}
	return append(rlpLen(len(b), 0x80), b...)
}

func rlpBig(x *big.Int) []byte { return rlpBytes(x.Bytes()) } // minimal big-endian, zero = empty string
func rlpUint(x uint64) []byte  { return rlpBig(new(big.Int).SetUint64(x)) }

func rlpList(items ...[]byte) []byte {
	var body []byte
	for _, it := range items {
		body = append(body, it...)
	}
	return append(rlpLen(len(body), 0xc0), body...)
}

func keccak(b []byte) [32]byte {
	h := sha3.NewLegacyKeccak256()
	h.Write(b)
	var out [32]byte
	h.Sum(out[:0])
	return out
}

// hdr is a plain header for the reference side.
type hdr struct {
	Parent, Uncle [32]byte
	Coinbase      [20]byte
	Root, Tx, Rc  [32]byte
	Bloom         [256]byte
	Difficulty    *big.Int
	Number        *big.Int
	GasLimit      uint64
	GasUsed       uint64
	Time          uint64
	Extra         []byte
	Mix           [32]byte
	Nonce         [8]byte
	BaseFee       *big.Int // nil before London
}

// refHash: keccak256(rlp([parentHash, ommersHash, beneficiary, stateRoot, transactionsRoot, receiptsRoot, logsBloom,
// difficulty, number, gasLimit, gasUsed, timestamp, extraData, mixHash, nonce (, baseFeePerGas)]))
func refHash(h *hdr) [32]byte {
	items := [][]byte{rlpBytes(h.Parent[:]), rlpBytes(h.Uncle[:]), rlpBytes(h.Coinbase[:]), rlpBytes(h.Root[:]), rlpBytes(h.Tx[:]),
		rlpBytes(h.Rc[:]), rlpBytes(h.Bloom[:]), rlpBig(h.Difficulty), rlpBig(h.Number), rlpUint(h.GasLimit), rlpUint(h.GasUsed),
		rlpUint(h.Time), rlpBytes(h.Extra), rlpBytes(h.Mix[:]), rlpBytes(h.Nonce[:])}
	if h.BaseFee != nil {
		items = append(items, rlpBig(h.BaseFee))
	}
	return keccak(rlpList(items...))
}

// refSealHash: the same list without mixHash and nonce (the pre-image of the ethash seal).
func refSealHash(h *hdr) [32]byte {
	items := [][]byte{rlpBytes(h.Parent[:]), rlpBytes(h.Uncle[:]), rlpBytes(h.Coinbase[:]), rlpBytes(h.Root[:]), rlpBytes(h.Tx[:]),
		rlpBytes(h.Rc[:]), rlpBytes(h.Bloom[:]), rlpBig(h.Difficulty), rlpBig(h.Number), rlpUint(h.GasLimit), rlpUint(h.GasUsed),
		rlpUint(h.Time), rlpBytes(h.Extra)}
	if h.BaseFee != nil {
		items = append(items, rlpBig(h.BaseFee))
	}
	return keccak(rlpList(items...))
}

// --- Ethereum network fork tables (block numbers from the respective hard-fork meta EIPs)

type era struct {
	name  string
	from  uint64
	delay uint64
}

// spec eras with an EIP-100 style calculator (Byzantium onwards) per Ethereum network.
var specEras = map[string][]era{
	"mainnet": {{"byzantium", 4_370_000, 3_000_000}, {"constantinople", 7_280_000, 5_000_000}, {"muir-glacier", 9_200_000, 9_000_000},
		{"london", 12_965_000, 9_700_000}, {"arrow-glacier", 13_773_000, 10_700_000}, {"gray-glacier", 15_050_000, 11_400_000}},
	"ropsten": {{"byzantium", 1_700_000, 3_000_000}, {"constantinople", 4_230_000, 5_000_000}, {"muir-glacier", 7_117_117, 9_000_000},
		{"london", 10_499_401, 9_700_000}},
}

func specDelay(net string, number uint64) (string, uint64, bool) {
	es := specEras[net]
	for i := len(es) - 1; i >= 0; i-- {
		if number >= es[i].from {
			return es[i].name, es[i].delay, true
		}
	}
	return "pre-byzantium", 0, false
}
