// C34 — validator pool invariants hold across epochs (model_checking).
//
// Explicit-state BFS (mc.BFS) over sequences of REAL node_manager transactions (registerCandidate, unRegisterCandidate,
// approveCandidate, quitNode, blackNode, whiteNode, commitDpos) executed through the production path
// StateStore.HandleInvokeTransaction on a snapshot world, from genesis pools of 4 and 5 consensus validators plus two
// applicants and one outsider. State = world dump + block height + two ghost variables (height of the last epoch change,
// key->index history). Oracle (see checkTx / inv): the clauses of the property statement, evaluated on the decoded stored
// records (PEER_POOL list of the current view, GOVERNANCE_VIEW, BLACK_LIST, PEER_INDEX) after EVERY real transaction.
package main

import (
	"fmt"
	"os"
	"regexp"
	"runtime/debug"
	"runtime/pprof"
	"sort"
	"strings"
	"sync"
	"sync/atomic"
	"time"

	"github.com/polynetwork/poly/common"
	cstates "github.com/polynetwork/poly/core/states"
	"github.com/polynetwork/poly/core/types"
	_ "github.com/polynetwork/poly/native/service"
	"github.com/polynetwork/poly/native/service/governance/node_manager"
	"verif.local/engine/ev"
	"verif.local/engine/lib/mapworld"
	"verif.local/engine/mc"
	"verif.local/engine/polyenv"
)

const ts = 1000 // block timestamp (never read by node_manager)

// S: one explored state. D and H are the implementation state (world snapshot, height of the current block);
// LastEpochH and Hist are ghost variables of the oracle.
type S struct {
	D          polyenv.Dump
	H          uint32
	LastEpochH uint32 // ghost: height of the block in which the view last changed (genesis: 0)
	Hist       string // ghost: sorted "PeerPubkey string=index;" of every pool entry ever observed
	Bad        []bad  // violations found by the transition that produced this state (reported with the path by Check)
	c          *stCache
}

type bad struct {
	Key    string
	Detail map[string]any
}

type txInfo struct {
	tx    *types.Transaction
	kind  string   // reg | unreg | appr | quit | black | white | commit
	keys  []string // PeerPubkey strings the call names
	desc  string
	macro bool // part of an "every consensus member votes" macro: the macro stops once the decision took effect
}

type evDef struct {
	name   string
	height string // "same" | "next" | "b-1" | "b"
	build  func(pre *nmView) []txInfo
}

type model struct {
	r      *ev.Run
	c      *cast
	names  []string
	events map[string]*evDef
	txs    int64
	union  bool // trace mode: both profiles in one alphabet
}

func (m *model) add(name, height string, build func(pre *nmView) []txInfo) {
	if height != "same" {
		name += "@" + height
	}
	if _, dup := m.events[name]; dup {
		if m.union {
			return
		}
		panic("duplicate event " + name)
	}
	m.events[name] = &evDef{name: name, height: height, build: build}
	m.names = append(m.names, name)
}

func keysOf(as []*actor) []string {
	out := make([]string, len(as))
	for i, a := range as {
		out[i] = a.Key
	}
	return out
}

func namesOf(as []*actor) string {
	out := make([]string, len(as))
	for i, a := range as {
		out[i] = a.Name
	}
	return strings.Join(out, "+")
}

// buildEvents: the event alphabet of one exploration profile (listed in the evidence as "alphabet_<profile>_pool_<n>").
//
// Two profiles are explored per pool size (one BFS each, same oracle, same initial state):
//
//	epochs: whole governance decisions as macro events ("every current consensus member votes, in a fixed order, until
//	        the decision takes effect") + register / unregister / quit + commitDpos by operator and outsider: long
//	        histories over many epochs (members leaving, returning, being black- and white-listed).
//	votes:  single votes of every validator / an applicant / the outsider on one proposal of each kind (approve A0,
//	        black [V0], black [A0], white V0) interleaved with quits and epoch changes: partial quorums, votes of
//	        voters that lose consensus status, votes that survive an epoch change.
//
// Height: register / unregister / approve / quit / white never read the height and are issued in the current block;
// every height-sensitive event (blackNode may run executeCommitDpos; commitDpos) exists as same block / next block,
// commitDpos additionally at governanceView.Height+MaxBlockChangeView-1 and +MaxBlockChangeView. Since insensitive events
// do not read the height, "e@next ; X" and "e@same ; X@next" reach the same canonical state, so {same,next} for every
// event is covered.
func (m *model) buildEvents(profile string, thorough bool) {
	c := m.c
	one := func(t txInfo) func(*nmView) []txInfo { return func(*nmView) []txInfo { return []txInfo{t} } }
	V, A := c.Vals, c.Apps
	al := func(n string) []*actor { // alias actors exist only when alias encodings are enabled
		if a := c.byName[n]; a != nil {
			return []*actor{a}
		}
		return nil
	}
	cat := func(ls ...[]*actor) []*actor {
		var out []*actor
		for _, l := range ls {
			out = append(out, l...)
		}
		return out
	}
	reg := func(a *actor) {
		m.add("reg:"+a.Name, "same", one(txInfo{tx: txRegister(a.Key, a.A, a.A), kind: "reg", keys: []string{a.Key}}))
	}
	unreg := func(a *actor) {
		m.add("unreg:"+a.Name, "same", one(txInfo{tx: txPeer(node_manager.UNREGISTER_CANDIDATE, a.Key, a.A, a.A), kind: "unreg", keys: []string{a.Key}}))
	}
	quit := func(a *actor) {
		m.add("quit:"+a.Name, "same", one(txInfo{tx: txPeer(node_manager.QUIT_NODE, a.Key, a.A, a.A), kind: "quit", keys: []string{a.Key}}))
	}
	allVote := func(kind string, keys []string, mk func(v *polyenv.Acct) *types.Transaction) func(pre *nmView) []txInfo {
		return func(pre *nmView) []txInfo {
			var out []txInfo
			for _, v := range pre.consensus(c) {
				out = append(out, txInfo{tx: mk(v), kind: kind, keys: keys, macro: true})
			}
			return out
		}
	}
	// mixVote: every consensus member votes, the i-th one spelling the key as spell[i % len(spell)] (canonical, upper-case,
	// mixed case ...): approvers that do NOT agree on one spelling.
	mixVote := func(name, kind, method string, x *actor) {
		spell := cat([]*actor{x}, al(x.Name+"^"), al(x.Name+"~"))
		if len(spell) < 2 {
			return
		}
		m.add(name+":"+x.Name, "same", func(pre *nmView) []txInfo {
			var out []txInfo
			for i, v := range pre.consensus(c) {
				k := spell[i%len(spell)].Key
				out = append(out, txInfo{tx: txPeer(method, k, v, v), kind: kind, keys: []string{k}, macro: true})
			}
			return out
		})
	}
	apprAll := func(x *actor) {
		m.add("apprAll:"+x.Name, "same", allVote("appr", []string{x.Key}, func(v *polyenv.Acct) *types.Transaction {
			return txPeer(node_manager.APPROVE_CANDIDATE, x.Key, v, v)
		}))
	}
	blackAll := func(l []*actor, hgt string) {
		ks := keysOf(l)
		m.add("blackAll:"+namesOf(l), hgt, allVote("black", ks, func(v *polyenv.Acct) *types.Transaction { return txBlack(ks, v) }))
	}
	whiteAll := func(x *actor) {
		m.add("whiteAll:"+x.Name, "same", allVote("white", []string{x.Key}, func(v *polyenv.Acct) *types.Transaction {
			return txPeer(node_manager.WHITE_NODE, x.Key, v, v)
		}))
	}
	commits := func(opH, outH []string) {
		for _, hgt := range opH {
			m.add("commit/op", hgt, func(pre *nmView) []txInfo {
				return []txInfo{{tx: txCommit(polyenv.Multi(pre.consensus(c))), kind: "commit"}}
			})
		}
		for _, hgt := range outH {
			m.add("commit/O", hgt, one(txInfo{tx: txCommit(polyenv.Single(c.Out.A)), kind: "commit", desc: "outsider"}))
		}
	}
	switch profile {
	case "epochs":
		members := []*actor{V[0], V[1], A[0], A[1]}
		if thorough {
			members = cat(V, A)
		}
		for _, a := range members {
			reg(a)
			apprAll(a)
			quit(a)
		}
		// alias spellings as the key PARAMETER of every method (registration of a non-canonical spelling is refused since
		// d070452; approve / unregister / white find their record by the DECODED bytes, quit / black look the string up in the pool)
		if thorough {
			for _, x := range c.Alias {
				reg(x)
				apprAll(x)
				quit(x)
				unreg(x)
				whiteAll(x)
			}
			for _, b := range members {
				mixVote("apprMix", "appr", node_manager.APPROVE_CANDIDATE, b)
				mixVote("whiteMix", "white", node_manager.WHITE_NODE, b)
			}
		} else {
			for _, x := range cat(al("A0^"), al("A0#")) {
				reg(x)
			}
			for _, x := range cat(al("A0^"), al("A0~"), al("A0#"), al("V0^")) {
				apprAll(x)
			}
			for _, x := range cat(al("A0^"), al("V0^")) {
				quit(x)
				whiteAll(x)
				blackAll([]*actor{x}, "same")
			}
			for _, x := range al("A0^") {
				unreg(x)
			}
			mixVote("apprMix", "appr", node_manager.APPROVE_CANDIDATE, A[0])
			mixVote("whiteMix", "white", node_manager.WHITE_NODE, A[0])
		}
		unreg(A[0])
		m.add("quit:V0/byO", "same", one(txInfo{tx: txPeer(node_manager.QUIT_NODE, V[0].Key, c.Out.A, c.Out.A), kind: "quit", keys: []string{V[0].Key}}))
		both := [][]*actor{{V[0]}, {A[0]}, {V[0], V[1]}}
		sameOnly := [][]*actor{{V[1]}, {V[0], A[0]}, {A[0], A[1]}, {V[0], V[0]}}
		if thorough {
			both = append(append(both, sameOnly...), []*actor{A[1]}, []*actor{V[2]}, []*actor{V[1], V[0]}, []*actor{V[1], V[2]}, []*actor{A[1], V[0]})
			sameOnly = nil
			for _, x := range c.Alias {
				both = append(both, []*actor{x})
			}
		}
		for _, l := range both {
			blackAll(l, "same")
			blackAll(l, "next")
		}
		for _, l := range sameOnly {
			blackAll(l, "same")
		}
		wl := []*actor{V[0], A[0]}
		if thorough {
			wl = []*actor{V[0], V[1], V[2], A[0], A[1]}
		}
		for _, x := range wl {
			whiteAll(x)
		}
		if thorough {
			commits([]string{"same", "next"}, []string{"same", "next", "b-1", "b"})
		} else {
			commits([]string{"same", "next"}, []string{"next", "b-1", "b"})
		}
	case "votes":
		voters := cat(V, []*actor{A[0], c.Out})
		targetsAppr := []*actor{A[0]}
		stepBlack := [][]*actor{{V[0]}, {A[0]}}
		stepWhite := []*actor{V[0]}
		if thorough {
			voters = cat(V, A, []*actor{c.Out})
			targetsAppr = []*actor{A[0], A[1]}
			stepBlack = append(stepBlack, []*actor{V[0], V[1]}, []*actor{V[0], A[0]})
			stepWhite = append(stepWhite, A[0])
		}
		reg(A[0])
		unreg(A[0])
		if thorough {
			reg(A[1])
			reg(V[0])
			apprAll(V[0])
		}
		m.add("reg:A1/byO", "same", one(txInfo{tx: txRegister(A[1].Key, c.Out.A, c.Out.A), kind: "reg", keys: []string{A[1].Key}}))
		m.add("unreg:A0/byO", "same", one(txInfo{tx: txPeer(node_manager.UNREGISTER_CANDIDATE, A[0].Key, c.Out.A, c.Out.A), kind: "unreg", keys: []string{A[0].Key}}))
		apprAll(A[0])
		for _, x := range targetsAppr {
			for _, v := range voters {
				if v != x {
					m.add("appr:"+x.Name+"/"+v.Name, "same", one(txInfo{tx: txPeer(node_manager.APPROVE_CANDIDATE, x.Key, v.A, v.A), kind: "appr", keys: []string{x.Key}}))
				}
			}
		}
		for i, l := range stepBlack {
			ks := keysOf(l)
			for _, v := range voters {
				for _, hgt := range []string{"same", "next"} {
					if hgt == "next" && i > 0 && !thorough {
						continue // quick: the next-block variant only for the first (validator) target
					}
					m.add("black:"+namesOf(l)+"/"+v.Name, hgt, one(txInfo{tx: txBlack(ks, v.A), kind: "black", keys: ks}))
				}
			}
		}
		for _, x := range stepWhite {
			for _, v := range voters {
				m.add("white:"+x.Name+"/"+v.Name, "same", one(txInfo{tx: txPeer(node_manager.WHITE_NODE, x.Key, v.A, v.A), kind: "white", keys: []string{x.Key}}))
			}
		}
		quit(V[1])
		quit(A[0])
		// single votes / calls spelling the key differently
		aliasOf := cat(al("A0^"))
		if thorough {
			aliasOf = cat(al("A0^"), al("A0~"), al("A0#"))
		}
		for _, x := range aliasOf {
			for _, v := range voters {
				if v.A != x.A {
					m.add("appr:"+x.Name+"/"+v.Name, "same", one(txInfo{tx: txPeer(node_manager.APPROVE_CANDIDATE, x.Key, v.A, v.A), kind: "appr", keys: []string{x.Key}}))
				}
			}
			unreg(x)
			quit(x)
		}
		for _, x := range al("V0^") {
			for _, v := range voters {
				m.add("white:"+x.Name+"/"+v.Name, "same", one(txInfo{tx: txPeer(node_manager.WHITE_NODE, x.Key, v.A, v.A), kind: "white", keys: []string{x.Key}}))
			}
			for _, v := range voters[:2] {
				m.add("black:"+x.Name+"/"+v.Name, "same", one(txInfo{tx: txBlack([]string{x.Key}, v.A), kind: "black", keys: []string{x.Key}}))
			}
		}
		commits([]string{"same", "next"}, []string{"next", "b"})
	default:
		panic(profile)
	}
}

func (m *model) heightOf(s S, pre *nmView, mode string) (uint32, bool) {
	switch mode {
	case "same":
		return s.H, true
	case "next":
		return s.H + 1, true
	case "b-1":
		h := pre.GvHeight + pre.MBCV - 1
		return h, h > s.H+1 // (<= H+1 is already covered by same/next or would go back in time)
	case "b":
		h := pre.GvHeight + pre.MBCV
		return h, h > s.H+1
	}
	panic(mode)
}

var errRe = regexp.MustCompile(`[0-9a-fA-F]{16,}`)

func reason(err error) string {
	if err == nil {
		return "ok"
	}
	s := err.Error()
	s = strings.TrimPrefix(s, "[Invoke] Native serivce function execute error:")
	s = errRe.ReplaceAllString(s, "<hex>")
	if len(s) > 90 {
		s = s[:90]
	}
	return s
}

// stCache: per-state scratch (not part of the state): the world and decoded view rebuilt from S.D, reused across the
// events tried on this state as long as no transaction succeeded on it (a failed transaction leaves the map untouched —
// asserted). mc.BFS expands one state on one goroutine, the mutex only guards against future changes of that.
type stCache struct {
	mu sync.Mutex
	w  *mapworld.World
	v  *nmView
}

func (m *model) step(s S, e string) (S, bool) {
	d := m.events[e]
	sc := s.c
	sc.mu.Lock()
	defer sc.mu.Unlock()
	if sc.w == nil {
		sc.w = mapworld.NewFrom(s.D)
		v, err := decode(sc.w)
		if err != nil {
			m.r.HarnessError("decode pre-state: %v", err)
		}
		sc.v = v
	}
	w, pre := sc.w, sc.v
	h, ok := m.heightOf(s, pre, d.height)
	if !ok {
		return s, false
	}
	txs := d.build(pre)
	if len(txs) == 0 {
		return s, false
	}
	ns := S{H: h, LastEpochH: s.LastEpochH, Hist: s.Hist, c: &stCache{}}
	cur := pre
	changed := false
	for _, t := range txs {
		before := len(w.M)
		res := w.Exec(t.tx, h, ts)
		atomic.AddInt64(&m.txs, 1)
		if res.Panic != nil {
			m.r.Class("panic")
		}
		post := cur
		if !res.OK {
			if len(res.WriteSet) != 0 || before != len(w.M) {
				m.r.HarnessError("failed transaction left a write set (%s)", e)
			}
		} else {
			changed = true
			var err error
			if post, err = decode(w); err != nil {
				ns.Bad = append(ns.Bad, bad{"state:undecodable-after-" + t.kind, map[string]any{"error": err.Error()}})
				break
			}
		}
		m.checkTx(cur, t, res, post, h, &ns)
		if res.OK {
			var bs []bad
			ns.Hist, bs = m.invState(post, ns.Hist)
			ns.Bad = append(ns.Bad, bs...)
		}
		if t.macro && res.OK && effect(cur, post) {
			break
		}
		cur = post
	}
	if changed {
		ns.D = w.Dump()
		sc.w, sc.v = nil, nil // the map now holds the successor; rebuild for the next event
	} else {
		ns.D = s.D
	}
	if e == m.names[len(m.names)-1] {
		sc.w, sc.v = nil, nil // last event of the menu: release the scratch world
	}
	return ns, true
}

// effect: did the transaction change anything but the vote record (pool, black list, pending applications, view)?
func effect(a, b *nmView) bool {
	return a.View != b.View || len(a.Black) != len(b.Black) || len(a.Apply) != len(b.Apply) || fmt.Sprint(a.Pool) != fmt.Sprint(b.Pool)
}

// checkTx: the per-transition clauses of the property, evaluated for ONE real transaction (pre -> post at height h).
func (m *model) checkTx(pre *nmView, t txInfo, res polyenv.Result, post *nmView, h uint32, ns *S) {
	r := m.r
	r.Eval()
	viol := func(key string, extra map[string]any) {
		d := map[string]any{"tx_kind": t.kind, "tx_keys": m.nameKeys(t.keys), "height": h, "result": reason(res.Err),
			"pre": pre.describe(m.c), "post": post.describe(m.c)}
		for k, v := range extra {
			d[k] = v
		}
		ns.Bad = append(ns.Bad, bad{key, d})
	}
	outcome := "reject"
	if res.OK {
		outcome = "accept"
	}
	r.Class(outcome)
	epoch := post.View != pre.View
	tag := reason(res.Err)
	if res.OK {
		switch {
		case epoch:
			tag = "ok+epoch"
		case effect(pre, post):
			tag = "ok+effect"
		}
	}
	r.Case(t.kind + "/" + tag)

	// --- blacklisted keys cannot register (compared as PUBLIC KEYS: canonical serialization of what the string denotes)
	preBlack := pre.blackCanon()
	if t.kind == "reg" && res.OK {
		r.Class("register_accepted")
		for _, k := range t.keys {
			if preBlack[canonOfString(k)] {
				viol("black:blacklisted-key-registered"+altTag(append(append(pre.blackRecordsOf(canonOfString(k)), pre.entriesOf(canonOfString(k))...), k)...), map[string]any{"key": m.nameKeys([]string{k})})
			}
		}
	}
	if t.kind == "reg" && !res.OK && strings.Contains(res.Err.Error(), "BlackList") {
		r.Class("register_rejected_blacklisted")
	}
	preKeys := map[string]bool{}
	for _, e := range pre.Pool {
		preKeys[e.Key] = true
	}
	postBlack := post.blackCanon()
	for _, e := range post.Pool {
		if !preKeys[e.Key] && preBlack[e.Canon] && postBlack[e.Canon] {
			viol("black:blacklisted-key-enters-pool"+altTag(append(append(pre.blackRecordsOf(e.Canon), pre.entriesOf(e.Canon)...), e.Key)...), map[string]any{"key": m.nameKeys([]string{e.Key})})
		}
	}

	// --- epoch change: exactly +1, once per block, all active -> consensus, quitting / blacklisted dropped
	if post.View != pre.View && post.View != pre.View+1 {
		viol("epoch:view-not-advanced-by-one", nil)
	}
	if !res.OK && strings.Contains(res.Err.Error(), "num of peers is less than 4") {
		r.Class(t.kind + "_guard_hit")
	}
	if t.kind == "commit" && res.OK {
		r.Class("commit_accepted")
		if t.desc == "outsider" {
			r.Class("outsider_commit_after_timeout")
		}
		if !epoch {
			viol("epoch:commit-accepted-without-view-change", nil)
		}
	}
	if t.kind == "commit" && !res.OK {
		r.Class("commit_rejected")
		if strings.Contains(res.Err.Error(), "twice in one block") {
			r.Class("commit_rejected_same_block")
		}
	}
	if !epoch {
		return
	}
	r.Class("epoch_change")
	if t.kind == "black" {
		r.Class("epoch_change_by_blackNode")
	}
	if h == ns.LastEpochH {
		viol("epoch:two-changes-in-one-block", map[string]any{"previous_change_height": ns.LastEpochH})
	}
	ns.LastEpochH = h
	// reference: expected pool of the new view
	blackedNow := map[string]bool{}
	if t.kind == "black" {
		for _, k := range t.keys {
			blackedNow[canonOfString(k)] = true
		}
	}
	type ent struct {
		idx  uint32
		addr string
	}
	want := map[string]ent{}
	for _, e := range pre.Pool {
		act := e.Status == node_manager.CandidateStatus || e.Status == node_manager.ConsensusStatus
		if act && !blackedNow[e.Canon] {
			want[e.Key] = ent{e.Index, e.Addr.ToHexString()}
		}
	}
	got := map[string]bool{}
	for _, e := range post.Pool {
		got[e.Key] = true
		wnt, ok := want[e.Key]
		switch {
		case e.Status == node_manager.QuitingStatus || e.Status == node_manager.BlackStatus:
			viol("epoch:quitting-or-blacklisted-member-kept", map[string]any{"entry": m.nameKeys([]string{e.Key})})
		case e.Status != node_manager.ConsensusStatus:
			viol("epoch:active-member-not-consensus", map[string]any{"entry": m.nameKeys([]string{e.Key})})
		case !ok:
			viol("epoch:quitting-or-blacklisted-member-kept", map[string]any{"entry": m.nameKeys([]string{e.Key}), "note": "not an active member before the change"})
		case wnt.idx != e.Index || wnt.addr != e.Addr.ToHexString():
			viol("epoch:member-record-changed", map[string]any{"entry": m.nameKeys([]string{e.Key})})
		}
	}
	for k := range want {
		if !got[k] {
			viol("epoch:active-member-dropped", map[string]any{"entry": m.nameKeys([]string{k})})
		}
	}
}

// altTag: violations that involve a PeerPubkey string which is NOT the canonical encoding of the key it denotes (upper-case
// hex, uncompressed point ...) get their own stable key: they share one root cause (registerCandidate accepts any
// encoding while pool / black list / index records are keyed by string resp. raw bytes) and must not hide, nor be hidden
// by, a violation on canonically encoded keys.
func altTag(keys ...string) string {
	for _, k := range keys {
		if canonOfString(k) != k {
			return ":alternative-encoding"
		}
	}
	return ""
}

func (m *model) nameKeys(keys []string) []string {
	out := make([]string, len(keys))
	for i, k := range keys {
		out[i] = k
		if a := m.c.byKey[k]; a != nil {
			out[i] = a.Name
		}
	}
	return out
}

// invState: the state clauses of the property on a decoded snapshot; also advances the ghost key->index history.
func (m *model) invState(v *nmView, hist string) (newHist string, bads []bad) {
	viol := func(key string, extra map[string]any) {
		d := map[string]any{"state": v.describe(m.c)}
		for k, x := range extra {
			d[k] = x
		}
		bads = append(bads, bad{key, d})
	}
	if n := v.active(); n < node_manager.MIN_PEER_NUM {
		viol("pool:fewer-than-four-active-members", map[string]any{"active": n})
	}
	byCanon := map[string]string{}
	byIndex := map[uint32]string{}
	byStr := map[string]bool{}
	for _, e := range v.Pool {
		if byStr[e.Key] {
			viol("pool:public-key-in-two-entries", map[string]any{"entry": m.nameKeys([]string{e.Key}), "how": "identical string twice in the stored list"})
		}
		byStr[e.Key] = true
		if o, ok := byCanon[e.Canon]; ok && o != e.Key {
			viol("pool:public-key-in-two-entries"+altTag(o, e.Key), map[string]any{"entries": m.nameKeys([]string{o, e.Key}), "public_key": e.Canon})
		} else {
			byCanon[e.Canon] = e.Key
		}
		if o, ok := byIndex[e.Index]; ok && o != e.Canon {
			viol("pool:index-shared-by-distinct-keys", map[string]any{"index": e.Index})
		} else if !ok {
			byIndex[e.Index] = e.Canon
		}
		if e.Status > node_manager.BlackStatus {
			viol("pool:unknown-status", nil)
		}
	}
	// ghost history: PeerPubkey string -> index over the whole run
	h := map[string]string{}
	for _, kv := range strings.Split(hist, ";") {
		if i := strings.IndexByte(kv, '='); i > 0 {
			h[kv[:i]] = kv[i+1:]
		}
	}
	for _, e := range v.Pool {
		idx := fmt.Sprint(e.Index)
		if o, ok := h[e.Key]; ok && o != idx {
			viol("index:returning-key-got-a-different-index", map[string]any{"entry": m.nameKeys([]string{e.Key}), "was": o, "now": idx})
		}
		for k, o := range h {
			same := canonOfString(k) == e.Canon
			switch {
			case k == e.Key:
			case same && o != idx: // the same public key under another encoding holds / held another index
				viol("index:returning-key-got-a-different-index:alternative-encoding", map[string]any{"entry": m.nameKeys([]string{e.Key}), "other": m.nameKeys([]string{k}), "was": o, "now": idx})
			case !same && o == idx:
				viol("index:index-of-a-former-member-given-to-another-key"+altTag(k, e.Key), map[string]any{"entry": m.nameKeys([]string{e.Key}), "other": m.nameKeys([]string{k}), "index": idx})
			}
		}
		h[e.Key] = idx
	}
	ks := make([]string, 0, len(h))
	for k, i := range h {
		ks = append(ks, k+"="+i)
	}
	sort.Strings(ks)
	return strings.Join(ks, ";"), bads
}

// key: canonical form. Dropped / abstracted (nothing the property or the contract can observe differently):
//   - GovernanceView.TxHash (written, never read by any code);
//   - the absolute height: H and GovernanceView.Height are replaced by the class of delta = H - GovernanceView.Height in
//     {0, small (1..MBCV-2), MBCV-1, >= MBCV}; node_manager reads the height only as (height == gv.Height) and
//     (height - gv.Height >= MBCV), and "small" cannot leave its class by same/next steps within the depth bound (MBCV = 1000);
//   - the ghost LastEpochH only as (LastEpochH == H) and (LastEpochH == gv.Height).
func (m *model) key(s S) string {
	var b strings.Builder
	gvKey := polyenv.StorageKey(append(append([]byte{}, NM[:]...), []byte(node_manager.GOVERNANCE_VIEW)...))
	var view, gvh uint32
	for _, kv := range s.D {
		if kv.K == gvKey {
			raw, err := cstates.GetValueFromRawStorageItem([]byte(kv.V))
			gv := new(node_manager.GovernanceView)
			if err != nil || gv.Deserialization(common.NewZeroCopySource(raw)) != nil {
				panic("governance view undecodable")
			}
			view, gvh = gv.View, gv.Height
			continue
		}
		b.WriteString(kv.K)
		b.WriteByte(0)
		b.WriteString(kv.V)
		b.WriteByte(1)
	}
	delta := int64(s.H) - int64(gvh)
	cls := "small"
	switch {
	case delta < 0:
		cls = "neg"
	case delta == 0:
		cls = "0"
	case delta == int64(mbcv)-1:
		cls = "b-1"
	case delta >= int64(mbcv):
		cls = "big"
	}
	fmt.Fprintf(&b, "|view=%d|delta=%s|ghost=%v,%v|%s", view, cls, s.LastEpochH == s.H, s.LastEpochH == gvh, s.Hist)
	return b.String()
}

var mbcv uint32
var traceViolations int

func main() {
	debug.SetMemoryLimit(5 << 30)
	debug.SetGCPercent(300) // allocation-heavy (fresh MemDB skip lists per transaction inside the code under test); memory stays small
	r := ev.Start("C34", "model_checking")
	if pf := os.Getenv("C34_PROF"); pf != "" {
		f, _ := os.Create(pf)
		pprof.StartCPUProfile(f)
		defer pprof.StopCPUProfile()
	}
	r.Require("accept", "reject", "epoch_change", "register_accepted")
	// quick: pool 4 to depth 6, pool 5 to depth 5 (about 4x fewer states per level in pool 4); thorough: depth 9, every job gets
	// a quarter of the time budget and reports the depth it completed.
	depthOf := func(n int) int {
		d := r.QT(6, 9)
		if r.Quick() && n == 5 {
			d = 5
		}
		if v := os.Getenv("C34_DEPTH"); v != "" {
			fmt.Sscan(v, &d)
		}
		return d
	}
	start := time.Now()
	budget := r.QT(200, 1700) // seconds over all four jobs (ev's own deadline still applies)
	for i, a := range os.Args {
		if (a == "--budget" || a == "-budget") && i+1 < len(os.Args) {
			if d, err := time.ParseDuration(os.Args[i+1]); err == nil {
				budget = int(d.Seconds() * 0.9)
			}
		} else if strings.HasPrefix(a, "--budget=") || strings.HasPrefix(a, "-budget=") {
			if d, err := time.ParseDuration(a[strings.Index(a, "=")+1:]); err == nil {
				budget = int(d.Seconds() * 0.9)
			}
		}
	}
	// --replay <violation file>: re-execute the recorded event path on the recorded pool size and print every state
	var replay struct {
		PoolSize int      `json:"pool_size"`
		Path     []string `json:"path"`
	}
	if r.ReplayPath != "" {
		if err := r.LoadReplay(&replay); err != nil {
			r.HarnessError("cannot read replay: %v", err)
		}
		os.Setenv("C34_TRACE", strings.Join(replay.Path, ","))
	}
	aliases := os.Getenv("C34_ALIASES") != "0"
	cov := map[string]any{}
	total := mc.Stats{}
	var perPool []map[string]any
	type job struct {
		n       int
		profile string
	}
	var jobs []job
	for _, n := range []int{4, 5} {
		for _, p := range []string{"epochs", "votes"} {
			jobs = append(jobs, job{n, p})
		}
	}
	for ji, j := range jobs {
		n := j.n
		depth := depthOf(n)
		jobEnd := start.Add(time.Duration(budget*(ji+1)/len(jobs)) * time.Second)
		stop := func() bool { return r.Expired() || time.Now().After(jobEnd) }
		vals := polyenv.Keys(n)
		polyenv.Setup(0, vals)
		polyenv.InstallHeightLedger()
		m := &model{r: r, c: newCast(n), events: map[string]*evDef{}}
		if aliases {
			m.c.addAliases()
		}
		if os.Getenv("C34_TRACE") != "" {
			if j.profile != "epochs" || (replay.PoolSize != 0 && replay.PoolSize != n) {
				continue
			}
			m.union = true
			m.buildEvents("epochs", true)
			m.buildEvents("votes", true)
		} else {
			m.buildEvents(j.profile, r.Thorough())
		}
		w := mapworld.New()
		w.Genesis(vals)
		v0, err := decode(w)
		if err != nil {
			r.HarnessError("decode genesis: %v", err)
		}
		mbcv = v0.MBCV
		if v0.active() != n || v0.View != 1 {
			r.HarnessError("unexpected genesis state: %s", v0.describe(m.c))
		}
		hist0, b0 := m.invState(v0, "")
		for _, b := range b0 {
			r.Violation(b.Key, b.Detail)
		}
		init := S{D: w.Dump(), H: 1, LastEpochH: 0, Hist: hist0, c: &stCache{}}
		if tr := os.Getenv("C34_TRACE"); tr != "" {
			m.trace(init, strings.Split(tr, ","))
			continue
		}
		if j.profile == "epochs" {
			if msg := m.selfCheck(vals); msg != "" {
				r.HarnessError("mapworld differs from polyenv.World: %s", msg)
			}
		}
		if r.Expired() {
			r.Capped(fmt.Sprintf("pool %d profile %s not started", n, j.profile))
			continue
		}
		st := mc.BFS(mc.Config[S]{
			Init:   []S{init},
			Events: func(S, int) []string { return m.names },
			Step:   m.step,
			Key:    m.key,
			Check: func(prev S, e string, next S, path []string) {
				for _, b := range next.Bad {
					b.Detail["pool_size"] = n
					b.Detail["profile"] = j.profile
					b.Detail["path"] = path
					r.Violation(b.Key, b.Detail)
				}
				if len(path) == 3 && len(next.D) != len(prev.D) {
					r.Sample(map[string]any{"pool_size": n, "profile": j.profile, "path": path, "height": next.H})
				}
			},
			Inv: func(s S, path []string) {
				if len(path) == 0 {
					return
				}
				// state clauses are evaluated inside step for every intermediate state of a macro event too; here once more on
				// the representative that is stored (cheap, and independent of step's bookkeeping).
				v, err := decode(mapworld.NewFrom(s.D))
				if err != nil {
					r.Violation("state:undecodable", map[string]any{"path": path, "error": err.Error()})
					return
				}
				_, bs := m.invState(v, "")
				for _, b := range bs {
					b.Detail["pool_size"] = n
					b.Detail["path"] = path
					r.Violation(b.Key, b.Detail)
				}
			},
			MaxDepth: depth, Workers: 8, Stop: stop,
		})
		if st.Truncated {
			r.Capped(fmt.Sprintf("pool %d profile %s: deadline inside depth %d", n, j.profile, st.MaxDepth+1))
		}
		perPool = append(perPool, map[string]any{"pool_size": n, "profile": j.profile, "events": len(m.names), "states": st.States, "transitions": st.Transitions,
			"real_transactions": m.txs, "depth_bound": depth, "max_depth": st.MaxDepth, "complete_depth": completeDepth(st), "per_depth": st.PerDepth, "fixpoint": !st.DepthCapped && !st.Truncated})
		total.States += st.States
		total.Transitions += st.Transitions
		if st.MaxDepth > total.MaxDepth {
			total.MaxDepth = st.MaxDepth
		}
		cov["alphabet_"+j.profile+"_pool_"+fmt.Sprint(n)] = m.names
	}
	if os.Getenv("C34_TRACE") != "" {
		if traceViolations > 0 {
			os.Exit(1)
		}
		os.Exit(0)
	}
	if r.NViolations() == 0 { // (a mutant that removes a guard must end in VIOLATION, not in a vacuity error)
		r.Require("epoch_change_by_blackNode", "commit_accepted", "commit_rejected", "commit_rejected_same_block",
			"register_rejected_blacklisted", "quit_guard_hit", "black_guard_hit", "outsider_commit_after_timeout")
	}
	r.Assume("transactions carry the listed signer keys without verified signatures (block execution derives witnesses from the listed keys; signature checking is C18/C39)",
		"one transaction per exploration step; several steps may share a block height (same) or open the next block (next)",
		"voters of single-step votes and blacklist targets are the enumerated representatives listed in the alphabet (validators are symmetric up to pubkey order)")
	cov["rule"] = "BFS over real node_manager transactions; after every transaction: active>=4, key<->entry and key<->index injective (ghost history), blacklisted key cannot register / enter the pool; on every view change: view+1, pool'=active members as consensus minus quitting/blacklisted, not twice at one height"
	cov["states"] = total.States
	cov["transitions"] = total.Transitions
	cov["traces_validated_against_impl"] = total.Transitions
	cov["max_depth"] = total.MaxDepth
	cov["pools"] = perPool
	cov["alias_encodings_in_alphabet"] = aliases
	pprof.StopCPUProfile()
	r.Finish(cov)
}

// trace: debugging / replay aid (C34_TRACE=ev1,ev2,...): prints the decoded state after every event.
func (m *model) trace(s S, evs []string) {
	fmt.Printf("--- pool %d\n", m.c.N)
	for _, e := range evs {
		if _, ok := m.events[e]; !ok {
			fmt.Printf("%-28s unknown event\n", e)
			continue
		}
		ns, ok := m.step(s, e)
		if !ok {
			fmt.Printf("%-28s not applicable\n", e)
			continue
		}
		v, _ := decode(mapworld.NewFrom(ns.D))
		fmt.Printf("%-28s h=%d %s\n", e, ns.H, v.describe(m.c))
		for _, b := range ns.Bad {
			fmt.Printf("    VIOLATION %s\n", b.Key)
			traceViolations++
		}
		s = ns
	}
}

// selfCheck: the map-backed world must behave exactly like the leveldb-backed polyenv.World on a governance scenario.
func (m *model) selfCheck(vals []*polyenv.Acct) string {
	c := m.c
	var ops []mapworld.Op
	add := func(h uint32, tx *types.Transaction) { ops = append(ops, mapworld.Op{Tx: tx, Height: h}) }
	add(1, txRegister(c.Apps[0].Key, c.Apps[0].A, c.Apps[0].A))
	add(1, txRegister(c.Apps[0].Key, c.Apps[0].A, c.Out.A)) // wrong witness
	for _, v := range c.Vals {
		add(1, txPeer(node_manager.APPROVE_CANDIDATE, c.Apps[0].Key, v.A, v.A))
	}
	add(2, txCommit(polyenv.Single(c.Out.A)))
	add(2, txCommit(polyenv.Multi(vals)))
	add(2, txCommit(polyenv.Multi(vals)))
	for _, v := range c.Vals {
		add(3, txBlack([]string{c.Vals[0].Key}, v.A))
	}
	add(4, txPeer(node_manager.QUIT_NODE, c.Apps[0].Key, c.Apps[0].A, c.Apps[0].A))
	return mapworld.SelfCheck(vals, ops, ts)
}

// completeDepth: the largest d such that every state at depth < d has been expanded (all sequences of length <= d explored).
func completeDepth(st mc.Stats) int {
	if st.Truncated {
		return st.MaxDepth // the level being expanded when the deadline fired is incomplete
	}
	if st.DepthCapped {
		return st.MaxDepth
	}
	return st.MaxDepth + 1 // fixpoint: nothing new beyond
}
