package main

// Environment of the C34 driver: deterministic actors, transaction builders for every node_manager method, and a decoder of
// the node_manager records (PEER_POOL of the current view as the STORED LIST, GOVERNANCE_VIEW, BLACK_LIST, PEER_INDEX,
// PEER_APPLY, CANDIDITE_INDEX, VBFT_CONFIG) from a world snapshot. No property logic here.

import (
	"crypto/elliptic"
	"encoding/hex"
	"fmt"
	"sort"
	"strings"
	"sync"

	"github.com/ontio/ontology-crypto/ec"
	"github.com/ontio/ontology-crypto/keypair"
	"github.com/polynetwork/poly/common"
	cstates "github.com/polynetwork/poly/core/states"
	"github.com/polynetwork/poly/core/types"
	"github.com/polynetwork/poly/native/service/governance/node_manager"
	"github.com/polynetwork/poly/native/service/utils"
	"verif.local/engine/lib/mapworld"
	"verif.local/engine/polyenv"
)

var NM = utils.NodeManagerContractAddress

// actor: a named account; Key is the peer-pubkey STRING it uses in node_manager calls (for alias actors a different
// textual / binary encoding of the public key of Base).
type actor struct {
	Name string
	A    *polyenv.Acct
	Key  string
}

type cast struct {
	N      int
	Vals   []*actor // genesis consensus validators V0..V(N-1)
	Apps   []*actor // applicants A0, A1
	Out    *actor   // outsider: never owns a pool key
	Alias  []*actor // alternative encodings of pool keys (same public key, different PeerPubkey string)
	byName map[string]*actor
	byKey  map[string]*actor // PeerPubkey string -> actor
	byAddr map[common.Address]*actor
}

func newCast(n int) *cast {
	c := &cast{N: n, byName: map[string]*actor{}, byKey: map[string]*actor{}, byAddr: map[common.Address]*actor{}}
	add := func(name string, a *polyenv.Acct, key string) *actor {
		x := &actor{Name: name, A: a, Key: key}
		c.byName[name] = x
		c.byKey[key] = x
		if _, ok := c.byAddr[a.Addr]; !ok {
			c.byAddr[a.Addr] = x
		}
		return x
	}
	for i := 0; i < n; i++ {
		a := polyenv.Key(i)
		c.Vals = append(c.Vals, add(fmt.Sprintf("V%d", i), a, a.PubHex))
	}
	for i := 0; i < 2; i++ {
		a := polyenv.Key(20 + i)
		c.Apps = append(c.Apps, add(fmt.Sprintf("A%d", i), a, a.PubHex))
	}
	o := polyenv.Key(30)
	c.Out = add("O", o, o.PubHex)
	return c
}

// addAliases: other spellings of pool keys, usable as the peer-public-key PARAMETER of every node_manager method:
//
//	X^ = upper-case hex of the same serialized key (same bytes, different string);
//	X~ = mixed-case hex (every second hex letter upper-case);
//	X# = the uncompressed SEC1 encoding (0x04||X||Y) of the same public key (different bytes, same key).
func (c *cast) addAliases() {
	mk := func(base *actor, suffix, key string) {
		if key == base.Key {
			return
		}
		x := &actor{Name: base.Name + suffix, A: base.A, Key: key}
		c.byName[x.Name] = x
		c.byKey[key] = x
		c.Alias = append(c.Alias, x)
	}
	for i, b := range []*actor{c.Vals[0], c.Apps[0], c.Vals[1], c.Apps[1]} {
		mk(b, "^", strings.ToUpper(b.Key))
		if i < 2 {
			mk(b, "~", mixedCase(b.Key))
			mk(b, "#", uncompressedHex(b.A.Pub))
		}
	}
}

func mixedCase(s string) string {
	out := []byte(s)
	n := 0
	for i, ch := range out {
		if ch >= 'a' && ch <= 'f' {
			if n%2 == 0 {
				out[i] = ch - 'a' + 'A'
			}
			n++
		}
	}
	return string(out)
}

func ser(f func(*common.ZeroCopySink)) []byte {
	s := common.NewZeroCopySink(nil)
	f(s)
	return s.Bytes()
}

var txCache sync.Map

// mkTx builds (and caches) a real invoke transaction. Signatures are structurally present (public keys listed in the Sig
// entries, which is all block execution looks at); C18 is the property that runs signature verification.
func mkTx(method string, args []byte, signers ...polyenv.Signer) *types.Transaction {
	var sb strings.Builder
	sb.WriteString(method)
	sb.WriteByte('|')
	sb.WriteString(string(args))
	for _, s := range signers {
		sb.WriteString(fmt.Sprintf("|%d", s.M))
		for _, k := range s.Keys {
			sb.WriteString(k.PubHex[:12])
		}
	}
	k := sb.String()
	if v, ok := txCache.Load(k); ok {
		return v.(*types.Transaction)
	}
	tx := polyenv.Tx(NM, method, args, 1, signers...)
	txCache.Store(k, tx)
	return tx
}

func txRegister(key string, owner *polyenv.Acct, signer *polyenv.Acct) *types.Transaction {
	return mkTx(node_manager.REGISTER_CANDIDATE, ser(func(s *common.ZeroCopySink) {
		(&node_manager.RegisterPeerParam{PeerPubkey: key, Address: owner.Addr}).Serialization(s)
	}), polyenv.Single(signer))
}

func txPeer(method, key string, addr *polyenv.Acct, signer *polyenv.Acct) *types.Transaction {
	return mkTx(method, ser(func(s *common.ZeroCopySink) {
		(&node_manager.PeerParam{PeerPubkey: key, Address: addr.Addr}).Serialization(s)
	}), polyenv.Single(signer))
}

func txBlack(keys []string, voter *polyenv.Acct) *types.Transaction {
	return mkTx(node_manager.BLACK_NODE, ser(func(s *common.ZeroCopySink) {
		(&node_manager.PeerListParam{PeerPubkeyList: keys, Address: voter.Addr}).Serialization(s)
	}), polyenv.Single(voter))
}

func txCommit(signer polyenv.Signer) *types.Transaction {
	return mkTx(node_manager.COMMIT_DPOS, nil, signer)
}

// ---------------------------------------------------------------------------------------------------------------
// decoded node_manager state

type entry struct {
	Key    string // PeerPubkey string as stored
	Canon  string // hex of the canonical serialization of the public key it denotes ("!bad" if it does not parse)
	Index  uint32
	Addr   common.Address
	Status node_manager.Status
}

type nmView struct {
	View     uint32
	GvHeight uint32
	Pool     []entry           // current view, in stored order
	Black    map[string]string // hex(key bytes of BLACK_LIST record) -> canonical key
	PeerIdx  map[string]uint32 // hex(key bytes of PEER_INDEX record) -> index
	Apply    map[string]string // hex(key bytes of PEER_APPLY record) -> PeerPubkey string of the request
	CandIdx  uint32
	MBCV     uint32
	PoolKeys int // number of stored PEER_POOL records (all views)
}

var canonCache sync.Map

func canonOfBytes(b []byte) string {
	if v, ok := canonCache.Load(string(b)); ok {
		return v.(string)
	}
	c := canonOfBytesSlow(b)
	canonCache.Store(string(b), c)
	return c
}

func canonOfBytesSlow(b []byte) string {
	pk, err := keypair.DeserializePublicKey(b)
	if err != nil {
		return "!bad:" + hex.EncodeToString(b)
	}
	return hex.EncodeToString(keypair.SerializePublicKey(pk))
}

func canonOfString(s string) string {
	b, err := hex.DecodeString(s)
	if err != nil {
		return "!badhex:" + s
	}
	return canonOfBytes(b)
}

func uncompressedHex(pk keypair.PublicKey) string {
	// SEC1 uncompressed form of a P-256 key: 0x04 || X || Y (keypair.DeserializePublicKey accepts it: label PK_P256_NC).
	e := pk.(*ec.PublicKey)
	return hex.EncodeToString(elliptic.Marshal(e.Curve, e.X, e.Y))
}

func rawValue(w *mapworld.World, suffix ...[]byte) []byte {
	v := w.Storage(utils.ConcatKey(NM, suffix...))
	if v == nil {
		return nil
	}
	out, err := cstates.GetValueFromRawStorageItem(v)
	if err != nil {
		panic(fmt.Sprintf("raw storage item: %v", err))
	}
	return out
}

func decode(w *mapworld.World) (*nmView, error) {
	v := &nmView{Black: map[string]string{}, PeerIdx: map[string]uint32{}, Apply: map[string]string{}}
	gvb := rawValue(w, []byte(node_manager.GOVERNANCE_VIEW))
	if gvb == nil {
		return nil, fmt.Errorf("no governance view")
	}
	gv := new(node_manager.GovernanceView)
	if err := gv.Deserialization(common.NewZeroCopySource(gvb)); err != nil {
		return nil, err
	}
	v.View, v.GvHeight = gv.View, gv.Height
	pb := rawValue(w, []byte(node_manager.PEER_POOL), utils.GetUint32Bytes(gv.View))
	if pb == nil {
		return nil, fmt.Errorf("no peer pool for view %d", gv.View)
	}
	src := common.NewZeroCopySource(pb)
	n, eof := src.NextVarUint()
	if eof {
		return nil, fmt.Errorf("pool length")
	}
	for i := uint64(0); i < n; i++ {
		it := new(node_manager.PeerPoolItem)
		if err := it.Deserialization(src); err != nil {
			return nil, fmt.Errorf("pool item %d: %v", i, err)
		}
		v.Pool = append(v.Pool, entry{Key: it.PeerPubkey, Canon: canonOfString(it.PeerPubkey), Index: it.Index, Addr: it.Address, Status: it.Status})
	}
	if src.Len() != 0 {
		return nil, fmt.Errorf("pool record has %d trailing bytes", src.Len())
	}
	cb := rawValue(w, []byte(node_manager.VBFT_CONFIG))
	cfg := new(node_manager.Configuration)
	if cb == nil || cfg.Deserialization(common.NewZeroCopySource(cb)) != nil {
		return nil, fmt.Errorf("config")
	}
	v.MBCV = cfg.MaxBlockChangeView
	v.CandIdx = utils.GetBytesUint32(rawValue(w, []byte(node_manager.CANDIDITE_INDEX)))
	pre := polyenv.StorageKey(NM[:])
	for k, val := range w.M {
		if !strings.HasPrefix(k, pre) {
			continue
		}
		suf := k[len(pre):]
		item, err := cstates.GetValueFromRawStorageItem([]byte(val))
		if err != nil {
			return nil, err
		}
		switch {
		case strings.HasPrefix(suf, node_manager.BLACK_LIST):
			kb := []byte(suf[len(node_manager.BLACK_LIST):])
			v.Black[hex.EncodeToString(kb)] = canonOfBytes(kb)
		case strings.HasPrefix(suf, node_manager.PEER_INDEX):
			kb := []byte(suf[len(node_manager.PEER_INDEX):])
			v.PeerIdx[hex.EncodeToString(kb)] = utils.GetBytesUint32(item)
		case strings.HasPrefix(suf, node_manager.PEER_APPLY):
			kb := []byte(suf[len(node_manager.PEER_APPLY):])
			p := new(node_manager.RegisterPeerParam)
			if err := p.Deserialization(common.NewZeroCopySource(item)); err != nil {
				return nil, err
			}
			v.Apply[hex.EncodeToString(kb)] = p.PeerPubkey
		case strings.HasPrefix(suf, node_manager.PEER_POOL):
			v.PoolKeys++
		}
	}
	return v, nil
}

func (v *nmView) active() int {
	n := 0
	for _, e := range v.Pool {
		if e.Status == node_manager.CandidateStatus || e.Status == node_manager.ConsensusStatus {
			n++
		}
	}
	return n
}

// blackRecordsOf: the BLACK_LIST record keys (hex of the stored key bytes) that denote the given public key.
func (v *nmView) blackRecordsOf(canon string) []string {
	var out []string
	for kb, c := range v.Black {
		if c == canon {
			out = append(out, kb)
		}
	}
	sort.Strings(out)
	return out
}

// entriesOf: the PeerPubkey strings of the pool entries that denote the given public key.
func (v *nmView) entriesOf(canon string) []string {
	var out []string
	for _, e := range v.Pool {
		if e.Canon == canon {
			out = append(out, e.Key)
		}
	}
	return out
}

func (v *nmView) blackCanon() map[string]bool {
	m := map[string]bool{}
	for _, c := range v.Black {
		m[c] = true
	}
	return m
}

// consensus returns the accounts of the current consensus members (operator set / quorum voters), in a fixed order.
func (v *nmView) consensus(c *cast) []*polyenv.Acct {
	var names []string
	seen := map[string]bool{}
	for _, e := range v.Pool {
		if e.Status != node_manager.ConsensusStatus {
			continue
		}
		a := c.byKey[e.Key]
		if a == nil {
			panic("pool key of unknown actor: " + e.Key)
		}
		b := a.Name
		if !seen[b] {
			seen[b] = true
			names = append(names, b)
		}
	}
	sort.Strings(names)
	out := make([]*polyenv.Acct, len(names))
	for i, n := range names {
		out[i] = c.byName[n].A
	}
	return out
}

func (v *nmView) describe(c *cast) string {
	st := []string{"cand", "cons", "quit", "black"}
	var parts []string
	for _, e := range v.Pool {
		n := e.Key
		if a := c.byKey[e.Key]; a != nil {
			n = a.Name
		}
		s := "?"
		if int(e.Status) < len(st) {
			s = st[e.Status]
		}
		parts = append(parts, fmt.Sprintf("%s#%d:%s", n, e.Index, s))
	}
	var bl []string
	for kb := range v.Black {
		n := kb
		if a := c.byKey[kb]; a != nil {
			n = a.Name
		}
		bl = append(bl, n)
	}
	sort.Strings(bl)
	var ap []string
	for _, k := range v.Apply {
		n := k
		if a := c.byKey[k]; a != nil {
			n = a.Name
		}
		ap = append(ap, n)
	}
	sort.Strings(ap)
	return fmt.Sprintf("view=%d gvH=%d pool=[%s] black=%v apply=%v candIdx=%d", v.View, v.GvHeight, strings.Join(parts, " "), bl, ap, v.CandIdx)
}
