// C12 — the ledger recovers exactly after a crash at any persistence point (fault_enumeration).
//
// Space: every block history over {E empty, G one state-changing governance tx, X one probe tx that writes
// contract storage and emits two cross-chain records (PutMerkleVal)}^3 (quick); thorough: {E,G,X}^5 plus
// {E,G,F,X}^4 with F = one failing tx; x both commit paths (ExecuteBlock+SubmitBlock, AddBlock) x EVERY durable
// write event k of genesis initialisation and of every block's persistence (verifhook.OnPersist fires
// before each leveldb put/delete/batch-commit and merkle hash-file append). Crash executions run in a
// CHILD PROCESS that os.Exit()s inside the hook before write k (writes 1..k-1 landed, process-crash
// model, no torn writes); the parent then reopens the directory through the real restart path
// (NewLedgerStore + InitLedgerStoreWithGenesisBlock -> init -> recoverStore) and compares with the
// crash-free twin AT THE RECOVERED HEIGHT. Bound 2: a second crash at every write event of the recovery.
package main

import (
	"encoding/hex"
	"encoding/json"
	"fmt"
	"os"
	"os/exec"
	"path/filepath"
	"runtime"
	"runtime/debug"
	"sort"
	"strconv"
	"strings"
	"sync"

	"github.com/polynetwork/poly/common"
	"github.com/polynetwork/poly/common/verifhook"
	cstates "github.com/polynetwork/poly/core/states"
	"github.com/polynetwork/poly/core/store/ledgerstore"
	"github.com/polynetwork/poly/core/types"
	"github.com/polynetwork/poly/native"
	"github.com/polynetwork/poly/native/service/governance/node_manager"
	"github.com/polynetwork/poly/native/service/utils"
	"verif.local/engine/ev"
	"verif.local/engine/lib/probe"
	"verif.local/engine/polyenv"
)

const nVals = 4

// ---------------------------------------------------------------------------------------------
// block contents

func regArgs(k *polyenv.Acct) []byte {
	p := &node_manager.RegisterPeerParam{PeerPubkey: k.PubHex, Address: k.Addr}
	s := common.NewZeroCopySink(nil)
	p.Serialization(s)
	return s.Bytes()
}

// Large blocks: sizes chosen well above any plausible write-batch chunk size (a chunked writer would flush
// long before) while still executing in a fraction of a second.
const (
	largeKeys = 1500 // kind L: ONE transaction writing this many distinct contract-storage keys (state-store batch)
	largeTxs  = 1100 // kind M: this many tiny transactions (block-store + event-store batches, one state key each)
)

// bulk is a driver-registered native contract (same technique as engine/lib/probe, whose cells are a single
// byte): "fill"(n, tag) puts n distinct keys through the REAL CacheDB of the REAL NativeService.
var bulkAddr = common.Address{0xC1, 0x2B, 'v', 'e', 'r', 'i', 'f', '-', 'b', 'u', 'l', 'k', 0, 0, 0, 0, 0, 0, 0, 0x01}

func bulkFill(s *native.NativeService) ([]byte, error) {
	src := common.NewZeroCopySource(s.GetInput())
	n, eof1 := src.NextUint32()
	tag, eof2 := src.NextUint32()
	if eof1 || eof2 {
		return utils.BYTE_FALSE, fmt.Errorf("bulk: bad input")
	}
	for i := uint32(0); i < n; i++ {
		s.GetCacheDB().Put(utils.ConcatKey(bulkAddr, []byte(fmt.Sprintf("k%d/%d", tag, i))), cstates.GenRawStorageItem([]byte(fmt.Sprintf("v%d.%d", tag, i))))
	}
	return utils.BYTE_TRUE, nil
}

func installBulk() {
	native.Contracts[bulkAddr] = func(s *native.NativeService) { s.Register("fill", bulkFill) }
}

func bulkTx(n, tag, nonce uint32, signer *polyenv.Acct) *types.Transaction {
	sink := common.NewZeroCopySink(nil)
	sink.WriteUint32(n)
	sink.WriteUint32(tag)
	return polyenv.Tx(bulkAddr, "fill", sink.Bytes(), nonce, polyenv.Single(signer))
}

// txsFor: deterministic transactions of a block of the given kind at the given height.
func txsFor(kind byte, height uint32, vals []*polyenv.Acct) []*types.Transaction {
	switch kind {
	case 'G': // state-changing: a fresh key registers itself as candidate
		k := polyenv.Key(100 + int(height))
		return []*types.Transaction{polyenv.Tx(utils.NodeManagerContractAddress, node_manager.REGISTER_CANDIDATE, regArgs(k), height, polyenv.Single(k))}
	case 'L': // one transaction, largeKeys written keys
		return []*types.Transaction{bulkTx(largeKeys, height, height, polyenv.Key(500+int(height)))}
	case 'M': // largeTxs tiny transactions (one key each)
		signer := polyenv.Key(600 + int(height))
		txs := make([]*types.Transaction, largeTxs)
		for i := range txs {
			txs[i] = bulkTx(1, height*100000+uint32(i), height*100000+uint32(i), signer)
		}
		return txs
	case 'X': // cross-chain records: storage cell(h) = "X<h>", cross-state leaves H("X<h>"), H("Y<h>")
		v := fmt.Sprintf("X%d", height)
		return []*types.Transaction{probe.Tx([]probe.Op{{C: probe.Put, K: cell(height), V: v}, {C: probe.Merkle, V: v},
			{C: probe.Merkle, V: fmt.Sprintf("Y%d", height)}}, height, polyenv.Key(400+int(height)))}
	case 'F': // failing: registration of a foreign key signed by somebody else (witness check fails)
		k := polyenv.Key(200 + int(height))
		return []*types.Transaction{polyenv.Tx(utils.NodeManagerContractAddress, node_manager.REGISTER_CANDIDATE, regArgs(k), height, polyenv.Single(vals[0]))}
	}
	return nil
}

// cell is the probe storage cell written by an X block at the given height; crossKey its contract-storage key
// (what GetCrossStatesProof takes).
func cell(height uint32) byte       { return byte('a' + height) }
func crossKey(height uint32) []byte { return probe.StorageKey(cell(height)) }

func commit(ch *polyenv.Chain, b *types.Block, path string) error {
	if path == "sync" {
		return ch.CommitSync(b)
	}
	_, err := ch.Commit(b)
	return err
}

// ---------------------------------------------------------------------------------------------
// persistence-event labels (stable: function names, no line numbers)

var dropFrames = map[string]bool{"LedgerStoreImp.SubmitBlock": true, "LedgerStoreImp.AddBlock": true, "LedgerStoreImp.saveBlock": true}

func label(evName string) string {
	pcs := make([]uintptr, 48)
	n := runtime.Callers(2, pcs)
	fr := runtime.CallersFrames(pcs[:n])
	var names []string
	for {
		f, more := fr.Next()
		fn := f.Function
		if i := strings.Index(fn, "core/store/ledgerstore."); i >= 0 {
			s := fn[i+len("core/store/ledgerstore."):]
			s = strings.NewReplacer("(*", "", ")", "").Replace(s)
			if !dropFrames[s] && !strings.HasPrefix(s, "Verif") {
				s = strings.TrimPrefix(s, "LedgerStoreImp.")
				names = append(names, s)
			}
		}
		if !more {
			break
		}
	}
	for i, j := 0, len(names)-1; i < j; i, j = i+1, j-1 {
		names[i], names[j] = names[j], names[i]
	}
	return strings.Join(names, ">") + ":" + evName
}

// ---------------------------------------------------------------------------------------------
// crash machinery. The persistence hook is process-global; executions run in parallel goroutines, so
// the hook dispatches on the calling goroutine (all durable writes of the ledger store happen
// synchronously on the caller's goroutine). A crash = panic inside the hook BEFORE write k; the panic
// unwinds through the ledger code (only lock releases are deferred there), the driver closes the raw
// stores (leveldb Close persists nothing a process crash would lose under the stated model) and the
// directory is then reopened through the real restart path. C12_MODE=process (and the thorough tier's
// cross-check) instead runs the execution in a child process that os.Exit()s inside the hook.

type crashSignal struct{ Label string }

type runCtx struct {
	n, crashAt int
	record     bool
	cur        int
	events     []evInfo
}

var ctxs sync.Map // goroutine id -> *runCtx

func gid() uint64 {
	var buf [64]byte
	n := runtime.Stack(buf[:], false)
	f := strings.Fields(string(buf[:n]))
	id, _ := strconv.ParseUint(f[1], 10, 64)
	return id
}

func hook(e string) {
	v, ok := ctxs.Load(gid())
	if !ok {
		return
	}
	c := v.(*runCtx)
	c.n++
	if c.record {
		c.events = append(c.events, evInfo{label(e), c.cur})
	}
	if c.n == c.crashAt {
		panic(crashSignal{label(e)})
	}
}

// withCtx runs f with a persistence context bound to this goroutine. Returns the crash signal if the
// hook fired at crashAt; any other panic is re-raised.
func withCtx(c *runCtx, f func()) (crash *crashSignal) {
	g := gid()
	ctxs.Store(g, c)
	defer ctxs.Delete(g)
	defer func() {
		if x := recover(); x != nil {
			if cs, ok := x.(crashSignal); ok {
				crash = &cs
				return
			}
			panic(x)
		}
	}()
	f()
	return nil
}

// ledger handle that survives a panic in the middle of open / commit so that it can be closed.
type handle struct {
	l  *ledgerstore.LedgerStoreImp
	ch *polyenv.Chain
}

// openInto is polyenv.OpenChain, except that the store is reachable by the caller even if
// InitLedgerStoreWithGenesisBlock panics (crash signal) half way.
func (hd *handle) openInto(dir string, vals []*polyenv.Acct) error {
	l, err := ledgerstore.NewLedgerStore(dir)
	if err != nil {
		return err
	}
	hd.l = l
	g := polyenv.GenesisBlock(vals)
	if err := l.InitLedgerStoreWithGenesisBlock(g, polyenv.Pubs(vals)); err != nil {
		return err
	}
	hd.ch = &polyenv.Chain{Dir: dir, L: l, Vals: vals, Genesis: g}
	return nil
}

func (hd *handle) close() {
	if hd.l != nil {
		ev.Guard(func() { hd.l.Close() })
	}
}

func open(dir string, vals []*polyenv.Acct) (ch *polyenv.Chain, err error) {
	hd := &handle{}
	if x, p := ev.Guard(func() { err = hd.openInto(dir, vals) }); p {
		hd.close()
		return nil, fmt.Errorf("panic: %v", x)
	}
	if err != nil {
		hd.close()
		return nil, err
	}
	return hd.ch, nil
}

func closeChain(ch *polyenv.Chain) {
	ev.Guard(func() { ch.Close() })
}

// crashRun executes "open dir (init or recover), then apply blocks up to height upto" with a crash before
// the k-th durable write of this execution. Returns the crash label ("" = fewer than k writes happened).
func crashRun(r *ev.Run, mode, dir string, rf *ref, k, upto int, vals []*polyenv.Acct) (string, error) {
	if mode == "process" {
		code, out := runChild(dir, rf.BlocksFile, rf.Path, k, upto)
		switch code {
		case 77:
			return out, nil
		case 0:
			return "", nil
		}
		return "", fmt.Errorf("child exit %d: %s", code, out)
	}
	hd := &handle{}
	var err error
	crash := withCtx(&runCtx{crashAt: k}, func() {
		if err = hd.openInto(dir, vals); err != nil {
			return
		}
		for h := int(hd.l.GetCurrentBlockHeight()) + 1; h <= upto; h++ {
			if err = commit(hd.ch, rf.Blocks[h-1], rf.Path); err != nil {
				return
			}
		}
	})
	hd.close()
	if crash != nil {
		return crash.Label, nil
	}
	return "", err
}

// ---------------------------------------------------------------------------------------------
// child process: open (init / recover) and apply blocks, exiting inside the hook at event k

func childMain() {
	dir := os.Getenv("C12_DIR")
	path := os.Getenv("C12_PATH")
	k, _ := strconv.Atoi(os.Getenv("C12_CRASH"))
	upto, _ := strconv.Atoi(os.Getenv("C12_UPTO"))
	raw, err := os.ReadFile(os.Getenv("C12_BLOCKS"))
	if err != nil {
		fmt.Println("child: blocks:", err)
		os.Exit(5)
	}
	var blocks []*types.Block
	for _, ln := range strings.Fields(string(raw)) {
		bb, _ := hex.DecodeString(ln)
		b, err := types.BlockFromRawBytes(bb)
		if err != nil {
			fmt.Println("child: block decode:", err)
			os.Exit(5)
		}
		blocks = append(blocks, b)
	}
	native.Contracts[utils.NodeManagerContractAddress] = node_manager.RegisterNodeManagerContract
	probe.Install()
	installBulk()
	vals := polyenv.Keys(nVals)
	polyenv.Setup(0, vals)
	n := 0
	verifhook.OnPersist = func(e string) {
		n++
		if n == k {
			fmt.Println(label(e))
			os.Exit(77)
		}
	}
	ch, err := polyenv.OpenChain(dir, vals)
	if err != nil {
		fmt.Println("child: open:", err)
		os.Exit(3)
	}
	for h := int(ch.L.GetCurrentBlockHeight()) + 1; h <= upto; h++ {
		if err := commit(ch, blocks[h-1], path); err != nil {
			fmt.Println("child: commit:", h, err)
			os.Exit(4)
		}
	}
	ch.Close()
	fmt.Println(n)
	os.Exit(0)
}

func runChild(dir, blocksFile, path string, crash, upto int) (code int, out string) {
	cmd := exec.Command(os.Args[0])
	cmd.Env = append(os.Environ(), "C12_CHILD=1", "C12_DIR="+dir, "C12_BLOCKS="+blocksFile, "C12_PATH="+path,
		"C12_CRASH="+strconv.Itoa(crash), "C12_UPTO="+strconv.Itoa(upto))
	b, err := cmd.CombinedOutput()
	out = strings.TrimSpace(string(b))
	if err != nil {
		if ee, ok := err.(*exec.ExitError); ok {
			return ee.ExitCode(), out
		}
		return -1, out + " " + err.Error()
	}
	return 0, out
}

// ---------------------------------------------------------------------------------------------
// observation of an open ledger

type snap struct {
	BlockHeight uint32
	StateHeight uint32
	TipHash     string
	StateTip    string
	StateRoot   string            // GetStateMerkleRoot(height)
	NextRoot    string            // block root the next block must carry
	BlockAcc    string            // in-memory block accumulator size/root
	StateAcc    string            // in-memory state merkle tree size/root
	State       map[string]string // full state-store dump (hex)
	Event       map[string]string // full event-store dump (hex)
	Block       map[string]string // full block-store dump (hex)
	Lookups     map[string]string // API views: blocks by height/hash, txs, event notifies, merkle proofs
}

func dumpMap(kv [][2][]byte) map[string]string {
	m := make(map[string]string, len(kv))
	for _, e := range kv {
		m[hex.EncodeToString(e[0])] = hex.EncodeToString(e[1])
	}
	return m
}

func observe(ch *polyenv.Chain) *snap {
	l := ch.L
	s := &snap{Lookups: map[string]string{}}
	s.BlockHeight = l.GetCurrentBlockHeight()
	tip := l.GetCurrentBlockHash()
	s.TipHash = tip.ToHexString()
	sh, sheight, err := l.VerifStateCurrentBlock()
	if err != nil {
		s.StateTip = "err:" + err.Error()
	} else {
		s.StateTip = sh.ToHexString()
	}
	s.StateHeight = sheight
	if r, err := l.GetStateMerkleRoot(s.BlockHeight); err != nil {
		s.StateRoot = "err:" + err.Error()
	} else {
		s.StateRoot = r.ToHexString()
	}
	nr := l.GetBlockRootWithPreBlockHashes(s.BlockHeight+1, []common.Uint256{tip})
	s.NextRoot = nr.ToHexString()
	n, r := l.VerifBlockMerkleMem()
	s.BlockAcc = fmt.Sprintf("%d/%s", n, r.ToHexString())
	n, r = l.VerifStateMerkleMem()
	s.StateAcc = fmt.Sprintf("%d/%s", n, r.ToHexString())
	s.State = dumpMap(l.VerifDump("state"))
	s.Event = dumpMap(l.VerifDump("event"))
	s.Block = dumpMap(l.VerifDump("block"))
	lk := s.Lookups
	lk["hashstore"] = fmt.Sprint(l.VerifHashStoreOK())
	for h := uint32(0); h <= s.BlockHeight; h++ {
		hh := l.GetBlockHash(h)
		lk[fmt.Sprintf("hash@%d", h)] = hh.ToHexString()
		b, err := l.GetBlockByHeight(h)
		if err != nil || b == nil {
			lk[fmt.Sprintf("block@%d", h)] = fmt.Sprintf("err:%v", err)
			continue
		}
		bh := b.Hash()
		lk[fmt.Sprintf("block@%d", h)] = bh.ToHexString()
		for i, tx := range b.Transactions {
			th := tx.Hash()
			_, txh, err := l.GetTransaction(th)
			lk[fmt.Sprintf("tx@%d.%d", h, i)] = fmt.Sprintf("%s h=%d err=%v", th.ToHexString(), txh, err)
			nt, err := l.GetEventNotifyByTx(th)
			j, _ := json.Marshal(nt)
			lk[fmt.Sprintf("notify@%d.%d", h, i)] = fmt.Sprintf("%s err=%v", j, err)
		}
		nts, err := l.GetEventNotifyByBlock(h)
		j, _ := json.Marshal(nts)
		lk[fmt.Sprintf("notifies@%d", h)] = fmt.Sprintf("%s err=%v", j, err != nil)
		cr, err := l.GetCrossStateRoot(h)
		lk[fmt.Sprintf("crossroot@%d", h)] = fmt.Sprintf("%s err=%v", cr.ToHexString(), err)
		cp, err := l.GetCrossStatesProof(h, crossKey(h))
		lk[fmt.Sprintf("crossproof@%d", h)] = fmt.Sprintf("%x err=%v", cp, err != nil)
		sr, err := l.GetStateMerkleRoot(h)
		lk[fmt.Sprintf("stateroot@%d", h)] = fmt.Sprintf("%s err=%v", sr.ToHexString(), err)
		for ph := uint32(0); ph <= h; ph++ {
			p, err := l.GetMerkleProof([]byte{1}, ph, h)
			lk[fmt.Sprintf("proof@%d/%d", ph, h)] = fmt.Sprintf("%x err=%v", p, err)
		}
	}
	return s
}

var stateClass = map[string]string{"03": "bookkeeper", "05": "contract-storage", "10": "current-block", "13": "block-merkle-tree",
	"20": "state-merkle-tree", "21": "state-root", "22": "cross-states", "23": "cross-states-root"}

func mapDiff(a, b map[string]string) []string {
	var ks []string
	for k, v := range a {
		if b[k] != v {
			ks = append(ks, k)
		}
	}
	for k := range b {
		if _, ok := a[k]; !ok {
			ks = append(ks, k)
		}
	}
	sort.Strings(ks)
	return ks
}

// compare returns the list of symptoms (stable short names) by which got differs from the crash-free want.
func compare(got, want *snap) (sym []string, detail map[string]any) {
	detail = map[string]any{}
	add := func(s string, d any) { sym = append(sym, s); detail[s] = d }
	if got.StateHeight != got.BlockHeight {
		add("state-height!=block-height", fmt.Sprintf("block=%d state=%d", got.BlockHeight, got.StateHeight))
	}
	if got.TipHash != want.TipHash || got.StateTip != want.StateTip {
		add("tip-hash", []string{got.TipHash, got.StateTip, want.TipHash})
	}
	if d := mapDiff(got.State, want.State); len(d) > 0 {
		cl := map[string]bool{}
		for _, k := range d {
			c := stateClass[k[:2]]
			if c == "" {
				c = "prefix" + k[:2]
			}
			cl[c] = true
		}
		var cs []string
		for c := range cl {
			cs = append(cs, c)
		}
		sort.Strings(cs)
		add("state-store:"+strings.Join(cs, "+"), map[string]any{"keys": d})
	}
	if got.StateRoot != want.StateRoot {
		add("state-merkle-root", []string{got.StateRoot, want.StateRoot})
	}
	if got.BlockAcc != want.BlockAcc {
		add("block-accumulator", []string{got.BlockAcc, want.BlockAcc})
	}
	if got.NextRoot != want.NextRoot {
		add("next-block-root", []string{got.NextRoot, want.NextRoot})
	}
	if got.StateAcc != want.StateAcc {
		add("state-merkle-tree", []string{got.StateAcc, want.StateAcc})
	}
	if d := mapDiff(got.Event, want.Event); len(d) > 0 {
		add("event-store", d)
	}
	if d := mapDiff(got.Block, want.Block); len(d) > 0 {
		add("block-store", d)
	}
	if d := mapDiff(got.Lookups, want.Lookups); len(d) > 0 {
		cl := map[string]bool{}
		for _, k := range d {
			if i := strings.Index(k, "@"); i >= 0 {
				cl[k[:i]] = true
			} else {
				cl[k] = true
			}
		}
		var cs []string
		for c := range cl {
			cs = append(cs, c)
		}
		sort.Strings(cs)
		dd := map[string][2]string{}
		for _, k := range d {
			dd[k] = [2]string{got.Lookups[k], want.Lookups[k]}
		}
		add("lookup:"+strings.Join(cs, "+"), dd)
	}
	return
}

// ---------------------------------------------------------------------------------------------
// reference (crash-free) run of one history

type evInfo struct {
	Label string
	Block int // 0 = genesis initialisation, j = persistence of block j
}

type ref struct {
	Kinds      string // kinds of blocks 1..L (+ one trailing 'G' block)
	Path       string
	Blocks     []*types.Block
	BlocksFile string
	Events     []evInfo
	Snaps      []*snap // Snaps[h] = observation after block h
}

func reference(r *ev.Run, kinds, path string, vals []*polyenv.Acct, scratch string) *ref {
	rf := &ref{Kinds: kinds, Path: path}
	dir := polyenv.TmpDir("c12ref")
	defer os.RemoveAll(dir)
	c := &runCtx{record: true}
	var lines []string
	withCtx(c, func() {
		ch, err := open(dir, vals)
		if err != nil {
			r.HarnessError("reference open: %v", err)
		}
		rf.Snaps = append(rf.Snaps, observe(ch))
		for i := 0; i < len(kinds); i++ {
			h := uint32(i + 1)
			b := polyenv.Rehash(ch.NextBlock(txsFor(kinds[i], h, vals), nil))
			rf.Blocks = append(rf.Blocks, b)
			lines = append(lines, hex.EncodeToString(b.ToArray()))
			c.cur = i + 1
			if err := commit(ch, b, path); err != nil {
				r.HarnessError("reference chain %s/%s: honest block %d rejected: %v", kinds, path, h, err)
			}
			if ch.L.GetCurrentBlockHeight() != h {
				r.HarnessError("reference chain %s/%s: height %d after block %d", kinds, path, ch.L.GetCurrentBlockHeight(), h)
			}
			if kinds[i] == 'X' { // the X block must really produce provable cross-chain records
				cr, _ := ch.L.GetCrossStateRoot(h)
				if _, err := ch.L.GetCrossStatesProof(h, crossKey(h)); err != nil || cr == common.UINT256_EMPTY {
					r.HarnessError("X block at %d has no provable cross-state record: root %s err %v", h, cr.ToHexString(), err)
				}
				r.Class("cross-state-block-committed")
			}
			rf.Snaps = append(rf.Snaps, observe(ch))
		}
		closeChain(ch)
	})
	rf.Events = c.events
	rf.BlocksFile = filepath.Join(scratch, fmt.Sprintf("blocks-%s-%s.hex", kinds, path))
	if err := os.WriteFile(rf.BlocksFile, []byte(strings.Join(lines, "\n")), 0o644); err != nil {
		r.HarnessError("write blocks: %v", err)
	}
	return rf
}

// ---------------------------------------------------------------------------------------------
// verification of a crashed directory

func copyDir(src, dst string) error {
	return filepath.Walk(src, func(p string, info os.FileInfo, err error) error {
		if err != nil {
			return err
		}
		rel, _ := filepath.Rel(src, p)
		t := filepath.Join(dst, rel)
		if info.IsDir() {
			return os.MkdirAll(t, 0o755)
		}
		b, err := os.ReadFile(p)
		if err != nil {
			return err
		}
		return os.WriteFile(t, b, info.Mode())
	})
}

// verify reopens dir (real restart path) and checks everything C12 states. h = height of the block whose
// persistence was interrupted (0 = genesis initialisation). Returns the first symptom ("" = clean).
func verify(rf *ref, dir string, h int, vals []*polyenv.Acct) (sym string, detail map[string]any, recovered int) {
	detail = map[string]any{}
	ch, err := open(dir, vals)
	if err != nil {
		return "reopen-failed", map[string]any{"error": err.Error()}, -1
	}
	got := observe(ch)
	rh := int(got.BlockHeight)
	recovered = rh
	lo := h - 1
	if lo < 0 {
		lo = 0
	}
	var syms []string
	if rh < lo || rh > h {
		closeChain(ch)
		return "height-out-of-range", map[string]any{"block_height": rh, "state_height": got.StateHeight, "crashed_block": h}, rh
	}
	s1, d1 := compare(got, rf.Snaps[rh])
	for _, s := range s1 {
		syms = append(syms, s)
		detail[s] = d1[s]
	}
	// the next honest blocks of the reference chain must be accepted
	L := len(rf.Blocks)
	rejected := false
	for nh := rh + 1; nh <= L; nh++ {
		var cerr error
		if x, p := ev.Guard(func() { cerr = commit(ch, rf.Blocks[nh-1], rf.Path) }); p {
			cerr = fmt.Errorf("panic: %v", x)
		}
		if cerr == nil && int(ch.L.GetCurrentBlockHeight()) != nh {
			cerr = fmt.Errorf("no error but height stays %d", ch.L.GetCurrentBlockHeight())
		}
		if cerr != nil {
			syms = append(syms, "next-block-rejected")
			detail["next-block-rejected"] = fmt.Sprintf("block %d: %v", nh, cerr)
			rejected = true
			break
		}
	}
	if !rejected {
		s2, d2 := compare(observe(ch), rf.Snaps[L])
		for _, s := range s2 {
			syms = append(syms, "final:"+s)
			detail["final:"+s] = d2[s]
		}
	}
	want := rf.Snaps[L]
	if rejected {
		want = nil
	}
	closeChain(ch)
	// a second restart must succeed and see the same ledger
	ch2, err := open(dir, vals)
	if err != nil {
		syms = append(syms, "second-reopen-failed")
		detail["second-reopen-failed"] = err.Error()
	} else {
		if want != nil {
			s3, d3 := compare(observe(ch2), want)
			for _, s := range s3 {
				syms = append(syms, "second-reopen:"+s)
				detail["second-reopen:"+s] = d3[s]
			}
		}
		closeChain(ch2)
	}
	if len(syms) == 0 {
		return "", nil, rh
	}
	detail["all_symptoms"] = syms
	return syms[0], detail, rh
}

// ---------------------------------------------------------------------------------------------

type job struct {
	rf  *ref
	k   int  // 1-based event index in the reference run
	two bool // also enumerate a second crash inside the recovery
}

func parallel[T any](items []T, workers int, stop func() bool, f func(T)) (done int) {
	ch := make(chan T)
	var wg sync.WaitGroup
	for w := 0; w < workers; w++ {
		wg.Add(1)
		go func() {
			defer wg.Done()
			for it := range ch {
				f(it)
			}
		}()
	}
	for _, it := range items {
		if stop() {
			break
		}
		ch <- it
		done++
	}
	close(ch)
	wg.Wait()
	return
}

func main() {
	if os.Getenv("C12_CHILD") != "" {
		childMain()
		return
	}
	native.Contracts[utils.NodeManagerContractAddress] = node_manager.RegisterNodeManagerContract
	probe.Install()
	installBulk()
	r := ev.Start("C12", "fault_enumeration")
	debug.SetGCPercent(1000) // every block execution / store open allocates multi-MiB buffers: keep freed spans for reuse
	L := r.QT(3, 5)
	if v := os.Getenv("C12_L"); v != "" {
		L, _ = strconv.Atoi(v)
	}
	second := os.Getenv("C12_NO_SECOND") == "" // bound 2: second crash inside the recovery
	mode := os.Getenv("C12_MODE")              // "" = in-process panic, "process" = child process exit
	vals := polyenv.Keys(nVals)
	polyenv.Setup(0, vals)
	verifhook.OnPersist = hook
	scratch := polyenv.TmpDir("c12")
	defer os.RemoveAll(scratch)
	r.Require("large-block-crash", "recovered@h", "recovered@h-1", "crash-in-genesis-init", "crash-in-block", "path:commit", "path:sync", "cross-state-block-committed")
	workers := runtime.NumCPU()
	if workers > 16 {
		workers = 16
	}

	// --- histories and reference runs
	type hp struct{ kinds, path string }
	var hist []hp
	have := map[string]bool{}
	var gen func(p string, alpha string, n int)
	gen = func(p string, alpha string, n int) {
		if len(p) == n {
			if !have[p] {
				have[p] = true
				// trailing honest state-changing block: "it then accepts the next block"
				hist = append(hist, hp{p + "G", "commit"}, hp{p + "G", "sync"})
			}
			return
		}
		for _, c := range alpha {
			gen(p+string(c), alpha, n)
		}
	}
	alphabets := "{E,G,X}^3"
	if os.Getenv("C12_L") != "" {
		alphabets = fmt.Sprintf("{E,G,X}^%d", L)
		gen("", "EGX", L)
	} else if r.Quick() {
		alphabets = "{E,G,X}^3 + large blocks: EL, LE, EM, ME, LL"
		gen("", "EGX", 3)
		for _, p := range []string{"EL", "LE", "EM", "ME", "LL"} {
			gen(p, "", len(p))
		}
	} else {
		alphabets = "{E,G,X}^5 + {E,G,F,X}^4 + {E,X,L,M}^3"
		gen("", "EGX", 5)
		gen("", "EGFX", 4)
		gen("", "EXLM", 3)
	}
	if r.ReplayPath != "" {
		var d struct {
			History string `json:"history"`
			Path    string `json:"path"`
		}
		if err := r.LoadReplay(&d); err == nil && d.History != "" {
			hist = []hp{{d.History, d.Path}}
			L = len(d.History) - 1
		}
	}
	refs := make([]*ref, len(hist))
	idx := make([]int, len(hist))
	for i := range idx {
		idx[i] = i
	}
	nrefs := parallel(idx, workers, r.Expired, func(i int) { refs[i] = reference(r, hist[i].kinds, hist[i].path, vals, scratch) })
	if nrefs < len(hist) {
		r.Capped("reference runs")
	}
	var jobs []job
	seen := map[string]bool{}
	labels := map[string]int{}
	for _, rf := range refs[:nrefs] {
		for k := 1; k <= len(rf.Events); k++ {
			e := rf.Events[k-1]
			if e.Block > len(rf.Kinds)-1 { // the trailing block is the successor to submit, not a crash target
				continue
			}
			key := fmt.Sprintf("%s|%s|%d", rf.Kinds[:e.Block], rf.Path, k)
			// quick tier: the second crash inside recovery is enumerated for the first two blocks of the small
			// histories and for every block of the large-block histories (thorough: everywhere)
			two := second && (r.Thorough() || e.Block <= 2 || strings.ContainsAny(rf.Kinds, "LM"))
			if e.Block == 0 {
				key = fmt.Sprintf("genesis|%s|%d", rf.Path, k)
				two = second && rf.Path == "commit" // genesis init does not depend on the later commit path
			}
			if seen[key] {
				continue
			}
			seen[key] = true
			labels[e.Label]++
			jobs = append(jobs, job{rf, k, two})
		}
	}
	// shortest prefixes first: the first report of a key then carries a minimal history
	sort.SliceStable(jobs, func(a, b int) bool {
		return jobs[a].rf.Events[jobs[a].k-1].Block < jobs[b].rf.Events[jobs[b].k-1].Block
	})

	// --- crash executions
	var mu sync.Mutex
	recEvents := map[string]int{}
	maxRecEvents, crashRuns, secondRuns := 0, 0, 0
	symOf := map[string]string{} // job key -> first symptom (for the process-mode cross-check)
	report := func(j job, e evInfo, k2 int, label2 string, sym string, detail map[string]any, rec int) {
		phase := "block"
		if e.Block == 0 {
			phase = "genesis"
		}
		key := fmt.Sprintf("%s/crash-before:%s|%s", phase, e.Label, sym)
		if k2 > 0 {
			// keyed by the SECOND crash point: it is a crash point of the recovery / re-initialisation code
			phase = "recovery"
			if !strings.Contains(label2, ">recoverStore>") {
				phase = "genesis"
			}
			key = fmt.Sprintf("%s/crash-before:%s|%s", phase, label2, sym)
		}
		detail["history"] = j.rf.Kinds
		detail["path"] = j.rf.Path
		detail["crash_event_index"] = j.k
		detail["crash_label"] = e.Label
		detail["crashed_block_height"] = e.Block
		detail["recovered_height"] = rec
		if k2 > 0 {
			detail["second_crash_event_index_in_recovery"] = k2
			detail["second_crash_label"] = label2
		}
		var evs []string
		for i, x := range j.rf.Events {
			evs = append(evs, fmt.Sprintf("%d b%d %s", i+1, x.Block, x.Label))
		}
		detail["events_of_history"] = evs
		r.Violation(key, detail)
	}
	runJob := func(j job, mode string, crossCheck bool) {
		e := j.rf.Events[j.k-1]
		dir := polyenv.TmpDir("c12run")
		defer os.RemoveAll(dir)
		lbl, err := crashRun(r, mode, dir, j.rf, j.k, e.Block, vals)
		if err != nil || lbl != e.Label {
			r.HarnessError("crash run %s/%s k=%d (%s): got %q err %v, expected crash at %q", j.rf.Kinds, j.rf.Path, j.k, mode, lbl, err, e.Label)
		}
		dir2 := dir + ".img"
		if j.two && !crossCheck {
			if err := copyDir(dir, dir2); err != nil {
				r.HarnessError("copy: %v", err)
			}
			defer os.RemoveAll(dir2)
		}
		sym, detail, rec := verify(j.rf, dir, e.Block, vals)
		jk := fmt.Sprintf("%s|%s|%d", j.rf.Kinds[:e.Block], j.rf.Path, j.k)
		if crossCheck {
			r.Class("process-mode-cross-check")
			mu.Lock()
			want, ok := symOf[jk]
			mu.Unlock()
			if ok && want != sym {
				r.HarnessError("crash models disagree for %s: in-process %q vs child-process %q", jk, want, sym)
			}
			return
		}
		r.Eval()
		mu.Lock()
		crashRuns++
		symOf[jk] = sym
		mu.Unlock()
		if e.Block == 0 {
			r.Class("crash-in-genesis-init")
		} else {
			r.Class("crash-in-block")
		}
		r.Class("path:" + j.rf.Path)
		if e.Block > 0 && strings.ContainsRune("LM", rune(j.rf.Kinds[e.Block-1])) {
			r.Class("large-block-crash")
		}
		switch {
		case rec == e.Block:
			r.Class("recovered@h")
		case rec == e.Block-1:
			r.Class("recovered@h-1")
		case rec < 0:
			r.Class("reopen-failed")
		}
		r.Case(fmt.Sprintf("%s/rec=%d-%d/%s", e.Label, e.Block, rec, sym))
		if sym != "" {
			r.Class("violating-crash-point")
			report(j, e, 0, "", sym, detail, rec)
		} else {
			r.Class("clean-recovery")
		}
		if !j.two {
			return
		}
		// bound 2: crash again before every durable write of the recovery itself
		for k2 := 1; ; k2++ {
			d3 := polyenv.TmpDir("c12rec")
			if err := copyDir(dir2, d3); err != nil {
				r.HarnessError("copy: %v", err)
			}
			lbl2, err := crashRun(r, mode, d3, j.rf, k2, 0, vals)
			if lbl2 == "" { // recovery completed (or failed by itself: reported above as reopen-failed) before a k2-th write
				os.RemoveAll(d3)
				if err != nil {
					r.Class("recovery-fails-by-itself")
				}
				mu.Lock()
				recEvents[e.Label] = k2 - 1
				if k2-1 > maxRecEvents {
					maxRecEvents = k2 - 1
				}
				mu.Unlock()
				return
			}
			sym2, detail2, rec2 := verify(j.rf, d3, e.Block, vals)
			os.RemoveAll(d3)
			r.Eval()
			mu.Lock()
			secondRuns++
			mu.Unlock()
			r.Class("second-crash-in-recovery")
			r.Case(fmt.Sprintf("%s/then:%s/rec=%d-%d/%s", e.Label, lbl2, e.Block, rec2, sym2))
			if sym2 != "" {
				if sym != "" {
					// the single crash already violates: the second crash adds no new defect
					r.Class("second-crash-after-violating-first")
				} else {
					r.Class("violating-second-crash-point")
					report(j, e, k2, lbl2, sym2, detail2, rec2)
				}
			}
			if k2 > 64 {
				r.HarnessError("recovery with more than 64 write events?")
			}
		}
	}
	done := parallel(jobs, workers, r.Expired, func(j job) { runJob(j, mode, false) })
	if done < len(jobs) {
		r.Capped(fmt.Sprintf("crash executions: %d of %d (deadline)", done, len(jobs)))
	}
	// cross-check of the crash model: the same crash points of the shortest histories through real child
	// processes that exit inside the hook; verdicts must agree.
	nCross := 0
	if mode == "" && os.Getenv("C12_NO_CROSS") == "" {
		var cj []job
		for _, j := range jobs[:done] {
			if j.rf.Events[j.k-1].Block <= 1 && (r.Thorough() || j.rf.Path == "commit") {
				cj = append(cj, j)
			}
		}
		nCross = parallel(cj, workers, r.Expired, func(j job) { runJob(j, "process", true) })
		if nCross < len(cj) {
			r.Capped("process-mode cross-check")
		}
	}

	var lbl []string
	for l, n := range labels {
		lbl = append(lbl, fmt.Sprintf("%s x%d", l, n))
	}
	sort.Strings(lbl)
	r.Note("crash_point_labels", lbl)
	r.Note("recovery_write_events_by_first_crash_label", recEvents)
	if len(jobs) > 0 {
		var o []string
		for _, e := range jobs[0].rf.Events {
			o = append(o, fmt.Sprintf("b%d %s", e.Block, e.Label))
		}
		r.Sample(map[string]any{"history": jobs[0].rf.Kinds, "path": jobs[0].rf.Path, "events": o})
	}
	r.Assume("process-crash model: a completed leveldb write / batch and a completed hash-file write survive; no torn writes, no power-loss reordering",
		"crash = panic inside the persistence hook before write k, raw stores closed, directory reopened (cross-checked against real child-process exits on the shortest histories)",
		"block contents: empty, one state-changing registerCandidate, one probe-contract tx (storage write + two PutMerkleVal cross-chain records; engine/lib/probe dispatches to the real NativeService primitives), one failing registerCandidate (thorough only), L = one bulk tx writing 1500 keys, M = 1100 one-key txs (driver-registered bulk contract dispatching to the real CacheDB); real cross_chain_manager imports are not in the alphabet",
		"4 validators, private net (network id 0); blocks are built once by the crash-free twin and replayed byte-identically")
	os.RemoveAll(scratch) // Finish exits the process: deferred cleanup would not run
	r.Finish(map[string]any{
		"rule":                           "crash before every durable write k of genesis init and of every block of every history; reopen == crash-free twin at recovered height (h or h-1, never a mixture); next honest blocks accepted; second reopen equal",
		"history_length":                 L,
		"history_alphabets":              alphabets,
		"large_block_sizes":              map[string]int{"L_keys_written_by_one_tx": largeKeys, "M_transactions": largeTxs},
		"histories":                      len(hist),
		"reference_runs":                 nrefs,
		"commit_paths":                   []string{"ExecuteBlock+SubmitBlock", "AddBlock"},
		"distinct_crash_executions":      crashRuns,
		"second_crash_executions":        secondRuns,
		"second_crash_bound":             second,
		"max_write_events_in_a_recovery": maxRecEvents,
		"distinct_crash_labels":          len(labels),
		"process_mode_cross_checks":      nCross,
		"crash_mode":                     map[string]string{"": "in-process panic", "process": "child process exit"}[mode],
	})
}
