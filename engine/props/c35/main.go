// C35 — side-chain registry changes only through owner request + validator approval; one record per
// chain id; the registered record equals the approved request; update / removal only after a request by
// the registered owner of the CURRENT registration.
//
// BFS over all interleavings (to a depth) of register / update / quit requests by two owners (and forged
// requests naming the other owner) for two chain ids with approval rounds (macro: validators V1..Vq approve
// one after the other through the production tx path; N=4, q=3). Reference registry model per chain id:
// record, owner, registration epoch, pending register / update / quit requests stamped with the epoch.
package main

import (
	"bytes"
	"encoding/json"
	"strconv"
	"strings"
	"sync"

	"github.com/polynetwork/poly/common"
	_ "github.com/polynetwork/poly/native/service"
	"github.com/polynetwork/poly/native/service/governance/side_chain_manager"
	"verif.local/engine/ev"
	"verif.local/engine/lib/gov"
	"verif.local/engine/mc"
	"verif.local/engine/polyenv"
)

const h0 = 10

// ---------------------------------------------------------------------------------------------
// reference registry

type req struct {
	Rec   string // "owner/tag" content identity
	Owner string
	Epoch int // registration epoch of the chain id when the request was filed
}

type chainM struct {
	Reg   string // "" = not registered, else "owner/tag"
	Owner string
	Epoch int // number of registrations of this id so far
	Apply *req
	Upd   *req
	Quit  *req
}

type model struct{ C map[uint64]*chainM }

func (m model) clone() model {
	n := model{C: map[uint64]*chainM{}}
	for k, v := range m.C {
		c := *v
		n.C[k] = &c // requests are immutable once created
	}
	return n
}
func (m model) key() string { b, _ := json.Marshal(m); return string(b) }

// ---------------------------------------------------------------------------------------------

var (
	owners = []string{"o1", "o2"}
	chains = []uint64{1, 2}
	tags   = []string{"reg", "a", "b"}
)

type explorer struct {
	r   *ev.Run
	e   *gov.Env
	mu  sync.Mutex
	cnt map[string]int
}

func (x *explorer) count(c string) { x.r.Class(c); x.r.Case(c) }

// observe decodes the stored record of chain id and names it by the request content it equals.
func (x *explorer) observe(m map[string]string, id uint64) string {
	raw, ok := m[gov.KeySideChain(id)]
	if !ok {
		return ""
	}
	sc := new(side_chain_manager.SideChain)
	if err := sc.Deserialization(common.NewZeroCopySource(gov.Item(raw))); err != nil {
		return "?undecodable"
	}
	for _, o := range owners {
		for _, t := range tags {
			w := x.e.SC(o, id, t)
			if sc.Address == w.Owner && sc.ChainId == w.ChainID && sc.Router == w.Router && sc.Name == w.Name &&
				sc.BlocksToWait == w.BlocksToWait && bytes.Equal(sc.CCMCAddress, w.CCMC) && bytes.Equal(sc.ExtraInfo, w.Extra) {
				return o + "/" + t
			}
		}
	}
	for _, o := range owners { // unknown content: keep at least the owner for the reference's bookkeeping
		if sc.Address == x.e.A(o).Addr {
			return "?" + o + "/matches-no-request"
		}
	}
	return "?/matches-no-request"
}

func ownerOf(rec string) string { return strings.TrimPrefix(strings.Split(rec+"/", "/")[0], "?") }

func (x *explorer) events(s state, depth int) []string {
	var out []string
	for _, c := range chains {
		cs := strconv.FormatUint(c, 10)
		for _, o := range owners {
			out = append(out, "register|"+o+"|"+o+"|"+cs, "quit|"+o+"|"+o+"|"+cs, "update|"+o+"|"+o+"|"+cs+"|a")
		}
		out = append(out, "update|o1|o1|"+cs+"|b")
		// forged: the request names o1, the transaction is signed by o2 only
		out = append(out, "register|o1|o2|"+cs, "quit|o1|o2|"+cs, "update|o1|o2|"+cs+"|a")
		out = append(out, "approveRegister|"+cs, "approveUpdate|"+cs, "approveQuit|"+cs)
	}
	return out
}

type verdict struct {
	key    string
	detail map[string]any
}

type state struct {
	D    polyenv.Dump
	M    model
	last []verdict
}

func (x *explorer) step(s state, evn string) (state, bool) {
	e := x.e
	p := strings.Split(evn, "|")
	nm := s.M.clone()
	w := gov.NewWorldFrom(s.D)
	before := s.D.Map()
	var vs []verdict
	x.r.Eval()
	bad := func(key string, extra map[string]any) {
		d := map[string]any{"event": evn}
		for k, v := range extra {
			d[k] = v
		}
		vs = append(vs, verdict{key, d})
	}
	regBefore := map[uint64]string{}
	for _, c := range chains {
		regBefore[c] = x.observe(before, c)
	}
	var id uint64
	switch p[0] {
	case "register", "update", "quit":
		claimed, signer := p[1], p[2]
		id, _ = strconv.ParseUint(p[3], 10, 64)
		cm := nm.C[id]
		var res polyenv.Result
		switch p[0] {
		case "register":
			res = e.RegisterSideChain(w, claimed, signer, id, "reg", h0)
		case "update":
			res = e.UpdateSideChain(w, claimed, signer, id, p[4], h0)
		case "quit":
			res = e.QuitSideChain(w, claimed, signer, id, h0)
		}
		if !res.OK {
			x.count(p[0] + "-request-rejected")
			if claimed != signer {
				x.count("forged-request-rejected")
			}
			break
		}
		x.count(p[0] + "-request-accepted")
		if claimed != signer {
			bad("request-accepted-without-witness-of-named-owner/"+p[0], nil)
		}
		switch p[0] {
		case "register":
			if cm.Reg != "" || cm.Apply != nil {
				bad("register-request-accepted-for-registered-or-requested-id", map[string]any{"registered": cm.Reg, "pending": cm.Apply})
			}
			cm.Apply = &req{Rec: claimed + "/reg", Owner: claimed, Epoch: cm.Epoch}
		case "update":
			if cm.Reg == "" || cm.Owner != claimed {
				bad("update-request-accepted-from-non-owner", map[string]any{"registered": cm.Reg, "owner": cm.Owner})
			}
			cm.Upd = &req{Rec: claimed + "/" + p[4], Owner: claimed, Epoch: cm.Epoch}
		case "quit":
			if cm.Reg == "" || cm.Owner != claimed {
				bad("quit-request-accepted-from-non-owner", map[string]any{"registered": cm.Reg, "owner": cm.Owner})
			}
			cm.Quit = &req{Owner: claimed, Epoch: cm.Epoch}
		}
	case "approveRegister", "approveUpdate", "approveQuit":
		id, _ = strconv.ParseUint(p[1], 10, 64)
		method := map[string]string{"approveRegister": side_chain_manager.APPROVE_REGISTER_SIDE_CHAIN,
			"approveUpdate": side_chain_manager.APPROVE_UPDATE_SIDE_CHAIN, "approveQuit": side_chain_manager.APPROVE_QUIT_SIDE_CHAIN}[p[0]]
		acc := 0
		for i := 1; i <= e.Q(); i++ {
			if e.ApproveSC(w, method, id, e.V(i), h0).OK {
				acc++
			}
		}
		if acc == 0 {
			x.count("approval-round-rejected")
		} else {
			x.count("approval-round-accepted")
		}
	}
	d2 := w.Dump()
	after := d2.Map()
	// registry transition observed
	for _, c := range chains {
		was, now := regBefore[c], x.observe(after, c)
		cm := nm.C[c]
		if strings.HasPrefix(now, "?") {
			bad("registered-record-equals-no-request", map[string]any{"chain": c, "record": now})
		}
		if was == now {
			continue
		}
		info := map[string]any{"chain": c, "record_before": was, "record_after": now, "reference": *cm}
		if c != id || !strings.HasPrefix(p[0], "approve") {
			bad("registry-changed-without-approval-of-that-chain", info)
			cm.Reg, cm.Owner = now, ownerOf(now)
			continue
		}
		switch p[0] {
		case "approveRegister":
			switch {
			case cm.Apply == nil:
				bad("registered-without-pending-register-request", info)
			case was != "":
				bad("registered-twice-at-a-time", info)
			case now != cm.Apply.Rec:
				bad("registered-record-differs-from-approved-request", info)
			}
			x.count("registered")
			cm.Epoch++
			cm.Apply = nil
		case "approveUpdate":
			switch {
			case now == "":
				bad("removed-by-update-approval", info)
			case cm.Upd == nil:
				bad("updated-without-pending-update-request", info)
			case was == "":
				bad("chain-registered-by-update-approval-after-removal", info)
			case cm.Upd.Epoch != cm.Epoch || cm.Upd.Owner != cm.Owner:
				bad("updated-by-request-of-a-previous-registration", info)
			case now != cm.Upd.Rec:
				bad("updated-record-differs-from-approved-request", info)
			}
			x.count("updated")
			if was == "" {
				cm.Epoch++
			}
			cm.Upd = nil
		case "approveQuit":
			switch {
			case now != "":
				bad("record-changed-by-quit-approval", info)
			case cm.Quit == nil:
				bad("removed-without-pending-quit-request", info)
			case cm.Quit.Epoch != cm.Epoch || cm.Quit.Owner != cm.Owner:
				bad("removed-by-request-of-a-previous-registration", info)
			}
			x.count("removed")
			cm.Quit = nil
		}
		cm.Reg = now
		cm.Owner = ownerOf(now)
	}
	return state{D: d2, M: nm, last: vs}, true
}

func main() {
	r := ev.Start("C35", "model_checking")
	if r.ReplayPath == "" {
		r.Require("registered", "updated", "removed", "forged-request-rejected", "register-request-rejected", "update-request-rejected",
			"quit-request-rejected", "approval-round-rejected")
	}
	polyenv.InstallHeightLedger()
	e := gov.NewEnv(4)
	polyenv.Setup(0, e.Vals)
	x := &explorer{r: r, e: e, cnt: map[string]int{}}
	gw := gov.NewWorld()
	gw.Genesis(e.Vals)
	// cross-check the map-backed world against the leveldb-backed one on a full register/update/quit cycle
	rec := &gov.Recorder{W: gov.NewWorld()}
	rec.W.(*gov.World).Genesis(e.Vals)
	e.RegisterSideChain(rec, "o1", "o1", 1, "reg", h0)
	for _, m := range []string{side_chain_manager.APPROVE_REGISTER_SIDE_CHAIN, "", side_chain_manager.APPROVE_UPDATE_SIDE_CHAIN, "", side_chain_manager.APPROVE_QUIT_SIDE_CHAIN} {
		if m == "" {
			e.UpdateSideChain(rec, "o1", "o1", 1, "a", h0)
			e.QuitSideChain(rec, "o1", "o1", 1, h0)
			continue
		}
		for i := 1; i <= e.Q(); i++ {
			e.ApproveSC(rec, m, 1, e.V(i), h0)
		}
	}
	if diff := gov.SelfCheck(e.Vals, rec.Ops); diff != "" {
		r.HarnessError("map-backed world diverges from the leveldb-backed polyenv world: %s", diff)
	}
	init := state{D: gw.Dump(), M: model{C: map[uint64]*chainM{1: {}, 2: {}}}}
	if r.ReplayPath != "" { // re-execute one recorded operation list
		var d struct {
			Ops []string `json:"ops"`
		}
		if err := r.LoadReplay(&d); err != nil {
			r.HarnessError("replay: %v", err)
		}
		s := init
		for i, op := range d.Ops {
			n, _ := x.step(s, op)
			for _, v := range n.last {
				v.detail["ops"] = d.Ops[:i+1]
				r.Violation(v.key, v.detail)
			}
			s = n
		}
		r.Finish(map[string]any{"rule": "replay of one recorded operation list", "states": len(d.Ops) + 1, "transitions": len(d.Ops),
			"traces_validated_against_impl": len(d.Ops), "vacuity_guard": "off (replay)"})
	}
	depth := r.QT(9, 12)
	st := mc.BFS(mc.Config[state]{
		Init: []state{init}, Events: x.events, Step: x.step,
		Key: func(s state) string { return s.D.String() + s.M.key() },
		Check: func(prev state, evn string, next state, path []string) {
			for _, v := range next.last {
				v.detail["ops"] = path
				r.Violation(v.key, v.detail)
			}
		},
		MaxDepth: depth, Workers: 16, Stop: r.Expired,
	})
	if st.Truncated {
		r.Capped("BFS truncated by deadline")
	}
	r.Sample(map[string]any{"events": x.events(state{}, 0), "depth": depth})
	r.Assume("private net (network id 0): records always carry ExtraInfo (fork height 0)",
		"approval rounds are atomic macros of q=3 approvals by V1..V3 (partial rounds and other N are C32's space)",
		"requester address = address derived from the transaction's signature entry")
	r.Finish(map[string]any{
		"rule": "registry(chain) changes only in an approval round of that chain; register: pending request, id free, record == request; " +
			"update/quit: pending request filed by the owner of the current registration (epoch match), record == request; requests accepted only with the named owner's witness",
		"owners": owners, "chain_ids": chains, "validators": 4, "states": st.States, "transitions": st.Transitions,
		"traces_validated_against_impl": st.Transitions, "max_depth": st.MaxDepth, "per_depth": st.PerDepth, "depth_capped": st.DepthCapped,
	})
}
