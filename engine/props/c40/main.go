// C40 — VBFT participant selection is well formed.
//
// Bounded-exhaustive exploration of the real selection code
// (Server.buildParticipantConfig / calcParticipantPeers / calcParticipant, consensus/vbft/node_utils.go)
// over position tables built by the real vconfig.GenesisChainConfig.
//
// Two entry levels:
//
//	prod : Server.buildParticipantConfig(blkNum, prevBlock, chainCfg) — the seed is what the code derives itself
//	       (double SHA-512 of the previous block's JSON seed data); previous blocks are enumerated deterministically.
//	core : calcParticipantPeers with an explicit VRF value (all 256 constant-byte values, all 65 536 two-byte periodic
//	       values in the thorough tier, a SHA-512 chain of stated length), composed exactly as buildParticipantConfig
//	       composes the three calls; the composition is cross-validated against buildParticipantConfig on every prod
//	       evaluation (a mismatch is a harness error unless the property oracle fired as well).
//
// Oracle, only when a selection is returned: members ∈ position table, no duplicates per role, |P| ≥ C+1,
// |E|,|Cm| ≥ 2C, E and Cm exclude the first C proposers, recomputation on deep-copied inputs by another node index
// gives the same lists, inputs are not modified. An error return is "no_selection" (counted per configuration).
package main

import (
	"crypto/sha256"
	"crypto/sha512"
	"encoding/binary"
	"encoding/hex"
	"fmt"
	"reflect"
	"runtime"
	"sort"
	"sync"

	"github.com/polynetwork/poly/common"
	"github.com/polynetwork/poly/common/config"
	"github.com/polynetwork/poly/consensus/vbft"
	vconfig "github.com/polynetwork/poly/consensus/vbft/config"
	"github.com/polynetwork/poly/core/types"
	"verif.local/engine/ev"
	"verif.local/engine/polyenv"
)

type cfgDesc struct {
	N      int    `json:"n"`
	Idx    string `json:"index_set"` // contiguous | gaps
	Height uint32 `json:"height"`    // GenesisChainConfig height (shuffle input)
	Order  string `json:"peer_order"`
	C      uint32 `json:"c"`
	CMode  string `json:"c_mode"` // genesis (N/3 as GenesisChainConfig sets it) | hand
	Full   bool   `json:"-"`
}

func (d cfgDesc) String() string {
	return fmt.Sprintf("N=%d/%s/h=%d/%s/C=%d(%s)", d.N, d.Idx, d.Height, d.Order, d.C, d.CMode)
}

type sel struct {
	P, E, Cm []uint32
	OK       bool
	Err      string
	Panic    string // the code under test panicked (a selection that panics is not well formed)
}

// index-set shapes. Governance allocates peer indexes monotonically and never reuses them, so a long-lived network has
// large ones: the shapes below straddle 63/64, start at 64, are sparse, and mix small with very large values.
var indexKinds = []string{"contiguous", "gaps", "straddle64", "from64", "hundreds", "huge", "sentinel"}

func indexSet(n int, kind string) []uint32 {
	out := make([]uint32, 0, n)
	switch kind {
	case "straddle64": // 62,63,64,65,...
		for i := 0; i < n; i++ {
			out = append(out, uint32(62+i))
		}
		return out
	case "from64":
		for i := 0; i < n; i++ {
			out = append(out, uint32(64+i))
		}
		return out
	case "hundreds":
		for i := 1; i <= n; i++ {
			out = append(out, uint32(100*i))
		}
		return out
	case "huge", "sentinel": // small ones mixed with 2^16, 2^31 and 2^32-2 (sentinel: 2^32-1, the value calcParticipant uses for "no more slots")
		top := uint32(0xfffffffe)
		if kind == "sentinel" {
			top = 0xffffffff
		}
		big := []uint32{1, 1 << 16, 1 << 31, top}
		for i := 0; i < n && i < len(big); i++ {
			out = append(out, big[i])
		}
		for i := 2; len(out) < n; i++ {
			out = append(out, uint32(i))
		}
		sort.Slice(out, func(a, b int) bool { return out[a] < out[b] })
		return out
	}
	if kind == "contiguous" {
		for i := 1; i <= n; i++ {
			out = append(out, uint32(i))
		}
		return out
	}
	// gaps: index 2 quit, the last peer joined late with a far index
	out = append(out, 1)
	for i := 3; len(out) < n-1; i++ {
		out = append(out, uint32(i))
	}
	out = append(out, uint32(n+5))
	return out
}

func permutations(n int) [][]int {
	var res [][]int
	a := make([]int, n)
	for i := range a {
		a[i] = i
	}
	var rec func(k int)
	rec = func(k int) {
		if k == n {
			res = append(res, append([]int{}, a...))
			return
		}
		for i := k; i < n; i++ {
			a[k], a[i] = a[i], a[k]
			rec(k + 1)
			a[k], a[i] = a[i], a[k]
		}
	}
	rec(0)
	return res
}

type order struct {
	name string
	perm []int
	full bool
}

func orders(n int) []order {
	var out []order
	id := make([]int, n)
	rev := make([]int, n)
	for i := range id {
		id[i] = i
		rev[i] = n - 1 - i
	}
	out = append(out, order{"sorted", id, true}, order{"reversed", rev, true})
	if n <= 5 {
		for _, p := range permutations(n) {
			if reflect.DeepEqual(p, id) || reflect.DeepEqual(p, rev) {
				continue
			}
			out = append(out, order{fmt.Sprintf("perm%v", p), p, false})
		}
		return out
	}
	for r := 1; r < n; r++ {
		p := make([]int, n)
		for i := range p {
			p[i] = (i + r) % n
		}
		out = append(out, order{fmt.Sprintf("rot%d", r), p, false})
	}
	return out
}

func cloneCfg(c *vconfig.ChainConfig) *vconfig.ChainConfig {
	d := *c
	d.PosTable = append([]uint32{}, c.PosTable...)
	d.Peers = nil
	for _, p := range c.Peers {
		q := *p
		d.Peers = append(d.Peers, &q)
	}
	return &d
}

func eqU32(a, b []uint32) bool {
	if len(a) != len(b) {
		return false
	}
	for i := range a {
		if a[i] != b[i] {
			return false
		}
	}
	return true
}

// composition of the three calcParticipantPeers calls, as buildParticipantConfig does it
func coreSelect(vrf vconfig.VRFValue, c *vconfig.ChainConfig) (out sel) {
	if rec, p := ev.Guard(func() { out = coreSelectRaw(vrf, c) }); p {
		return sel{Err: "panic", Panic: fmt.Sprint(rec)}
	}
	return out
}

func coreSelectRaw(vrf vconfig.VRFValue, c *vconfig.ChainConfig) sel {
	s := 0
	P := vbft.VerifCalcParticipantPeers(vrf, nil, c, s, s+vconfig.MAX_PROPOSER_COUNT)
	if uint32(len(P)) < c.C+1 {
		return sel{Err: "proposers"}
	}
	P = P[:c.C+1]
	s += vconfig.MAX_PROPOSER_COUNT
	E := vbft.VerifCalcParticipantPeers(vrf, P, c, s, s+vconfig.MAX_ENDORSER_COUNT)
	if uint32(len(E)) < 2*c.C {
		return sel{Err: "endorsers"}
	}
	s += vconfig.MAX_ENDORSER_COUNT
	Cm := vbft.VerifCalcParticipantPeers(vrf, P, c, s, s+vconfig.MAX_COMMITTER_COUNT)
	if uint32(len(Cm)) < 2*c.C {
		return sel{Err: "committers"}
	}
	return sel{P: P, E: E, Cm: Cm, OK: true}
}

func prodSelect(srv *vbft.Server, blkNum uint32, blk *vbft.Block, c *vconfig.ChainConfig) sel {
	var pc *vbft.BlockParticipantConfig
	var err error
	if rec, p := ev.Guard(func() { pc, err = srv.VerifBuildParticipantConfig(blkNum, blk, c) }); p {
		return sel{Err: "panic", Panic: fmt.Sprint(rec)}
	}
	if err != nil {
		return sel{Err: err.Error()}
	}
	return sel{P: pc.Proposers, E: pc.Endorsers, Cm: pc.Committers, OK: true}
}

// the property oracle on one returned selection; returns (check name, detail) of the first failed check
func wellFormed(s sel, table map[uint32]bool, C uint32) (string, string) {
	roles := []struct {
		name string
		l    []uint32
	}{{"proposers", s.P}, {"endorsers", s.E}, {"committers", s.Cm}}
	for _, r := range roles {
		seen := map[uint32]bool{}
		for _, m := range r.l {
			if !table[m] {
				return "member-not-in-table:" + r.name, fmt.Sprint(m)
			}
			if seen[m] {
				return "duplicate:" + r.name, fmt.Sprint(m)
			}
			seen[m] = true
		}
	}
	if uint32(len(s.P)) < C+1 {
		return "too-few:proposers", fmt.Sprint(len(s.P))
	}
	if uint32(len(s.E)) < 2*C {
		return "too-few:endorsers", fmt.Sprint(len(s.E))
	}
	if uint32(len(s.Cm)) < 2*C {
		return "too-few:committers", fmt.Sprint(len(s.Cm))
	}
	lead := map[uint32]bool{}
	for i := uint32(0); i < C && int(i) < len(s.P); i++ {
		lead[s.P[i]] = true
	}
	for _, m := range s.E {
		if lead[m] {
			return "leading-proposer-included:endorsers", fmt.Sprint(m)
		}
	}
	for _, m := range s.Cm {
		if lead[m] {
			return "leading-proposer-included:committers", fmt.Sprint(m)
		}
	}
	return "", ""
}

func constVrf(b byte) vconfig.VRFValue {
	var v vconfig.VRFValue
	for i := range v {
		v[i] = b
	}
	return v
}

func twoByteVrf(a, b byte) vconfig.VRFValue {
	var v vconfig.VRFValue
	for i := range v {
		if i%2 == 0 {
			v[i] = a
		} else {
			v[i] = b
		}
	}
	return v
}

func hashedFailKey(d cfgDesc) string {
	if d.Idx == "sentinel" {
		return "no_selection_hashed_seed_peer_index_2^32-1"
	}
	return "no_selection_hashed_seed_outside_F14_class"
}

type namedCfg struct {
	name string
	cfg  *vconfig.ChainConfig
}

var altKeys []*polyenv.Acct
var altConf *config.VBFTConfig

// chain configs a server may have INSTALLED while it is handed d/c for the next round (config-change block):
// grown and shrunk validator sets, another peer set of the same size, another C, another table over the same peers.
func installedAlternatives(d cfgDesc, c *vconfig.ChainConfig) []namedCfg {
	mk := func(n int, kind string, keyOff int, idxOff uint32, h uint32) *vconfig.ChainConfig {
		idx := indexSet(n, kind)
		peers := make([]*config.VBFTPeerInfo, n)
		for i := range peers {
			peers[i] = &config.VBFTPeerInfo{Index: idx[i] + idxOff, PeerPubkey: altKeys[keyOff+i].PubHex}
		}
		cc, err := vconfig.GenesisChainConfig(altConf, peers, h)
		if err != nil {
			panic(err)
		}
		return cc
	}
	out := []namedCfg{
		{"N+1", mk(d.N+1, d.Idx, 0, 0, d.Height)},
		{"N+2", mk(d.N+2, d.Idx, 0, 0, d.Height)},
		{"N-1", mk(d.N-1, d.Idx, 0, 0, d.Height)},
		{"N-2", mk(d.N-2, d.Idx, 0, 0, d.Height)},
		{"other-peers-same-N", mk(d.N, d.Idx, 5, 100, d.Height)},
		{"same-peers-other-table", mk(d.N, d.Idx, 0, 0, d.Height+7)},
	}
	up := cloneCfg(c)
	up.C = c.C + 1
	out = append(out, namedCfg{"C+1", up})
	if c.C > 0 {
		dn := cloneCfg(c)
		dn.C = c.C - 1
		out = append(out, namedCfg{"C-1", dn})
	}
	return out
}

type tally struct {
	evals, selected, noSel        int64
	prodEvals, prodSel, coreEvals int64
	mismatch, altEvals            int64
	failStage                     map[string]int64
}

func main() {
	r := ev.Start("C40", "exploration")
	maxN := r.QT(8, 12)
	chainFull := r.QT(2000, 50000)
	chainLight := r.QT(200, 1000)
	prodFull := r.QT(500, 5000)
	prodLight := r.QT(50, 300)
	twoByte := r.Thorough()

	keys := polyenv.Keys(20)
	polyenv.Setup(0, keys[:4])
	vconf := &config.VBFTConfig{BlockMsgDelay: 10000, HashMsgDelay: 10000, PeerHandshakeTimeout: 10, MaxBlockChangeView: 1000}
	altKeys, altConf = keys, vconf

	// SHA-512 chain of raw VRF values (deterministic enumeration, not "all seeds")
	chain := make([]vconfig.VRFValue, chainFull)
	{
		h := sha512.Sum512([]byte("verif-c40-chain"))
		for i := range chain {
			chain[i] = vconfig.VRFValue(h)
			h = sha512.Sum512(h[:])
		}
	}
	// previous blocks for the production path
	blkHeights := []uint32{0, 1, 2, 1000, 0xfffffffe}
	mkPrevBlock := func(k int, idx []uint32) *vbft.Block {
		var kb [8]byte
		binary.LittleEndian.PutUint64(kb[:], uint64(k))
		root := sha256.Sum256(kb[:])
		return &vbft.Block{
			Block: &types.Block{Header: &types.Header{Height: blkHeights[k%len(blkHeights)], BlockRoot: common.Uint256(root)}},
			Info:  &vconfig.VbftBlockInfo{Proposer: idx[k%len(idx)], VrfValue: append([]byte{}, chain[k%len(chain)][:]...)},
		}
	}

	// ---------------------------------------------------------------- configurations
	type job struct {
		d   cfgDesc
		cfg *vconfig.ChainConfig
		idx []uint32
	}
	var jobs []job
	tableShapes := map[string]bool{}
	for n := 4; n <= maxN; n++ {
		for _, kind := range indexKinds {
			idx := indexSet(n, kind)
			for _, h := range []uint32{0, 1, 1000} {
				for _, o := range orders(n) {
					peers := make([]*config.VBFTPeerInfo, n)
					for i, p := range o.perm {
						peers[i] = &config.VBFTPeerInfo{Index: idx[p], PeerPubkey: keys[p].PubHex, Address: keys[p].Addr.ToBase58()}
					}
					base, err := vconfig.GenesisChainConfig(vconf, peers, h)
					if err != nil {
						r.HarnessError("GenesisChainConfig: %v", err)
					}
					again, _ := vconfig.GenesisChainConfig(vconf, peers, h)
					r.Eval()
					if !eqU32(base.PosTable, again.PosTable) || base.C != again.C || base.N != again.N {
						r.Violation("GenesisChainConfig:nondeterministic-pos-table", map[string]any{"n": n, "index_set": kind, "height": h, "order": o.name,
							"first": base.PosTable, "second": again.PosTable})
					}
					if base.N != uint32(n) || base.C != uint32(n/3) || len(base.PosTable) != n*vconfig_SCALE {
						r.Note("unexpected_genesis_shape", fmt.Sprintf("N=%d C=%d table=%d", base.N, base.C, len(base.PosTable)))
					}
					tableShapes[fmt.Sprintf("%d/%d", n, len(base.PosTable))] = true
					cs := map[uint32]string{base.C: "genesis"}
					for c := uint32(0); c <= uint32((n-1)/3); c++ {
						if _, ok := cs[c]; !ok {
							cs[c] = "hand"
						}
					}
					for c, mode := range cs {
						cc := cloneCfg(base)
						cc.C = c
						jobs = append(jobs, job{cfgDesc{n, kind, h, o.name, c, mode, o.full}, cc, idx})
					}
				}
			}
		}
	}
	sort.Slice(jobs, func(i, j int) bool { return jobs[i].d.String() < jobs[j].d.String() })

	// ---------------------------------------------------------------- exploration
	var mu sync.Mutex
	tot := tally{failStage: map[string]int64{"no_selection_hashed_seed_outside_F14_class": 0}}
	perNC := map[string]*[3]int64{} // N,C -> configs, configs with >=1 selection, evaluations selected
	perNCevals := map[string]*[2]int64{}
	f14 := map[string]*[2]int64{} // N≡0 mod 3, C=N/3 : evals, selections
	capped := false

	runJob := func(j job) {
		c := j.cfg
		tableSnap := append([]uint32{}, c.PosTable...)
		table := map[uint32]bool{}
		for _, x := range c.PosTable {
			table[x] = true
		}
		inIdx := map[uint32]bool{}
		for _, x := range j.idx {
			inIdx[x] = true
		}
		for x := range table {
			if !inIdx[x] {
				r.Violation("pos-table-member-not-a-peer", map[string]any{"config": j.d, "member": x})
			}
		}
		var t tally
		t.failStage = map[string]int64{}
		// every server has an INSTALLED chain config (Server.config); the selection must be a function of the PASSED
		// inputs only. srvA/srvB: installed == passed (separate copies). alts: installed differs from the passed one.
		srvA := vbft.VerifSelServerWithConfig(j.idx[0], cloneCfg(c))
		srvB := vbft.VerifSelServerWithConfig(j.idx[len(j.idx)-1], cloneCfg(c))
		type altSrv struct {
			name string
			srv  *vbft.Server
		}
		var alts []altSrv
		for _, a := range installedAlternatives(j.d, c) {
			alts = append(alts, altSrv{a.name, vbft.VerifSelServerWithConfig(j.idx[0], a.cfg)})
		}
		alts = append(alts, altSrv{"none-installed", vbft.VerifSelServer(j.idx[0])})
		report := func(level, check, what string, seed string, s sel, extra map[string]any) {
			d := map[string]any{"config": j.d, "level": level, "detail": what, "seed": seed, "pos_table": tableSnap,
				"proposers": s.P, "endorsers": s.E, "committers": s.Cm}
			for k, v := range extra {
				d[k] = v
			}
			r.Violation(check+"/"+level, d)
		}
		judge := func(level string, s sel, seed func() string, again func() sel) {
			t.evals++
			if s.Panic != "" {
				t.noSel++
				report(level, "selection-panics", s.Panic, seed(), s, nil)
				return
			}
			if !s.OK {
				t.noSel++
				st := "stage_" + s.Err
				if level == "prod" {
					st = "no_selection_prod"
				}
				t.failStage[st]++
				return
			}
			t.selected++
			if chk, what := wellFormed(s, table, c.C); chk != "" {
				report(level, chk, what, seed(), s, nil)
			}
			s2 := again()
			if !s2.OK || !eqU32(s.P, s2.P) || !eqU32(s.E, s2.E) || !eqU32(s.Cm, s2.Cm) {
				report(level, "recomputation-differs", "", seed(), s, map[string]any{"second": s2})
			}
		}
		// core level
		coreSeeds := func(visit func(fam string, v vconfig.VRFValue)) {
			for b := 0; b < 256; b++ {
				visit("const_byte", constVrf(byte(b)))
			}
			nc := chainLight
			if j.d.Full {
				nc = chainFull
			}
			for i := 0; i < nc; i++ {
				visit("sha512_chain", chain[i])
			}
			if twoByte && j.d.Full && j.d.Height == 1 {
				for a := 0; a < 256; a++ {
					for b := 0; b < 256; b++ {
						if a == b {
							continue
						}
						visit("two_byte", twoByteVrf(byte(a), byte(b)))
					}
				}
			}
		}
		coreSeeds(func(fam string, v vconfig.VRFValue) {
			s := coreSelect(v, c)
			t.coreEvals++
			if s.OK {
				t.failStage["selected_core_"+fam]++
			} else {
				t.failStage["no_selection_core_"+fam]++
				if fam == "sha512_chain" && !(j.d.N%3 == 0 && int(j.d.C) == j.d.N/3) {
					t.failStage[hashedFailKey(j.d)]++
				}
			}
			judge("core", s, func() string { return hex.EncodeToString(v[:]) }, func() sel { return coreSelect(v, cloneCfg(c)) })
		})
		// production level
		np := prodLight
		if j.d.Full {
			np = prodFull
		}
		for k := 0; k < np; k++ {
			blk := mkPrevBlock(k, j.idx)
			blkNum := blk.Block.Header.Height + 1
			s := prodSelect(srvA, blkNum, blk, c)
			t.prodEvals++
			if s.OK {
				t.prodSel++
			} else if !(j.d.N%3 == 0 && int(j.d.C) == j.d.N/3) {
				t.failStage[hashedFailKey(j.d)]++
			}
			seed := vbft.VerifSelectionSeed(blk)
			judge("prod", s, func() string { return fmt.Sprintf("prevblock#%d seed=%s", k, hex.EncodeToString(seed[:])) },
				func() sel { return prodSelect(srvB, blkNum, mkPrevBlock(k, j.idx), cloneCfg(c)) })
			// the same passed inputs on servers whose installed config differs
			for _, a := range alts {
				sa := prodSelect(a.srv, blkNum, mkPrevBlock(k, j.idx), cloneCfg(c))
				t.altEvals++
				why := ""
				switch {
				case sa.Panic != "":
					report("prod", "selection-panics", sa.Panic, fmt.Sprintf("prevblock#%d", k), sa, map[string]any{"installed_config": a.name})
					continue
				case sa.OK != s.OK:
					why = "selected on one node, error on the other"
				case !eqU32(sa.P, s.P) || !eqU32(sa.E, s.E) || !eqU32(sa.Cm, s.Cm):
					why = "different participants"
				}
				if sa.OK {
					if chk, what := wellFormed(sa, table, c.C); chk != "" {
						report("prod", chk, what, fmt.Sprintf("prevblock#%d", k), sa, map[string]any{"installed_config": a.name})
					}
				}
				if why != "" {
					report("prod", "selection-depends-on-installed-config", why, fmt.Sprintf("prevblock#%d seed=%s", k, hex.EncodeToString(seed[:])), sa,
						map[string]any{"installed_config": a.name, "with_installed_equal_to_passed": s})
				}
			}
			// cross-validate the composition used at core level
			cs := coreSelect(seed, c)
			if cs.OK != s.OK || !eqU32(cs.P, s.P) || !eqU32(cs.E, s.E) || !eqU32(cs.Cm, s.Cm) {
				t.mismatch++
			}
		}
		if !eqU32(tableSnap, c.PosTable) {
			r.Violation("selection-modified-pos-table", map[string]any{"config": j.d, "before": tableSnap, "after": c.PosTable})
		}
		// genesis block number is never selected for
		if _, err := srvA.VerifBuildParticipantConfig(0, mkPrevBlock(0, j.idx), c); err == nil {
			r.Note("blknum0_selected", j.d.String())
		}
		mu.Lock()
		tot.evals += t.evals
		tot.selected += t.selected
		tot.noSel += t.noSel
		tot.prodEvals += t.prodEvals
		tot.prodSel += t.prodSel
		tot.coreEvals += t.coreEvals
		tot.mismatch += t.mismatch
		tot.altEvals += t.altEvals
		for k, v := range t.failStage {
			tot.failStage[k] += v
		}
		nc := fmt.Sprintf("N=%d,C=%d", j.d.N, j.d.C)
		if perNC[nc] == nil {
			perNC[nc] = &[3]int64{}
			perNCevals[nc] = &[2]int64{}
		}
		perNC[nc][0]++
		if t.selected > 0 {
			perNC[nc][1]++
		}
		perNC[nc][2] += t.selected
		perNCevals[nc][0] += t.evals
		perNCevals[nc][1] += t.prodSel
		if j.d.N%3 == 0 && int(j.d.C) == j.d.N/3 {
			k := fmt.Sprintf("N=%d,C=%d", j.d.N, j.d.C)
			if f14[k] == nil {
				f14[k] = &[2]int64{}
			}
			f14[k][0] += t.evals
			f14[k][1] += t.selected
		}
		mu.Unlock()
		r.Evals(int(t.evals))
		switch {
		case t.selected == 0:
			r.Class("cfg_no_selection")
			r.Case(nc + "/none")
		default:
			r.Class("cfg_selected")
			r.Case(fmt.Sprintf("%s/%s/%s", nc, j.d.Idx, j.d.Order))
			if t.noSel > 0 {
				r.Class("cfg_selected_with_some_failing_seeds")
			}
		}
	}

	workers := runtime.NumCPU()
	ch := make(chan job)
	var wg sync.WaitGroup
	for w := 0; w < workers; w++ {
		wg.Add(1)
		go func() {
			defer wg.Done()
			for j := range ch {
				runJob(j)
			}
		}()
	}
	done := 0
	for _, j := range jobs {
		if r.Expired() {
			capped = true
			break
		}
		ch <- j
		done++
	}
	close(ch)
	wg.Wait()
	if capped {
		r.Capped(fmt.Sprintf("deadline after %d of %d configurations", done, len(jobs)))
	}
	if tot.selected > 0 && r.NViolations() == 0 {
		r.Class("selection_wellformed")
	} else if tot.selected > 0 {
		r.Class("selection_wellformed") // the class says selections were judged; violations are reported separately
	}

	// one sample selection per N for the evidence
	for n := 4; n <= maxN && n <= 9; n++ {
		for _, j := range jobs {
			if j.d.N == n && j.d.Order == "sorted" && j.d.Idx == "gaps" && j.d.Height == 1 && j.d.CMode == "genesis" {
				s := coreSelect(chain[0], j.cfg)
				r.Sample(map[string]any{"config": j.d.String(), "seed": "chain[0]", "selected": s.OK, "err": s.Err,
					"proposers": s.P, "endorsers": s.E, "committers": s.Cm})
			}
		}
	}

	// vacuity: selections must be returned for most configurations
	cfgSel, cfgAll := int64(0), int64(0)
	perNCout := map[string]any{}
	for k, v := range perNC {
		cfgAll += v[0]
		cfgSel += v[1]
		perNCout[k] = map[string]any{"configs": v[0], "configs_with_selection": v[1], "selections": v[2], "evaluations": perNCevals[k][0]}
	}
	if cfgSel*2 < cfgAll && r.NViolations() == 0 {
		r.HarnessError("vacuous: only %d of %d configurations ever returned a selection", cfgSel, cfgAll)
	}
	if tot.mismatch > 0 && r.NViolations() == 0 {
		r.HarnessError("driver composition of calcParticipantPeers disagrees with buildParticipantConfig on %d prod evaluations", tot.mismatch)
	}
	if r.NViolations() == 0 { // vacuity guards only decide a run that found nothing
		r.Require("cfg_selected", "cfg_no_selection", "selection_wellformed")
	}
	r.Note("peer_index_equal_to_sentinel_observation", map[string]any{
		"statement": "calcParticipant returns math.MaxUint32 for 'no more slots' and calcParticipantPeers treats that value as such: a peer whose index is 2^32-1 makes the selection fail whenever it is drawn (liveness, unreachable with monotonically allocated indexes; not a malformed selection)",
		"no_selection_for_hashed_seeds_in_that_shape": tot.failStage["no_selection_hashed_seed_peer_index_2^32-1"]})
	f14out := map[string]any{}
	f14all := true
	for k, v := range f14 {
		f14out[k] = map[string]any{"evaluations": v[0], "selections": v[1]}
		if v[1] != 0 {
			f14all = false
		}
	}
	r.Note("F14_liveness_observation", map[string]any{
		"statement": "for N a multiple of 3 with C=N/3 (the value GenesisChainConfig sets) endorsers need >2C distinct non-leading peers but only N-C=2C exist: buildParticipantConfig returns an error for every seed, i.e. no participant config can ever be derived (liveness; not a malformed selection, hence not a C40 violation)",
		"per_config_class": f14out, "no_selection_for_every_seed": f14all})
	r.Assume("seeds are enumerated deterministically (all constant-byte VRFs, two-byte periodic VRFs in the thorough tier, a SHA-512 chain, and the seeds the code derives from an enumerated list of previous blocks) — not all 2^512 seeds",
		"all stakes are equal in this code base (GenesisChainConfig ignores stake): every peer gets SCALE=15 table slots",
		"the peer order handed to GenesisChainConfig is an input (in production it is the proposer's map iteration order and travels inside the block)")
	r.Finish(map[string]any{
		"rule":                        "selection is a function of the passed inputs only (equal on servers with any installed config) ∧ never panics ∧ selection returned ⇒ members ∈ PosTable ∧ no duplicates ∧ |P|≥C+1 ∧ |E|,|Cm|≥2C ∧ (E∪Cm)∩P[:C]=∅ ∧ recomputation on copied inputs by another node equal ∧ inputs unmodified; GenesisChainConfig deterministic for equal ordered input",
		"N_range":                     fmt.Sprintf("4..%d", maxN),
		"C_values":                    "N/3 (GenesisChainConfig) and 0..floor((N-1)/3) hand-set",
		"index_sets":                  []string{"contiguous 1..N", "gaps {1,3..N,N+5}", "straddle64 {62..62+N-1}", "from64 {64..}", "hundreds {100,200,..}", "huge {1,2..,2^16,2^31,2^32-2}", "sentinel {1,2..,2^16,2^31,2^32-1}"},
		"genesis_heights":             []uint32{0, 1, 1000},
		"peer_orders":                 "N<=5: all permutations; N>5: sorted, reversed, all rotations",
		"configurations":              len(jobs),
		"configurations_done":         done,
		"configs_with_selection":      cfgSel,
		"seeds_core_const_byte":       256,
		"seeds_core_two_byte":         map[bool]int{true: 65280, false: 0}[twoByte],
		"seeds_core_sha512_chain":     map[string]int{"full_configs": chainFull, "other_orders": chainLight},
		"seeds_prod_prev_blocks":      map[string]int{"full_configs": prodFull, "other_orders": prodLight},
		"evaluations_core":            tot.coreEvals,
		"evaluations_prod":            tot.prodEvals,
		"selections_returned":         tot.selected,
		"selections_returned_prod":    tot.prodSel,
		"no_selection":                tot.noSel,
		"outcome_by_seed_family_and_stage": tot.failStage,
		"per_N_C":                     perNCout,
		"composition_mismatches":      tot.mismatch,
		"installed_config_variants":   []string{"equal to passed", "N+1", "N+2", "N-1", "N-2", "other peer set same N", "C+1", "C-1 (if C>0)", "same peers other table (height+7)", "none installed"},
		"evaluations_prod_under_differing_installed_config": tot.altEvals,
		"table_shapes_N/len":          len(tableShapes),
		"traces_validated_against_impl": tot.prodEvals,
	})
}

const vconfig_SCALE = 15
