package main

import (
	"sort"
	"strings"
)

// shape is a rooted block tree: node 0 is the trust root, node i>0 has parent par[i] < i and a
// colour col[i] (difficulty class: timestamp delta for ETH, compact bits for BTC).
type shape struct {
	par []int
	col []int
}

func (s shape) n() int { return len(s.par) - 1 }

func (s shape) String() string {
	var b strings.Builder
	for i := 1; i < len(s.par); i++ {
		if i > 1 {
			b.WriteByte(' ')
		}
		b.WriteString(itoa(i) + "<-" + itoa(s.par[i]) + ":" + itoa(s.col[i]))
	}
	return b.String()
}

func itoa(i int) string {
	if i == 0 {
		return "0"
	}
	neg := i < 0
	if neg {
		i = -i
	}
	var d []byte
	for i > 0 {
		d = append([]byte{byte('0' + i%10)}, d...)
		i /= 10
	}
	if neg {
		return "-" + string(d)
	}
	return string(d)
}

// canon is the canonical form of a coloured unordered rooted tree (AHU encoding).
func canon(s shape, node int) string {
	var kids []string
	for i := node + 1; i < len(s.par); i++ {
		if s.par[i] == node {
			kids = append(kids, canon(s, i))
		}
	}
	sort.Strings(kids)
	c := ""
	if node > 0 {
		c = itoa(s.col[node])
	}
	return c + "(" + strings.Join(kids, "") + ")"
}

// enumShapes returns one representative of every coloured unordered rooted tree with exactly n
// non-root nodes and colours 0..c-1: all parent vectors (par[i] in 0..i-1) x all colourings,
// de-duplicated by canonical form.
func enumShapes(n, c int) []shape {
	seen := map[string]bool{}
	var out []shape
	par := make([]int, n+1)
	col := make([]int, n+1)
	par[0] = -1
	var recCol func(i int)
	recCol = func(i int) {
		if i > n {
			s := shape{append([]int{}, par...), append([]int{}, col...)}
			k := canon(s, 0)
			if !seen[k] {
				seen[k] = true
				out = append(out, s)
			}
			return
		}
		for x := 0; x < c; x++ {
			col[i] = x
			recCol(i + 1)
		}
	}
	var recPar func(i int)
	recPar = func(i int) {
		if i > n {
			recCol(1)
			return
		}
		for p := 0; p < i; p++ {
			par[i] = p
			recPar(i + 1)
		}
	}
	recPar(1)
	return out
}

// forkPair: common prefix of length p, then fork A (length a, colour ca) and fork B (length b, colour cb).
func forkPair(p, a, b, cp, ca, cb int) shape {
	s := shape{par: []int{-1}, col: []int{0}}
	last := 0
	for i := 0; i < p; i++ {
		s.par = append(s.par, last)
		s.col = append(s.col, cp)
		last = len(s.par) - 1
	}
	fork := last
	for i := 0; i < a; i++ {
		s.par = append(s.par, last)
		s.col = append(s.col, ca)
		last = len(s.par) - 1
	}
	last = fork
	for i := 0; i < b; i++ {
		s.par = append(s.par, last)
		s.col = append(s.col, cb)
		last = len(s.par) - 1
	}
	return s
}
