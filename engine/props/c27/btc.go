package main

import (
	"bytes"
	"encoding/binary"
	"encoding/hex"
	"fmt"
	"time"

	"github.com/btcsuite/btcd/blockchain"
	"github.com/btcsuite/btcd/chaincfg"
	"github.com/btcsuite/btcd/chaincfg/chainhash"
	"github.com/btcsuite/btcd/wire"
	"github.com/polynetwork/poly/native/service/header_sync/btc"
	hscommon "github.com/polynetwork/poly/native/service/header_sync/common"
	"verif.local/engine/lib/hsenv"
)

const btcRootHeight = 100

// btcAd drives header_sync/btc on a regtest/simnet side chain: real proof of work at the net's
// (trivial) limit; compact bits per colour give different work per header.
type btcAd struct {
	chain uint64
	bits  []uint32 // per colour
}

func (a *btcAd) name() string       { return "btc" }
func (a *btcAd) chainID() uint64    { return a.chain }
func (a *btcAd) rootHeight() uint64 { return btcRootHeight }

func btcSer(h *wire.BlockHeader) []byte {
	var b bytes.Buffer
	if err := h.Serialize(&b); err != nil {
		panic(err)
	}
	return b.Bytes()
}

// mine searches the nonce so that the header hash meets (good) or misses (!good) its own target.
func mine(h *wire.BlockHeader, good bool) {
	target := blockchain.CompactToBig(h.Bits)
	for n := uint32(0); ; n++ {
		h.Nonce = n
		bh := h.BlockHash()
		ok := blockchain.HashToBig(&bh).Cmp(target) <= 0
		if ok == good {
			return
		}
	}
}

func (a *btcAd) build(sh shape) (*instance, error) {
	g := chaincfg.RegressionNetParams.GenesisBlock.Header
	n := sh.n()
	hs := make([]*wire.BlockHeader, n+1)
	hs[0] = &g
	in := &instance{sh: sh, raw: make([][]byte, n+1), hash: make([]string, n+1)}
	graw := btcSer(&g)
	var hb [4]byte
	binary.BigEndian.PutUint32(hb[:], btcRootHeight)
	in.raw[0] = append(graw, hb[:]...)
	hh := g.BlockHash()
	in.hash[0] = hex.EncodeToString(hh.CloneBytes())
	seen := map[string]bool{in.hash[0]: true}
	for i := 1; i <= n; i++ {
		var mr chainhash.Hash
		mr[0] = byte(i)
		h := &wire.BlockHeader{Version: 1, PrevBlock: hs[sh.par[i]].BlockHash(), MerkleRoot: mr,
			Timestamp: time.Unix(1_600_000_000+int64(i), 0), Bits: a.bits[sh.col[i]]}
		mine(h, true)
		hs[i] = h
		in.raw[i] = btcSer(h)
		x := h.BlockHash()
		in.hash[i] = hex.EncodeToString(x.CloneBytes())
		if seen[in.hash[i]] {
			return nil, fmt.Errorf("hash collision")
		}
		seen[in.hash[i]] = true
	}
	// invalid: child of the root whose hash misses its target (handler ignores it silently), and a header
	// whose target is above the net's proof-of-work limit.
	var mr chainhash.Hash
	mr[0] = 0xee
	b1 := &wire.BlockHeader{Version: 1, PrevBlock: g.BlockHash(), MerkleRoot: mr, Timestamp: time.Unix(1_600_000_500, 0), Bits: 0x2000ffff}
	mine(b1, false)
	mr[0] = 0xef
	b2 := &wire.BlockHeader{Version: 1, PrevBlock: g.BlockHash(), MerkleRoot: mr, Timestamp: time.Unix(1_600_000_501, 0), Bits: 0x2100ffff}
	mine(b2, true) // meets its own target, but the target is above the net's limit
	in.bad = [][]byte{btcSer(b1), btcSer(b2)}
	in.badFail = []bool{false, false}
	return in, nil
}

func (a *btcAd) inspect(w *hsenv.Sim, rootH uint64) view {
	ns := w.Reader()
	v := view{Stored: map[string]rec{}, Main: map[uint64]string{}}
	pre := hsenv.HSPrefix(hscommon.BLOCK_HEADER, a.chain)
	for _, k := range w.Keys(pre) {
		hb := []byte(k[len(pre):])
		hx := hex.EncodeToString(hb)
		var ch chainhash.Hash
		if err := ch.SetBytes(hb); err != nil {
			v.Errs = append(v.Errs, fmt.Sprintf("bad key %s", hx))
			continue
		}
		sh, err := btc.GetHeaderByHash(ns, a.chain, ch)
		if err != nil {
			v.Errs = append(v.Errs, fmt.Sprintf("GetHeaderByHash(%s): %v", hx, err))
			continue
		}
		bh := sh.Header.BlockHash()
		if got := hex.EncodeToString(bh.CloneBytes()); got != hx {
			v.Errs = append(v.Errs, fmt.Sprintf("header stored under %s hashes to %s", hx, got))
		}
		v.Stored[hx] = rec{Hash: hx, Parent: hex.EncodeToString(sh.Header.PrevBlock.CloneBytes()), Height: uint64(sh.Height),
			TD: btc.VerifTotalWork(sh), Own: blockchain.CalcWork(sh.Header.Bits)}
	}
	best, err := btc.GetBestBlockHeader(ns, a.chain)
	if err != nil {
		v.Errs = append(v.Errs, fmt.Sprintf("GetBestBlockHeader: %v", err))
		return v
	}
	bh := best.Header.BlockHash()
	v.Head = hex.EncodeToString(bh.CloneBytes())
	v.HeadHeight = uint64(best.Height)
	v.HeadTD = btc.VerifTotalWork(best)
	if r, ok := v.Stored[v.Head]; ok && r.Height != v.HeadHeight {
		v.Errs = append(v.Errs, fmt.Sprintf("best-header record height %d != stored height %d", v.HeadHeight, r.Height))
	}
	for h := rootH; h <= v.HeadHeight && h < rootH+64; h++ {
		x, err := btc.GetBlockHashByHeight(ns, a.chain, uint32(h))
		if err != nil {
			v.Main[h] = ""
			continue
		}
		v.Main[h] = hex.EncodeToString(x.CloneBytes())
	}
	return v
}
