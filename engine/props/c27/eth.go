package main

import (
	"encoding/hex"
	"encoding/json"
	"fmt"
	"math/big"

	"github.com/ethereum/go-ethereum/core/types"
	"github.com/polynetwork/poly/common/config"
	hscommon "github.com/polynetwork/poly/native/service/header_sync/common"
	"github.com/polynetwork/poly/native/service/header_sync/eth"
	"github.com/polynetwork/poly/native/service/utils"
	"verif.local/engine/lib/hsenv"
)

const ethChainID = 2

type ethAd struct {
	era     string
	genesis uint64   // number of the trust root
	diff    *big.Int // difficulty of the trust root
	dts     []uint64 // timestamp delta per colour
}

func (a *ethAd) name() string       { return "eth" }
func (a *ethAd) chainID() uint64    { return ethChainID }
func (a *ethAd) rootHeight() uint64 { return a.genesis }

func londonHeight() uint64 { return config.GetEth1559Height(config.DefConfig.P2PNode.NetworkId) }

// ethChild builds a header that satisfies every rule of ETHHandler.SyncBlockHeader w.r.t. parent p
// (the seal is skipped by the verif hook). Difficulty comes from the handler's own calculators.
func ethChild(p *eth.Header, dt uint64, label []byte) *eth.Header {
	h := &eth.Header{
		ParentHash: p.Hash(), UncleHash: types.EmptyUncleHash, TxHash: types.EmptyRootHash, ReceiptHash: types.EmptyRootHash,
		Number: new(big.Int).Add(p.Number, big.NewInt(1)), GasLimit: p.GasLimit, Time: p.Time + dt, Extra: label,
	}
	if h.Number.Uint64() >= londonHeight() {
		if !eth.VerifIsLondon(p) {
			h.GasLimit = p.GasLimit * eth.ElasticityMultiplier
		}
		h.BaseFee = eth.CalcBaseFee(p)
	}
	h.GasUsed = h.GasLimit / 2
	switch {
	case eth.VerifIsArrowGlacier(h):
		h.Difficulty = eth.VerifDiffWithDelay(big.NewInt(10_700_000), h.Time, p)
	case eth.VerifIsLondon(h):
		h.Difficulty = eth.VerifDiffWithDelay(big.NewInt(9_700_000), h.Time, p)
	default:
		h.Difficulty = eth.VerifDiffPreLondon(new(big.Int).SetUint64(h.Time), p)
	}
	return h
}

func ethRaw(h *eth.Header) []byte {
	b, err := json.Marshal(*h)
	if err != nil {
		panic(err)
	}
	return b
}

func (a *ethAd) build(sh shape) (*instance, error) {
	g := &eth.Header{UncleHash: types.EmptyUncleHash, TxHash: types.EmptyRootHash, ReceiptHash: types.EmptyRootHash,
		Difficulty: new(big.Int).Set(a.diff), Number: new(big.Int).SetUint64(a.genesis), GasLimit: 15_000_000, GasUsed: 7_500_000,
		Time: 1_600_000_000, Extra: []byte("root")}
	if a.genesis >= londonHeight() {
		g.GasLimit, g.GasUsed = 30_000_000, 15_000_000
		g.BaseFee = big.NewInt(eth.InitialBaseFee)
	}
	n := sh.n()
	hs := make([]*eth.Header, n+1)
	hs[0] = g
	in := &instance{sh: sh, raw: make([][]byte, n+1), hash: make([]string, n+1)}
	for i := 1; i <= n; i++ {
		hs[i] = ethChild(hs[sh.par[i]], a.dts[sh.col[i]], []byte(fmt.Sprintf("n%d", i)))
	}
	seen := map[string]bool{}
	for i := 0; i <= n; i++ {
		in.raw[i] = ethRaw(hs[i])
		in.hash[i] = hex.EncodeToString(hs[i].Hash().Bytes())
		if seen[in.hash[i]] {
			return nil, fmt.Errorf("hash collision at node %d", i)
		}
		seen[in.hash[i]] = true
	}
	// invalid headers: never storable, transaction must fail
	b1 := ethChild(g, a.dts[0], []byte("bad-diff"))
	b1.Difficulty = new(big.Int).Add(b1.Difficulty, big.NewInt(1))
	b2 := ethChild(g, a.dts[0], []byte("bad-time"))
	b2.Time = g.Time
	b3 := ethChild(g, a.dts[0], []byte("bad-num"))
	b3.Number = new(big.Int).Add(g.Number, big.NewInt(2))
	in.bad = [][]byte{ethRaw(b1), ethRaw(b2), ethRaw(b3)}
	in.badFail = []bool{true, true, true}
	return in, nil
}

func (a *ethAd) inspect(w *hsenv.Sim, rootH uint64) view {
	ns := w.Reader()
	v := view{Stored: map[string]rec{}, Main: map[uint64]string{}}
	pre := hsenv.HSPrefix(hscommon.HEADER_INDEX, ethChainID)
	for _, k := range w.Keys(pre) {
		hb := []byte(k[len(pre):])
		hx := hex.EncodeToString(hb)
		h, td, err := eth.GetHeaderByHash(ns, hb, ethChainID)
		if err != nil {
			v.Errs = append(v.Errs, fmt.Sprintf("GetHeaderByHash(%s): %v", hx, err))
			continue
		}
		if got := hex.EncodeToString(h.Hash().Bytes()); got != hx {
			v.Errs = append(v.Errs, fmt.Sprintf("header stored under %s hashes to %s", hx, got))
		}
		v.Stored[hx] = rec{Hash: hx, Parent: hex.EncodeToString(h.ParentHash.Bytes()), Height: h.Number.Uint64(), TD: td, Own: h.Difficulty}
	}
	hh, err := eth.GetCurrentHeaderHeight(ns, ethChainID)
	if err != nil {
		v.Errs = append(v.Errs, fmt.Sprintf("GetCurrentHeaderHeight: %v", err))
		return v
	}
	v.HeadHeight = hh
	cur, ctd, err := eth.GetCurrentHeader(ns, ethChainID)
	if err != nil {
		v.Errs = append(v.Errs, fmt.Sprintf("GetCurrentHeader: %v", err))
	} else {
		v.Head = hex.EncodeToString(cur.Hash().Bytes())
		v.HeadTD = ctd
	}
	for h := rootH; h <= hh && h < rootH+64; h++ {
		x, _, err := eth.GetHeaderByHeight(ns, h, ethChainID)
		if err != nil {
			// distinguish "no index entry" from "entry names an unknown header": read the raw index
			v.Main[h] = rawMain(w, h)
			continue
		}
		v.Main[h] = hex.EncodeToString(x.Hash().Bytes())
	}
	return v
}

// rawMain reads MAIN_CHAIN[h] directly ("" if absent) — only used when the getter fails.
func rawMain(w *hsenv.Sim, h uint64) string {
	k := hsenv.HSPrefix(hscommon.MAIN_CHAIN, ethChainID) + string(utils.GetUint64Bytes(h))
	val := w.Raw(k) // StorageItem: version byte + var-bytes; the 32-byte hash is the tail
	if len(val) >= 32 {
		return hex.EncodeToString([]byte(val[len(val)-32:]))
	}
	return ""
}
