package main

import (
	"crypto/sha256"
	"encoding/binary"
	"fmt"
	"io"
	"math/big"
	"strconv"
	"strings"

	"verif.local/engine/ev"
	"verif.local/engine/lib/hsenv"
	"verif.local/engine/mc"
	"verif.local/engine/polyenv"
)

// rec is one stored header as reported by the contract's own getters.
type rec struct {
	Hash, Parent string
	Height       uint64
	TD, Own      *big.Int
}

// view is what the light client currently believes, read through the exported getters.
type view struct {
	Stored     map[string]rec
	Main       map[uint64]string // canonical index, heights root..head ("" = missing)
	HeadHeight uint64
	Head       string // hash the "current header" getter returns
	HeadTD     *big.Int
	Errs       []string // getter failures / self-inconsistencies (hash key != header hash ...)
}

// instance is a concrete block tree for one chain adapter.
type instance struct {
	sh      shape
	raw     [][]byte // raw[i] submission bytes of node i (raw[0] = genesis parameter)
	hash    []string // hash[i] hex of node i
	bad     [][]byte // invalid headers (never storable); event "x<k>"
	badFail []bool   // true: the transaction must fail; false: succeeds but stores nothing (BTC bad PoW)
}

type adapter interface {
	name() string
	chainID() uint64
	build(sh shape) (*instance, error)
	inspect(s *hsenv.Sim, rootHeight uint64) view
	rootHeight() uint64
}

type problem struct {
	Key    string
	Detail string
}

type state struct {
	dump  polyenv.Dump
	mask  uint64 // model: nodes believed stored (bit i)
	head  string
	headH uint64
	probs []problem
	class []string
	hskey string
}

func hsKey(d polyenv.Dump, mask uint64) string {
	pre := hsenv.HSContractPrefix()
	h := sha256.New()
	var l [8]byte
	for _, kv := range d {
		if strings.HasPrefix(kv.K, pre) {
			binary.LittleEndian.PutUint32(l[:4], uint32(len(kv.K)))
			binary.LittleEndian.PutUint32(l[4:], uint32(len(kv.V)))
			h.Write(l[:])
			io.WriteString(h, kv.K)
			io.WriteString(h, kv.V)
		}
	}
	binary.LittleEndian.PutUint64(l[:], mask)
	h.Write(l[:])
	return string(h.Sum(nil))
}

// checkInv evaluates the property's invariants on a view. rootHash is the trust root.
func checkInv(v view, rootHash string, rootHeight uint64) []problem {
	var ps []problem
	add := func(k, f string, a ...any) { ps = append(ps, problem{k, fmt.Sprintf(f, a...)}) }
	for _, e := range v.Errs {
		add("getter-inconsistent", "%s", e)
	}
	if _, ok := v.Stored[rootHash]; !ok {
		add("root-missing", "trust root %s not stored", rootHash)
	}
	maxTD := new(big.Int)
	for h, r := range v.Stored {
		if r.TD.Cmp(maxTD) > 0 {
			maxTD = r.TD
		}
		if h == rootHash {
			continue
		}
		p, ok := v.Stored[r.Parent]
		if !ok {
			add("parent-missing", "header %s (height %d) stored without its parent %s", h, r.Height, r.Parent)
			continue
		}
		if r.Height != p.Height+1 {
			add("height", "header %s height %d, parent height %d", h, r.Height, p.Height)
		}
		if new(big.Int).Add(p.TD, r.Own).Cmp(r.TD) != 0 {
			add("td-sum", "header %s TD %v != parent TD %v + own %v", h, r.TD, p.TD, r.Own)
		}
	}
	if v.HeadHeight < rootHeight {
		add("head-below-root", "head height %d < root height %d", v.HeadHeight, rootHeight)
		return ps
	}
	for h := rootHeight; h <= v.HeadHeight; h++ {
		x := v.Main[h]
		if x == "" {
			add("main-gap", "canonical index has no entry at height %d (root %d, head %d)", h, rootHeight, v.HeadHeight)
			continue
		}
		r, ok := v.Stored[x]
		if !ok {
			add("main-dangling", "canonical index at %d names unknown header %s", h, x)
			continue
		}
		if r.Height != h {
			add("main-height", "canonical index at %d names header of height %d", h, r.Height)
		}
		if h == rootHeight {
			if x != rootHash {
				add("main-root", "canonical index at root height names %s, not the trust root", x)
			}
		} else if r.Parent != v.Main[h-1] {
			add("main-link", "canonical[%d]=%s has parent %s but canonical[%d]=%s", h, x, r.Parent, h-1, v.Main[h-1])
		}
	}
	if v.Main[v.HeadHeight] != v.Head {
		add("head-index", "current header %s != canonical[%d]=%s", v.Head, v.HeadHeight, v.Main[v.HeadHeight])
	}
	if hr, ok := v.Stored[v.Head]; ok {
		if hr.TD.Cmp(maxTD) < 0 {
			add("head-not-max-td", "head %s TD %v < max stored TD %v", v.Head, hr.TD, maxTD)
		}
		if v.HeadTD != nil && v.HeadTD.Cmp(hr.TD) != 0 {
			add("head-td-record", "head record TD %v != stored TD %v", v.HeadTD, hr.TD)
		}
	} else {
		add("head-unknown", "current header %s is not a stored header", v.Head)
	}
	return ps
}

type treeStats struct {
	states, trans, depth int
	truncated            bool
}

// pair modes of the event menu
const (
	pairsAll     = iota // every ordered pair of nodes (and (i,i))
	pairsTriples        // pairsAll + every ordered triple of distinct nodes (batches of three)
	pairsRelated        // (i,i), (parent,child), (child,parent), (grandparent,grandchild)
	frontierOnly        // fork-pair family: per state only the frontier of each fork (next, next+1, last stored) and their pairs
)

// eventMenu: single-header submissions, batches of two, invalid headers.
func eventMenu(in *instance, mode int, mask uint64) []string {
	n := in.sh.n()
	var evs []string
	if mode == frontierOnly {
		// batches of two UNRELATED acceptable headers (one per fork, both orders): the first may trigger a
		// reorg, the second is then judged against the head as it is after the first
		var nexts []int
		for i := 1; i <= n; i++ {
			if mask&(1<<uint(i)) == 0 && mask&(1<<uint(in.sh.par[i])) != 0 {
				nexts = append(nexts, i)
			}
		}
		for _, i := range nexts {
			for _, j := range nexts {
				if i != j {
					evs = append(evs, "p"+itoa(i)+","+itoa(j))
				}
			}
		}
		kids := func(i int) (out []int) {
			for j := 1; j <= n; j++ {
				if in.sh.par[j] == i {
					out = append(out, j)
				}
			}
			return
		}
		for i := 1; i <= n; i++ {
			st := mask&(1<<uint(i)) != 0
			pst := mask&(1<<uint(in.sh.par[i])) != 0
			if !st && pst { // next acceptable header of a fork
				evs = append(evs, "s"+itoa(i))
				for _, k := range kids(i) {
					evs = append(evs, "s"+itoa(k), "p"+itoa(i)+","+itoa(k), "p"+itoa(k)+","+itoa(i)) // orphan, batch in order, batch reversed
					for _, g := range kids(k) {
						evs = append(evs, "p"+itoa(i)+","+itoa(g)) // first acceptable, second orphan: whole batch must fail
					}
				}
			}
			if st {
				tip := true
				for _, k := range kids(i) {
					if mask&(1<<uint(k)) != 0 {
						tip = false
					}
				}
				if tip { // re-submission of a fork tip, alone and in front of its successor
					evs = append(evs, "s"+itoa(i), "p"+itoa(i)+","+itoa(i))
				}
			}
		}
	} else {
		for i := 1; i <= n; i++ {
			evs = append(evs, "s"+itoa(i))
		}
		for i := 1; i <= n; i++ {
			for j := 1; j <= n; j++ {
				if mode == pairsAll || mode == pairsTriples || i == j || in.sh.par[j] == i || in.sh.par[i] == j || (in.sh.par[j] > 0 && in.sh.par[in.sh.par[j]] == i) {
					evs = append(evs, "p"+itoa(i)+","+itoa(j))
				}
			}
		}
	}
	if mode == pairsTriples {
		for i := 1; i <= n; i++ {
			for j := 1; j <= n; j++ {
				for k := 1; k <= n; k++ {
					if i != j && j != k && i != k {
						evs = append(evs, "p"+itoa(i)+","+itoa(j)+","+itoa(k))
					}
				}
			}
		}
	}
	for k := range in.bad {
		evs = append(evs, "x"+itoa(k))
	}
	return evs
}

func parseEv(e string) (kind byte, a int, list []int) {
	kind = e[0]
	rest := e[1:]
	if kind == 'p' {
		for _, f := range strings.Split(rest, ",") {
			x, _ := strconv.Atoi(f)
			list = append(list, x)
		}
		return
	}
	a, _ = strconv.Atoi(rest)
	return
}

// explore runs the BFS over all submission sequences of one instance.
func explore(r *ev.Run, e *hsenv.Env, ad adapter, sim *hsenv.Sim, base polyenv.Dump, in *instance, mode int, fam string) treeStats {
	tag := ad.name()
	chain := ad.chainID()
	rootH := ad.rootHeight()
	sim.Load(base)
	res := sim.Exec(e.GenesisTx(chain, in.raw[0]), 2, 200)
	if !res.OK {
		r.HarnessError("%s: genesis header rejected: %v", tag, res.Err)
	}
	v0 := ad.inspect(sim, rootH)
	init := state{dump: sim.Dump(), mask: 1, head: v0.Head, headH: v0.HeadHeight}
	init.hskey = hsKey(init.dump, init.mask)
	init.probs = checkInv(v0, in.hash[0], rootH)
	report := func(s state, path []string) {
		for _, p := range s.probs {
			r.Violation(tag+"/"+p.Key, map[string]any{"chain": tag, "family": fam, "tree": in.sh.String(), "events": path, "what": p.Detail,
				"note": "tree: i<-parent:colour; events: sN single header N, pA,B[,C] one batch, xK invalid header K"})
		}
	}
	report(init, nil)
	n := in.sh.n()
	cfg := mc.Config[state]{
		Init:   []state{init},
		Events: func(s state, depth int) []string { return eventMenu(in, mode, s.mask) },
		Key:    func(s state) string { return s.hskey },
		Stop:   r.Expired,
		Step: func(s state, evn string) (state, bool) {
			kind, a, list := parseEv(evn)
			var raws [][]byte
			var nodes []int
			expOK := true
			mask := s.mask
			switch kind {
			case 's':
				nodes = []int{a}
			case 'p':
				nodes = list
			case 'x':
				raws = [][]byte{in.bad[a]}
				expOK = !in.badFail[a]
			}
			dupOnly := len(nodes) > 0
			for _, i := range nodes {
				raws = append(raws, in.raw[i])
				if mask&(1<<uint(i)) != 0 {
					continue // duplicate: skipped
				}
				dupOnly = false
				if mask&(1<<uint(in.sh.par[i])) == 0 {
					expOK = false // orphan: whole transaction fails
					break
				}
				mask |= 1 << uint(i)
			}
			if !expOK {
				mask = s.mask
			}
			sim.Load(s.dump)
			res := sim.Exec(hsenv.HeadersTx(chain, raws...), 3, 300)
			r.Eval()
			nx := state{mask: mask, head: s.head, headH: s.headH}
			if res.Panic != nil {
				// not what C27 states (no panic-freedom clause): counted, and judged like a failed transaction
				r.Class(tag + ":panic")
				r.Note("panics_observed", fmt.Sprint(res.Panic))
				res.OK = false
			}
			nx.dump = sim.Dump()
			nx.hskey = hsKey(nx.dump, mask)
			pre := hsenv.HSContractPrefix()
			for _, kv := range res.WriteSet {
				if res.OK && !strings.HasPrefix(kv.K, pre) {
					nx.probs = append(nx.probs, problem{"foreign-write", fmt.Sprintf("key %x outside header_sync storage", kv.K)})
				}
			}
			if res.OK != expOK {
				if res.OK {
					nx.probs = append(nx.probs, problem{"unlinked-accepted", fmt.Sprintf("submission %s succeeded although a header's parent is not stored / header invalid", evn)})
				} else {
					nx.probs = append(nx.probs, problem{"valid-rejected", fmt.Sprintf("submission %s of well-formed linked header(s) failed: %v", evn, res.Err)})
				}
			}
			unchangedExpected := !expOK || dupOnly || kind == 'x'
			if unchangedExpected {
				if nx.hskey != s.hskey || mask != s.mask {
					k := "reject-changed-state"
					if dupOnly {
						k = "resubmit-changed-state"
					}
					nx.probs = append(nx.probs, problem{k, fmt.Sprintf("submission %s must change nothing; diff keys: %d", evn, len(s.dump.Diff(nx.dump)))})
				}
				switch {
				case kind == 'x':
					nx.class = []string{"invalid-header-ignored"}
				case dupOnly:
					nx.class = []string{"dup-noop"}
				case len(nodes) >= 2 && s.mask&(1<<uint(nodes[0])) == 0 && s.mask&(1<<uint(in.sh.par[nodes[0]])) != 0:
					nx.class = []string{"batch-atomic-reject"}
				default:
					nx.class = []string{"orphan-reject"}
				}
				if len(nx.probs) == 0 {
					return nx, true
				}
			}
			// state changed (or something is off): read everything back through the getters
			v := ad.inspect(sim, rootH)
			nx.head, nx.headH = v.Head, v.HeadHeight
			nx.probs = append(nx.probs, checkInv(v, in.hash[0], rootH)...)
			// stored set == model
			want := 0
			for i := 0; i <= n; i++ {
				_, ok := v.Stored[in.hash[i]]
				exp := mask&(1<<uint(i)) != 0
				if exp {
					want++
				}
				if ok != exp {
					nx.probs = append(nx.probs, problem{"stored-set", fmt.Sprintf("node %d stored=%v, model says %v", i, ok, exp)})
				}
			}
			if len(v.Stored) != want {
				nx.probs = append(nx.probs, problem{"stored-set", fmt.Sprintf("%d headers stored, model has %d", len(v.Stored), want)})
			}
			if !unchangedExpected {
				nx.class = classify(s, nx, v, nodes, in)
			}
			return nx, true
		},
		Check: func(prev state, evn string, next state, path []string) {
			for _, c := range next.class {
				r.Class(tag + ":" + c)
			}
			if len(next.probs) > 0 {
				report(next, path)
			}
		},
	}
	st := mc.BFS(cfg)
	return treeStats{st.States, st.Transitions, st.MaxDepth, st.Truncated}
}

// classify names what the accepted submission did to the head (vacuity counters only).
func classify(prev, nx state, v view, nodes []int, in *instance) []string {
	out := []string{"accept"}
	if len(nodes) == 2 {
		out = append(out, "accept-batch2")
	}
	if len(nodes) == 3 {
		out = append(out, "accept-batch3")
	}
	last := -1
	for _, i := range nodes {
		if prev.mask&(1<<uint(i)) == 0 {
			last = i
		}
	}
	if last < 0 {
		return out
	}
	nr, ok := v.Stored[in.hash[last]]
	hr, ok2 := v.Stored[v.Head]
	if !ok || !ok2 {
		return out
	}
	if v.Head == prev.head {
		switch c := nr.TD.Cmp(hr.TD); {
		case c == 0:
			out = append(out, "tie-head-kept", "tie-observed")
		case nr.Height > hr.Height:
			out = append(out, "longer-but-lighter-kept")
		default:
			out = append(out, "side-lighter-kept")
		}
		return out
	}
	// head moved
	if pr, ok := v.Stored[prev.head]; ok && pr.TD.Cmp(hr.TD) == 0 {
		out = append(out, "tie-head-switched", "tie-observed")
	}
	newly := map[string]bool{}
	for _, i := range nodes {
		if prev.mask&(1<<uint(i)) == 0 {
			newly[in.hash[i]] = true
		}
	}
	x := v.Head
	for newly[x] {
		x = v.Stored[x].Parent
	}
	if x == prev.head {
		out = append(out, "extend-head")
		return out
	}
	switch {
	case hr.Height < prev.headH:
		out = append(out, "reorg-to-shorter")
	case hr.Height == prev.headH:
		out = append(out, "reorg-same-height")
	default:
		out = append(out, "reorg-to-longer")
	}
	return out
}
