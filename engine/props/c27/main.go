// C27 — PoW light client keeps the heaviest valid chain (header_sync/eth and header_sync/btc).
//
// Model checking of the real contracts: for every coloured block tree (all tree shapes up to N extra
// headers; colour = difficulty class) a BFS over ALL submission sequences — single headers and batches of
// two, child-before-parent, duplicates, invalid headers — with the contract storage dump as state.
// After every transaction the light client's state is read back through the contracts' exported getters
// and the property's invariants are evaluated; the set of stored headers is compared with a model
// (header stored iff submitted while its parent was stored).
// A second family ("fork pairs") explores two long competing forks so that lower-but-longer and
// higher-but-shorter forks occur under the real Ethereum difficulty rules (needs >= 6 vs 7 headers).
package main

import (
	"encoding/binary"
	"fmt"
	"math/big"
	"runtime"
	"runtime/debug"
	"sort"
	"sync"
	"sync/atomic"

	"github.com/polynetwork/poly/common/config"
	"github.com/polynetwork/poly/common/verifhook"
	_ "github.com/polynetwork/poly/native/service"
	"github.com/polynetwork/poly/native/service/utils"
	"verif.local/engine/ev"
	"verif.local/engine/lib/hsenv"
)

type job struct {
	ad   adapter
	sh   shape
	mode int
	fam  string
}

func main() {
	r := ev.Start("C27", "model_checking")
	verifhook.SkipSealFlag = true
	debug.SetGCPercent(400) // allocation-heavy (JSON headers, dumps); memory is not a constraint here
	env := hsenv.Setup(config.NETWORK_ID_MAIN_NET)
	w := env.NewWorld()
	must := func(err error) {
		if err != nil {
			r.HarnessError("%v", err)
		}
	}
	must(env.RegisterSideChain(w, ethChainID, utils.ETH_ROUTER, "eth", []byte{1, 2, 3}))
	net := func(t utils.BtcNetType) []byte {
		b := make([]byte, 8)
		binary.LittleEndian.PutUint64(b, uint64(t))
		return b
	}
	const btcReg, btcSim = 1, 3
	must(env.RegisterSideChain(w, btcReg, utils.BTC_ROUTER, "btc-regtest", net(utils.TyRegtest)))
	must(env.RegisterSideChain(w, btcSim, utils.BTC_ROUTER, "btc-simnet", net(utils.TySimnet)))
	base := w.Dump()
	w.Close()

	london := config.GetEth1559Height(config.NETWORK_ID_MAIN_NET)
	arrow := config.GetEth4345Height(config.NETWORK_ID_MAIN_NET)
	D := new(big.Int).Lsh(big.NewInt(1), 52)
	var jobs []job
	addTrees := func(ad adapter, fam string, nmin, nmax, colours int) {
		for n := nmin; n <= nmax; n++ {
			// batches: quick = every ordered pair for trees <=4 nodes, related pairs for 5; thorough = every ordered
			// pair + every ordered triple for <=4, every ordered pair for 5, related pairs for 6
			mode := pairsRelated
			switch {
			case n <= 4 && r.Thorough():
				mode = pairsTriples
			case n <= 4 || (n == 5 && r.Thorough()):
				mode = pairsAll
			}
			for _, sh := range enumShapes(n, colours) {
				jobs = append(jobs, job{ad, sh, mode, fmt.Sprintf("%s/n=%d/c=%d", fam, n, colours)})
			}
		}
	}
	// --- ETH small trees
	dts2 := []uint64{5, 20}     // +1/2048 and -1/2048 of parent difficulty; equal colours under one parent = TD tie
	dts3 := []uint64{5, 20, 10} // ... and unchanged difficulty
	pre := func(d []uint64) *ethAd { return &ethAd{"pre-london", 10_000_000, D, d} }
	if r.Quick() {
		addTrees(pre(dts2), "eth-tree/pre-london", 1, 5, 2)
	} else {
		addTrees(pre(dts3), "eth-tree/pre-london", 1, 5, 3)
		addTrees(pre(dts2), "eth-tree/pre-london", 6, 6, 2)
	}
	nEra := r.QT(3, 4)
	addTrees(&ethAd{"london-straddle", london - 2, D, dts2}, "eth-tree/london-straddle", 1, nEra, 2)
	addTrees(&ethAd{"arrow-straddle", arrow - 2, D, dts2}, "eth-tree/arrow-straddle", 1, nEra, 2)
	// --- ETH fork pairs (deep): colours 0..3 = dt 5 (+1), 10 (0), 20 (-1), 1000 (-99: max decrease)
	dts4 := []uint64{5, 10, 20, 1000}
	la, lb := r.QT(7, 9), r.QT(8, 10)
	for _, era := range []*ethAd{{"pre-london", 10_000_000, D, dts4}, {"london-straddle", london - 3, D, dts4}, {"arrow-straddle", arrow - 3, D, dts4}} {
		for p := 0; p <= 1; p++ {
			for ca := 0; ca < 4; ca++ {
				for cb := 0; cb < 4; cb++ {
					jobs = append(jobs, job{era, forkPair(p, la, lb, 0, ca, cb), frontierOnly, "eth-forkpair/" + era.era})
				}
			}
		}
	}
	// --- BTC (regtest: real proof of work at the regtest limit; bits free => work 2, 4, 8 per header)
	bits2 := []uint32{0x207fffff, 0x203fffff}
	bits3 := []uint32{0x207fffff, 0x203fffff, 0x201fffff}
	if r.Quick() {
		addTrees(&btcAd{btcReg, bits2}, "btc-tree/regtest", 1, 5, 2)
	} else {
		addTrees(&btcAd{btcReg, bits3}, "btc-tree/regtest", 1, 5, 3)
		addTrees(&btcAd{btcReg, bits2}, "btc-tree/regtest", 6, 6, 2)
	}
	addTrees(&btcAd{btcSim, bits2}, "btc-tree/simnet", 1, nEra, 2)
	for ca := 0; ca < 3; ca++ {
		for cb := 0; cb < 3; cb++ {
			jobs = append(jobs, job{&btcAd{btcReg, bits3}, forkPair(1, r.QT(4, 6), r.QT(5, 7), 0, ca, cb), frontierOnly, "btc-forkpair/regtest"})
		}
	}

	// order: small trees first, ETH and BTC alternating, so that a deadline cuts both chains evenly
	sort.SliceStable(jobs, func(i, k int) bool { return jobs[i].sh.n() < jobs[k].sh.n() })
	var je, jb, merged []job
	for _, j := range jobs {
		if j.ad.name() == "eth" {
			je = append(je, j)
		} else {
			jb = append(jb, j)
		}
	}
	for len(je) > 0 || len(jb) > 0 {
		if len(je) > 0 {
			merged, je = append(merged, je[0]), je[1:]
		}
		if len(jb) > 0 {
			merged, jb = append(merged, jb[0]), jb[1:]
		}
	}
	jobs = merged
	var capped int32
	var mu sync.Mutex
	tot := map[string]*treeStats{}
	trees := map[string]int{}
	var states, trans, maxDepth int
	ch := make(chan job)
	var wg sync.WaitGroup
	workers := runtime.NumCPU()
	for i := 0; i < workers; i++ {
		wg.Add(1)
		go func() {
			defer wg.Done()
			sim := hsenv.NewSim()
			defer sim.Close()
			for j := range ch {
				if r.Expired() {
					r.Capped("deadline: not all trees explored (family " + j.fam + ")")
					atomic.StoreInt32(&capped, 1)
					continue
				}
				in, err := j.ad.build(j.sh)
				if err != nil {
					r.HarnessError("build %s: %v", j.sh, err)
				}
				st := explore(r, env, j.ad, sim, base, in, j.mode, j.fam)
				r.Case(j.fam + "/" + canon(j.sh, 0))
				r.Sample(map[string]any{"family": j.fam, "tree": j.sh.String(), "states": st.states, "transitions": st.trans})
				mu.Lock()
				if tot[j.fam] == nil {
					tot[j.fam] = &treeStats{}
				}
				tot[j.fam].states += st.states
				tot[j.fam].trans += st.trans
				trees[j.fam]++
				states += st.states
				trans += st.trans
				if st.depth > maxDepth {
					maxDepth = st.depth
				}
				mu.Unlock()
				if st.truncated {
					r.Capped("deadline inside BFS of family " + j.fam)
					atomic.StoreInt32(&capped, 1)
				}
			}
		}()
	}
	for _, j := range jobs {
		ch <- j
	}
	close(ch)
	wg.Wait()

	// vacuity guard (only meaningful when nothing was flagged — a broken fork choice also removes outcome
	// classes — and the space was completed; a capped run only requires the basic classes)
	r.Require("eth:accept", "eth:orphan-reject", "eth:dup-noop")
	if r.NViolations() == 0 && atomic.LoadInt32(&capped) == 0 {
		for _, c := range []string{"accept", "accept-batch2", "dup-noop", "orphan-reject", "batch-atomic-reject", "invalid-header-ignored",
			"extend-head", "reorg-same-height", "reorg-to-longer", "reorg-to-shorter", "tie-observed", "longer-but-lighter-kept", "side-lighter-kept"} {
			r.Require("eth:"+c, "btc:"+c)
		}
	}
	batchNote := "trees: all ordered pairs + all ordered triples (<=4 nodes), all ordered pairs (5), related pairs (6); fork pairs: frontier events per fork incl. both orders of the two forks' next headers"
	if r.Quick() {
		batchNote = "trees: all ordered pairs (<=4 nodes), related pairs (5 nodes: self, parent/child both orders, grandparent/grandchild); fork pairs: frontier events per fork incl. both orders of the two forks' next headers"
	}
	fam := map[string]any{}
	for k, v := range tot {
		fam[k] = map[string]int{"trees": trees[k], "states": v.states, "transitions": v.trans}
	}
	r.Assume("ETH: the ethash seal check is skipped by the verif hook (synthetic headers); every other header rule is the real code and every synthetic header satisfies it",
		"BTC: regtest/simnet side chains (real proof of work at the net's limit; the handler skips the retarget rule on these nets). testnet3/mainnet need ~2^32 hashes per header and are not driven",
		"header timestamps are in the past, so the wall-clock future-block test is constant")
	r.Finish(map[string]any{
		"rule":                          "every coloured block tree up to the bound x every submission sequence (BFS to fixpoint over the contract storage dump): stored-header/parent/height/TD-sum, canonical index gap-free+parent-linked root..head, head TD maximal, re-submission and rejected submissions change nothing, stored set == model",
		"bounds":                        map[string]any{"tier": r.Tier, "batch_pairs": batchNote, "eth_tree_nodes_max": r.QT(5, 6), "eth_forkpair_lengths": []int{la, lb}, "btc_tree_nodes_max": r.QT(5, 6), "batch_sizes": []int{1, 2, r.QT(2, 3)}},
		"trees":                         len(jobs),
		"families":                      fam,
		"states":                        states,
		"transitions":                   trans,
		"traces_validated_against_impl": trans,
		"max_depth":                     maxDepth,
	})
}
