package main

// Part 3 (schedules): two imports executing CONCURRENTLY on their own worlds (own store, own overlay, own CacheDB) — the
// situation of an RPC PreExecuteContract overlapping the consensus ExecuteBlock, or ExecuteBlock overlapping block sync.
// The two executions share nothing but package-level state of the contract code, so each must produce exactly what it
// produces alone. Every storage operation of native/storage.CacheDB is a scheduling point (@yieldfuncs) and every
// sync primitive of the entrance / common / native packages is routed to the controlled scheduler (@syncshim-dir; a
// sync.Pool becomes a deterministic free list whose Get/Put are scheduling points on both sides), so all interleavings
// up to the preemption bound are enumerated on the real code.

import (
	"encoding/hex"
	"fmt"

	"github.com/polynetwork/poly/common/config"
	"github.com/polynetwork/poly/common/verifhook/ssync"
	"github.com/polynetwork/poly/native/service/utils"
	"verif.local/engine/ev"
	"verif.local/engine/lib/ccm"
	"verif.local/engine/lib/sched"
	"verif.local/engine/polyenv"
)

type cthread struct {
	name  string
	a     ccm.Adapter
	src   uint64
	i     int
	extra []byte
	sub   ccm.Sub
}

func concurrentPart(r *ev.Run, vals []*polyenv.Acct) {
	config.DefConfig.Common.EnableEventLog = true
	eventLog = true
	bound := r.QT(1, 2)
	descs := []mdesc{{0, 1, 20, 2, 32, D1}, {0xFD, 1, 32, 32, 32, D1}, {1, 0, 20, 32, 0, D2}, {1, 1, 20, 2, 32, DU}}
	pool := ccm.NewWorlds(2)
	total := sched.Stats{}
	pairs, outcomes := 0, map[string]bool{}
	for _, a := range ccm.Adapters() {
		a := a
		msgs, alt := map[uint64][][]byte{}, map[uint64][][]byte{}
		for _, c := range []uint64{S1, S2} {
			for i, d := range descs {
				msgs[c] = append(msgs[c], build(a, d, i, false))
				alt[c] = append(alt[c], build(a, d, i, true))
			}
		}
		w := polyenv.NewWorld()
		w.Genesis(vals)
		ccm.Register(w, vals, ccm.SC{ID: D1, Router: utils.VOTE_ROUTER, Wait: 1, Name: "d1", CCMC: []byte{1}}, -1, H0)
		ccm.Register(w, vals, ccm.SC{ID: D2, Router: utils.HSC_ROUTER, Wait: 1, Name: "d2", CCMC: ccm.HscCCMC(D2)}, -1, H0)
		a.Seed(w, vals, []uint64{S1, S2}, msgs, alt, H0)
		base := w.Dump()
		w.Close()
		mk := func(src uint64, i int, relayer int, salt uint32) cthread {
			return cthread{name: fmt.Sprintf("%s/src%d/%s", a.Name(), src, descs[i]), a: a, src: src, i: i, extra: msgs[src][i],
				sub: a.Submit(src, i, ccm.VSame, relayer, salt)}
		}
		// pairs: different messages of one chain, the same message by both relayers, messages of two chains, accepted ∥ rejected
		type pr struct{ x, y cthread }
		ps := []pr{
			{mk(S1, 0, 0, 11), mk(S1, 1, 0, 12)},
			{mk(S1, 1, 0, 13), mk(S1, 1, 1, 14)},
			{mk(S1, 0, 0, 15), mk(S2, 2, 0, 16)},
			{mk(S1, 1, 0, 17), mk(S2, 3, 0, 18)},
		}
		for _, p := range ps {
			if r.Expired() {
				r.Capped("deadline: concurrent part not completed for router " + a.Name())
				break
			}
			pairs++
			ths := []cthread{p.x, p.y}
			// solo reference: each thread alone on a fresh copy
			solo := make([][][32]byte, 2)
			for k, th := range ths {
				pool.With(base, func(w *ccm.W) {
					for _, tx := range th.sub.Txs {
						solo[k] = append(solo[k], resultDigest(w.Exec(tx, H0, 1000)))
					}
				})
			}
			open := func(th cthread) bool { d := descs[th.i]; return d.to == D1 || d.to == D2 }
			key := "C22/" + a.Name() + "/concurrent-executions"
			st := sched.Explore(bound, r.Expired, func(prefix []int) (x ssync.Exec) {
				pool.With(base, func(w0 *ccm.W) {
					pool.With(base, func(w1 *ccm.W) {
						ws := []*ccm.W{w0, w1}
						res := make([][]polyenv.Result, 2)
						bodies := make([]func(), 2)
						for k := range ths {
							k := k
							bodies[k] = func() {
								for _, tx := range ths[k].sub.Txs {
									res[k] = append(res[k], ws[k].Exec(tx, H0, 1000))
								}
							}
						}
						x = ssync.Run(bodies, prefix)
						r.Eval()
						det := map[string]any{"router": a.Name(), "thread0": ths[0].name, "thread1": ths[1].name, "schedule": fmt.Sprint(x.Choices),
							"preemption_bound": bound}
						if x.Deadlock || len(x.Panics) > 0 {
							det["panics"] = x.Panics
							r.Violation(key+"/deadlock-or-panic", det)
							return
						}
						sig := ""
						for k, th := range ths {
							for ti, rs := range res[k] {
								dg := resultDigest(rs)
								sig += hex.EncodeToString(dg[:4])
								if ti >= len(solo[k]) || dg != solo[k][ti] {
									det["thread"], det["tx_index"], det["tx_ok"], det["tx_err"] = k, ti, rs.OK, fmt.Sprint(rs.Err)
									r.Violation(key+"/result-differs-from-the-same-import-executed-alone", det)
									continue
								}
								if rs.OK && (len(rs.CrossHashes) > 0 || len(reqKeysIn(rs.WriteSet)) > 0) {
									if !open(th) {
										r.Violation(key+"/closed-destination-committed-a-request", det)
										continue
									}
									checkAccepting(r, a.Name()+"/concurrent", th.sub.Txs[ti], rs, th.src, a.Verified(th.src, th.extra), det)
									r.Class("concurrent:accepted")
								}
							}
						}
						outcomes[a.Name()+sig] = true
					})
				})
				return
			})
			total.Schedules += st.Schedules
			total.Points += st.Points
			if st.MaxPoints > total.MaxPoints {
				total.MaxPoints = st.MaxPoints
			}
			if st.Capped {
				r.Capped("deadline: schedules of a concurrent pair not completed")
			}
			r.Case(fmt.Sprintf("concurrent/%s/%s||%s", a.Name(), ths[0].name, ths[1].name))
		}
	}
	r.Class("concurrent:schedules-explored")
	r.Note("concurrent_part", map[string]any{"thread_pairs": pairs, "preemption_bound": bound, "schedules": total.Schedules,
		"scheduling_points_total": total.Points, "longest_execution_points": total.MaxPoints, "distinct_outcome_signatures": len(outcomes),
		"scheduling_points": "every CacheDB method + every sync primitive (Mutex/RWMutex/Pool/WaitGroup) of native, native/storage, cross_chain_manager, cross_chain_manager/common, common"})
}
