// C22 — each accepted import towards an account-based destination commits exactly one outbound request
// (keyed by destination chain + relay tx hash, content = relay tx hash, source chain, verified message) and
// exactly one cross-state leaf with the same content; failed imports commit nothing.
//
// Part 1 (contract level, all inputs of the alphabet): for every router adapter (vote, ripple, hsc) and every
// message of
//
//	args payload {∅, 1 byte, 0xFD bytes} × method {"", "unlock"} × to-contract length {0, 20, 32} ×
//	(thorough: args {0,1,0xFC,0xFD,0xFFFF,0x10000}, method also 0xFD long, to-contract also 0xFD) ×
//	cross-chain-id length {2, 32} × source-tx-hash length {0, 32} ×
//	destination {D1 registered vote-router chain, D2 registered hsc-router chain, DB registered+blacklisted, DU unregistered}
//
// a complete valid submission is executed through the real ImportExTransfer on a fresh copy of the seeded
// main-net state, followed by a replay of the same message by the other relayer, a replay by a
// different message carrying the same cross-chain id and (every 7th message, before the valid one) a
// submission with invalid authentication; two source chains per router.
//
// Part 2 (ledger level): a real on-disk ledger executes blocks holding several imports (two accepted, one
// rejected, one vote-only) and the block's ExecuteResult.CrossHashes / CrossStatesRoot / stored cross states are
// compared with the leaves of exactly the accepted ones (reference: textbook RFC-6962 style root).
//
// Oracle for an accepting tx: the write set has exactly one key under CCM/"request", equal to
// CCM ++ "request" ++ LE64(to) ++ txHash; its value equals an independently written reference serialisation of
// (txHash, fromChain, verified message) and decodes with scom.ToMerkleValue to the same three parts with no
// trailing bytes; res.CrossHashes == [sha256(0x00 ++ value)]; the makeProof notification names that key.
// Every other tx (votes below quorum, rejected, replayed, invalid): no key under "request" in the write set,
// no cross hash.
// Environment: both parts run under config.DefConfig.Common.EnableEventLog ∈ {true,false} (node flag
// --disable-event-log); per transaction (ok, write set, cross hashes) must be identical under both settings,
// only the notification list may differ.
package main

import (
	"bytes"
	"crypto/sha256"
	"encoding/binary"
	"encoding/hex"
	"fmt"
	"math"
	"os"
	"reflect"
	"strings"
	"sync"

	"github.com/polynetwork/poly/common"
	"github.com/polynetwork/poly/common/config"
	"github.com/polynetwork/poly/core/types"
	_ "github.com/polynetwork/poly/native/service"
	scom "github.com/polynetwork/poly/native/service/cross_chain_manager/common"
	"github.com/polynetwork/poly/native/service/utils"
	"verif.local/engine/ev"
	"verif.local/engine/lib/ccm"
	"verif.local/engine/polyenv"
)

const (
	H0   = 18823000 + 9
	S1   = uint64(1)
	S2   = uint64(math.MaxUint64)
	D1   = uint64(41)
	D2   = uint64(42)
	DB   = uint64(0) // registered and blacklisted: chain id 0 (its blacklist record holds the value 0)
	DU   = uint64(44)
	nVal = 4
)

// ---- reference encoders (written from the wire-format description, sharing nothing with the repo) ----

func varuint(v uint64) []byte {
	switch {
	case v < 0xFD:
		return []byte{byte(v)}
	case v <= 0xFFFF:
		b := []byte{0xFD, 0, 0}
		binary.LittleEndian.PutUint16(b[1:], uint16(v))
		return b
	case v <= 0xFFFFFFFF:
		b := []byte{0xFE, 0, 0, 0, 0}
		binary.LittleEndian.PutUint32(b[1:], uint32(v))
		return b
	}
	b := make([]byte, 9)
	b[0] = 0xFF
	binary.LittleEndian.PutUint64(b[1:], v)
	return b
}

func varbytes(b []byte) []byte { return append(varuint(uint64(len(b))), b...) }

func refMerkleValue(txHash []byte, from uint64, p *scom.MakeTxParam) []byte {
	var o []byte
	o = append(o, varbytes(txHash)...)
	o = append(o, ccm.LE64(from)...)
	o = append(o, varbytes(p.TxHash)...)
	o = append(o, varbytes(p.CrossChainID)...)
	o = append(o, varbytes(p.FromContractAddress)...)
	o = append(o, ccm.LE64(p.ToChainID)...)
	o = append(o, varbytes(p.ToContractAddress)...)
	o = append(o, varbytes([]byte(p.Method))...)
	o = append(o, varbytes(p.Args)...)
	return o
}

func refLeaf(v []byte) common.Uint256 { return sha256.Sum256(append([]byte{0}, v...)) }

func refRoot(leaves []common.Uint256) common.Uint256 { // RFC 6962 style: split at the largest power of two < n
	if len(leaves) == 1 {
		return leaves[0]
	}
	k := 1
	for k*2 < len(leaves) {
		k *= 2
	}
	l, r := refRoot(leaves[:k]), refRoot(leaves[k:])
	return sha256.Sum256(append(append([]byte{1}, l[:]...), r[:]...))
}

// ---- message alphabet ----

type mdesc struct {
	args, method, toc, ccl, txl int
	to                          uint64
}

func (d mdesc) String() string {
	return fmt.Sprintf("args%d/method%d/toContract%d/ccid%d/srcTx%d/to%d", d.args, d.method, d.toc, d.ccl, d.txl, d.to)
}

func alphabet(thorough bool) []mdesc {
	var o []mdesc
	args, methods, tocs := []int{0, 1, 0xFD}, 2, []int{0, 20, 32}
	if thorough { // var-uint boundaries 0xFC/0xFD and 0xFFFF/0x10000
		args, methods, tocs = []int{0, 1, 0xFC, 0xFD, 0xFFFF, 0x10000}, 3, []int{0, 20, 32, 0xFD}
	}
	for _, to := range []uint64{D1, D2, DB, DU} {
		for _, a := range args {
			for m := 0; m < methods; m++ {
				for _, tc := range tocs {
					for _, cl := range []int{2, 32} {
						for _, tl := range []int{0, 32} {
							o = append(o, mdesc{a, m, tc, cl, tl, to})
						}
					}
				}
			}
		}
	}
	return o
}

func fill(n int, seed byte) []byte {
	b := make([]byte, n)
	for i := range b {
		b[i] = seed + byte(i*7)
	}
	return b
}

func build(a ccm.Adapter, d mdesc, idx int, twin bool) []byte {
	ccid := make([]byte, d.ccl)
	binary.BigEndian.PutUint16(ccid[len(ccid)-2:], uint16(idx))
	method := ""
	if d.method == 1 {
		method = "unlock"
	} else if d.method == 2 {
		method = strings.Repeat("m", 0xFD)
	}
	seed := byte(idx)
	fromC := []byte{0xf0, 0x0d}
	if twin { // same cross-chain id, other content (at least the from-contract differs)
		seed += 0x55
		fromC = []byte{0xf0, 0x0e}
	}
	return ccm.MsgBytes(ccm.Msg(fill(d.txl, seed), ccid, fromC, d.to, fill(d.toc, 0x20), method, a.WrapArgs(fill(d.args, seed+1))))
}

var reqPrefix = ccm.RequestPrefix()

// eventLog mirrors config.DefConfig.Common.EnableEventLog of the current pass.
var eventLog = true

// resultDigest covers everything of a tx outcome that enters consensus: success, write set, cross hashes.
func resultDigest(res polyenv.Result) [32]byte {
	h := sha256.New()
	fmt.Fprintf(h, "%v|%d|", res.OK, len(res.CrossHashes))
	for _, c := range res.CrossHashes {
		h.Write(c[:])
	}
	for _, kv := range res.WriteSet {
		fmt.Fprintf(h, "%d:%s=%d:%s;", len(kv.K), kv.K, len(kv.V), kv.V)
	}
	var o [32]byte
	copy(o[:], h.Sum(nil))
	return o
}

func reqKeysIn(ws polyenv.Dump) []polyenv.KV {
	var o []polyenv.KV
	for _, kv := range ws {
		if strings.HasPrefix(kv.K, reqPrefix) {
			o = append(o, kv)
		}
	}
	return o
}

// checkAccepting evaluates the oracle on a tx that released a message.
func checkAccepting(r *ev.Run, name string, tx *types.Transaction, res polyenv.Result, src uint64, want *scom.MakeTxParam, det map[string]any) {
	h := tx.Hash()
	txHash := h.ToArray()
	rk := reqKeysIn(res.WriteSet)
	if len(rk) != 1 {
		det["request_keys_in_write_set"] = len(rk)
		r.Violation("C22/"+name+"/accepted-import-wrote-not-exactly-one-request", det)
		return
	}
	if rk[0].K != ccm.RequestKey(want.ToChainID, txHash) {
		det["request_key"] = hex.EncodeToString([]byte(rk[0].K))
		r.Violation("C22/"+name+"/request-key-not-(destination,relay-tx-hash)", det)
	}
	val := ccm.Val(rk[0].V)
	ref := refMerkleValue(txHash, src, want)
	if !bytes.Equal(val, ref) {
		det["stored"], det["reference"] = hex.EncodeToString(val), hex.EncodeToString(ref)
		r.Violation("C22/"+name+"/request-content-differs-from-(txhash,source,verified-message)", det)
	}
	mv := new(scom.ToMerkleValue)
	srcz := common.NewZeroCopySource(val)
	if err := mv.Deserialization(srcz); err != nil || srcz.Len() != 0 {
		det["decode_err"], det["trailing"] = fmt.Sprint(err), srcz.Len()
		r.Violation("C22/"+name+"/request-content-does-not-decode", det)
	} else if !bytes.Equal(mv.TxHash, txHash) || mv.FromChainID != src || !sameParam(mv.MakeTxParam, want) {
		r.Violation("C22/"+name+"/decoded-request-differs", det)
	}
	if len(res.CrossHashes) != 1 || res.CrossHashes[0] != refLeaf(val) {
		det["cross_hashes"] = len(res.CrossHashes)
		r.Violation("C22/"+name+"/cross-state-leaf-not-exactly-hash-of-request-content", det)
	}
	// makeProof notification names the key
	found := 0
	for _, e := range res.Notify.Notify {
		if st, ok := e.States.([]interface{}); ok && len(st) == 6 && st[0] == "makeProof" {
			found++
			wantKey := hex.EncodeToString([]byte(rk[0].K)[1:]) // without the ST_STORAGE prefix byte
			if st[1] != src || st[2] != want.ToChainID || st[3] != hex.EncodeToString(want.TxHash) || st[5] != wantKey {
				det["notify"] = fmt.Sprint(st)
				r.Violation("C22/"+name+"/makeProof-notification-wrong", det)
			}
		}
	}
	if (eventLog && found != 1) || (!eventLog && found != 0) {
		r.Violation("C22/"+name+"/makeProof-notification-count", det)
	}
}

func sameParam(a, b *scom.MakeTxParam) bool {
	n := func(x []byte) []byte {
		if len(x) == 0 {
			return nil
		}
		return x
	}
	return bytes.Equal(a.TxHash, b.TxHash) && bytes.Equal(a.CrossChainID, b.CrossChainID) && bytes.Equal(a.FromContractAddress, b.FromContractAddress) &&
		a.ToChainID == b.ToChainID && bytes.Equal(a.ToContractAddress, b.ToContractAddress) && a.Method == b.Method && reflect.DeepEqual(n(a.Args), n(b.Args))
}

func main() {
	r := ev.Start("C22", "model_checking")
	r.Require("accepted", "rejected:blacklisted-destination", "rejected:unregistered-destination", "rejected:replay", "rejected:invalid-authentication",
		"vote-below-quorum", "ledger:block-checked", "concurrent:accepted", "concurrent:schedules-explored")
	vals := polyenv.Keys(nVal)
	polyenv.Setup(config.NETWORK_ID_MAIN_NET, vals)
	polyenv.InstallHeightLedger()
	polyenv.GlobalHeight = H0
	// Part 3 runs first (controlled scheduler, one thread at a time): a change that makes executions share package-level
	// state turns the free-running 16-worker part below into genuine data races, so a verdict found here ends the run.
	concurrentPart(r, vals)
	if r.NViolations() > 0 {
		r.Finish(map[string]any{"rule": "stopped after the concurrent part reported a violation; free-running parallel parts skipped"})
	}
	alpha := alphabet(r.Thorough())
	srcs := []uint64{S1, S2}
	covered := []string{}
	var execs int64
	var mu sync.Mutex
	// The node-local switch --disable-event-log (config.DefConfig.Common.EnableEventLog) is an environment answer
	// owned by the harness: the whole space runs under both settings, the oracle is evaluated under each, and the
	// consensus-relevant outcome of every single transaction (ok flag, write set, cross hashes) must be identical.
	digests := map[string][32]byte{}
	for _, evlog := range []bool{true, false} {
		evlog := evlog
		config.DefConfig.Common.EnableEventLog = evlog
		eventLog = evlog
		for _, a := range ccm.Adapters() {
			a := a
			if evlog {
				covered = append(covered, a.Name())
			}
			msgs, alt := map[uint64][][]byte{}, map[uint64][][]byte{}
			for _, c := range []uint64{S1, S2} {
				for i, d := range alpha {
					msgs[c] = append(msgs[c], build(a, d, i, false))
					alt[c] = append(alt[c], build(a, d, i, true))
				}
			}
			w := polyenv.NewWorld()
			w.Genesis(vals)
			ccm.Register(w, vals, ccm.SC{ID: D1, Router: utils.VOTE_ROUTER, Wait: 1, Name: "d1", CCMC: []byte{1}}, -1, H0)
			ccm.Register(w, vals, ccm.SC{ID: D2, Router: utils.HSC_ROUTER, Wait: 1, Name: "d2", CCMC: ccm.HscCCMC(D2)}, -1, H0)
			ccm.Register(w, vals, ccm.SC{ID: DB, Router: utils.VOTE_ROUTER, Wait: 1, Name: "db", CCMC: []byte{3}}, -1, H0)
			if res := w.Exec(ccm.BlackTx(DB, false, 1, polyenv.Multi(vals)), H0, 1000); !res.OK {
				r.HarnessError("BlackChain seed failed: %v", res.Err)
			}
			a.Seed(w, vals, []uint64{S1, S2}, msgs, alt, H0)
			base := w.Dump()
			w.Close()
			bd := sha256.Sum256([]byte(base.String()))
			if prev, ok := digests["base/"+a.Name()]; ok && prev != bd {
				r.Violation("C22/"+a.Name()+"/seeded-state-depends-on-event-log-switch", map[string]any{"router": a.Name()})
			}
			digests["base/"+a.Name()] = bd
			pool := ccm.NewWorlds(16)
			type job struct {
				c uint64
				i int
			}
			jobs := make(chan job, 64)
			var wg sync.WaitGroup
			for k := 0; k < 16; k++ {
				wg.Add(1)
				go func() {
					defer wg.Done()
					for j := range jobs {
						if r.Expired() {
							r.Capped("deadline: alphabet not completed for router " + a.Name())
							continue
						}
						d := alpha[j.i]
						pool.With(base, func(w *ccm.W) {
							n := 0
							run := func(kind string, sub ccm.Sub, extra []byte, mayAccept bool) {
								released := 0
								lastErr := ""
								for ti, tx := range sub.Txs {
									res := w.Exec(tx, H0, 1000)
									lastErr = fmt.Sprint(res.Err)
									dk := fmt.Sprintf("%s/%d/%d/%d", a.Name(), j.c, j.i, n)
									dg := resultDigest(res)
									mu.Lock()
									if prev, ok := digests[dk]; ok && prev != dg {
										r.Violation("C22/"+a.Name()+"/result-depends-on-event-log-switch", map[string]any{"router": a.Name(), "source": j.c,
											"message": d.String(), "submission": kind, "tx_index": ti, "event_log": evlog, "tx_ok": res.OK, "cross_hashes": len(res.CrossHashes),
											"write_set_keys": len(res.WriteSet)})
									}
									digests[dk] = dg
									mu.Unlock()
									r.Eval()
									n++
									det := map[string]any{"router": a.Name(), "source": j.c, "message": d.String(), "submission": kind, "tx_index": ti,
										"tx_ok": res.OK, "tx_err": fmt.Sprint(res.Err), "extra": hex.EncodeToString(extra)}
									acc := res.OK && (len(res.CrossHashes) > 0 || len(reqKeysIn(res.WriteSet)) > 0)
									if acc {
										released++
										if !mayAccept || released > 1 {
											r.Violation("C22/"+a.Name()+"/"+kind+"-submission-committed-a-request", det)
											continue
										}
										checkAccepting(r, a.Name(), tx, res, j.c, a.Verified(j.c, extra), det)
										r.Class("accepted")
										r.Case(a.Name() + "/accepted/" + d.String())
										if j.i%97 == 0 {
											r.Sample(det)
										}
										continue
									}
									if len(res.CrossHashes) != 0 || len(reqKeysIn(res.WriteSet)) != 0 {
										r.Violation("C22/"+a.Name()+"/non-accepting-tx-committed-request-or-leaf", det)
									}
									if !res.OK && len(res.WriteSet) != 0 {
										r.Violation("C22/"+a.Name()+"/failed-tx-has-write-set", det)
									}
									if res.OK {
										r.Class("vote-below-quorum")
									}
								}
								det := map[string]any{"router": a.Name(), "source": j.c, "message": d.String(), "submission": kind, "last_tx_err": lastErr}
								if mayAccept && released != 1 {
									r.Violation("C22/"+a.Name()+"/valid-import-to-registered-destination-not-accepted", det)
								}
								if !mayAccept {
									switch {
									case kind == "replay":
										r.Class("rejected:replay")
									case kind == "bad":
										r.Class("rejected:invalid-authentication")
									case d.to == DB:
										r.Class("rejected:blacklisted-destination")
										r.Case(a.Name() + "/rejected-black/" + d.String())
									case d.to == DU:
										r.Class("rejected:unregistered-destination")
										r.Case(a.Name() + "/rejected-unreg/" + d.String())
									}
								}
							}
							open := d.to == D1 || d.to == D2
							if j.i%7 == 3 { // invalid authentication first: must commit nothing and must not block the valid one
								run("bad", a.Submit(j.c, j.i, ccm.VBad, 0, 3), msgs[j.c][j.i], false)
							}
							run("first", a.Submit(j.c, j.i, ccm.VSame, 0, 1), msgs[j.c][j.i], open)
							if open {
								run("replay", a.Submit(j.c, j.i, ccm.VSame, 1, 2), msgs[j.c][j.i], false)
								run("replay", a.Submit(j.c, j.i, ccm.VAltMsg, 0, 4), alt[j.c][j.i], false)
							}
							mu.Lock()
							execs += int64(n)
							mu.Unlock()
						})
					}
				}()
			}
			for _, c := range srcs {
				for i := range alpha {
					jobs <- job{c, i}
				}
			}
			close(jobs)
			wg.Wait()
		}
	}
	for _, evlog := range []bool{true, false} {
		ledgerPart(r, vals, evlog)
	}
	config.DefConfig.Common.EnableEventLog = true
	r.Note("event_log_settings", []bool{true, false})
	r.Note("routers_covered", covered)
	r.Note("routers_not_covered", ccm.RoutersWithoutAdapter())
	r.Assume("BTC and Ripple destinations are not account-based and are excluded by the statement",
		"ripple source: the verified message is the submitted one with to-contract := bound lock proxy and args := asset ++ destination ++ amount(32 bytes), recomputed independently in lib/ccm")
	r.Finish(map[string]any{
		"rule":              "accepting tx: exactly one request record keyed (destination, relay tx hash) with content (relay tx hash, source chain, verified message) and CrossHashes == [leaf(content)]; every other tx commits neither",
		"alphabet_messages": len(alpha), "source_chains": len(srcs), "states": 2 * len(alpha) * len(srcs) * len(covered),
		"environment": "EnableEventLog in {true,false}: oracle under each, per-tx (ok, write set, cross hashes) identical under both",
		"transitions": execs, "traces_validated_against_impl": execs,
	})
}

// ledgerPart: real ledger, private net (chain id 0), vote router.
func ledgerPart(r *ev.Run, vals []*polyenv.Acct, evlog bool) {
	polyenv.Setup(0, vals)
	config.DefConfig.Common.EnableEventLog = evlog
	dir := polyenv.TmpDir("c22")
	defer os.RemoveAll(dir)
	ch, err := polyenv.OpenChain(dir, vals)
	if err != nil {
		r.HarnessError("open chain: %v", err)
	}
	defer ch.Close()
	q := ccm.Quorum(nVal)
	owner := polyenv.Key(900)
	var b1 []*types.Transaction
	for _, sc := range []ccm.SC{{ID: S1, Router: utils.VOTE_ROUTER, Wait: 1, Name: "s", CCMC: []byte{1}}, {ID: D1, Router: utils.VOTE_ROUTER, Wait: 1, Name: "d", CCMC: []byte{2}}} {
		b1 = append(b1, ccm.RegisterTx(sc, owner, uint32(sc.ID)))
		for i := 0; i < q; i++ {
			b1 = append(b1, ccm.ApproveTx(sc.ID, vals[i], uint32(sc.ID)))
		}
	}
	if _, err := ch.Commit(ch.NextBlock(b1, nil)); err != nil {
		r.HarnessError("ledger block 1 (registrations): %v", err)
	}
	mk := func(i int, to uint64) []byte {
		return ccm.MsgBytes(ccm.Msg([]byte{0xe0, byte(i)}, []byte{0xc0, byte(i)}, []byte{0xf0}, to, make([]byte, 20), "unlock", fill(i*100, 3)))
	}
	m1, m2, m3, m4 := mk(1, D1), mk(2, D1), mk(3, DU), mk(4, D1)
	var b2 []*types.Transaction
	var accepting []*types.Transaction
	var msgsAcc [][]byte
	for mi, m := range [][]byte{m1, m3, m2} { // accepted, rejected (unregistered destination), accepted
		for i := 0; i < q; i++ {
			tx := ccm.VoteImport(S1, 10, m, vals[i], uint32(100+mi))
			b2 = append(b2, tx) // the completing vote of message 2 (unregistered destination) fails inside the block
			if i == q-1 && mi != 1 {
				accepting = append(accepting, tx)
				msgsAcc = append(msgsAcc, m)
			}
		}
	}
	b2 = append(b2, ccm.VoteImport(S1, 10, m4, vals[0], 104)) // a single vote: no leaf
	blk := ch.NextBlock(b2, nil)
	res, err := ch.Commit(blk)
	if err != nil {
		r.HarnessError("ledger block 2 (imports): %v", err)
	}
	r.Evals(len(b2))
	var leaves []common.Uint256
	for i, tx := range accepting {
		h := tx.Hash()
		p := new(scom.MakeTxParam)
		_ = p.Deserialization(common.NewZeroCopySource(msgsAcc[i]))
		leaves = append(leaves, refLeaf(refMerkleValue(h.ToArray(), S1, p)))
	}
	det := map[string]any{"block_txs": len(b2), "expected_leaves": len(leaves), "cross_hashes": len(res.CrossHashes)}
	if !reflect.DeepEqual(res.CrossHashes, leaves) {
		r.Violation("C22/ledger/block-cross-hashes-differ-from-accepted-imports", det)
	}
	if res.CrossStatesRoot != refRoot(leaves) {
		r.Violation("C22/ledger/block-cross-states-root-differs", det)
	}
	if root, err := ch.L.GetCrossStateRoot(blk.Header.Height); err != nil || root != refRoot(leaves) {
		det["err"] = fmt.Sprint(err)
		r.Violation("C22/ledger/stored-cross-states-root-differs", det)
	}
	for i, tx := range accepting {
		h := tx.Hash()
		key := []byte(ccm.RequestKey(D1, h.ToArray()))[1:]
		if _, err := ch.L.GetCrossStatesProof(blk.Header.Height, key); err != nil {
			det["err"], det["index"] = fmt.Sprint(err), i
			r.Violation("C22/ledger/no-cross-states-proof-for-accepted-request", det)
		}
	}
	// a block whose only import is rejected: no leaf, zero root
	b3 := []*types.Transaction{ccm.VoteImport(S1, 10, m3, vals[q-1], 201)}
	if res3, err := ch.L.ExecuteBlock(ch.NextBlock(b3, nil)); err != nil || len(res3.CrossHashes) != 0 || res3.CrossStatesRoot != common.UINT256_EMPTY {
		det["err"] = fmt.Sprint(err)
		r.Violation("C22/ledger/rejected-import-produced-cross-state", det)
	}
	r.Class("ledger:block-checked")
	r.Note("ledger_block", det)
}
