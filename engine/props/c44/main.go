// C44 — consensus messages round-trip and signatures bind their content.
//
// Part 1  every VBFT message kind (the 10 kinds of the type switch in DeserializeVbftMsg) with boundary field values:
//         SerializeVbftMsg -> DeserializeVbftMsg gives the same kind, the same fields (nil == empty), the same block
//         number, and re-encodes to the same bytes.
// Part 2  p2p ConsensusPayload: zero-copy codec (Serialization/Deserialization), streaming codec (Serialize/
//         Deserialize) and the types.Consensus wrapper agree byte for byte and field for field.
// Part 3  ConsensusPayload.Verify after signing with real keys (exactly as Server.broadcastToAll signs): every
//         single-field mutation, every single-byte flip of the encoded payload (both decoders), every other key and
//         every foreign signature must be rejected.
// Part 4  blockProposalMsg.Verify after signing with real keys (exactly as Server.constructBlock signs): every
//         single-field mutation (through encode -> decode, so no stale hash cache is involved), every other key,
//         and every single-byte flip of the encoded proposal: a mutant that decodes and verifies must carry exactly
//         the original signed content (header-unsigned bytes + transaction hashes of Block; of EmptyBlock if it is
//         still present). The wire flips run in a child process under `ulimit -v` because a flipped transaction
//         signature count reaches the unchecked `make([]Sig, l)` of Transaction.Deserialization (F3 / C02).
// Part 5  (information, no alarm) what the Verify methods of the other kinds cover.
package main

import (
	"bufio"
	"bytes"
	"crypto/sha256"
	"encoding/hex"
	"encoding/json"
	"fmt"
	"os"
	"os/exec"
	"reflect"
	"sort"
	"strconv"
	"strings"

	"github.com/ontio/ontology-crypto/keypair"
	"github.com/polynetwork/poly/common"
	"github.com/polynetwork/poly/common/config"
	"github.com/polynetwork/poly/common/verifhook/ssync"
	"github.com/polynetwork/poly/consensus/vbft"
	vconfig "github.com/polynetwork/poly/consensus/vbft/config"
	"github.com/polynetwork/poly/core/payload"
	"github.com/polynetwork/poly/core/signature"
	"github.com/polynetwork/poly/core/types"
	ptypes "github.com/polynetwork/poly/p2pserver/message/types"
	"verif.local/engine/ev"
	"verif.local/engine/lib/sched"
	"verif.local/engine/polyenv"
)

// ------------------------------------------------------------------------------------------------
// normalised field dump (nil == empty; blocks by their encoding)

func blockBytes(b *types.Block) []byte {
	sink := common.NewZeroCopySink(nil)
	if err := b.Serialization(sink); err != nil {
		panic(err)
	}
	return sink.Bytes()
}

func normBlock(b *vbft.Block) any {
	m := map[string]any{"Block": hex.EncodeToString(blockBytes(b.Block)), "Empty": nil}
	if b.EmptyBlock != nil {
		m["Empty"] = hex.EncodeToString(blockBytes(b.EmptyBlock))
	}
	j, _ := json.Marshal(b.Info)
	m["Info"] = string(j)
	return m
}

func norm(v reflect.Value) any {
	switch v.Kind() {
	case reflect.Ptr:
		if v.IsNil() {
			return nil
		}
		if b, ok := v.Interface().(*vbft.Block); ok {
			return normBlock(b)
		}
		return norm(v.Elem())
	case reflect.Interface:
		if v.IsNil() {
			return nil
		}
		return norm(v.Elem())
	case reflect.Struct:
		m := map[string]any{}
		for i := 0; i < v.NumField(); i++ {
			if v.Type().Field(i).PkgPath != "" {
				continue
			}
			m[v.Type().Field(i).Name] = norm(v.Field(i))
		}
		return m
	case reflect.Slice:
		if v.Type().Elem().Kind() == reflect.Uint8 {
			return "hex:" + hex.EncodeToString(v.Bytes())
		}
		out := []any{}
		for i := 0; i < v.Len(); i++ {
			out = append(out, norm(v.Index(i)))
		}
		return out
	case reflect.Array:
		if v.Type().Elem().Kind() == reflect.Uint8 {
			b := make([]byte, v.Len())
			for i := range b {
				b[i] = byte(v.Index(i).Uint())
			}
			return "hex:" + hex.EncodeToString(b)
		}
		out := []any{}
		for i := 0; i < v.Len(); i++ {
			out = append(out, norm(v.Index(i)))
		}
		return out
	case reflect.Map:
		m := map[string]any{}
		for _, k := range v.MapKeys() {
			m[fmt.Sprint(k.Interface())] = norm(v.MapIndex(k))
		}
		return m
	case reflect.Bool:
		return v.Bool()
	case reflect.Int, reflect.Int8, reflect.Int16, reflect.Int32, reflect.Int64:
		return v.Int()
	case reflect.Uint, reflect.Uint8, reflect.Uint16, reflect.Uint32, reflect.Uint64:
		return v.Uint()
	case reflect.String:
		return v.String()
	}
	return fmt.Sprintf("%v", v.Interface())
}

func normMsg(m vbft.ConsensusMsg) any { return norm(reflect.ValueOf(m)) }

// ------------------------------------------------------------------------------------------------
// boundary alphabets

func pat(n int, seed byte) []byte {
	b := make([]byte, n)
	for i := range b {
		b[i] = byte(i) + seed
	}
	return b
}

var (
	u32s   = []any{uint32(0), uint32(1), uint32(0x7fffffff), uint32(0xffffffff)}
	bools  = []any{false, true}
	hashes = []any{common.Uint256{}, allFF(), common.Uint256(hash32("x"))}
	bytesA = []any{[]byte(nil), []byte{}, []byte{0}, pat(64, 1), pat(300, 0)}
	faulty = []any{[]*vbft.FaultyReport(nil), []*vbft.FaultyReport{},
		[]*vbft.FaultyReport{{FaultyID: 0, FaultyMsgHash: common.Uint256{}}},
		[]*vbft.FaultyReport{{FaultyID: 0xffffffff, FaultyMsgHash: allFF()}, nil, {FaultyID: 1, FaultyMsgHash: common.Uint256(hash32("f"))}}}
	sigMaps = []any{map[uint32][]byte(nil), map[uint32][]byte{}, map[uint32][]byte{0: {7}},
		map[uint32][]byte{1: pat(64, 3), 0xffffffff: {}, 7: pat(300, 9), 2: nil}}
	bytes2d = []any{[][]byte(nil), [][]byte{}, [][]byte{nil}, [][]byte{{1}}, [][]byte{pat(33, 2), pat(300, 0), {}}}
)

func allFF() common.Uint256 {
	var h common.Uint256
	for i := range h {
		h[i] = 0xff
	}
	return h
}

func hash32(s string) [32]byte { return sha256.Sum256([]byte(s)) }

type kind struct {
	name   string
	fields [][]any
	build  func(v []any) vbft.ConsensusMsg
}

// enumerate: full product when small, else every field swept over its alphabet on three backgrounds (all-first,
// all-last, all-middle values).
func (k kind) enumerate(maxProduct int, visit func(vals []any, how string)) {
	prod := 1
	for _, f := range k.fields {
		prod *= len(f)
		if prod > maxProduct {
			break
		}
	}
	if prod <= maxProduct {
		idx := make([]int, len(k.fields))
		for {
			vals := make([]any, len(idx))
			for i, j := range idx {
				vals[i] = k.fields[i][j]
			}
			visit(vals, "product")
			i := 0
			for ; i < len(idx); i++ {
				idx[i]++
				if idx[i] < len(k.fields[i]) {
					break
				}
				idx[i] = 0
			}
			if i == len(idx) {
				return
			}
		}
	}
	for bg := 0; bg < 3; bg++ {
		base := make([]int, len(k.fields))
		for i, f := range k.fields {
			switch bg {
			case 1:
				base[i] = len(f) - 1
			case 2:
				base[i] = len(f) / 2
			}
		}
		for fi, f := range k.fields {
			for j := range f {
				vals := make([]any, len(base))
				for i, b := range base {
					vals[i] = k.fields[i][b]
				}
				vals[fi] = f[j]
				visit(vals, "sweep")
			}
		}
	}
}

// ------------------------------------------------------------------------------------------------
// blocks

func mkTx(i int) *types.Transaction {
	tx := &types.Transaction{Version: types.CURR_TX_VERSION, TxType: types.Invoke, Nonce: uint32(0x01010101 + i),
		Payload: &payload.InvokeCode{Code: []byte{byte(i), byte(i >> 8), 0x51}}, Attributes: []byte{}}
	sink := common.NewZeroCopySink(nil)
	if err := tx.Serialization(sink); err != nil {
		panic(err)
	}
	out, err := types.TransactionFromRawBytes(sink.Bytes())
	if err != nil {
		panic(err)
	}
	return out
}

type hdrVals struct {
	chainID          uint64
	ts, height       uint32
	consensusData    uint64
	prev, cross, blk common.Uint256
	next             common.Address
}

var hdrAlphabet = []hdrVals{
	{},
	{chainID: ^uint64(0), ts: 0xffffffff, height: 0xffffffff, consensusData: ^uint64(0), prev: allFF(), cross: allFF(), blk: allFF(),
		next: common.Address{0xff, 0xff, 0xff, 0xff, 0xff, 0xff, 0xff, 0xff, 0xff, 0xff, 0xff, 0xff, 0xff, 0xff, 0xff, 0xff, 0xff, 0xff, 0xff, 0xff}},
	{chainID: 7, ts: 1600000000, height: 1234, consensusData: 0x1122334455667788, prev: common.Uint256(hash32("p")),
		cross: common.Uint256(hash32("c")), blk: common.Uint256(hash32("b")), next: common.Address{1, 2, 3}},
}

// constructBlock-style block: header hash signed by signers[0] (proposer), further signers add SigData entries.
func mkBlock(h hdrVals, info *vconfig.VbftBlockInfo, ntx int, signers []*polyenv.Acct) *types.Block {
	var txs []*types.Transaction
	var hs []common.Uint256
	for i := 0; i < ntx; i++ {
		t := mkTx(i)
		txs = append(txs, t)
		hs = append(hs, t.Hash())
	}
	cp, err := json.Marshal(info)
	if err != nil {
		panic(err)
	}
	hdr := &types.Header{Version: types.CURR_HEADER_VERSION, ChainID: h.chainID, PrevBlockHash: h.prev,
		TransactionsRoot: common.ComputeMerkleRoot(hs), CrossStateRoot: h.cross, BlockRoot: h.blk, Timestamp: h.ts, Height: h.height,
		ConsensusData: h.consensusData, ConsensusPayload: cp, NextBookkeeper: h.next}
	blk := &types.Block{Header: hdr, Transactions: txs}
	// hash from a throw-away copy so that the header under test carries no cached hash
	cpy := *hdr
	hash := cpy.Hash()
	for _, s := range signers {
		sig, err := signature.Sign(s, hash[:])
		if err != nil {
			panic(err)
		}
		hdr.Bookkeepers = append(hdr.Bookkeepers, s.Pub)
		hdr.SigData = append(hdr.SigData, sig)
	}
	return blk
}

func mkInfo(proposer uint32, cfg *vconfig.ChainConfig) *vconfig.VbftBlockInfo {
	return &vconfig.VbftBlockInfo{Proposer: proposer, VrfValue: pat(64, 5), VrfProof: pat(64, 6), LastConfigBlockNum: 3, NewChainConfig: cfg}
}

func cloneInfo(i *vconfig.VbftBlockInfo) *vconfig.VbftBlockInfo {
	j, _ := json.Marshal(i)
	out := &vconfig.VbftBlockInfo{}
	if err := json.Unmarshal(j, out); err != nil {
		panic(err)
	}
	return out
}

// ------------------------------------------------------------------------------------------------

var keys []*polyenv.Acct
var chainCfgs []any

func setup() {
	keys = polyenv.Keys(7)
	polyenv.Setup(0, keys[:4])
	vconf := &config.VBFTConfig{BlockMsgDelay: 10000, HashMsgDelay: 10000, PeerHandshakeTimeout: 10, MaxBlockChangeView: 1000}
	mk := func(n int) *vconfig.ChainConfig {
		var peers []*config.VBFTPeerInfo
		for i := 0; i < n; i++ {
			peers = append(peers, &config.VBFTPeerInfo{Index: uint32(i + 1), PeerPubkey: keys[i].PubHex})
		}
		c, err := vconfig.GenesisChainConfig(vconf, peers, 1)
		if err != nil {
			panic(err)
		}
		return c
	}
	c7 := mk(7)
	c7.View = 0xffffffff
	c7.MaxBlockChangeView = 0xffffffff
	chainCfgs = []any{(*vconfig.ChainConfig)(nil), mk(4), c7, &vconfig.ChainConfig{}}
}

func main() {
	if os.Getenv("C44_CHILD") != "" {
		setup()
		childMain()
		return
	}
	r := ev.Start("C44", "exploration")
	setup()
	part1RoundTrip(r)
	part2PayloadCodec(r)
	part3PayloadBinding(r)
	part4ProposalBinding(r)
	part5VerifyCoverage(r)
	part6Provenance(r)
	part7Retention(r)
	if r.NViolations() == 0 {
		r.Require("roundtrip_ok", "payload_codec_ok", "payload_verify_accept", "payload_mutant_rejected", "payload_wire_decode_reject",
			"payload_wire_verify_reject", "proposal_verify_accept", "proposal_mutant_rejected", "proposal_wire_decode_reject", "proposal_wire_verify_reject",
			"provenance_payload_accept", "provenance_payload_mutant_rejected", "provenance_proposal_accept", "provenance_proposal_mutant_rejected",
			"provenance_vote_accept", "provenance_vote_mutant_rejected", "retention_ok", "retention_concurrent_ok")
	}
	r.Assume("ECDSA P-256 / SHA256withECDSA keys (polyenv deterministic keys), the only scheme the consensus accounts of this code base use",
		"signature *encoding* malleability (64-byte raw vs scheme-prefixed form) is not a content change and is not explored",
		"transactions inside proposal blocks carry no Sigs (transaction signatures are outside the block hash by design)")
	r.Finish(map[string]any{
		"rule": "decode(encode(m)) == m for all 10 VBFT kinds and for ConsensusPayload in both codecs; Verify(signed payload / proposal) accepts the original and rejects every single-field mutant, every single-byte flip of the encoding that changes signed content, and every other key",
		"message_kinds": []string{"BlockProposal", "BlockEndorse", "BlockCommit", "PeerHandshake", "PeerHeartbeat", "BlockInfoFetch",
			"BlockInfoFetchResp", "ProposalFetch", "BlockFetch", "BlockFetchResp"},
	})
}

// ------------------------------------------------------------------------------------------------
// Part 1

func roundTrip(r *ev.Run, kindName string, m vbft.ConsensusMsg, desc func() any) {
	r.Eval()
	var data []byte
	var err error
	if rec, p := ev.Guard(func() { data, err = vbft.SerializeVbftMsg(m) }); p {
		r.Violation("roundtrip:"+kindName+":encode-panic", map[string]any{"msg": desc(), "panic": fmt.Sprint(rec)})
		return
	}
	if err != nil {
		r.Violation("roundtrip:"+kindName+":encode-error", map[string]any{"msg": desc(), "err": err.Error()})
		return
	}
	var got vbft.ConsensusMsg
	if rec, p := ev.Guard(func() { got, err = vbft.DeserializeVbftMsg(data) }); p {
		r.Violation("roundtrip:"+kindName+":decode-panic", map[string]any{"msg": desc(), "panic": fmt.Sprint(rec)})
		return
	}
	if err != nil {
		r.Violation("roundtrip:"+kindName+":decode-error", map[string]any{"msg": desc(), "err": err.Error(), "encoded": string(data)})
		return
	}
	if got.Type() != m.Type() || reflect.TypeOf(got) != reflect.TypeOf(m) {
		r.Violation("roundtrip:"+kindName+":kind-changed", map[string]any{"msg": desc(), "got_type": fmt.Sprintf("%T/%d", got, got.Type())})
		return
	}
	a, b := normMsg(m), normMsg(got)
	if !reflect.DeepEqual(a, b) {
		r.Violation("roundtrip:"+kindName+":fields-changed", map[string]any{"msg": desc(), "before": a, "after": b})
		return
	}
	if got.GetBlockNum() != m.GetBlockNum() {
		r.Violation("roundtrip:"+kindName+":blocknum-changed", map[string]any{"msg": desc()})
	}
	again, err := vbft.SerializeVbftMsg(got)
	if err != nil || !bytes.Equal(again, data) {
		r.Violation("roundtrip:"+kindName+":reencode-differs", map[string]any{"msg": desc(), "first": string(data), "second": string(again)})
		return
	}
	h1, e1 := vbft.HashMsg(m)
	h2, e2 := vbft.HashMsg(got)
	if e1 != nil || e2 != nil || h1 != h2 {
		r.Violation("roundtrip:"+kindName+":hash-differs", map[string]any{"msg": desc()})
		return
	}
	r.Class("roundtrip_ok")
	r.Class("roundtrip_ok:" + kindName)
}

type blockSpec struct {
	Hdr, Ntx, Nsig int
	Cfg            int
	Empty          bool
}

func (s blockSpec) build() *vbft.Block {
	var cfg *vconfig.ChainConfig
	if s.Cfg > 0 {
		cfg = chainCfgs[s.Cfg].(*vconfig.ChainConfig)
	}
	info := mkInfo(uint32(1+s.Hdr), cfg)
	signers := keys[:s.Nsig]
	b := &vbft.Block{Block: mkBlock(hdrAlphabet[s.Hdr], info, s.Ntx, signers), Info: cloneInfo(info)}
	if s.Empty {
		b.EmptyBlock = mkBlock(hdrAlphabet[s.Hdr], info, 0, signers)
	}
	return b
}

func blockSpecs() []blockSpec {
	var out []blockSpec
	for h := range hdrAlphabet {
		for _, ntx := range []int{0, 1, 3} {
			for _, nsig := range []int{0, 1, 4} {
				for _, cfg := range []int{0, 1, 2} {
					for _, e := range []bool{false, true} {
						out = append(out, blockSpec{h, ntx, nsig, cfg, e})
					}
				}
			}
		}
	}
	return out
}

func part1RoundTrip(r *ev.Run) {
	maxProduct := r.QT(3000, 120000)
	blockInfos := []any{[]*vbft.BlockInfo_(nil), []*vbft.BlockInfo_{}, []*vbft.BlockInfo_{{BlockNum: 0, Proposer: 0, Signatures: nil}},
		[]*vbft.BlockInfo_{{BlockNum: 0xffffffff, Proposer: 0xffffffff, Signatures: map[uint32][]byte{0: {}, 0xffffffff: pat(64, 1)}}, nil,
			{BlockNum: 5, Proposer: 2, Signatures: map[uint32][]byte{}}, {BlockNum: 6, Proposer: 3, Signatures: map[uint32][]byte{3: pat(300, 0)}}}}
	kinds := []kind{
		{"BlockEndorse", [][]any{u32s, u32s, u32s, hashes, bools, faulty, bytesA, bytesA}, func(v []any) vbft.ConsensusMsg {
			return vbft.VerifMsgEndorse(v[0].(uint32), v[1].(uint32), v[2].(uint32), v[3].(common.Uint256), v[4].(bool), v[5].([]*vbft.FaultyReport), v[6].([]byte), v[7].([]byte))
		}},
		{"BlockCommit", [][]any{u32s, u32s, u32s, hashes, bools, faulty, bytesA, sigMaps, bytesA}, func(v []any) vbft.ConsensusMsg {
			return vbft.VerifMsgCommit(v[0].(uint32), v[1].(uint32), v[2].(uint32), v[3].(common.Uint256), v[4].(bool), v[5].([]*vbft.FaultyReport), v[6].([]byte), v[7].(map[uint32][]byte), v[8].([]byte))
		}},
		{"PeerHandshake", [][]any{u32s, hashes, u32s, chainCfgs}, func(v []any) vbft.ConsensusMsg {
			return vbft.VerifMsgHandshake(v[0].(uint32), v[1].(common.Uint256), v[2].(uint32), v[3].(*vconfig.ChainConfig))
		}},
		{"PeerHeartbeat", [][]any{u32s, hashes, u32s, bytes2d, bytes2d, u32s}, func(v []any) vbft.ConsensusMsg {
			return vbft.VerifMsgHeartbeat(v[0].(uint32), v[1].(common.Uint256), v[2].(uint32), v[3].([][]byte), v[4].([][]byte), v[5].(uint32))
		}},
		{"BlockInfoFetch", [][]any{u32s}, func(v []any) vbft.ConsensusMsg { return &vbft.BlockInfoFetchMsg{StartBlockNum: v[0].(uint32)} }},
		{"BlockInfoFetchResp", [][]any{blockInfos}, func(v []any) vbft.ConsensusMsg {
			return &vbft.BlockInfoFetchRespMsg{Blocks: v[0].([]*vbft.BlockInfo_)}
		}},
		{"ProposalFetch", [][]any{u32s, u32s}, func(v []any) vbft.ConsensusMsg { return vbft.VerifMsgProposalFetch(v[0].(uint32), v[1].(uint32)) }},
		{"BlockFetch", [][]any{u32s}, func(v []any) vbft.ConsensusMsg { return vbft.VerifMsgBlockFetch(v[0].(uint32)) }},
	}
	for _, k := range kinds {
		n := 0
		k.enumerate(maxProduct, func(vals []any, how string) {
			n++
			m := k.build(vals)
			roundTrip(r, k.name, m, func() any { return map[string]any{"kind": k.name, "fields": normMsg(m)} })
			if n <= 1 {
				r.Sample(map[string]any{"kind": k.name, "fields": normMsg(m)})
			}
		})
		r.Case(fmt.Sprintf("kind=%s/msgs=%d", k.name, n))
		r.Note("roundtrip_msgs_"+k.name, n)
	}
	// block-bearing kinds
	specs := blockSpecs()
	for _, s := range specs {
		s := s
		m := vbft.VerifMsgProposal(s.build())
		roundTrip(r, "BlockProposal", m, func() any { return map[string]any{"kind": "BlockProposal", "block_spec": s} })
		r.Case(fmt.Sprintf("proposal/%+v", s))
	}
	nresp := 0
	for _, s := range specs {
		if r.Quick() && s.Cfg == 1 {
			continue
		}
		for _, n := range u32s {
			for _, h := range hashes {
				s := s
				m := &vbft.BlockFetchRespMsg{BlockNumber: n.(uint32), BlockHash: h.(common.Uint256), BlockData: s.build()}
				roundTrip(r, "BlockFetchResp", m, func() any {
					return map[string]any{"kind": "BlockFetchResp", "block_spec": s, "number": n, "hash": hex.EncodeToString(func() []byte { x := h.(common.Uint256); return x[:] }())}
				})
				nresp++
			}
		}
	}
	r.Note("roundtrip_msgs_BlockProposal", len(specs))
	r.Note("roundtrip_msgs_BlockFetchResp", nresp)
	// unknown kind byte and inconsistent length are rejected
	for _, raw := range []string{`{"type":10,"len":2,"payload":"e30="}`, `{"type":255,"len":2,"payload":"e30="}`, `{"type":5,"len":1,"payload":"e30="}`} {
		r.Eval()
		if m, err := vbft.DeserializeVbftMsg([]byte(raw)); err == nil {
			r.Violation("decode:accepts-malformed-envelope", map[string]any{"raw": raw, "got": fmt.Sprintf("%T", m)})
		} else {
			r.Class("envelope_reject")
		}
	}
}

// ------------------------------------------------------------------------------------------------
// Part 2

type plFields struct {
	Version   uint32
	PrevHash  common.Uint256
	Height    uint32
	BkIndex   uint16
	Timestamp uint32
	Data      []byte
	Owner     int
	Sig       []byte
}

func (f plFields) build() *ptypes.ConsensusPayload {
	return &ptypes.ConsensusPayload{Version: f.Version, PrevHash: f.PrevHash, Height: f.Height, BookkeeperIndex: f.BkIndex,
		Timestamp: f.Timestamp, Data: f.Data, Owner: keys[f.Owner].Pub, Signature: f.Sig}
}

func plEqual(a, b *ptypes.ConsensusPayload) bool {
	return a.Version == b.Version && a.PrevHash == b.PrevHash && a.Height == b.Height && a.BookkeeperIndex == b.BookkeeperIndex &&
		a.Timestamp == b.Timestamp && bytes.Equal(a.Data, b.Data) && bytes.Equal(a.Signature, b.Signature) &&
		a.Owner != nil && b.Owner != nil && bytes.Equal(keypair.SerializePublicKey(a.Owner), keypair.SerializePublicKey(b.Owner))
}

func encZC(p *ptypes.ConsensusPayload) []byte {
	sink := common.NewZeroCopySink(nil)
	if err := p.Serialization(sink); err != nil {
		panic(err)
	}
	return sink.Bytes()
}

func encStream(p *ptypes.ConsensusPayload) []byte {
	buf := new(bytes.Buffer)
	if err := p.Serialize(buf); err != nil {
		panic(err)
	}
	return buf.Bytes()
}

func decZC(b []byte) (*ptypes.ConsensusPayload, error) {
	p := &ptypes.ConsensusPayload{}
	var err error
	if rec, pn := ev.Guard(func() { err = p.Deserialization(common.NewZeroCopySource(b)) }); pn {
		return nil, fmt.Errorf("panic: %v", rec)
	}
	return p, err
}

func decStream(b []byte) (*ptypes.ConsensusPayload, error) {
	p := &ptypes.ConsensusPayload{}
	var err error
	if rec, pn := ev.Guard(func() { err = p.Deserialize(bytes.NewReader(b)) }); pn {
		return nil, fmt.Errorf("panic: %v", rec)
	}
	return p, err
}

func part2PayloadCodec(r *ev.Run) {
	dataLens := []int{0, 1, 252, 253, 254, 65535, 65536, 70000}
	var datas [][]byte
	for _, n := range dataLens {
		datas = append(datas, pat(n, 3))
	}
	u16s := []uint16{0, 1, 0x7fff, 0xffff}
	sigs := [][]byte{nil, {1}, pat(64, 1), pat(65, 2), pat(253, 0)}
	base := plFields{Version: 1, PrevHash: common.Uint256(hash32("q")), Height: 9, BkIndex: 2, Timestamp: 77, Data: pat(40, 0), Owner: 0, Sig: pat(64, 1)}
	var all []plFields
	add := func(mod func(f *plFields)) {
		f := base
		mod(&f)
		all = append(all, f)
	}
	for _, v := range u32s {
		v := v.(uint32)
		add(func(f *plFields) { f.Version = v })
		add(func(f *plFields) { f.Height = v })
		add(func(f *plFields) { f.Timestamp = v })
	}
	for _, h := range hashes {
		h := h.(common.Uint256)
		add(func(f *plFields) { f.PrevHash = h })
	}
	for _, v := range u16s {
		v := v
		add(func(f *plFields) { f.BkIndex = v })
	}
	for _, d := range datas {
		d := d
		for _, s := range sigs {
			s := s
			for o := range keys {
				o := o
				add(func(f *plFields) { f.Data = d; f.Sig = s; f.Owner = o })
			}
		}
	}
	// all-min / all-max corners
	add(func(f *plFields) { *f = plFields{Owner: 1} })
	add(func(f *plFields) {
		*f = plFields{Version: 0xffffffff, PrevHash: allFF(), Height: 0xffffffff, BkIndex: 0xffff, Timestamp: 0xffffffff, Data: datas[len(datas)-1], Owner: len(keys) - 1, Sig: sigs[len(sigs)-1]}
	})
	for _, f := range all {
		r.Eval()
		p := f.build()
		desc := map[string]any{"version": f.Version, "height": f.Height, "bk": f.BkIndex, "ts": f.Timestamp, "data_len": len(f.Data), "owner": f.Owner, "sig_len": len(f.Sig)}
		z, s := encZC(p), encStream(p)
		if !bytes.Equal(z, s) {
			r.Violation("payload-codec:zero-copy-and-streaming-encodings-differ", desc)
			continue
		}
		wsink := common.NewZeroCopySink(nil)
		w := &ptypes.Consensus{Cons: *p}
		_ = w.Serialization(wsink)
		if !bytes.Equal(wsink.Bytes(), z) {
			r.Violation("payload-codec:consensus-wrapper-encoding-differs", desc)
			continue
		}
		ok := true
		for name, dec := range map[string]func([]byte) (*ptypes.ConsensusPayload, error){"zero-copy": decZC, "streaming": decStream} {
			q, err := dec(z)
			if err != nil {
				r.Violation("payload-codec:decode-error:"+name, map[string]any{"payload": desc, "err": err.Error()})
				ok = false
				continue
			}
			if !plEqual(p, q) {
				r.Violation("payload-codec:fields-changed:"+name, map[string]any{"payload": desc})
				ok = false
				continue
			}
			if !bytes.Equal(encZC(q), z) {
				r.Violation("payload-codec:reencode-differs:"+name, map[string]any{"payload": desc})
				ok = false
			}
		}
		w2 := &ptypes.Consensus{}
		if err := w2.Deserialization(common.NewZeroCopySource(z)); err != nil || !plEqual(p, &w2.Cons) {
			r.Violation("payload-codec:consensus-wrapper-decode", map[string]any{"payload": desc})
			ok = false
		}
		if ok {
			r.Class("payload_codec_ok")
			r.Case(fmt.Sprintf("payload/%v", desc))
		}
	}
	r.Note("payload_codec_cases", len(all))
}

// precondition failures are harness errors — unless the run already found a violation (a broken codec also breaks the
// canonical accept case; the violation is the verdict then).
func precondition(r *ev.Run, format string, a ...any) {
	if r.NViolations() > 0 {
		r.Note("precondition_failed_after_violation", fmt.Sprintf(format, a...))
		return
	}
	r.HarnessError(format, a...)
}

// ------------------------------------------------------------------------------------------------
// Part 3

func signPayload(p *ptypes.ConsensusPayload, a *polyenv.Acct) {
	buf := new(bytes.Buffer)
	if err := p.SerializeUnsigned(buf); err != nil {
		panic(err)
	}
	sig, err := signature.Sign(a, buf.Bytes())
	if err != nil {
		panic(err)
	}
	p.Signature = sig
}

func clonePayload(p *ptypes.ConsensusPayload) *ptypes.ConsensusPayload {
	q := *p
	q.Data = append([]byte{}, p.Data...)
	q.Signature = append([]byte{}, p.Signature...)
	return &q
}

func verifyPayload(p *ptypes.ConsensusPayload) (ok bool) {
	var err error
	if _, pn := ev.Guard(func() { err = p.Verify() }); pn {
		return false
	}
	return err == nil
}

func flipMasks(r *ev.Run) []byte {
	if r.Quick() {
		return []byte{0x01, 0x80, 0xff}
	}
	return []byte{0x01, 0x02, 0x04, 0x08, 0x10, 0x20, 0x40, 0x80, 0xff}
}

func part3PayloadBinding(r *ev.Run) {
	endorse := vbft.VerifMsgEndorse(2, 1, 10, common.Uint256(hash32("blk")), false, nil, pat(64, 1), pat(64, 2))
	endorseBytes, _ := vbft.SerializeVbftMsg(endorse)
	bases := []struct {
		name string
		f    plFields
	}{
		{"endorse-msg", plFields{Version: 0, PrevHash: common.Uint256{}, Height: 0, BkIndex: 0, Timestamp: 0, Data: endorseBytes, Owner: 0}}, // as sendToPeer builds it
		{"all-fields-set", plFields{Version: 1, PrevHash: common.Uint256(hash32("q")), Height: 9, BkIndex: 2, Timestamp: 77, Data: pat(300, 0), Owner: 1}},
		{"empty-data", plFields{Version: 0xffffffff, PrevHash: allFF(), Height: 0xffffffff, BkIndex: 0xffff, Timestamp: 0xffffffff, Data: nil, Owner: 2}},
	}
	masks := flipMasks(r)
	fieldMutants, wireMutants := 0, 0
	for _, b := range bases {
		orig := b.f.build()
		signPayload(orig, keys[b.f.Owner])
		r.Eval()
		if !verifyPayload(orig) {
			precondition(r, "freshly signed ConsensusPayload %s does not verify", b.name)
			continue
		}
		r.Class("payload_verify_accept")
		// decoded copy verifies too
		for _, dec := range []func([]byte) (*ptypes.ConsensusPayload, error){decZC, decStream} {
			q, err := dec(encZC(orig))
			if err != nil || !verifyPayload(q) {
				precondition(r, "decoded signed ConsensusPayload %s does not verify: %v", b.name, err)
			}
		}
		expectReject := func(what string, mod func(p *ptypes.ConsensusPayload)) {
			p := clonePayload(orig)
			mod(p)
			r.Eval()
			fieldMutants++
			if verifyPayload(p) {
				r.Violation("payload-verify:accepts-mutant:"+strings.SplitN(what, "#", 2)[0], map[string]any{"base": b.name, "mutation": what})
			} else {
				r.Class("payload_mutant_rejected")
			}
		}
		for _, v := range u32s {
			v := v.(uint32)
			if v != orig.Version {
				expectReject(fmt.Sprintf("Version#%d", v), func(p *ptypes.ConsensusPayload) { p.Version = v })
			}
			if v != orig.Height {
				expectReject(fmt.Sprintf("Height#%d", v), func(p *ptypes.ConsensusPayload) { p.Height = v })
			}
			if v != orig.Timestamp {
				expectReject(fmt.Sprintf("Timestamp#%d", v), func(p *ptypes.ConsensusPayload) { p.Timestamp = v })
			}
		}
		for _, v := range []uint16{0, 1, 0x7fff, 0xffff, orig.BookkeeperIndex ^ 0x100} {
			v := v
			if v != orig.BookkeeperIndex {
				expectReject(fmt.Sprintf("BookkeeperIndex#%d", v), func(p *ptypes.ConsensusPayload) { p.BookkeeperIndex = v })
			}
		}
		for i := 0; i < 32; i++ {
			i := i
			expectReject(fmt.Sprintf("PrevHash#byte%d", i), func(p *ptypes.ConsensusPayload) { p.PrevHash[i] ^= 0x01 })
		}
		for i := range orig.Data {
			for _, m := range masks {
				i, m := i, m
				expectReject(fmt.Sprintf("Data#flip%d^%02x", i, m), func(p *ptypes.ConsensusPayload) { p.Data[i] ^= m })
			}
		}
		expectReject("Data#append0", func(p *ptypes.ConsensusPayload) { p.Data = append(p.Data, 0) })
		if len(orig.Data) > 0 {
			expectReject("Data#droplast", func(p *ptypes.ConsensusPayload) { p.Data = p.Data[:len(p.Data)-1] })
			expectReject("Data#dropfirst", func(p *ptypes.ConsensusPayload) { p.Data = p.Data[1:] })
			expectReject("Data#empty", func(p *ptypes.ConsensusPayload) { p.Data = nil })
		}
		for o := range keys {
			o := o
			if o != b.f.Owner {
				expectReject(fmt.Sprintf("Owner#key%d", o), func(p *ptypes.ConsensusPayload) { p.Owner = keys[o].Pub })
				expectReject(fmt.Sprintf("Signature#signed-by-key%d", o), func(p *ptypes.ConsensusPayload) { signPayload(p, keys[o]); p.Owner = orig.Owner })
			}
		}
		for i := range orig.Signature {
			for _, m := range masks {
				i, m := i, m
				expectReject(fmt.Sprintf("Signature#flip%d^%02x", i, m), func(p *ptypes.ConsensusPayload) { p.Signature[i] ^= m })
			}
		}
		expectReject("Signature#nil", func(p *ptypes.ConsensusPayload) { p.Signature = nil })
		expectReject("Signature#droplast", func(p *ptypes.ConsensusPayload) { p.Signature = p.Signature[:len(p.Signature)-1] })
		expectReject("Signature#of-other-content", func(p *ptypes.ConsensusPayload) {
			q := clonePayload(orig)
			q.Height ^= 1
			signPayload(q, keys[b.f.Owner])
			p.Signature = q.Signature
		})
		// PeerId is neither encoded nor signed: not content
		{
			p := clonePayload(orig)
			p.PeerId ^= 0xdeadbeef
			if verifyPayload(p) && bytes.Equal(encZC(p), encZC(orig)) {
				r.Class("payload_unencoded_field_PeerId_ignored")
			}
		}
		// wire flips: every byte of the full encoding
		wire := encZC(orig)
		for i := range wire {
			for _, m := range masks {
				mut := append([]byte{}, wire...)
				mut[i] ^= m
				for name, dec := range map[string]func([]byte) (*ptypes.ConsensusPayload, error){"zero-copy": decZC, "streaming": decStream} {
					r.Eval()
					wireMutants++
					q, err := dec(mut)
					if err != nil {
						r.Class("payload_wire_decode_reject")
						continue
					}
					if verifyPayload(q) {
						r.Violation("payload-verify:accepts-wire-flip:"+name, map[string]any{"base": b.name, "offset": i, "mask": m, "wire_len": len(wire),
							"same_fields_as_original": plEqual(q, orig)})
					} else {
						r.Class("payload_wire_verify_reject")
					}
				}
			}
		}
		r.Case("payload-binding/" + b.name)
	}
	r.Note("payload_field_mutants", fieldMutants)
	r.Note("payload_wire_mutants", wireMutants)
}

// ------------------------------------------------------------------------------------------------
// Part 4

type propBase struct {
	name     string
	spec     blockSpec
	proposer int
}

var propBases = []propBase{
	{"2nd-hdr/3tx/empty-block", blockSpec{Hdr: 2, Ntx: 3, Nsig: 1, Cfg: 0, Empty: true}, 0},
	{"max-hdr/1tx/no-empty-block/new-chain-config", blockSpec{Hdr: 1, Ntx: 1, Nsig: 1, Cfg: 1, Empty: false}, 0},
	{"min-hdr/0tx/empty-block", blockSpec{Hdr: 0, Ntx: 0, Nsig: 1, Cfg: 0, Empty: true}, 0},
}

func encodeProposal(b *vbft.Block) []byte {
	data, err := vbft.SerializeVbftMsg(vbft.VerifMsgProposal(b))
	if err != nil {
		panic(err)
	}
	return data
}

// signed content of one types.Block: what its SigData[0] is meant to cover
func signedContent(b *types.Block) string {
	if b == nil {
		return "<nil>"
	}
	s := hex.EncodeToString(b.Header.GetMessage())
	for _, t := range b.Transactions {
		h := t.Hash()
		s += "/" + h.ToHexString()
	}
	return s
}

type propVerdict struct {
	Class  string // decode_reject | verify_reject | accepted
	Same   bool   // Block signed content identical to the original
	EmptyS string // "same" | "dropped" | "changed" | "none"
}

func judgeProposal(data []byte, pub keypair.PublicKey, origBlk, origEmpty string) propVerdict {
	var m vbft.ConsensusMsg
	var err error
	if _, pn := ev.Guard(func() { m, err = vbft.DeserializeVbftMsg(data) }); pn {
		return propVerdict{Class: "decode_reject"}
	}
	if err != nil || m.Type() != vbft.BlockProposalMessage {
		return propVerdict{Class: "decode_reject"}
	}
	var verr error
	if _, pn := ev.Guard(func() { verr = m.Verify(pub) }); pn {
		return propVerdict{Class: "verify_reject"}
	}
	if verr != nil {
		return propVerdict{Class: "verify_reject"}
	}
	blk := vbft.VerifProposalBlock(m)
	v := propVerdict{Class: "accepted", Same: signedContent(blk.Block) == origBlk}
	switch {
	case origEmpty == "<nil>" && blk.EmptyBlock == nil:
		v.EmptyS = "none"
	case blk.EmptyBlock == nil:
		v.EmptyS = "dropped"
	case signedContent(blk.EmptyBlock) == origEmpty:
		v.EmptyS = "same"
	default:
		v.EmptyS = "changed"
	}
	return v
}

func rebuildInfo(b *types.Block, mod func(i *vconfig.VbftBlockInfo)) {
	info := &vconfig.VbftBlockInfo{}
	if err := json.Unmarshal(b.Header.ConsensusPayload, info); err != nil {
		panic(err)
	}
	mod(info)
	b.Header.ConsensusPayload, _ = json.Marshal(info)
}

func part4ProposalBinding(r *ev.Run) {
	fieldMutants := 0
	unsignedAccepted := map[string]int{}
	for _, pb := range propBases {
		pb := pb
		signer := keys[pb.proposer]
		// fresh(): a newly built, freshly signed copy is NOT what we want (signatures are randomised): decode the encoded original instead
		origWire := encodeProposal(pb.spec.build())
		fresh := func() *vbft.Block {
			m, err := vbft.DeserializeVbftMsg(origWire)
			if err != nil {
				panic(err)
			}
			return vbft.VerifProposalBlock(m)
		}
		o := fresh()
		origBlk, origEmpty := signedContent(o.Block), signedContent(o.EmptyBlock)
		r.Eval()
		if v := judgeProposal(origWire, signer.Pub, origBlk, origEmpty); v.Class != "accepted" || !v.Same {
			precondition(r, "freshly signed proposal %s is not accepted: %+v", pb.name, v)
			continue
		}
		r.Class("proposal_verify_accept")
		// any other key
		for k := range keys {
			if k == pb.proposer {
				continue
			}
			r.Eval()
			fieldMutants++
			if v := judgeProposal(origWire, keys[k].Pub, origBlk, origEmpty); v.Class == "accepted" {
				r.Violation("proposal-verify:accepts-other-key", map[string]any{"base": pb.name, "key": k})
			} else {
				r.Class("proposal_mutant_rejected")
			}
		}
		// field mutants; signedField=true: the mutant must be rejected; false: reported as unsigned-by-design
		mutate := func(what string, signedField bool, mod func(b *vbft.Block)) {
			b := fresh()
			mod(b)
			var wire []byte
			if rec, pn := ev.Guard(func() { wire = encodeProposal(b) }); pn {
				r.Note("proposal_mutant_encode_panic:"+what, fmt.Sprint(rec))
				return
			}
			r.Eval()
			fieldMutants++
			v := judgeProposal(wire, signer.Pub, origBlk, origEmpty)
			cls := strings.SplitN(what, "#", 2)[0]
			switch {
			case v.Class != "accepted":
				r.Class("proposal_mutant_rejected")
				if !signedField {
					unsignedAccepted[cls+":rejected"]++
				}
			case v.Same && v.EmptyS == "dropped" && strings.HasPrefix(what, "EmptyBlock"):
				// the mutated EmptyBlock no longer decodes; Block.Deserialize swallows that error and the proposal is
				// accepted WITHOUT an empty block: no signature is accepted for changed content (reported, not alarmed)
				unsignedAccepted["EmptyBlock made undecodable -> silently dropped, proposal accepted without it"]++
				r.Class("proposal_mutant_empty_block_silently_dropped")
			case signedField || !v.Same || v.EmptyS == "changed":
				r.Violation("proposal-verify:accepts-mutant:"+cls, map[string]any{"base": pb.name, "mutation": what, "verdict": v})
			default:
				unsignedAccepted[cls+":accepted(empty="+v.EmptyS+")"]++
				r.Class("proposal_unsigned_part_mutant_accepted")
			}
		}
		for _, which := range []string{"Block", "EmptyBlock"} {
			which := which
			if which == "EmptyBlock" && !pb.spec.Empty {
				continue
			}
			sel := func(b *vbft.Block) *types.Block {
				if which == "Block" {
					return b.Block
				}
				return b.EmptyBlock
			}
			hm := func(field string, mod func(h *types.Header)) {
				mutate(which+"."+field, true, func(b *vbft.Block) { mod(sel(b).Header) })
			}
			hm("ChainID#^1", func(h *types.Header) { h.ChainID ^= 1 })
			hm("ChainID#^hi", func(h *types.Header) { h.ChainID ^= 1 << 63 })
			hm("Timestamp#^1", func(h *types.Header) { h.Timestamp ^= 1 })
			hm("Timestamp#^hi", func(h *types.Header) { h.Timestamp ^= 1 << 31 })
			hm("Height#^1", func(h *types.Header) { h.Height ^= 1 })
			hm("Height#^hi", func(h *types.Header) { h.Height ^= 1 << 31 })
			hm("ConsensusData#^1", func(h *types.Header) { h.ConsensusData ^= 1 })
			hm("ConsensusData#^hi", func(h *types.Header) { h.ConsensusData ^= 1 << 63 })
			for i := 0; i < 32; i++ {
				i := i
				hm(fmt.Sprintf("PrevBlockHash#byte%d", i), func(h *types.Header) { h.PrevBlockHash[i] ^= 1 })
				hm(fmt.Sprintf("CrossStateRoot#byte%d", i), func(h *types.Header) { h.CrossStateRoot[i] ^= 1 })
				hm(fmt.Sprintf("BlockRoot#byte%d", i), func(h *types.Header) { h.BlockRoot[i] ^= 1 })
				hm(fmt.Sprintf("TransactionsRoot#byte%d", i), func(h *types.Header) { h.TransactionsRoot[i] ^= 1 })
			}
			for i := 0; i < 20; i++ {
				i := i
				hm(fmt.Sprintf("NextBookkeeper#byte%d", i), func(h *types.Header) { h.NextBookkeeper[i] ^= 1 })
			}
			mutate(which+".ConsensusPayload#proposer", true, func(b *vbft.Block) {
				rebuildInfo(sel(b), func(i *vconfig.VbftBlockInfo) { i.Proposer ^= 1 })
			})
			mutate(which+".ConsensusPayload#vrf", true, func(b *vbft.Block) {
				rebuildInfo(sel(b), func(i *vconfig.VbftBlockInfo) { i.VrfValue[0] ^= 1 })
			})
			mutate(which+".ConsensusPayload#vrfproof", true, func(b *vbft.Block) {
				rebuildInfo(sel(b), func(i *vconfig.VbftBlockInfo) { i.VrfProof[63] ^= 1 })
			})
			mutate(which+".ConsensusPayload#lastconfig", true, func(b *vbft.Block) {
				rebuildInfo(sel(b), func(i *vconfig.VbftBlockInfo) { i.LastConfigBlockNum ^= 1 })
			})
			mutate(which+".ConsensusPayload#chainconfig", true, func(b *vbft.Block) {
				rebuildInfo(sel(b), func(i *vconfig.VbftBlockInfo) {
					if i.NewChainConfig == nil {
						i.NewChainConfig = chainCfgs[1].(*vconfig.ChainConfig)
					} else {
						i.NewChainConfig = nil
					}
				})
			})
			mutate(which+".ConsensusPayload#whitespace", true, func(b *vbft.Block) {
				sel(b).Header.ConsensusPayload = append(sel(b).Header.ConsensusPayload, ' ')
			})
			// transactions: with and without a matching root
			mutate(which+".Transactions#append/root-kept", true, func(b *vbft.Block) { sel(b).Transactions = append(sel(b).Transactions, mkTx(40)) })
			mutate(which+".Transactions#append/root-rebuilt", true, func(b *vbft.Block) {
				sel(b).Transactions = append(sel(b).Transactions, mkTx(40))
				sel(b).RebuildMerkleRoot()
			})
			if len(sel(o).Transactions) > 0 {
				mutate(which+".Transactions#droplast/root-kept", true, func(b *vbft.Block) { sel(b).Transactions = sel(b).Transactions[:len(sel(b).Transactions)-1] })
				mutate(which+".Transactions#droplast/root-rebuilt", true, func(b *vbft.Block) {
					sel(b).Transactions = sel(b).Transactions[:len(sel(b).Transactions)-1]
					sel(b).RebuildMerkleRoot()
				})
				mutate(which+".Transactions#replace0/root-rebuilt", true, func(b *vbft.Block) {
					sel(b).Transactions[0] = mkTx(41)
					sel(b).RebuildMerkleRoot()
				})
			}
			if len(sel(o).Transactions) > 1 {
				mutate(which+".Transactions#swap01/root-kept", true, func(b *vbft.Block) {
					t := sel(b).Transactions
					t[0], t[1] = t[1], t[0]
				})
				mutate(which+".Transactions#swap01/root-rebuilt", true, func(b *vbft.Block) {
					t := sel(b).Transactions
					t[0], t[1] = t[1], t[0]
					sel(b).RebuildMerkleRoot()
				})
			}
			// the proposer signature itself
			for i := 0; i < len(sel(o).Header.SigData[0]); i++ {
				i := i
				mutate(fmt.Sprintf("%s.SigData0#flip%d", which, i), true, func(b *vbft.Block) { sel(b).Header.SigData[0][i] ^= 1 })
			}
			mutate(which+".SigData0#droplast", true, func(b *vbft.Block) { s := sel(b).Header.SigData[0]; sel(b).Header.SigData[0] = s[:len(s)-1] })
			mutate(which+".SigData#none", true, func(b *vbft.Block) { sel(b).Header.SigData = nil })
			mutate(which+".SigData0#by-other-key", true, func(b *vbft.Block) {
				h := sel(b).Hash()
				sig, _ := signature.Sign(keys[3], h[:])
				sel(b).Header.SigData[0] = sig
			})
			// parts no proposal signature covers (reported, not alarmed)
			mutate(which+".Bookkeepers#other-key", false, func(b *vbft.Block) { sel(b).Header.Bookkeepers[0] = keys[4].Pub })
			mutate(which+".Bookkeepers#none", false, func(b *vbft.Block) { sel(b).Header.Bookkeepers = nil })
			mutate(which+".SigData#append-extra", false, func(b *vbft.Block) { sel(b).Header.SigData = append(sel(b).Header.SigData, pat(64, 9)) })
		}
		if pb.spec.Empty && origBlk != origEmpty { // with zero user transactions both blocks are the same block: nothing to swap
			mutate("SigData0#swapped-between-block-and-empty", true, func(b *vbft.Block) {
				b.Block.Header.SigData[0], b.EmptyBlock.Header.SigData[0] = b.EmptyBlock.Header.SigData[0], b.Block.Header.SigData[0]
			})
		}
		if pb.spec.Empty {
			mutate("EmptyBlock#removed", false, func(b *vbft.Block) { b.EmptyBlock = nil })
		}
		r.Case("proposal-binding/" + pb.name)
	}
	r.Note("proposal_field_mutants", fieldMutants)
	r.Note("proposal_parts_outside_any_signature", unsignedAccepted)

	// wire flips in a memory-limited child
	runWireChild(r)
}

// --- child protocol: "P <base> <off> <mask>" before each decode, "R <class> <same> <empty>" after, "DONE" at the end.

func childMain() {
	from, _ := strconv.Atoi(os.Getenv("C44_FROM"))
	masksS := strings.Split(os.Getenv("C44_MASKS"), ",")
	var masks []byte
	for _, s := range masksS {
		v, _ := strconv.ParseUint(s, 16, 8)
		masks = append(masks, byte(v))
	}
	wires := strings.Split(os.Getenv("C44_WIRES"), ",")
	out := bufio.NewWriter(os.Stdout)
	defer out.Flush()
	idx := 0
	for bi, wh := range wires {
		wire, _ := hex.DecodeString(wh)
		m, err := vbft.DeserializeVbftMsg(wire)
		if err != nil {
			fmt.Fprintf(out, "ERR %v\n", err)
			return
		}
		o := vbft.VerifProposalBlock(m)
		origBlk, origEmpty := signedContent(o.Block), signedContent(o.EmptyBlock)
		// the JSON envelope base64-encodes the payload: flip bytes of the *payload* and re-wrap (the envelope itself
		// is plain JSON text whose single-byte flips are covered by decode rejection of JSON/base64 in the parent)
		env := map[string]json.RawMessage{}
		_ = json.Unmarshal(wire, &env)
		var payload []byte
		_ = json.Unmarshal(env["payload"], &payload)
		pub := keys[propBases[bi].proposer].Pub
		// family 0: flips of the binary proposal payload (Block.Serialize bytes), re-wrapped in a well-formed envelope;
		// family 1: flips of the JSON envelope text itself (type / len / base64 characters).
		for fam, buf := range [][]byte{payload, wire} {
			for off := range buf {
				for _, mk := range masks {
					if idx < from {
						idx++
						continue
					}
					fmt.Fprintf(out, "P %d %d %d %02x %d\n", idx, bi, off, mk, fam)
					out.Flush()
					mut := append([]byte{}, buf...)
					mut[off] ^= mk
					w := mut
					if fam == 0 {
						pj, _ := json.Marshal(mut)
						w = []byte(fmt.Sprintf(`{"type":0,"len":%d,"payload":%s}`, len(mut), pj))
					}
					v := judgeProposal(w, pub, origBlk, origEmpty)
					fmt.Fprintf(out, "R %s %v %s\n", v.Class, v.Same, v.EmptyS)
					idx++
				}
			}
		}
	}
	fmt.Fprintln(out, "DONE")
}

func runWireChild(r *ev.Run) {
	var wires []string
	var layouts []map[string]any
	for _, pb := range propBases {
		w := encodeProposal(pb.spec.build())
		wires = append(wires, hex.EncodeToString(w))
		m, _ := vbft.DeserializeVbftMsg(w)
		b := vbft.VerifProposalBlock(m)
		l := map[string]any{"base": pb.name, "block_bytes": len(blockBytes(b.Block)), "block_header_unsigned_bytes": len(b.Block.Header.GetMessage())}
		if b.EmptyBlock != nil {
			l["empty_block_bytes"] = len(blockBytes(b.EmptyBlock))
		}
		layouts = append(layouts, l)
	}
	var ms []string
	for _, m := range flipMasks(r) {
		ms = append(ms, fmt.Sprintf("%02x", m))
	}
	self, err := os.Executable()
	if err != nil {
		r.HarnessError("os.Executable: %v", err)
	}
	from := 0
	total := 0
	crashes := []map[string]any{}
	acceptedSameOffsets := map[string][]int{}
	for restarts := 0; ; restarts++ {
		if restarts > 200 {
			r.HarnessError("wire-flip child restarted more than 200 times")
		}
		cmd := exec.Command("bash", "-c", "ulimit -v 4000000; exec timeout 600 \"$0\"", self)
		cmd.Env = append(os.Environ(), "C44_CHILD=1", "C44_FROM="+strconv.Itoa(from), "C44_MASKS="+strings.Join(ms, ","), "C44_WIRES="+strings.Join(wires, ","))
		var stderr bytes.Buffer
		cmd.Stderr = &stderr
		stdout, _ := cmd.StdoutPipe()
		if err := cmd.Start(); err != nil {
			r.HarnessError("start child: %v", err)
		}
		sc := bufio.NewScanner(stdout)
		sc.Buffer(make([]byte, 1<<20), 1<<20)
		var last []string
		pending := false
		done := false
		for sc.Scan() {
			f := strings.Fields(sc.Text())
			if len(f) == 0 {
				continue
			}
			switch f[0] {
			case "P":
				last = f
				pending = true
			case "R":
				pending = false
				total++
				r.Eval()
				bi, _ := strconv.Atoi(last[2])
				off, _ := strconv.Atoi(last[3])
				switch f[1] {
				case "decode_reject":
					r.Class("proposal_wire_decode_reject")
				case "verify_reject":
					r.Class("proposal_wire_verify_reject")
				case "accepted":
					same, empty := f[2] == "true", f[3]
					if !same || empty == "changed" {
						r.Violation("proposal-verify:accepts-wire-flip:"+famName(last[5]), map[string]any{"base": propBases[bi].name, "offset": off, "mask": last[4],
							"block_content_same": same, "empty_block": empty, "layout": layouts[bi]})
					} else {
						k := fmt.Sprintf("%s/%s/empty=%s", propBases[bi].name, famName(last[5]), empty)
						if n := len(acceptedSameOffsets[k]); n == 0 || acceptedSameOffsets[k][n-1] != off {
							acceptedSameOffsets[k] = append(acceptedSameOffsets[k], off)
						}
						r.Class("proposal_wire_accepted_signed_content_identical(empty=" + empty + ")")
					}
				}
			case "DONE":
				done = true
			case "ERR":
				r.HarnessError("child: %s", sc.Text())
			}
		}
		_ = cmd.Wait()
		if done {
			break
		}
		if !pending || last == nil {
			r.HarnessError("wire-flip child died outside a decode: %s", tail(stderr.String()))
		}
		idx, _ := strconv.Atoi(last[1])
		bi, _ := strconv.Atoi(last[2])
		off, _ := strconv.Atoi(last[3])
		crashes = append(crashes, map[string]any{"base": propBases[bi].name, "family": famName(last[5]), "offset": off, "mask": last[4], "stderr": firstLine(stderr.String())})
		r.Class("proposal_wire_decoder_process_death")
		total++
		from = idx + 1
	}
	ranges := map[string]string{}
	for k, offs := range acceptedSameOffsets {
		sort.Ints(offs)
		ranges[k] = compress(offs)
	}
	r.Note("proposal_wire_mutants", total)
	r.Note("proposal_wire_layouts", layouts)
	r.Note("proposal_wire_accepted_with_identical_signed_content_offsets", ranges)
	r.Note("proposal_wire_decoder_process_deaths", map[string]any{"count": len(crashes), "first": firstN(crashes, 5),
		"meaning": "the Go runtime aborted (allocation beyond ulimit -v 4 GB) while decoding the mutant: the unchecked make([]Sig, l) in Transaction.Deserialization (finding F3, property C02); the mutant was not accepted"})
}

func famName(f string) string {
	if f == "1" {
		return "envelope-text"
	}
	return "payload-bytes"
}

func firstN(x []map[string]any, n int) []map[string]any {
	if len(x) > n {
		return x[:n]
	}
	return x
}

func tail(s string) string {
	if len(s) > 400 {
		return s[len(s)-400:]
	}
	return s
}

func firstLine(s string) string {
	if i := strings.IndexByte(s, '\n'); i >= 0 {
		s = s[:i]
	}
	if len(s) > 200 {
		s = s[:200]
	}
	return s
}

func compress(offs []int) string {
	var parts []string
	for i := 0; i < len(offs); {
		j := i
		for j+1 < len(offs) && offs[j+1] == offs[j]+1 {
			j++
		}
		if i == j {
			parts = append(parts, strconv.Itoa(offs[i]))
		} else {
			parts = append(parts, fmt.Sprintf("%d-%d", offs[i], offs[j]))
		}
		i = j + 1
	}
	return strings.Join(parts, ",")
}

// ------------------------------------------------------------------------------------------------
// Part 5 — information: what the other Verify methods cover

func part5VerifyCoverage(r *ev.Run) {
	cov := map[string]any{}
	hash := common.Uint256(hash32("blk"))
	signer := keys[1]
	sig, _ := signature.Sign(signer, hash[:])
	other, _ := signature.Sign(keys[2], hash[:])
	type mut struct {
		name string
		m    vbft.ConsensusMsg
	}
	accept := func(m vbft.ConsensusMsg, pub keypair.PublicKey) bool {
		var err error
		if _, pn := ev.Guard(func() { err = m.Verify(pub) }); pn {
			return false
		}
		return err == nil
	}
	endorse := func(e, p, n uint32, h common.Uint256, fe bool, ps, es []byte) vbft.ConsensusMsg {
		return vbft.VerifMsgEndorse(e, p, n, h, fe, nil, ps, es)
	}
	if !accept(endorse(2, 1, 10, hash, false, pat(64, 1), sig), signer.Pub) {
		r.HarnessError("signed endorse msg does not verify")
	}
	em := []mut{
		{"Endorser", endorse(3, 1, 10, hash, false, pat(64, 1), sig)},
		{"EndorsedProposer", endorse(2, 2, 10, hash, false, pat(64, 1), sig)},
		{"BlockNum", endorse(2, 1, 11, hash, false, pat(64, 1), sig)},
		{"EndorsedBlockHash", endorse(2, 1, 10, common.Uint256(hash32("other")), false, pat(64, 1), sig)},
		{"EndorseForEmpty", endorse(2, 1, 10, hash, true, pat(64, 1), sig)},
		{"ProposerSig", endorse(2, 1, 10, hash, false, pat(64, 2), sig)},
		{"EndorserSig(other key)", endorse(2, 1, 10, hash, false, pat(64, 1), other)},
	}
	ec := map[string]string{}
	for _, m := range em {
		r.Eval()
		ec[m.name] = map[bool]string{true: "accepted (not bound by EndorserSig)", false: "rejected"}[accept(m.m, signer.Pub)]
	}
	ec["other public key"] = map[bool]string{true: "accepted", false: "rejected"}[accept(endorse(2, 1, 10, hash, false, pat(64, 1), sig), keys[3].Pub)]
	cov["blockEndorseMsg.Verify"] = map[string]any{"covers": "EndorserSig over EndorsedBlockHash only", "single_field_mutations": ec}
	commit := func(c, p, n uint32, h common.Uint256, fe bool, ps []byte, es map[uint32][]byte, cs []byte) vbft.ConsensusMsg {
		return vbft.VerifMsgCommit(c, p, n, h, fe, nil, ps, es, cs)
	}
	if !accept(commit(2, 1, 10, hash, false, pat(64, 1), map[uint32][]byte{3: other}, sig), signer.Pub) {
		r.HarnessError("signed commit msg does not verify")
	}
	cm := []mut{
		{"Committer", commit(3, 1, 10, hash, false, pat(64, 1), map[uint32][]byte{3: other}, sig)},
		{"BlockProposer", commit(2, 2, 10, hash, false, pat(64, 1), map[uint32][]byte{3: other}, sig)},
		{"BlockNum", commit(2, 1, 11, hash, false, pat(64, 1), map[uint32][]byte{3: other}, sig)},
		{"CommitBlockHash", commit(2, 1, 10, common.Uint256(hash32("other")), false, pat(64, 1), map[uint32][]byte{3: other}, sig)},
		{"CommitForEmpty", commit(2, 1, 10, hash, true, pat(64, 1), map[uint32][]byte{3: other}, sig)},
		{"ProposerSig", commit(2, 1, 10, hash, false, pat(64, 2), map[uint32][]byte{3: other}, sig)},
		{"EndorsersSig(garbage entry added)", commit(2, 1, 10, hash, false, pat(64, 1), map[uint32][]byte{3: other, 99: pat(64, 7)}, sig)},
		{"CommitterSig(other key)", commit(2, 1, 10, hash, false, pat(64, 1), map[uint32][]byte{3: other}, other)},
	}
	cc := map[string]string{}
	for _, m := range cm {
		r.Eval()
		cc[m.name] = map[bool]string{true: "accepted (not bound by CommitterSig)", false: "rejected"}[accept(m.m, signer.Pub)]
	}
	cov["blockCommitMsg.Verify"] = map[string]any{"covers": "CommitterSig over CommitBlockHash only; carried EndorsersSig are not verified", "single_field_mutations": cc}
	noop := []vbft.ConsensusMsg{vbft.VerifMsgHandshake(1, hash, 1, nil), vbft.VerifMsgHeartbeat(1, hash, 1, nil, nil, 1), &vbft.BlockInfoFetchMsg{},
		&vbft.BlockInfoFetchRespMsg{}, vbft.VerifMsgBlockFetch(1), &vbft.BlockFetchRespMsg{}, vbft.VerifMsgProposalFetch(1, 1)}
	allNoop := true
	for _, m := range noop {
		r.Eval()
		if !accept(m, nil) {
			allNoop = false
		}
	}
	cov["no-op Verify (returns nil for a nil key)"] = map[string]any{"kinds": "PeerHandshake, PeerHeartbeat, BlockInfoFetch, BlockInfoFetchResp, BlockFetch, BlockFetchResp, ProposalFetch", "confirmed": allNoop}
	cov["blockProposalMsg.Verify"] = "Block.Header.SigData[0] over Block header hash (header-unsigned fields; transactions via TransactionsRoot, which the block decoder re-checks) and, if an EmptyBlock is present, the same for it; Bookkeepers, SigData[1:] and the presence of EmptyBlock are covered by no proposal signature"
	cov["ConsensusPayload.Verify"] = "Signature by Owner over SerializeUnsigned = Version, PrevHash, Height, BookkeeperIndex, Timestamp, Data; PeerId is local only (neither encoded nor signed)"
	r.Note("verify_functions_and_coverage", cov)
}

// ------------------------------------------------------------------------------------------------
// Part 6 — the binding holds for objects in every provenance state, not only freshly built ones:
// built in memory / decoded (each decoder) / decoded-re-encoded-decoded / an object that held ANOTHER signed message and
// was refilled (each decoder, field assignment). In each state: the unmutated object verifies and encodes to the
// original bytes; every field mutation applied AFTER that makes Verify fail and shows in the encoding (no stale cache).

type plProv struct {
	name, class string
	make        func() (*ptypes.ConsensusPayload, error)
}

func assignPayload(dst, src *ptypes.ConsensusPayload) {
	dst.Version, dst.PrevHash, dst.Height, dst.BookkeeperIndex, dst.Timestamp = src.Version, src.PrevHash, src.Height, src.BookkeeperIndex, src.Timestamp
	dst.Data, dst.Owner, dst.Signature = append([]byte{}, src.Data...), src.Owner, append([]byte{}, src.Signature...)
}

func payloadProvenances(orig, other *ptypes.ConsensusPayload) []plProv {
	wire := func() []byte { return append([]byte{}, encZC(orig)...) }
	owire := func() []byte { return append([]byte{}, encZC(other)...) }
	intoZC := func(p *ptypes.ConsensusPayload, b []byte) error {
		var err error
		if rec, pn := ev.Guard(func() { err = p.Deserialization(common.NewZeroCopySource(b)) }); pn {
			return fmt.Errorf("panic: %v", rec)
		}
		return err
	}
	intoStream := func(p *ptypes.ConsensusPayload, b []byte) error {
		var err error
		if rec, pn := ev.Guard(func() { err = p.Deserialize(bytes.NewReader(b)) }); pn {
			return fmt.Errorf("panic: %v", rec)
		}
		return err
	}
	out := []plProv{
		{"built", "built", func() (*ptypes.ConsensusPayload, error) { p := &ptypes.ConsensusPayload{}; assignPayload(p, orig); return p, nil }},
		{"decoded/zero-copy", "decoded-zero-copy", func() (*ptypes.ConsensusPayload, error) { return decZC(wire()) }},
		{"decoded/streaming", "decoded-streaming", func() (*ptypes.ConsensusPayload, error) { return decStream(wire()) }},
		{"decoded/consensus-wrapper", "decoded-zero-copy", func() (*ptypes.ConsensusPayload, error) {
			w := &ptypes.Consensus{}
			err := w.Deserialization(common.NewZeroCopySource(wire()))
			return &w.Cons, err
		}},
	}
	decs := map[string]func([]byte) (*ptypes.ConsensusPayload, error){"zero-copy": decZC, "streaming": decStream}
	encs := map[string]func(*ptypes.ConsensusPayload) []byte{"zero-copy": encZC, "streaming": encStream}
	for _, d1 := range []string{"zero-copy", "streaming"} {
		for _, e := range []string{"zero-copy", "streaming"} {
			for _, d2 := range []string{"zero-copy", "streaming"} {
				d1, e, d2 := d1, e, d2
				out = append(out, plProv{"reencoded/" + d1 + ">" + e + ">" + d2, "reencoded", func() (*ptypes.ConsensusPayload, error) {
					p, err := decs[d1](wire())
					if err != nil {
						return nil, err
					}
					return decs[d2](append([]byte{}, encs[e](p)...))
				}})
			}
		}
	}
	first := map[string]func() (*ptypes.ConsensusPayload, error){
		"built":     func() (*ptypes.ConsensusPayload, error) { p := &ptypes.ConsensusPayload{}; assignPayload(p, other); return p, nil },
		"zero-copy": func() (*ptypes.ConsensusPayload, error) { return decZC(owire()) },
		"streaming": func() (*ptypes.ConsensusPayload, error) { return decStream(owire()) },
	}
	for _, f := range []string{"built", "zero-copy", "streaming"} {
		for _, refill := range []string{"zero-copy", "streaming", "assignment"} {
			f, refill := f, refill
			out = append(out, plProv{"reused/" + f + "-then-" + refill, "reused", func() (*ptypes.ConsensusPayload, error) {
				p, err := first[f]()
				if err != nil {
					return nil, err
				}
				switch refill {
				case "zero-copy":
					err = intoZC(p, wire())
				case "streaming":
					err = intoStream(p, wire())
				default:
					assignPayload(p, orig)
				}
				return p, err
			}})
		}
	}
	return out
}

type plMut struct {
	name string
	mod  func(p *ptypes.ConsensusPayload)
}

func part6Provenance(r *ev.Run) {
	// ---- ConsensusPayload
	endorse := vbft.VerifMsgEndorse(2, 1, 10, common.Uint256(hash32("blk")), false, nil, pat(64, 1), pat(64, 2))
	endorseBytes, _ := vbft.SerializeVbftMsg(endorse)
	mk := func(f plFields) *ptypes.ConsensusPayload { p := f.build(); signPayload(p, keys[f.Owner]); return p }
	bases := []struct {
		name        string
		orig, other *ptypes.ConsensusPayload
	}{
		{"endorse-msg", mk(plFields{Data: endorseBytes, Owner: 0}), mk(plFields{Version: 1, Height: 5, Data: pat(77, 3), Owner: 1})},
		{"all-fields-set", mk(plFields{Version: 1, PrevHash: common.Uint256(hash32("q")), Height: 9, BkIndex: 2, Timestamp: 77, Data: pat(300, 0), Owner: 1}),
			mk(plFields{Version: 1, PrevHash: common.Uint256(hash32("q")), Height: 10, BkIndex: 2, Timestamp: 77, Data: pat(300, 0), Owner: 1})},
	}
	nPl := 0
	for _, b := range bases {
		origWire := encZC(b.orig)
		otherSig := b.other.Signature
		muts := []plMut{
			{"Version+1", func(p *ptypes.ConsensusPayload) { p.Version++ }},
			{"Version-1", func(p *ptypes.ConsensusPayload) { p.Version-- }},
			{"Height+1", func(p *ptypes.ConsensusPayload) { p.Height++ }},
			{"Height-1", func(p *ptypes.ConsensusPayload) { p.Height-- }},
			{"BookkeeperIndex+1", func(p *ptypes.ConsensusPayload) { p.BookkeeperIndex++ }},
			{"BookkeeperIndex-1", func(p *ptypes.ConsensusPayload) { p.BookkeeperIndex-- }},
			{"Timestamp+1", func(p *ptypes.ConsensusPayload) { p.Timestamp++ }},
			{"Timestamp-1", func(p *ptypes.ConsensusPayload) { p.Timestamp-- }},
			{"PrevHash-byte0", func(p *ptypes.ConsensusPayload) { p.PrevHash[0] ^= 1 }},
			{"PrevHash-byte31", func(p *ptypes.ConsensusPayload) { p.PrevHash[31] ^= 0x80 }},
			{"Data-replaced-first-byte-flipped", func(p *ptypes.ConsensusPayload) { d := append([]byte{}, p.Data...); d[0] ^= 1; p.Data = d }},
			{"Data-replaced-last-byte-flipped", func(p *ptypes.ConsensusPayload) { d := append([]byte{}, p.Data...); d[len(d)-1] ^= 0x80; p.Data = d }},
			{"Data-in-place-byte-flipped", func(p *ptypes.ConsensusPayload) { p.Data[len(p.Data)/2] ^= 1 }},
			{"Data-appended", func(p *ptypes.ConsensusPayload) { p.Data = append(append([]byte{}, p.Data...), 0) }},
			{"Data-nil", func(p *ptypes.ConsensusPayload) { p.Data = nil }},
			{"Owner-swapped", func(p *ptypes.ConsensusPayload) { p.Owner = keys[3].Pub }},
			{"Signature-replaced-first-byte-flipped", func(p *ptypes.ConsensusPayload) { s := append([]byte{}, p.Signature...); s[0] ^= 1; p.Signature = s }},
			{"Signature-in-place-last-byte-flipped", func(p *ptypes.ConsensusPayload) { p.Signature[len(p.Signature)-1] ^= 1 }},
			{"Signature-of-the-other-payload", func(p *ptypes.ConsensusPayload) { p.Signature = append([]byte{}, otherSig...) }},
		}
		for _, pv := range payloadProvenances(b.orig, b.other) {
			for _, verifiedFirst := range []bool{false, true} {
				state := pv.name
				if verifiedFirst {
					state += "/verified-before-mutation"
				}
				fresh := func() *ptypes.ConsensusPayload {
					p, err := pv.make()
					if err != nil {
						r.Violation("payload-provenance:cannot-reach-state:"+pv.class, map[string]any{"base": b.name, "state": state, "err": err.Error()})
						return nil
					}
					return p
				}
				p := fresh()
				if p == nil {
					break
				}
				r.Eval()
				nPl++
				if !verifyPayload(p) {
					r.Violation("payload-verify:rejects-unmutated-object:"+pv.class, map[string]any{"base": b.name, "state": state})
				} else if !bytes.Equal(encZC(p), origWire) || !bytes.Equal(encStream(p), origWire) {
					r.Violation("payload-provenance:encoding-differs-from-original:"+pv.class, map[string]any{"base": b.name, "state": state})
				} else {
					r.Class("provenance_payload_accept")
				}
				for _, m := range muts {
					q := fresh()
					if q == nil {
						break
					}
					if verifiedFirst {
						_ = verifyPayload(q)
						_ = q.Hash()
					}
					if _, pn := ev.Guard(func() { m.mod(q) }); pn {
						continue
					}
					r.Eval()
					nPl++
					stale := bytes.Equal(encZC(q), origWire) || bytes.Equal(encStream(q), origWire)
					switch {
					case verifyPayload(q):
						r.Violation("payload-verify:accepts-mutant-of-object:"+pv.class, map[string]any{"base": b.name, "state": state, "mutation": m.name})
					case stale:
						r.Violation("payload-provenance:encoding-ignores-mutation:"+pv.class, map[string]any{"base": b.name, "state": state, "mutation": m.name})
					default:
						r.Class("provenance_payload_mutant_rejected")
					}
				}
			}
			r.Case("provenance/payload/" + b.name + "/" + pv.name)
		}
	}
	r.Note("provenance_payload_evaluations", nPl)

	// ---- block proposal (Block and EmptyBlock signatures)
	obs := map[string]int{}
	nProp := 0
	for bi, pb := range propBases {
		pub := keys[pb.proposer].Pub
		origWire := encodeProposal(pb.spec.build())
		otherWire := encodeProposal(propBases[(bi+1)%len(propBases)].spec.build())
		payloadOf := func(w []byte) []byte {
			env := map[string]json.RawMessage{}
			_ = json.Unmarshal(w, &env)
			var pl []byte
			_ = json.Unmarshal(env["payload"], &pl)
			return pl
		}
		dec := func(w []byte) (vbft.ConsensusMsg, error) { return vbft.DeserializeVbftMsg(append([]byte{}, w...)) }
		provs := []struct {
			name, class string
			make        func() (vbft.ConsensusMsg, error)
		}{
			{"decoded", "decoded", func() (vbft.ConsensusMsg, error) { return dec(origWire) }},
			{"reencoded", "reencoded", func() (vbft.ConsensusMsg, error) {
				m, err := dec(origWire)
				if err != nil {
					return nil, err
				}
				w, err := vbft.SerializeVbftMsg(m)
				if err != nil {
					return nil, err
				}
				return dec(w)
			}},
			{"reused/msg.UnmarshalJSON", "reused", func() (vbft.ConsensusMsg, error) {
				m, err := dec(otherWire)
				if err != nil {
					return nil, err
				}
				return m, m.(interface{ UnmarshalJSON([]byte) error }).UnmarshalJSON(payloadOf(origWire))
			}},
			{"reused/Block.Deserialize", "reused", func() (vbft.ConsensusMsg, error) {
				m, err := dec(otherWire)
				if err != nil {
					return nil, err
				}
				return m, vbft.VerifProposalBlock(m).Deserialize(payloadOf(origWire))
			}},
		}
		o, _ := dec(origWire)
		origBlk, origEmpty := signedContent(vbft.VerifProposalBlock(o).Block), signedContent(vbft.VerifProposalBlock(o).EmptyBlock)
		origHash := vbft.VerifProposalBlock(o).Block.Hash()
		type bm struct {
			name string
			mod  func(b *types.Block)
		}
		hm := []bm{
			{"Height+1", func(b *types.Block) { b.Header.Height++ }},
			{"Height-1", func(b *types.Block) { b.Header.Height-- }},
			{"Timestamp+1", func(b *types.Block) { b.Header.Timestamp++ }},
			{"ChainID+1", func(b *types.Block) { b.Header.ChainID++ }},
			{"ConsensusData-1", func(b *types.Block) { b.Header.ConsensusData-- }},
			{"PrevBlockHash-byte", func(b *types.Block) { b.Header.PrevBlockHash[3] ^= 1 }},
			{"TransactionsRoot-byte", func(b *types.Block) { b.Header.TransactionsRoot[0] ^= 1 }},
			{"CrossStateRoot-byte", func(b *types.Block) { b.Header.CrossStateRoot[31] ^= 1 }},
			{"BlockRoot-byte", func(b *types.Block) { b.Header.BlockRoot[7] ^= 0x80 }},
			{"NextBookkeeper-byte", func(b *types.Block) { b.Header.NextBookkeeper[0] ^= 1 }},
			{"ConsensusPayload-replaced", func(b *types.Block) { b.Header.ConsensusPayload = append(append([]byte{}, b.Header.ConsensusPayload...), ' ') }},
			{"SigData0-replaced-byte-flipped", func(b *types.Block) { s := append([]byte{}, b.Header.SigData[0]...); s[5] ^= 1; b.Header.SigData[0] = s }},
		}
		for _, pv := range provs {
			state := pb.name + "/" + pv.name
			m, err := pv.make()
			r.Eval()
			nProp++
			if err != nil {
				r.Violation("proposal-provenance:cannot-reach-state:"+pv.class, map[string]any{"state": state, "err": err.Error()})
				continue
			}
			w, _ := vbft.SerializeVbftMsg(m)
			blk := vbft.VerifProposalBlock(m)
			verr := fmt.Errorf("panic")
			ev.Guard(func() { verr = m.Verify(pub) })
			if verr != nil {
				r.Violation("proposal-verify:rejects-unmutated-object:"+pv.class, map[string]any{"state": state, "err": verr.Error()})
			} else if !bytes.Equal(w, origWire) || signedContent(blk.Block) != origBlk || signedContent(blk.EmptyBlock) != origEmpty || blk.Block.Hash() != origHash {
				r.Violation("proposal-provenance:content-differs-from-original:"+pv.class, map[string]any{"state": state})
			} else {
				r.Class("provenance_proposal_accept")
			}
			for _, which := range []string{"Block", "EmptyBlock"} {
				if which == "EmptyBlock" && !pb.spec.Empty {
					continue
				}
				for _, mu := range hm {
					q, err := pv.make()
					if err != nil {
						break
					}
					qb := vbft.VerifProposalBlock(q)
					tb := qb.Block
					if which == "EmptyBlock" {
						tb = qb.EmptyBlock
					}
					if _, pn := ev.Guard(func() { mu.mod(tb) }); pn { // before any Hash()/Verify() of this object
						continue
					}
					r.Eval()
					nProp++
					var verr error
					if _, pn := ev.Guard(func() { verr = q.Verify(pub) }); pn {
						verr = fmt.Errorf("panic")
					}
					w2, _ := vbft.SerializeVbftMsg(q)
					hashStale := !strings.HasPrefix(mu.name, "SigData") && signedContent(tb) == map[string]string{"Block": origBlk, "EmptyBlock": origEmpty}[which]
					switch {
					case verr == nil:
						r.Violation("proposal-verify:accepts-mutant-of-object:"+pv.class, map[string]any{"state": state, "mutation": which + "." + mu.name})
					case bytes.Equal(w2, origWire) || hashStale:
						r.Violation("proposal-provenance:encoding-or-hash-ignores-mutation:"+pv.class, map[string]any{"state": state, "mutation": which + "." + mu.name})
					default:
						r.Class("provenance_proposal_mutant_rejected")
					}
					// information only: the same mutation on an object that was verified (hashed) BEFORE the mutation
					q2, err := pv.make()
					if err == nil {
						qb2 := vbft.VerifProposalBlock(q2)
						tb2 := qb2.Block
						if which == "EmptyBlock" {
							tb2 = qb2.EmptyBlock
						}
						ok2 := false
						ev.Guard(func() { _ = q2.Verify(pub); mu.mod(tb2); ok2 = q2.Verify(pub) == nil })
						if !strings.HasPrefix(mu.name, "SigData") && ok2 {
							obs["accepted: header field changed AFTER Header.Hash() was cached (types.Header never invalidates its hash)"]++
						} else {
							obs["rejected although verified before the mutation"]++
						}
					}
				}
			}
			r.Case("provenance/proposal/" + state)
		}
	}
	r.Note("provenance_proposal_evaluations", nProp)
	r.Note("provenance_proposal_verified_then_mutated_observation", obs)

	// ---- endorse / commit votes: Verify binds (block hash, own signature, key)
	hash := common.Uint256(hash32("blk"))
	hash2 := common.Uint256(hash32("blk2"))
	signer := keys[1]
	sig, _ := signature.Sign(signer, hash[:])
	sig2, _ := signature.Sign(signer, hash2[:])
	votes := []struct {
		kind, hashField, sigField string
		orig, other                vbft.ConsensusMsg
	}{
		{"endorse", "EndorsedBlockHash", "EndorserSig", vbft.VerifMsgEndorse(2, 1, 10, hash, false, nil, pat(64, 1), sig), vbft.VerifMsgEndorse(2, 1, 10, hash2, true, nil, pat(64, 1), sig2)},
		{"commit", "CommitBlockHash", "CommitterSig", vbft.VerifMsgCommit(2, 1, 10, hash, false, nil, pat(64, 1), map[uint32][]byte{3: pat(64, 4)}, sig),
			vbft.VerifMsgCommit(2, 1, 10, hash2, true, nil, pat(64, 1), map[uint32][]byte{3: pat(64, 5)}, sig2)},
	}
	nVote := 0
	for _, v := range votes {
		origWire, _ := vbft.SerializeVbftMsg(v.orig)
		otherWire, _ := vbft.SerializeVbftMsg(v.other)
		origInner, _ := v.orig.Serialize()
		provs := []struct {
			name, class string
			make        func() (vbft.ConsensusMsg, error)
		}{
			{"decoded", "decoded", func() (vbft.ConsensusMsg, error) { return vbft.DeserializeVbftMsg(origWire) }},
			{"reencoded", "reencoded", func() (vbft.ConsensusMsg, error) {
				m, err := vbft.DeserializeVbftMsg(origWire)
				if err != nil {
					return nil, err
				}
				w, _ := vbft.SerializeVbftMsg(m)
				return vbft.DeserializeVbftMsg(w)
			}},
			{"reused/json.Unmarshal", "reused", func() (vbft.ConsensusMsg, error) {
				m, err := vbft.DeserializeVbftMsg(otherWire)
				if err != nil {
					return nil, err
				}
				return m, json.Unmarshal(origInner, m)
			}},
		}
		for _, pv := range provs {
			state := v.kind + "/" + pv.name
			m, err := pv.make()
			r.Eval()
			nVote++
			if err != nil {
				r.Violation("vote-provenance:cannot-reach-state:"+pv.class, map[string]any{"state": state, "err": err.Error()})
				continue
			}
			w, _ := vbft.SerializeVbftMsg(m)
			verr := fmt.Errorf("panic")
			ev.Guard(func() { verr = m.Verify(signer.Pub) })
			if verr != nil {
				r.Violation("vote-verify:rejects-unmutated-object:"+pv.class, map[string]any{"state": state, "err": verr.Error()})
			} else if !bytes.Equal(w, origWire) {
				r.Violation("vote-provenance:encoding-differs-from-original:"+pv.class, map[string]any{"state": state})
			} else {
				r.Class("provenance_vote_accept")
			}
			muts := []struct {
				name string
				mod  func(rv reflect.Value)
				pub  keypair.PublicKey
			}{
				{"hash-byte0", func(rv reflect.Value) { f := rv.FieldByName(v.hashField).Index(0); f.SetUint(f.Uint() ^ 1) }, signer.Pub},
				{"hash-byte31", func(rv reflect.Value) { f := rv.FieldByName(v.hashField).Index(31); f.SetUint(f.Uint() ^ 0x80) }, signer.Pub},
				{"sig-replaced-byte-flipped", func(rv reflect.Value) {
					f := rv.FieldByName(v.sigField)
					s := append([]byte{}, f.Bytes()...)
					s[9] ^= 1
					f.SetBytes(s)
				}, signer.Pub},
				{"sig-in-place-byte-flipped", func(rv reflect.Value) { f := rv.FieldByName(v.sigField).Index(0); f.SetUint(f.Uint() ^ 1) }, signer.Pub},
				{"other-key", func(rv reflect.Value) {}, keys[2].Pub},
			}
			for _, verifiedFirst := range []bool{false, true} {
				for _, mu := range muts {
					q, err := pv.make()
					if err != nil {
						break
					}
					if verifiedFirst {
						ev.Guard(func() { _ = q.Verify(signer.Pub) })
						_, _ = vbft.HashMsg(q)
					}
					if _, pn := ev.Guard(func() { mu.mod(reflect.ValueOf(q).Elem()) }); pn {
						continue // mutation not applicable to this object (e.g. a field the codec lost: reported by part 1)
					}
					r.Eval()
					nVote++
					w2, _ := vbft.SerializeVbftMsg(q)
					accepted := false
					ev.Guard(func() { accepted = q.Verify(mu.pub) == nil })
					switch {
					case accepted:
						r.Violation("vote-verify:accepts-mutant-of-object:"+pv.class, map[string]any{"state": state, "mutation": mu.name, "verified_before_mutation": verifiedFirst})
					case mu.name != "other-key" && bytes.Equal(w2, origWire):
						r.Violation("vote-provenance:encoding-ignores-mutation:"+pv.class, map[string]any{"state": state, "mutation": mu.name})
					default:
						r.Class("provenance_vote_mutant_rejected")
					}
				}
			}
			r.Case("provenance/vote/" + state)
		}
	}
	r.Note("provenance_vote_evaluations", nVote)
	r.Note("provenance_states", map[string]any{
		"ConsensusPayload": "built; decoded by zero-copy / streaming / types.Consensus wrapper; decode>encode>decode in all 8 codec combinations; an object that held another signed payload (built / zero-copy / streaming) refilled by zero-copy Deserialization, streaming Deserialize or field assignment; each state also with Verify()+Hash() called before the mutation",
		"blockProposalMsg": "decoded; decode>encode>decode; a decoded message of another proposal refilled through msg.UnmarshalJSON or Block.Deserialize; mutations precede the first Hash()/Verify() of the object (the verified-then-mutated state is reported, not alarmed: types.Header caches its hash for good)",
		"blockEndorseMsg/blockCommitMsg": "decoded; decode>encode>decode; a decoded message of another vote refilled by json.Unmarshal; each also with Verify()+HashMsg() before the mutation",
		"note": "ConsensusPayload.Hash() returns the zero hash constantly (no content hash exists to go stale)"})
}

// ------------------------------------------------------------------------------------------------
// Part 7 — encodings and decoded objects stay what they are while LATER messages are encoded / decoded.
// For every ordered pair (and, for the block-bearing kinds, triple) of message instances and every encoder the first
// one has: produce encoding A and HOLD it, produce every encoding of the later messages, then
//   (1) A's bytes are unchanged, (2) A still decodes to message 1 and verifies under key 1 only,
//   (3) overwriting A in place changes neither a fresh encoding of message 1, nor a retained decoded object, nor the
//       later encodings.
// Decode side: an object decoded earlier does not change when later messages are decoded, nor — for the decoders that
// own their input (JSON envelope, io.Reader) — when the input buffers are overwritten afterwards.
// Run twice: plainly, and as the single thread of a controlled-scheduler execution (a sync.Pool introduced by a change is
// then a deterministic free list). Finally encode(1) ∥ encode(2) under all schedules with ≤ 1 preemption.

type codec struct {
	name string
	enc  func() ([]byte, error)
	dec  func(b []byte) (norm any, verify func(k keypair.PublicKey) bool, err error)
	owns bool // the decoder copies what it keeps (input may be overwritten afterwards)
}

type retInst struct {
	name   string
	norm   any
	pub    keypair.PublicKey // nil: the kind has no signature check
	codecs []codec
	blocky bool
}

func envelope(t vbft.MsgType, inner []byte) []byte {
	pj, _ := json.Marshal(inner)
	return []byte(fmt.Sprintf(`{"type":%d,"len":%d,"payload":%s}`, t, len(inner), pj))
}

func retentionInstances() []retInst {
	var out []retInst
	decMsg := func(b []byte) (any, func(keypair.PublicKey) bool, error) {
		var m vbft.ConsensusMsg
		var err error
		if rec, pn := ev.Guard(func() { m, err = vbft.DeserializeVbftMsg(b) }); pn {
			return nil, nil, fmt.Errorf("panic: %v", rec)
		}
		if err != nil {
			return nil, nil, err
		}
		return m, func(k keypair.PublicKey) bool {
			ok := false
			ev.Guard(func() { ok = m.Verify(k) == nil })
			return ok
		}, nil
	}
	addMsg := func(name string, m vbft.ConsensusMsg, pub keypair.PublicKey, blocky bool) {
		t := m.Type()
		in := retInst{name: name, norm: normMsg(m), pub: pub, blocky: blocky}
		in.codecs = append(in.codecs,
			codec{"SerializeVbftMsg", func() ([]byte, error) { return vbft.SerializeVbftMsg(m) }, decMsg, true},
			codec{"msg.Serialize", m.Serialize, func(b []byte) (any, func(keypair.PublicKey) bool, error) { return decMsg(envelope(t, b)) }, true})
		if mj, ok := m.(interface{ MarshalJSON() ([]byte, error) }); ok {
			in.codecs = append(in.codecs, codec{"msg.MarshalJSON", mj.MarshalJSON,
				func(b []byte) (any, func(keypair.PublicKey) bool, error) { return decMsg(envelope(t, b)) }, true})
		}
		if blk := vbft.VerifProposalBlock(m); blk != nil {
			in.codecs = append(in.codecs, codec{"Block.Serialize", blk.Serialize, func(b []byte) (any, func(keypair.PublicKey) bool, error) {
				nb := &vbft.Block{}
				var err error
				if rec, pn := ev.Guard(func() { err = nb.Deserialize(b) }); pn {
					return nil, nil, fmt.Errorf("panic: %v", rec)
				}
				if err != nil {
					return nil, nil, err
				}
				pm := vbft.VerifMsgProposal(nb)
				return pm, func(k keypair.PublicKey) bool { ok := false; ev.Guard(func() { ok = pm.Verify(k) == nil }); return ok }, nil
			}, false})
		}
		out = append(out, in)
	}
	small := blockSpec{Hdr: 0, Ntx: 0, Nsig: 1, Cfg: 0, Empty: true}
	large := blockSpec{Hdr: 2, Ntx: 3, Nsig: 4, Cfg: 2, Empty: true}
	noEmpty := blockSpec{Hdr: 1, Ntx: 1, Nsig: 1, Cfg: 0, Empty: false}
	addMsg("proposal/small", vbft.VerifMsgProposal(small.build()), keys[0].Pub, true)
	addMsg("proposal/large", vbft.VerifMsgProposal(large.build()), keys[0].Pub, true)
	addMsg("proposal/no-empty-block", vbft.VerifMsgProposal(noEmpty.build()), keys[0].Pub, true)
	addMsg("fetch-resp/small", &vbft.BlockFetchRespMsg{BlockNumber: 1, BlockHash: common.Uint256(hash32("a")), BlockData: small.build()}, nil, true)
	addMsg("fetch-resp/large", &vbft.BlockFetchRespMsg{BlockNumber: 0xffffffff, BlockHash: allFF(), BlockData: large.build()}, nil, true)
	h := common.Uint256(hash32("blk"))
	sg, _ := signature.Sign(keys[1], h[:])
	addMsg("endorse", vbft.VerifMsgEndorse(2, 1, 10, h, false, nil, pat(64, 1), sg), keys[1].Pub, false)
	addMsg("commit/large", vbft.VerifMsgCommit(2, 1, 10, h, true, nil, pat(64, 1), map[uint32][]byte{1: pat(64, 2), 3: pat(300, 4), 7: pat(64, 9)}, sg), keys[1].Pub, false)
	addMsg("handshake/with-config", vbft.VerifMsgHandshake(9, h, 2, chainCfgs[2].(*vconfig.ChainConfig)), nil, false)
	addMsg("proposal-fetch", vbft.VerifMsgProposalFetch(3, 11), nil, false)
	for _, pf := range []struct {
		name string
		f    plFields
	}{{"payload/small", plFields{Height: 3, Data: pat(40, 1), Owner: 2}}, {"payload/large", plFields{Version: 1, Height: 9, BkIndex: 2, Timestamp: 77, Data: pat(70000, 0), Owner: 2}}} {
		p := pf.f.build()
		signPayload(p, keys[pf.f.Owner])
		mkdec := func(d func([]byte) (*ptypes.ConsensusPayload, error)) func(b []byte) (any, func(keypair.PublicKey) bool, error) {
			return func(b []byte) (any, func(keypair.PublicKey) bool, error) {
				q, err := d(b)
				if err != nil {
					return nil, nil, err
				}
				return q, func(k keypair.PublicKey) bool {
					own := bytes.Equal(keypair.SerializePublicKey(q.Owner), keypair.SerializePublicKey(k))
					return own && verifyPayload(q)
				}, nil
			}
		}
		out = append(out, retInst{name: pf.name, norm: normPayload(p), pub: keys[pf.f.Owner].Pub, codecs: []codec{
			{"ToArray", func() ([]byte, error) { return p.ToArray(), nil }, mkdec(decZC), false},
			{"Serialization(sink)", func() ([]byte, error) { return encZC(p), nil }, mkdec(decZC), false},
			{"Serialize(writer)", func() ([]byte, error) { return encStream(p), nil }, mkdec(decStream), true},
		}})
	}
	return out
}

func normPayload(p *ptypes.ConsensusPayload) any {
	return map[string]any{"v": p.Version, "prev": hex.EncodeToString(p.PrevHash[:]), "h": p.Height, "bk": p.BookkeeperIndex, "ts": p.Timestamp,
		"data": hex.EncodeToString(p.Data), "owner": hex.EncodeToString(keypair.SerializePublicKey(p.Owner)), "sig": hex.EncodeToString(p.Signature)}
}

func normAny(x any) any {
	switch v := x.(type) {
	case *ptypes.ConsensusPayload:
		return normPayload(v)
	case vbft.ConsensusMsg:
		return normMsg(v)
	}
	return x
}

func retentionSequential(r *ev.Run, mode string, insts []retInst) (n int) {
	viol := func(key string, d map[string]any) {
		d["mode"] = mode
		r.Violation("retention:"+key, d)
	}
	garble := func(b []byte) {
		for i := range b {
			b[i] ^= 0xa5
		}
	}
	run := func(seq []int) {
		first := insts[seq[0]]
		names := []string{}
		for _, i := range seq {
			names = append(names, insts[i].name)
		}
		for _, c := range first.codecs {
			n++
			det := func() map[string]any { return map[string]any{"sequence": names, "held_encoder": c.name} }
			A, err := c.enc()
			if err != nil {
				viol("encode-error", det())
				continue
			}
			copyA := append([]byte{}, A...)
			retained, _, err := c.dec(append([]byte{}, copyA...))
			if err != nil {
				viol("encoding-does-not-decode", det())
				continue
			}
			type held struct {
				b, cp []byte
				who   string
			}
			var later []held
			for _, j := range seq[1:] {
				for _, c2 := range insts[j].codecs {
					B, err := c2.enc()
					if err == nil {
						later = append(later, held{B, append([]byte{}, B...), insts[j].name + "/" + c2.name})
					}
				}
			}
			// (1) held bytes unchanged
			if !bytes.Equal(A, copyA) {
				viol("held-encoding-changed-by-a-later-encode:"+c.name, det())
				continue
			}
			// (2) still message 1, verifies under key 1 only
			obj, verify, err := c.dec(append([]byte{}, A...))
			if err != nil || !reflect.DeepEqual(normAny(obj), first.norm) {
				viol("held-encoding-no-longer-decodes-to-its-message:"+c.name, det())
				continue
			}
			if first.pub != nil && (!verify(first.pub) || verify(keys[5].Pub)) {
				viol("held-encoding-verification-changed:"+c.name, det())
				continue
			}
			// (3) overwrite the held bytes
			garble(A)
			fresh, err := c.enc()
			if err != nil || !bytes.Equal(fresh, copyA) {
				viol("fresh-encoding-affected-by-overwriting-held-bytes:"+c.name, det())
				continue
			}
			if !reflect.DeepEqual(normAny(retained), first.norm) || !reflect.DeepEqual(normAny(obj), first.norm) {
				viol("decoded-object-affected-by-overwriting-held-bytes:"+c.name, det())
				continue
			}
			bad := false
			for _, l := range later {
				if !bytes.Equal(l.b, l.cp) {
					d := det()
					d["later"] = l.who
					viol("later-encoding-changed:"+c.name, d)
					bad = true
					break
				}
			}
			if bad {
				continue
			}
			// decode side
			buf1 := append([]byte{}, copyA...)
			d1, _, err := c.dec(buf1)
			if err != nil {
				continue
			}
			var bufs [][]byte
			for _, j := range seq[1:] {
				for _, c2 := range insts[j].codecs {
					if e2, err := c2.enc(); err == nil {
						b2 := append([]byte{}, e2...)
						if _, _, err := c2.dec(b2); err == nil && c2.owns {
							bufs = append(bufs, b2)
						}
					}
				}
			}
			if c.owns {
				garble(buf1)
			}
			for _, b := range bufs {
				garble(b)
			}
			if !reflect.DeepEqual(normAny(d1), first.norm) {
				viol("decoded-object-changed-by-later-decodes-or-input-reuse:"+c.name, det())
				continue
			}
			r.Class("retention_ok")
		}
	}
	for i := range insts {
		for j := range insts {
			run([]int{i, j})
		}
	}
	for i := range insts {
		for j := range insts {
			for k := range insts {
				if insts[i].blocky && insts[j].blocky && insts[k].blocky {
					run([]int{i, j, k})
				}
			}
		}
	}
	return n
}

func part7Retention(r *ev.Run) {
	insts := retentionInstances()
	n1 := retentionSequential(r, "plain", insts)
	n2 := 0
	x := ssync.Run([]func(){func() { n2 = retentionSequential(r, "controlled-scheduler/single-thread", insts) }}, nil)
	if x.Deadlock || len(x.Panics) > 0 {
		r.Violation("retention:panic-under-controlled-scheduler", map[string]any{"panics": fmt.Sprint(x.Panics)})
	}
	r.Evals(n1 + n2)
	// concurrent encoders
	type enc struct {
		name string
		f    func() ([]byte, error)
	}
	var encs []enc
	for _, in := range insts {
		if !in.blocky && !strings.HasPrefix(in.name, "payload") && in.name != "commit/large" {
			continue
		}
		for _, c := range in.codecs {
			if c.name == "msg.MarshalJSON" || c.name == "Serialization(sink)" {
				continue
			}
			encs = append(encs, enc{in.name + "/" + c.name, c.enc})
		}
	}
	solo := make([][]byte, len(encs))
	for i, e := range encs {
		solo[i], _ = e.f()
		solo[i] = append([]byte{}, solo[i]...)
	}
	total := sched.Stats{}
	pairs := 0
	for i := range encs {
		for j := range encs {
			if i == j && !strings.Contains(encs[i].name, "proposal") {
				continue
			}
			if r.Expired() {
				r.Capped("deadline inside the concurrent-encoder pairs")
				break
			}
			pairs++
			st := sched.Explore(1, r.Expired, func(prefix []int) ssync.Exec {
				res := make([][]byte, 2)
				ex := ssync.Run([]func(){
					func() { res[0], _ = encs[i].f() },
					func() { res[1], _ = encs[j].f() },
				}, prefix)
				r.Eval()
				det := map[string]any{"thread0": encs[i].name, "thread1": encs[j].name, "schedule": fmt.Sprint(ex.Choices)}
				switch {
				case ex.Deadlock || len(ex.Panics) > 0:
					det["panics"] = fmt.Sprint(ex.Panics)
					r.Violation("retention:concurrent-encode-deadlock-or-panic", det)
				case !bytes.Equal(res[0], solo[i]) || !bytes.Equal(res[1], solo[j]):
					det["thread0_intact"], det["thread1_intact"] = bytes.Equal(res[0], solo[i]), bytes.Equal(res[1], solo[j])
					r.Violation("retention:concurrent-encode-differs-from-the-same-encode-alone", det)
				default:
					r.Class("retention_concurrent_ok")
				}
				return ex
			})
			total.Schedules += st.Schedules
			total.Points += st.Points
			if st.MaxPoints > total.MaxPoints {
				total.MaxPoints = st.MaxPoints
			}
		}
	}
	names := []string{}
	for _, in := range insts {
		names = append(names, fmt.Sprintf("%s(%d codecs)", in.name, len(in.codecs)))
	}
	r.Note("retention_part", map[string]any{"instances": names, "held_encoding_checks_per_mode": n1, "modes": []string{"plain", "single thread of a controlled-scheduler execution (sync.Pool = deterministic free list)"},
		"sequences": "all ordered pairs incl. (x,x); all ordered triples of the block-bearing kinds",
		"decoders_owning_their_input": "DeserializeVbftMsg (JSON envelope), ConsensusPayload.Deserialize(io.Reader); the zero-copy decoders (ConsensusPayload.Deserialization, Block.Deserialize) take ownership of the input buffer by design, so only 'later decodes' is checked for them",
		"concurrent_encoder_pairs": pairs, "preemption_bound": 1, "schedules": total.Schedules, "scheduling_points_total": total.Points, "longest_execution_points": total.MaxPoints,
		"scheduling_points": "every sync primitive of consensus/vbft, consensus/vbft/config, p2pserver/message/types, core/types, common (there is none on the encode paths of the unchanged tree: one schedule per pair)"})
}
