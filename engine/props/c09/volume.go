// C09 phase 4 — volume: value sizes and repetition counts that push the append-only kv buffer of a MemDB through
// its growth / "full" boundaries for small initial capacities.
//
//	capacities : NewMemDB(c, 1), c in {64, 1024, 16384 (= the per-tx CacheDB buffer)}
//	writes     : every ordered tuple of 1..3 distinct (key, size) pairs, key in {a, ab, b}, size in {0 (= delete), 1,
//	             100, 1000, 5000} (so keys arrive in ascending and descending order, deletes interleaved)
//	schedules  : the tuple repeated r times round-robin, and in blocks (w1 x r, w2 x r, ...), r in {1, 8, 41, 200}
//	             (quick: r = 200 only for tuples of length <= 2)
//	values     : every write carries fresh, position-dependent content, so stale or shifted bytes are visible
//
// After EVERY operation the whole content is compared with the map model: Len, Size, Get of every key (+ a never
// written one), ForEach and a full forward iterator scan (keys in byte order, exact value bytes).
package main

import (
	"bytes"
	"fmt"
	"sort"
	"sync"
	"sync/atomic"

	"github.com/polynetwork/poly/core/store/overlaydb"
)

type vwrite struct {
	k    string
	size int
}

func (w vwrite) String() string { return fmt.Sprintf("%s:%d", w.k, w.size) }

var (
	volKeys  = []string{"a", "ab", "b"}
	volSizes = []int{0, 1, 100, 1000, 5000}
	volCaps  = []int{64, 1024, 16384}
	volReps  = []int{1, 8, 41, 200}
)

func volTuples() [][]vwrite {
	var pairs []vwrite
	for _, k := range volKeys {
		for _, s := range volSizes {
			pairs = append(pairs, vwrite{k, s})
		}
	}
	var out [][]vwrite
	var rec func(cur []vwrite)
	rec = func(cur []vwrite) {
		if len(cur) > 0 {
			out = append(out, append([]vwrite{}, cur...))
		}
		if len(cur) == 3 {
			return
		}
	next:
		for _, p := range pairs {
			for _, c := range cur {
				if c == p {
					continue next
				}
			}
			rec(append(cur, p))
		}
	}
	rec(nil)
	return out
}

func volSchedule(t []vwrite, r int, blocks bool) []vwrite {
	var out []vwrite
	if blocks {
		for _, w := range t {
			for i := 0; i < r; i++ {
				out = append(out, w)
			}
		}
		return out
	}
	for i := 0; i < r; i++ {
		out = append(out, t...)
	}
	return out
}

func volValue(counter, size int) []byte {
	v := make([]byte, size)
	for j := range v {
		v[j] = byte(counter*131 + j*7 + 1)
	}
	return v
}

// volCheck compares the whole content; returns "" or a description of the first difference.
func volCheck(db *overlaydb.MemDB, m map[string][]byte) string {
	ks := make([]string, 0, len(m))
	size := 0
	for k, v := range m {
		ks = append(ks, k)
		size += len(k) + len(v)
	}
	sort.Strings(ks)
	if db.Len() != len(ks) {
		return fmt.Sprintf("Len=%d want %d", db.Len(), len(ks))
	}
	if db.Size() != size {
		return fmt.Sprintf("Size=%d want %d", db.Size(), size)
	}
	for _, k := range append(append([]string{}, volKeys...), "aa") {
		got, unknown := db.Get([]byte(k))
		want, ok := m[k]
		if unknown != !ok || !bytes.Equal(got, want) {
			return fmt.Sprintf("Get(%q): unknown=%v len=%d head=%x want known=%v len=%d head=%x", k, unknown, len(got), head(got), ok, len(want), head(want))
		}
	}
	i, bad := 0, ""
	db.ForEach(func(k, v []byte) {
		if bad != "" {
			return
		}
		if i >= len(ks) || string(k) != ks[i] || !bytes.Equal(v, m[ks[i]]) {
			bad = fmt.Sprintf("ForEach entry %d: key %q len=%d head=%x", i, k, len(v), head(v))
			if i < len(ks) {
				bad += fmt.Sprintf(" want key %q len=%d head=%x", ks[i], len(m[ks[i]]), head(m[ks[i]]))
			}
		}
		i++
	})
	if bad == "" && i != len(ks) {
		bad = fmt.Sprintf("ForEach yields %d entries want %d", i, len(ks))
	}
	if bad != "" {
		return bad
	}
	it := db.NewIterator(nil)
	defer it.Release()
	i = 0
	for ok := it.First(); ok; ok = it.Next() {
		if i >= len(ks) || string(it.Key()) != ks[i] || !bytes.Equal(it.Value(), m[ks[i]]) {
			return fmt.Sprintf("iterator entry %d: key %q len=%d head=%x", i, it.Key(), len(it.Value()), head(it.Value()))
		}
		i++
	}
	if i != len(ks) {
		return fmt.Sprintf("iterator yields %d entries want %d", i, len(ks))
	}
	return ""
}

func head(b []byte) []byte {
	if len(b) > 6 {
		return b[:6]
	}
	return b
}

func volumePhase(workers int) map[string]any {
	tuples := volTuples()
	type job struct {
		t      []vwrite
		r, c   int
		blocks bool
	}
	jobs := make(chan job, 256)
	var ops, seqs, grew, cut atomic.Int64
	var wg sync.WaitGroup
	for w := 0; w < workers; w++ {
		wg.Add(1)
		go func() {
			defer wg.Done()
			for j := range jobs {
				if r.Expired() {
					cut.Add(1)
					continue
				}
				desc := map[string]any{"capacity": j.c, "tuple": fmt.Sprint(j.t), "repeat": j.r, "blocks": j.blocks}
				sched := volSchedule(j.t, j.r, j.blocks)
				ok := guard("volume", []string{fmt.Sprint(desc)}, func() {
					db := overlaydb.NewMemDB(j.c, 1)
					m := map[string][]byte{}
					for i, w := range sched {
						v := volValue(i, w.size)
						if w.size == 0 && i%2 == 1 {
							db.Delete([]byte(w.k))
						} else {
							db.Put([]byte(w.k), v)
						}
						m[w.k] = v
						if d := volCheck(db, m); d != "" {
							desc["op_index"], desc["op"], desc["difference"] = i, w.String(), d
							r.Violation("memdb:volume:content-mismatch", desc)
							return
						}
					}
					ops.Add(int64(len(sched)))
					if db.Capacity() > j.c {
						grew.Add(1)
					}
				})
				_ = ok
				seqs.Add(1)
			}
		}()
	}
	for _, t := range tuples {
		for _, rep := range volReps {
			if r.Quick() && rep == 200 && len(t) > 2 {
				continue
			}
			for _, c := range volCaps {
				for _, bl := range []bool{false, true} {
					if bl && len(t) == 1 {
						continue // identical to round-robin
					}
					jobs <- job{t, rep, c, bl}
				}
			}
		}
	}
	close(jobs)
	wg.Wait()
	if cut.Load() > 0 {
		r.Capped("phase4 volume sweep cut by deadline")
	}
	if grew.Load() > 0 {
		class("volume:buffer_grew_beyond_initial_capacity")
	}
	evalCnt.Add(ops.Load())
	return map[string]any{"tuples": len(tuples), "capacities": volCaps, "sizes": volSizes, "repeats": volReps,
		"sequences": seqs.Load(), "operations_each_fully_checked": ops.Load(), "sequences_where_buffer_grew": grew.Load()}
}
