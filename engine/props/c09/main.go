// C09 — overlaydb.MemDB behaves as a byte-ordered map with tombstones.
//
// Technique: explicit-state model checking of the REAL MemDB against a boring reference
// (Go map, "" value = tombstone, sort.Strings for order).
//
//	phase 1 (mc.BFS, dedup on (model contents, iterator range, iterator position)): every operation from
//	        every reachable abstract state; a successor is produced by replaying the representative op
//	        path + the new op on a FRESH MemDB (no cloning, no rebuild-from-model shortcut). BFS nodes are compact
//	        (1 byte per event + 16-byte state hash); thorough is bounded to 8 workers / 8 GiB (watchdog -> Capped).
//	phase 2 (history sweep, no dedup): every sequence of write operations up to a depth, full read battery
//	        (Get/Find/Len/Size/ForEach/forward+backward scans over all ranges/Seek) after every prefix.
//	phase 3 (tall skip list): 13 keys inserted in every (stride, offset) order so that nodes of height 2..5
//	        are built (the fixed rnd seed gives heights 1 1 1 1 2 1 1 1 1 1 5 ...), overwritten and reset.
//	phase 4 (volume, volume.go): value sizes up to 5000 bytes x repetition counts up to 200 over capacities
//	        {64, 1024, 16384}, so the append-only kv buffer passes its growth boundaries; full content check per op.
//
// Oracle = what the property says: Put/Delete/Get(unknown flag)/Find/iterators/Reset answer like an ordered
// map in which a deleted key (Delete == Put(nil) == Put(empty)) stays present as a tombstone. Iterator
// Key()/Value() are compared right after a positioning call only (goleveldb documents no snapshot
// consistency under concurrent writes); an iterator is never used across Reset.
package main

import (
	"crypto/sha256"
	"fmt"
	"runtime"
	"runtime/debug"
	"sort"
	"strings"
	"sync"
	"sync/atomic"
	"time"

	"github.com/polynetwork/poly/core/store/overlaydb"
	"github.com/syndtr/goleveldb/leveldb/iterator"
	"github.com/syndtr/goleveldb/leveldb/util"
	"verif.local/engine/ev"
	"verif.local/engine/mc"
)

// ---------------------------------------------------------------- alphabet

type rng struct {
	name         string
	start, limit *string
}

func sp(s string) *string { return &s }

var ranges = []rng{
	{"all", nil, nil},
	{"[a,b)", sp("a"), sp("b")},         // == prefix "a"
	{"[a\\x00,∞)", sp("a\x00"), nil},    // start only, equal to a key of the alphabet
	{"(-∞,ab)", nil, sp("ab")},          // limit only, equal to a key of the alphabet
	{"[aa,ab)", sp("aa"), sp("ab")},     // between two keys: empty unless "aa" is in the alphabet
	{"[\"\",a)", sp(""), sp("a")},       // non-nil empty start
}

func (r rng) real() *util.Range {
	if r.start == nil && r.limit == nil && r.name == "all" {
		return nil
	}
	u := &util.Range{}
	if r.start != nil {
		u.Start = append([]byte{}, *r.start...) // non-nil even when empty
	}
	if r.limit != nil {
		u.Limit = []byte(*r.limit)
	}
	return u
}

type op struct {
	kind string // put del reset newiter first last next prev seek release
	key  string
	val  string
	nilV bool // put with nil value (as opposed to empty non-nil)
	r    int
}

func (o op) String() string {
	switch o.kind {
	case "put":
		if o.nilV {
			return fmt.Sprintf("Put(%q,nil)", o.key)
		}
		return fmt.Sprintf("Put(%q,%q)", o.key, o.val)
	case "del":
		return fmt.Sprintf("Delete(%q)", o.key)
	case "seek":
		return fmt.Sprintf("it.Seek(%q)", o.key)
	case "newiter":
		return "NewIterator(" + ranges[o.r].name + ")"
	case "reset":
		return "Reset()"
	}
	return "it." + strings.Title(o.kind) + "()"
}

var opTab = map[string]op{}

func reg(o op) string { s := o.String(); opTab[s] = o; return s }

// ---------------------------------------------------------------- reference model

const (
	pSOI = iota // before first (fresh iterator, or walked off the front)
	pEOI        // after last
	pAt
)

type model struct {
	m    map[string]string // entries; "" = tombstone (known-absent)
	r    int               // -1: no iterator
	pk   int
	pos  string
}

func newModel() *model { return &model{m: map[string]string{}, r: -1} }

func (m *model) clone() *model {
	c := &model{m: make(map[string]string, len(m.m)), r: m.r, pk: m.pk, pos: m.pos}
	for k, v := range m.m {
		c.m[k] = v
	}
	return c
}

func (m *model) keys() []string {
	ks := make([]string, 0, len(m.m))
	for k := range m.m {
		ks = append(ks, k)
	}
	sort.Strings(ks)
	return ks
}

func (m *model) inRange(k string) bool {
	r := ranges[m.r]
	return (r.start == nil || k >= *r.start) && (r.limit == nil || k < *r.limit)
}

func (m *model) ranged() []string {
	var out []string
	for _, k := range m.keys() {
		if m.inRange(k) {
			out = append(out, k)
		}
	}
	return out
}

func (m *model) at(k string) string { m.pk, m.pos = pAt, k; return itObs(true, true, k, m.m[k]) }
func (m *model) off(pk int) string  { m.pk, m.pos = pk, ""; return itObs(false, false, "", "") }

func (m *model) first() string {
	if ks := m.ranged(); len(ks) > 0 {
		return m.at(ks[0])
	}
	return m.off(pEOI)
}

func (m *model) last() string {
	if ks := m.ranged(); len(ks) > 0 {
		return m.at(ks[len(ks)-1])
	}
	return m.off(pSOI)
}

func (m *model) do(o op) string {
	switch o.kind {
	case "put":
		m.m[o.key] = o.val
	case "del":
		m.m[o.key] = ""
	case "reset":
		m.m = map[string]string{}
		m.r = -1
	case "newiter":
		m.r, m.pk, m.pos = o.r, pSOI, ""
		return "valid=false"
	case "release":
		m.r = -1
	case "first":
		return m.first()
	case "last":
		return m.last()
	case "seek":
		for _, k := range m.ranged() {
			if k >= o.key {
				return m.at(k)
			}
		}
		return m.off(pEOI)
	case "next":
		switch m.pk {
		case pSOI:
			return m.first()
		case pEOI:
			return m.off(pEOI)
		}
		for _, k := range m.ranged() {
			if k > m.pos {
				return m.at(k)
			}
		}
		return m.off(pEOI)
	case "prev":
		switch m.pk {
		case pEOI:
			return m.last()
		case pSOI:
			return m.off(pSOI)
		}
		ks := m.ranged()
		for i := len(ks) - 1; i >= 0; i-- {
			if ks[i] < m.pos {
				return m.at(ks[i])
			}
		}
		return m.off(pSOI)
	}
	return ""
}

func (m *model) key() string {
	var b strings.Builder
	for _, k := range m.keys() {
		fmt.Fprintf(&b, "%q=%q,", k, m.m[k])
	}
	fmt.Fprintf(&b, "|%d|%d|%q", m.r, m.pk, m.pos)
	return b.String()
}

// battery: everything the buffer can be asked without moving the shared iterator.
func (m *model) battery(probe []string) string {
	var b strings.Builder
	size := 0
	for k, v := range m.m {
		size += len(k) + len(v)
	}
	fmt.Fprintf(&b, "len=%d size=%d foreach=[", len(m.m), size)
	ks := m.keys()
	for _, k := range ks {
		fmt.Fprintf(&b, "%q=%q ", k, m.m[k])
	}
	b.WriteString("]")
	for _, k := range probe {
		v, ok := m.m[k]
		fmt.Fprintf(&b, " get(%q)=%q,unknown=%v", k, v, !ok)
		found := false
		for _, c := range ks {
			if c >= k {
				fmt.Fprintf(&b, " find(%q)=%q,%q", k, c, m.m[c])
				found = true
				break
			}
		}
		if !found {
			fmt.Fprintf(&b, " find(%q)=notfound", k)
		}
	}
	return b.String()
}

// scans: full forward and backward walk and Seek(every probe) on a private iterator for every range.
func (m *model) scans(probe []string) string {
	var b strings.Builder
	c := m.clone()
	for ri := range ranges {
		c.r = ri
		ks := c.ranged()
		fmt.Fprintf(&b, "%s fwd=[", ranges[ri].name)
		for _, k := range ks {
			fmt.Fprintf(&b, "%q=%q ", k, c.m[k])
		}
		b.WriteString("] bwd=[")
		for i := len(ks) - 1; i >= 0; i-- {
			fmt.Fprintf(&b, "%q=%q ", ks[i], c.m[ks[i]])
		}
		b.WriteString("]")
		for _, p := range probe {
			fmt.Fprintf(&b, " seek(%q)=%s", p, c.do(op{kind: "seek", key: p}))
		}
		b.WriteString("\n")
	}
	return b.String()
}

func itObs(ret, valid bool, k, v string) string {
	if !ret && !valid {
		return "false valid=false"
	}
	return fmt.Sprintf("%v valid=%v key=%q val=%q", ret, valid, k, v)
}

// ---------------------------------------------------------------- real object

type realDB struct {
	db *overlaydb.MemDB
	it iterator.Iterator
}

func newReal() *realDB {
	// small advisory capacity: forces kvData/nodeData reallocation, i.e. iterator key slices that
	// point into superseded arrays (production uses 4 MiB / 16 KiB, which would hide that).
	return &realDB{db: overlaydb.NewMemDB(8, 1)}
}

func itState(it iterator.Iterator, ret bool) string {
	return itObs(ret, it.Valid(), string(it.Key()), string(it.Value()))
}

func (r *realDB) do(o op) string {
	switch o.kind {
	case "put":
		switch {
		case o.nilV:
			r.db.Put([]byte(o.key), nil)
		default:
			r.db.Put([]byte(o.key), []byte(o.val))
		}
	case "del":
		r.db.Delete([]byte(o.key))
	case "reset":
		if r.it != nil {
			r.it.Release()
			r.it = nil
		}
		r.db.Reset()
	case "newiter":
		if r.it != nil {
			r.it.Release()
		}
		r.it = r.db.NewIterator(ranges[o.r].real())
		return fmt.Sprintf("valid=%v", r.it.Valid())
	case "release":
		r.it.Release()
		r.it = nil
	case "first":
		return itState(r.it, r.it.First())
	case "last":
		return itState(r.it, r.it.Last())
	case "next":
		return itState(r.it, r.it.Next())
	case "prev":
		return itState(r.it, r.it.Prev())
	case "seek":
		return itState(r.it, r.it.Seek([]byte(o.key)))
	}
	return ""
}

func (r *realDB) battery(probe []string) string {
	var b strings.Builder
	fmt.Fprintf(&b, "len=%d size=%d foreach=[", r.db.Len(), r.db.Size())
	r.db.ForEach(func(k, v []byte) { fmt.Fprintf(&b, "%q=%q ", k, v) })
	b.WriteString("]")
	for _, k := range probe {
		v, unk := r.db.Get([]byte(k))
		fmt.Fprintf(&b, " get(%q)=%q,unknown=%v", k, v, unk)
		rk, rv, err := r.db.Find([]byte(k))
		if err != nil {
			if err != overlaydb.ErrNotFound {
				fmt.Fprintf(&b, " find(%q)=err:%v", k, err)
			} else {
				fmt.Fprintf(&b, " find(%q)=notfound", k)
			}
		} else {
			fmt.Fprintf(&b, " find(%q)=%q,%q", k, rk, rv)
		}
	}
	return b.String()
}

func (r *realDB) scans(probe []string) string {
	var b strings.Builder
	for ri := range ranges {
		it := r.db.NewIterator(ranges[ri].real())
		fmt.Fprintf(&b, "%s fwd=[", ranges[ri].name)
		n := 0
		for ok := it.First(); ok && n < 100; ok = it.Next() {
			fmt.Fprintf(&b, "%q=%q ", it.Key(), it.Value())
			n++
		}
		b.WriteString("] bwd=[")
		n = 0
		for ok := it.Last(); ok && n < 100; ok = it.Prev() {
			fmt.Fprintf(&b, "%q=%q ", it.Key(), it.Value())
			n++
		}
		b.WriteString("]")
		for _, p := range probe {
			fmt.Fprintf(&b, " seek(%q)=%s", p, itState(it, it.Seek([]byte(p))))
		}
		it.Release()
		b.WriteString("\n")
	}
	return b.String()
}

// ---------------------------------------------------------------- driver

type cstate struct {
	evs string
	h   [16]byte
}

// lock-free counters (16 workers): handed to ev at the end
var (
	classCnt sync.Map // name -> *atomic.Int64
	evalCnt  atomic.Int64
	memStop  atomic.Bool
)

func class(name string) {
	v, ok := classCnt.Load(name)
	if !ok {
		v, _ = classCnt.LoadOrStore(name, new(atomic.Int64))
	}
	v.(*atomic.Int64).Add(1)
}

func flushCounters() {
	counts := map[string]int64{}
	classCnt.Range(func(k, v any) bool {
		counts[k.(string)] = v.(*atomic.Int64).Load()
		r.Class(k.(string))
		return true
	})
	r.Note("class_counts", counts)
	r.Evals(int(evalCnt.Load()))
}

func memWatch(limit uint64) {
	debug.SetMemoryLimit(int64(limit * 3 / 4))
	go func() {
		var ms runtime.MemStats
		for {
			time.Sleep(3 * time.Second)
			runtime.ReadMemStats(&ms)
			if ms.Sys-ms.HeapReleased > limit {
				memStop.Store(true)
			}
		}
	}()
}

var r *ev.Run

func violate(what string, path []string, got, want string) {
	r.Violation("memdb:"+what+":mismatch", map[string]any{"ops": path, "got": got, "want": want})
}

// guard runs real-code calls: panics become violations, and the calls are registered with a watchdog because a
// corrupted skip list can loop forever (no deadline can pre-empt that).
var (
	inflight sync.Map
	inflightID, progress atomic.Int64
)

func opNames(path any) []string {
	switch p := path.(type) {
	case []string:
		return p
	case []op:
		out := make([]string, len(p))
		for i, o := range p {
			out[i] = o.String()
		}
		return out
	}
	return nil
}

func guard(what string, path any, f func()) bool {
	id := inflightID.Add(1)
	inflight.Store(id, [2]any{what, path})
	defer func() { inflight.Delete(id); progress.Add(1) }()
	if rec, p := ev.Guard(f); p {
		class("panic")
		r.Violation("memdb:"+what+":panic", map[string]any{"ops": opNames(path), "panic": fmt.Sprint(rec)})
		return false
	}
	return true
}

func watchdog() {
	go func() {
		last, stall := int64(-1), 0
		for {
			time.Sleep(2 * time.Second)
			busy := false
			inflight.Range(func(_, _ any) bool { busy = true; return false })
			if p := progress.Load(); p != last || !busy {
				last, stall = p, 0
				continue
			}
			if stall++; stall < 10 {
				continue
			}
			var stuck []any
			inflight.Range(func(_, v any) bool {
				w := v.([2]any)
				stuck = append(stuck, map[string]any{"op": w[0], "ops": opNames(w[1])})
				return len(stuck) < 4
			})
			r.Violation("memdb:hang", map[string]any{"no_progress_for_s": 20, "calls_in_flight": stuck})
			r.Finish(map[string]any{"rule": "aborted by watchdog: a MemDB call did not return", "states": 0, "transitions": 0,
				"traces_validated_against_impl": progress.Load(), "exhaustive": false})
		}
	}()
}

func classify(o op, m *model, before *model, obs string) {
	switch o.kind {
	case "put":
		old, had := before.m[o.key]
		switch {
		case !had:
			class("insert")
		case old == "" && o.val != "":
			class("overwrite_after_delete")
		case old != "" && o.val == "":
			class("delete_existing_value")
		default:
			class("overwrite")
		}
	case "del":
		if _, had := before.m[o.key]; had {
			class("delete_existing")
		} else {
			class("delete_unknown")
		}
	case "reset":
		if len(before.m) > 0 {
			class("reset_nonempty")
		}
	case "first", "last", "next", "prev", "seek":
		if strings.HasPrefix(obs, "true") {
			class("iter_valid")
			if m.m[m.pos] == "" {
				class("iter_on_tombstone")
			}
		} else {
			class("iter_exhausted")
		}
	}
}

func main() {
	r = ev.Start("C09", "model_checking")
	watchdog()
	// resource bounds: thorough <= 8 workers / 8 GiB, quick all cores / 4 GiB
	workers := runtime.NumCPU()
	if r.Thorough() && workers > 8 {
		workers = 8
	}
	memWatch(uint64(r.QT(4, 8)) << 30)
	keys := []string{"", "a", "a\x00", "ab", "b"}
	if r.Thorough() {
		keys = append(keys, "aa")
	}
	probe := append(append([]string{}, keys...), "aa", "c")
	if r.Thorough() {
		probe = append(append([]string{}, keys...), "a\x00\x00", "c")
	}
	r.Require("insert", "overwrite", "overwrite_after_delete", "delete_existing_value", "delete_existing", "delete_unknown",
		"reset_nonempty", "iter_valid", "iter_exhausted", "iter_on_tombstone", "write_under_live_iterator",
		"get_unknown", "get_tombstone", "get_value", "volume:buffer_grew_beyond_initial_capacity")

	// event menu
	var writeEv, iterEv, newIterEv []string
	for _, k := range keys {
		writeEv = append(writeEv,
			reg(op{kind: "put", key: k, val: "x"}), reg(op{kind: "put", key: k, val: "yy"}),
			reg(op{kind: "put", key: k, val: ""}), reg(op{kind: "put", key: k, nilV: true}),
			reg(op{kind: "del", key: k}))
	}
	resetEv := reg(op{kind: "reset"})
	for i := range ranges {
		newIterEv = append(newIterEv, reg(op{kind: "newiter", r: i}))
	}
	for _, k := range []string{"first", "last", "next", "prev", "release"} {
		iterEv = append(iterEv, reg(op{kind: k}))
	}
	for _, k := range probe {
		iterEv = append(iterEv, reg(op{kind: "seek", key: k}))
	}

	// ---------------- phase 1: BFS with abstraction (model contents, iterator)
	// A BFS node is compact: one byte per event of its representative path + 16-byte hash of the abstract state;
	// the model is re-derived by replaying the path (bounded memory: no live objects / dumps per frontier node).
	var evName []string
	evIdx := map[string]int{}
	for _, l := range [][]string{writeEv, {resetEv}, newIterEv, iterEv} {
		for _, e := range l {
			evIdx[e] = len(evName)
			evName = append(evName, e)
		}
	}
	menuClosed := append(append(append([]string{}, writeEv...), resetEv), newIterEv...)
	menuOpen := append(append([]string{}, menuClosed...), iterEv...)
	rebuild := func(s cstate) (*model, []string) {
		m := newModel()
		path := make([]string, len(s.evs))
		for i := 0; i < len(s.evs); i++ {
			path[i] = evName[s.evs[i]]
			m.do(opTab[path[i]])
		}
		return m, path
	}
	hash := func(m *model) (h [16]byte) {
		x := sha256.Sum256([]byte(m.key()))
		copy(h[:], x[:])
		return
	}
	var transitions atomic.Int64
	known := map[[16]byte]struct{}{} // states of earlier levels; written between levels only (Inv), read by the workers
	step := func(s cstate, e string) (cstate, bool) {
		o := opTab[e]
		pm, ppath := rebuild(s)
		path := append(ppath, e)
		nm := pm.clone()
		want := nm.do(o)
		next := cstate{evs: s.evs + string([]byte{byte(evIdx[e])}), h: hash(nm)}
		transitions.Add(1)
		rd := newReal()
		var got, gotB string
		ok := guard(o.kind, path, func() {
			for _, pe := range ppath {
				rd.do(opTab[pe])
			}
			got = rd.do(o)
			gotB = rd.battery(probe)
		})
		evalCnt.Add(1)
		if ok {
			if got != want {
				violate(o.kind, path, got, want)
			}
			if wb := nm.battery(probe); gotB != wb {
				violate("battery-after-"+o.kind, path, gotB, wb)
			}
			classify(o, nm, pm, want)
			if pm.r >= 0 && pm.pk == pAt && (o.kind == "put" || o.kind == "del") {
				class("write_under_live_iterator")
			}
		}
		if rd.it != nil {
			rd.it.Release()
		}
		// executed and checked; a successor already known from an earlier level is not handed to mc (ok=false) so that
		// mc does not retain it until the level merge. Transitions are counted here.
		_, old := known[next.h]
		return next, !old
	}
	depth1 := 0 // 0 = run to the fixpoint of the abstract state space
	st := mc.BFS(mc.Config[cstate]{
		Init: []cstate{{h: hash(newModel())}},
		Events: func(s cstate, d int) []string {
			if m, _ := rebuild(s); m.r >= 0 {
				return menuOpen
			}
			return menuClosed
		},
		Step:     step,
		Key:      func(s cstate) string { return string(s.h[:]) },
		MaxDepth: depth1,
		Workers:  workers,
		Stop:     func() bool { return r.Expired() || memStop.Load() },
		Inv: func(s cstate, path []string) {
			known[s.h] = struct{}{}
			if len(path) <= 3 {
				m, _ := rebuild(s)
				r.Sample(map[string]any{"ops": path, "state": m.key()})
			}
		},
	})
	if st.Truncated {
		if memStop.Load() {
			r.Capped(fmt.Sprintf("phase1 BFS stopped by the memory bound at depth %d", st.MaxDepth))
		} else {
			r.Capped(fmt.Sprintf("phase1 BFS cut by deadline at depth %d", st.MaxDepth))
		}
	}
	st.Transitions = int(transitions.Load())

	// ---------------- phase 2: every write history (no dedup), full read battery at every prefix
	histDepth := r.QT(4, 5)
	hkeys := keys
	var hops []op
	for _, k := range hkeys {
		hops = append(hops, op{kind: "put", key: k, val: "x"}, op{kind: "put", key: k, val: "yy"},
			op{kind: "put", key: k, val: ""}, op{kind: "del", key: k})
	}
	hops = append(hops, op{kind: "reset"})
	var histNodes, histCapped int64
	var mu sync.Mutex
	var wg sync.WaitGroup
	sem := make(chan struct{}, workers)
	var rec func(path []op, m *model, cnt *int64)
	rec = func(path []op, m *model, cnt *int64) {
		// replay on a fresh instance, observe everything
		*cnt++
		names := func() []string {
			out := make([]string, len(path))
			for i, o := range path {
				out[i] = o.String()
			}
			return out
		}
		rd := newReal()
		var gb, gs string
		if guard("history", path, func() {
			for _, o := range path {
				rd.do(o)
			}
			gb, gs = rd.battery(probe), rd.scans(probe)
		}) {
			if wb := m.battery(probe); gb != wb {
				violate("history-battery", names(), gb, wb)
			}
			if ws := m.scans(probe); gs != ws {
				violate("history-scan", names(), gs, ws)
			}
			for _, k := range probe {
				v, ok := m.m[k]
				switch {
				case !ok:
					class("get_unknown")
				case v == "":
					class("get_tombstone")
				default:
					class("get_value")
				}
			}
		}
		if len(path) >= histDepth {
			return
		}
		if r.Expired() {
			mu.Lock()
			histCapped++
			mu.Unlock()
			return
		}
		for _, o := range hops {
			nm := m.clone()
			nm.do(o)
			rec(append(append(make([]op, 0, len(path)+1), path...), o), nm, cnt)
		}
	}
	{
		root := newModel()
		rd := newReal()
		if rd.battery(probe) != root.battery(probe) || rd.scans(probe) != root.scans(probe) {
			violate("empty-buffer", nil, rd.battery(probe), root.battery(probe))
		}
		for _, o := range hops {
			o := o
			wg.Add(1)
			sem <- struct{}{}
			go func() {
				defer wg.Done()
				defer func() { <-sem }()
				nm := newModel()
				nm.do(o)
				var cnt int64
				rec([]op{o}, nm, &cnt)
				mu.Lock()
				histNodes += cnt
				mu.Unlock()
			}()
		}
		wg.Wait()
	}
	evalCnt.Add(histNodes)
	if histCapped > 0 {
		r.Capped("phase2 history sweep cut by deadline")
	}

	// ---------------- phase 3: tall skip list (13 keys, every stride/offset insertion order)
	var wide []string
	for _, a := range []string{"", "\x00", "a", "b"} {
		if a == "" {
			wide = append(wide, "")
			continue
		}
		wide = append(wide, a)
		for _, b := range []string{"\x00", "a", "b"} {
			wide = append(wide, a+b)
		}
	}
	sort.Strings(wide) // 13 keys
	wprobe := append(append([]string{}, wide...), "aa\x00", "c")
	tall := 0
	n := len(wide)
	for stride := 1; stride < n; stride++ {
		for off := 0; off < n; off++ {
			var path []op
			m := newModel()
			rd := newReal()
			check := func(tag string) {
				var gb, gs string
				names := make([]string, len(path))
				for i, o := range path {
					names[i] = o.String()
				}
				if !guard("wide", path, func() { gb, gs = rd.battery(wprobe), rd.scans(wprobe) }) {
					return
				}
				if wb := m.battery(wprobe); gb != wb {
					violate("wide-battery", names, gb, wb)
				}
				if ws := m.scans(wprobe); gs != ws {
					violate("wide-scan", names, gs, ws)
				}
				evalCnt.Add(1)
				tall++
			}
			apply := func(o op) {
				path = append(path, o)
				m.do(o)
				guard("wide", path, func() { rd.do(o) })
			}
			for i := 0; i < n; i++ { // n is prime: i*stride+off visits every key once
				apply(op{kind: "put", key: wide[(i*stride+off)%n], val: []string{"x", "yy", ""}[i%3]})
				check("insert")
			}
			for i := 0; i < n; i++ {
				k := wide[(i*stride+2*off)%n]
				if i%2 == 0 {
					apply(op{kind: "del", key: k})
				} else {
					apply(op{kind: "put", key: k, val: "yy"})
				}
				check("overwrite")
			}
			apply(op{kind: "reset"})
			check("reset")
			for i := n - 1; i >= 0; i-- {
				apply(op{kind: "put", key: wide[(i*stride+off)%n], val: "x"})
			}
			check("reinsert")
		}
	}

	// ---------------- phase 4: volume (see volume.go)
	volNote := volumePhase(workers)
	r.Note("phase4_volume", volNote)

	r.Assume("goleveldb comparer.DefaultComparer is bytes.Compare",
		"iterator Key()/Value() are only specified right after a positioning call; iterators are not used across Reset",
		"abstraction for phase-1 dedup: (entries incl. tombstones, iterator range, iterator position); every successor is still produced by replaying its whole op path on a fresh MemDB")
	r.Note("phase1", map[string]any{"states": st.States, "transitions": st.Transitions, "max_depth": st.MaxDepth,
		"per_depth": st.PerDepth, "fixpoint": !st.Truncated && !st.DepthCapped, "events_per_state_max": len(writeEv) + 1 + len(newIterEv) + len(iterEv)})
	r.Note("phase2", map[string]any{"write_ops": len(hops), "depth": histDepth, "histories_checked": histNodes})
	r.Note("phase3", map[string]any{"keys": n, "orders": (n - 1) * n, "checkpoints": tall})
	r.Note("resource_bounds", map[string]any{"workers": workers, "mem_limit_gib": r.QT(4, 8)})
	flushCounters()
	r.Finish(map[string]any{
		"distinct_nontrivial": st.States,
		"rule":     "real MemDB == ordered map with tombstones: op return values, Get/Find/Len/Size/ForEach after every op, iterator First/Last/Seek/Next/Prev under 6 ranges incl. interleaved writes",
		"keys":     fmt.Sprintf("%q", keys),
		"values":   []string{"nil", "\"\"", "x", "yy"},
		"ranges":   len(ranges),
		"states":   st.States, "transitions": st.Transitions, "max_depth": st.MaxDepth,
		"traces_validated_against_impl": int64(st.Transitions) + histNodes + int64(tall) + volNote["operations_each_fully_checked"].(int64),
		"history_depth":                 histDepth,
	})
}
