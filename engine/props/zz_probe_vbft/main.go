package main

import (
	"crypto/sha512"
	"fmt"

	"github.com/polynetwork/poly/common/config"
	"github.com/polynetwork/poly/consensus/vbft"
	vconfig "github.com/polynetwork/poly/consensus/vbft/config"
	"verif.local/engine/polyenv"
)

func main() {
	keys := polyenv.Keys(12)
	polyenv.Setup(0, keys[:4])
	vconf := &config.VBFTConfig{BlockMsgDelay: 10000, HashMsgDelay: 10000, PeerHandshakeTimeout: 10, MaxBlockChangeView: 1000}
	for _, n := range []int{4, 5, 7, 8, 10, 11} {
		peers := []*config.VBFTPeerInfo{}
		for i := 0; i < n; i++ {
			peers = append(peers, &config.VBFTPeerInfo{Index: uint32(i + 1), PeerPubkey: keys[i].PubHex})
		}
		c, _ := vconfig.GenesisChainConfig(vconf, peers, 1)
		h := sha512.Sum512([]byte("x"))
		fail := map[string]int{}
		lens := map[int]int{}
		for i := 0; i < 20000; i++ {
			v := vconfig.VRFValue(h)
			h = sha512.Sum512(h[:])
			P := vbft.VerifCalcParticipantPeers(v, nil, c, 0, 32)
			if uint32(len(P)) < c.C+1 {
				fail["P"]++
				continue
			}
			P = P[:c.C+1]
			E := vbft.VerifCalcParticipantPeers(v, P, c, 32, 272)
			if uint32(len(E)) < 2*c.C {
				fail["E"]++
				// how many distinct non-leading peers show up in k=32..511 ?
				seen := map[uint32]bool{}
				for k := uint32(32); k < 512; k++ {
					seen[vbft.VerifCalcParticipant(v, c.PosTable, k)] = true
				}
				lens[len(seen)]++
				continue
			}
			Cm := vbft.VerifCalcParticipantPeers(v, P, c, 272, 512)
			if uint32(len(Cm)) < 2*c.C {
				fail["C"]++
			}
		}
		fmt.Println(n, c.C, fail, lens)
	}
}
