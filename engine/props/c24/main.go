// C24 — validator-signed cross-chain messages (Ontology, NEO, NEO N3) are accepted only if validly signed by the
// required number of DISTINCT members of the validator set tracked for the chain; a signer listed several
// times counts once; outsiders never count.
//
// The real contracts are driven on a native World: side chains registered through side_chain_manager, trust
// roots installed through header_sync.syncGenesisHeader (ONT additionally a key header through syncBlockHeader,
// NEO N3 state validators through neo3_state_manager), then every member of a bounded-exhaustive family of
// signer lists is submitted
//
//	ONT   (a) header_sync.syncCrossChainMsg (accepted = tx ok ∧ message stored)
//	      (b) cross_chain_manager.ImportOuterTransfer with an unusable proof: the handler's verdict on the
//	          signatures is read from the stage at which the transaction fails
//	NEO / NEO N3 / NEO N3 legacy
//	      (a) the exported verifier VerifyCrossChainMsgSig on the real state (message decoded by the real decoder)
//	      (b) cross_chain_manager.ImportOuterTransfer, stage as above
//
// Families. ONT, tracked set of N = 1..6 (thorough 9) peers: all subsets; every subset plus one duplicated
// member; one member repeated 1..N times; every subset plus an outsider; every subset with one signature over
// another message; every subset with the last signature missing. ONT with two key heights {0,10}: all lists of
// ≤3 members of (old ∪ new) at message heights 5, 10, 11. NEO (m,n) ∈ {(1,2),(2,3),(3,4)} (+(3,5)) and N3
// n = 1..4 (+5), m = n-(n-1)/3: ALL sequences of length ≤ n over {member 0..n-1, outsider, bad signature} under
// the tracked script, plus canonical / full lists under a foreign-key script and under the same keys with a
// lower threshold.
//
// Oracle (by construction of the input, no code shared with the implementation):
//
//	accepted ⇒ script/keys belong to the tracked set ∧ |{distinct tracked members with a valid signature}| ≥ required
//	required = ⌈N/3⌉ (ONT, as coded len*3 ≥ N) resp. the tracked script's m (NEO)
//	canonical well-formed message must be accepted (else harness error).
package main

import (
	"fmt"
	"sort"
	"strings"
	"sync"

	"github.com/polynetwork/poly/common"
	_ "github.com/polynetwork/poly/native/service"
	"github.com/polynetwork/poly/native/service/header_sync/neo"
	"github.com/polynetwork/poly/native/service/header_sync/neo3"
	"github.com/polynetwork/poly/native/service/header_sync/neo3legacy"
	"github.com/polynetwork/poly/native/service/utils"
	"verif.local/engine/ev"
	"verif.local/engine/lib/hsenv"
	on "verif.local/engine/lib/ontneo"
	"verif.local/engine/polyenv"
)

var (
	r    *ev.Run
	vals []*polyenv.Acct
	mu   sync.Mutex
	cnt  = map[string]int{}
)

func count(k string) { mu.Lock(); cnt[k]++; mu.Unlock() }

// violations are collected and the smallest witness per key (fewest listed signers, then smallest tracked set)
// is reported at the end, so that the replay artefact is minimal and does not depend on goroutine scheduling.
type witness struct {
	rank   int
	detail map[string]any
}

var viols = map[string]witness{}

func violation(key string, rank int, detail map[string]any) {
	mu.Lock()
	if w, ok := viols[key]; !ok || rank < w.rank {
		viols[key] = witness{rank, detail}
	}
	mu.Unlock()
}

const workers = 8

// parallel runs f(i, sim) for i in [0,n) on `workers` goroutines, each with a private Sim loaded lazily by f.
func parallel(n int, f func(i int, s *hsenv.Sim)) {
	var wg sync.WaitGroup
	var next int
	var m sync.Mutex
	for w := 0; w < workers; w++ {
		wg.Add(1)
		go func() {
			defer wg.Done()
			s := hsenv.NewSim()
			defer s.Close()
			for {
				m.Lock()
				i := next
				next++
				m.Unlock()
				if i >= n || r.Expired() {
					return
				}
				f(i, s)
			}
		}()
	}
	wg.Wait()
}

func baseWorld() *polyenv.World {
	w := polyenv.NewWorld()
	w.Genesis(vals)
	return w
}

// canonicalRejected: a well-formed canonical input was refused. On the unchanged tree that means the harness
// builds wrong inputs (exit 2); but a mutant that verifies against the WRONG validator set refuses the canonical
// input AND accepts a forged one, so the verdict is postponed to the end: violations win over this error.
var (
	canonMu  sync.Mutex
	canonErr string
)

func canonicalRejected(format string, a ...any) {
	canonMu.Lock()
	if canonErr == "" {
		canonErr = fmt.Sprintf(format, a...)
	}
	canonMu.Unlock()
}

func must(err error, what string) {
	if err != nil {
		r.HarnessError("%s: %v", what, err)
	}
}

func mustOK(res polyenv.Result, what string) {
	if !res.OK {
		r.HarnessError("%s: %v", what, res.Err)
	}
}

// stage classifies a failing ImportOuterTransfer: which check rejected it.
func stage(res polyenv.Result, sigMarker, proofMarker string) string {
	if res.OK {
		return "ok"
	}
	e := res.Err.Error()
	switch {
	case strings.Contains(e, sigMarker):
		return "sig-rejected"
	case strings.Contains(e, proofMarker):
		return "sig-accepted"
	}
	return "other:" + e
}

// ---------------------------------------------------------------------------------------------
// Ontology

type ontCase struct {
	fam     string
	height  uint32
	signers []on.OntSigner
}

func label(signers []on.OntSigner, name map[string]string) string {
	var p []string
	for _, s := range signers {
		t := name[s.Key.PubHex]
		if s.Bad {
			t += "!bad"
		}
		if s.NoSig {
			t += "!nosig"
		}
		p = append(p, t)
	}
	return "[" + strings.Join(p, ",") + "]"
}

// distinctValid = |{distinct members of tracked with a valid signature in the list}|
func distinctValid(tracked map[string]bool, signers []on.OntSigner) int {
	seen := map[string]bool{}
	for _, s := range signers {
		if !s.Bad && !s.NoSig && tracked[s.Key.PubHex] {
			seen[s.Key.PubHex] = true
		}
	}
	return len(seen)
}

func good(ks ...*polyenv.Acct) []on.OntSigner {
	out := make([]on.OntSigner, len(ks))
	for i, k := range ks {
		out[i] = on.OntSigner{Key: k}
	}
	return out
}

func ontFamilies(P []*polyenv.Acct, F *polyenv.Acct, h uint32) []ontCase {
	n := len(P)
	var cs []ontCase
	for mask := 0; mask < 1<<n; mask++ {
		var S []*polyenv.Acct
		for i := 0; i < n; i++ {
			if mask>>i&1 == 1 {
				S = append(S, P[i])
			}
		}
		cs = append(cs, ontCase{"subset", h, good(S...)})
		cs = append(cs, ontCase{"subset+outsider", h, append(good(S...), on.OntSigner{Key: F})})
		for j := range S {
			cs = append(cs, ontCase{"subset+duplicate", h, append(good(S...), on.OntSigner{Key: S[j]})})
			b := good(S...)
			b[j].Bad = true
			cs = append(cs, ontCase{"subset-one-bad-signature", h, b})
		}
		if len(S) > 0 {
			b := good(S...)
			b[len(b)-1].NoSig = true
			cs = append(cs, ontCase{"subset-last-signature-missing", h, b})
		}
	}
	for i := 0; i < n; i++ {
		for c := 2; c <= n; c++ {
			var l []on.OntSigner
			for k := 0; k < c; k++ {
				l = append(l, on.OntSigner{Key: P[i]})
			}
			cs = append(cs, ontCase{"one-member-repeated", h, l})
		}
	}
	return cs
}

func hsKey(prefix string, chain uint64, rest []byte) string {
	return polyenv.StorageKey(utils.ConcatKey(utils.HeaderSyncContractAddress, []byte(prefix), utils.GetUint64Bytes(chain), rest))
}

// runOnt evaluates all cases against the state d; tracked(h) gives the set in force for a message height.
func runOnt(tag string, chain uint64, d polyenv.Dump, cases []ontCase, tracked func(h uint32) []*polyenv.Acct, name map[string]string) {
	parallel(len(cases), func(i int, s *hsenv.Sim) {
		c := cases[i]
		tr := map[string]bool{}
		for _, k := range tracked(c.height) {
			tr[k.PubHex] = true
		}
		dv := distinctValid(tr, c.signers)
		enough := dv*3 >= len(tr)
		var root [32]byte
		root[0] = 0xab
		raw := on.OntCrossMsg(c.height, root, c.signers)
		lab := label(c.signers, name)
		detail := func(path string, extra string) map[string]any {
			return map[string]any{"router": "ont", "path": path, "tracked_set_size": len(tr), "required": (len(tr) + 2) / 3,
				"distinct_valid_tracked_signers": dv, "signer_list": lab, "msg_height": c.height, "family": c.fam, "config": tag,
				"raw_msg_hex": fmt.Sprintf("%x", raw), "note": extra}
		}
		// (a) header_sync.syncCrossChainMsg
		s.Load(d)
		res := s.Exec(on.CrossMsgTx(chain, raw), 10, 1000)
		stored := s.Raw(hsKey("crossChainMsg", chain, utils.GetUint32Bytes(c.height))) != ""
		r.Eval()
		acc := res.OK && stored
		if res.OK && !stored {
			r.HarnessError("ont syncCrossChainMsg ok but nothing stored (%s %s)", tag, lab)
		}
		verdict(acc, enough, "ont", "SyncCrossChainMsg", c.fam, dv, len(c.signers), detail("header_sync.SyncCrossChainMsg", ""))
		// (b) cross_chain_manager.ImportOuterTransfer
		s.Load(d)
		res2 := s.Exec(on.ImportTx(chain, c.height, []byte{1, 2, 3}, raw), 10, 1000)
		r.Eval()
		st := stage(res2, "VerifyCrossChainMsg error", "VerifyOntTx error")
		if strings.HasPrefix(st, "other") || st == "ok" {
			r.HarnessError("ont import: unexpected outcome %s (%s %s)", st, tag, lab)
		}
		verdict(st == "sig-accepted", enough, "ont", "MakeDepositProposal", c.fam, dv, len(c.signers), detail("cross_chain_manager.ImportOuterTransfer", st))
		if c.fam == "subset" && dv == len(c.signers) && dv == (len(tr)+2)/3 && !acc {
			canonicalRejected("ont canonical message (exactly ceil(N/3) distinct members) rejected: %s %s: %v", tag, lab, res.Err)
		}
	})
}

// verdict applies the implication oracle and does the bookkeeping.
func verdict(accepted, enough bool, router, path, fam string, dv, listed int, detail map[string]any) {
	cls := "reject"
	if accepted {
		cls = "accept"
	}
	r.Class(cls)
	r.Class(router + ":" + cls)
	r.Case(fmt.Sprintf("%s/%s/%s/distinct=%d/listed=%d/%s", router, path, fam, dv, listed, cls))
	count(router + "/" + path + "/" + cls)
	if accepted && dv < listed || !accepted && dv > 0 && listed > dv {
		r.Sample(map[string]any{"router": router, "path": path, "family": fam, "outcome": cls, "distinct_valid_tracked": dv, "listed": listed,
			"signers": detail["signer_list"], "invocation": detail["invocation"], "tracked": detail["tracked"], "tracked_set_size": detail["tracked_set_size"]})
	}
	if accepted && !enough {
		key := fmt.Sprintf("%s:%s:accepted-without-enough-distinct-tracked-signers:%s", router, path, fam)
		violation(key, listed*1000+rankOf(detail), detail)
	}
}

func rankOf(d map[string]any) int {
	if v, ok := d["tracked_set_size"].(int); ok {
		return v
	}
	return 0
}

func ontPart() {
	maxN := r.QT(6, 9)
	F := polyenv.Key(199)
	for n := 1; n <= maxN; n++ {
		if r.Expired() {
			r.Capped(fmt.Sprintf("ont N>=%d", n))
			return
		}
		P := polyenv.KeysFrom(100, n)
		name := map[string]string{F.PubHex: "outsider"}
		for i, k := range P {
			name[k.PubHex] = fmt.Sprintf("p%d", i)
		}
		chain := uint64(100 + n)
		w := baseWorld()
		must(on.RegisterSideChain(w, vals, chain, utils.ONT_ROUTER, "ont", []byte{1}, nil), "register ont")
		mustOK(w.Exec(on.GenesisTx(vals, chain, on.OntHeader(0, P, 1, nil)), 5, 500), "ont genesis")
		d := w.Dump()
		w.Close()
		cases := ontFamilies(P, F, 5)
		runOnt(fmt.Sprintf("N=%d", n), chain, d, cases, func(uint32) []*polyenv.Acct { return P }, name)
		r.Note(fmt.Sprintf("ont_cases_N%d", n), len(cases))
	}
	// two key heights: old set at 0, new set recorded by a real key header at height 10
	old, nw := polyenv.KeysFrom(120, 4), polyenv.KeysFrom(130, 4)
	name := map[string]string{}
	for i := range old {
		name[old[i].PubHex] = fmt.Sprintf("old%d", i)
		name[nw[i].PubHex] = fmt.Sprintf("new%d", i)
	}
	chain := uint64(150)
	w := baseWorld()
	must(on.RegisterSideChain(w, vals, chain, utils.ONT_ROUTER, "ont2", []byte{1}, nil), "register ont2")
	mustOK(w.Exec(on.GenesisTx(vals, chain, on.OntHeader(0, old, 1, nil)), 5, 500), "ont2 genesis")
	mustOK(w.Exec(on.HeadersTx(chain, on.OntHeader(10, nw, 2, good(old[0], old[1]))), 6, 600), "ont2 key header 10")
	d := w.Dump()
	w.Close()
	all := append(append([]*polyenv.Acct{}, old...), nw...)
	var cases []ontCase
	for _, h := range []uint32{5, 10, 11} {
		for mask := 0; mask < 1<<8; mask++ {
			var S []*polyenv.Acct
			for i := 0; i < 8; i++ {
				if mask>>i&1 == 1 {
					S = append(S, all[i])
				}
			}
			if len(S) <= 3 {
				cases = append(cases, ontCase{fmt.Sprintf("two-key-heights/h=%d", h), h, good(S...)})
			}
		}
	}
	runOnt("keyheights{0,10}", chain, d, cases, func(h uint32) []*polyenv.Acct {
		if h > 10 {
			return nw
		}
		return old
	}, name)
	r.Note("ont_cases_two_key_heights", len(cases))
}

// ---------------------------------------------------------------------------------------------
// NEO family: generic enumeration of invocation lists

// seqs returns all sequences of length <= maxLen over the alphabet {member 0..n-1, outsider, bad(member 0)}.
func seqs(n, maxLen int) [][]on.Sig {
	var alpha []on.Sig
	for k := 0; k < n; k++ {
		alpha = append(alpha, on.Sig{K: k})
	}
	alpha = append(alpha, on.Sig{Foreign: true}, on.Sig{K: 0, Bad: true})
	out := [][]on.Sig{{}}
	level := [][]on.Sig{{}}
	for l := 1; l <= maxLen; l++ {
		var nx [][]on.Sig
		for _, p := range level {
			for _, a := range alpha {
				nx = append(nx, append(append([]on.Sig{}, p...), a))
			}
		}
		out = append(out, nx...)
		level = nx
	}
	return out
}

func sigLabel(l []on.Sig) string {
	var p []string
	for _, e := range l {
		switch {
		case e.Foreign:
			p = append(p, "outsider")
		case e.Bad:
			p = append(p, fmt.Sprintf("k%d!bad", e.K))
		default:
			p = append(p, fmt.Sprintf("k%d", e.K))
		}
	}
	return "[" + strings.Join(p, ",") + "]"
}

func distinctGood(l []on.Sig) int {
	seen := map[int]bool{}
	for _, e := range l {
		if !e.Foreign && !e.Bad {
			seen[e.K] = true
		}
	}
	return len(seen)
}

func firstK(m int) []on.Sig {
	var l []on.Sig
	for k := 0; k < m; k++ {
		l = append(l, on.Sig{K: k})
	}
	return l
}

// neoCase: invocation list signed by `by` ("tracked" | "otherkeys" | "lowthreshold") under that set's script.
type neoCase struct {
	by   string
	list []on.Sig
}

func neoCases(m, n int) []neoCase {
	var cs []neoCase
	for _, l := range seqs(n, n) {
		cs = append(cs, neoCase{"tracked", l})
	}
	for _, by := range []string{"otherkeys", "lowthreshold"} {
		cs = append(cs, neoCase{by, firstK(m)}, neoCase{by, firstK(n)})
		if m > 1 {
			cs = append(cs, neoCase{by, firstK(m - 1)})
		}
	}
	return cs
}

// router-specific closure set
type neoRouter struct {
	name        string
	build       func(c neoCase) (raw []byte, index uint32) // wire message for a case
	direct      func(s *hsenv.Sim, raw []byte) error       // exported verifier on the real state
	proofMarker string
	proof       []byte // a well-formed proof of something else: fails cleanly AFTER the signature check
	noImport    bool   // cross_chain_manager has no handler for this router (neo3legacy): only the verifier is driven
	chain       uint64
	m, n        int
}

func runNeo(nr neoRouter, d polyenv.Dump, cases []neoCase) {
	parallel(len(cases), func(i int, s *hsenv.Sim) {
		c := cases[i]
		raw, index := nr.build(c)
		dg := distinctGood(c.list)
		enough := c.by == "tracked" && dg >= nr.m
		fam := c.by
		lab := sigLabel(c.list)
		detail := func(path, note string) map[string]any {
			return map[string]any{"router": nr.name, "path": path, "tracked": fmt.Sprintf("%d-of-%d", nr.m, nr.n), "witness_script": c.by,
				"invocation": lab, "distinct_valid_tracked_signers": dg, "raw_msg_hex": fmt.Sprintf("%x", raw), "note": note}
		}
		s.Load(d)
		var err error
		if rec, p := ev.Guard(func() { err = nr.direct(s, raw) }); p {
			count(nr.name + "/panic")
			r.Class("panic")
			err = fmt.Errorf("panic: %v", rec)
		}
		r.Eval()
		verdict(err == nil, enough, nr.name, "VerifyCrossChainMsgSig", fam, dg, len(c.list), detail("header_sync."+nr.name+".VerifyCrossChainMsgSig", ""))
		if c.by == "tracked" && len(c.list) == nr.m && dg == nr.m && sorted(c.list) && err != nil {
			canonicalRejected("%s canonical message (%d distinct members in script order) rejected: %s: %v", nr.name, nr.m, lab, err)
		}
		if nr.noImport {
			return
		}
		s.Load(d)
		res := s.Exec(on.ImportTx(nr.chain, index, nr.proof, raw), 10, 1000)
		r.Eval()
		st := stage(res, "VerifyCrossChainMsg error", nr.proofMarker)
		if res.Panic != nil {
			st = "sig-rejected"
			count(nr.name + "/panic-in-tx")
		}
		if strings.HasPrefix(st, "other") || st == "ok" {
			r.HarnessError("%s import: unexpected outcome %s (%s)", nr.name, st, lab)
		}
		verdict(st == "sig-accepted", enough, nr.name, "MakeDepositProposal", fam, dg, len(c.list), detail("cross_chain_manager.ImportOuterTransfer", st))
	})
}

func sorted(l []on.Sig) bool {
	for i := 1; i < len(l); i++ {
		if l[i].K <= l[i-1].K {
			return false
		}
	}
	return true
}

func neoPart() {
	sets := [][2]int{{1, 2}, {2, 3}, {3, 4}}
	if r.Thorough() {
		sets = append(sets, [2]int{3, 5})
	}
	for si, mn := range sets {
		if r.Expired() {
			r.Capped(fmt.Sprintf("neo sets >= %v", mn))
			return
		}
		m, n := mn[0], mn[1]
		out := polyenv.Key(299)
		A := on.NewNeoSet(m, polyenv.KeysFrom(200, n), out)
		B := on.NewNeoSet(m, polyenv.KeysFrom(220, n), out)
		L := B // same keys with a lower threshold (m-1); for m == 1 there is none: use the foreign-key set again
		if m > 1 {
			L = on.NewNeoSet(m-1, polyenv.KeysFrom(200, n), out)
		}
		chain := uint64(200 + si)
		w := baseWorld()
		must(on.RegisterSideChain(w, vals, chain, utils.NEO_ROUTER, "neo", []byte{1}, nil), "register neo")
		gh, _ := on.NeoHeaderUnsigned(0, A.Hash, 1)
		mustOK(w.Exec(on.GenesisTx(vals, chain, on.NeoHeaderBytes(gh, []byte{}, []byte{0x51})), 5, 500), "neo genesis")
		d := w.Dump()
		w.Close()
		var root [32]byte
		root[0] = 0xcd
		sr, msg := on.NeoStateRootUnsigned(77, root)
		sigs := map[string]*on.NeoSigs{"tracked": A.Sign(msg), "otherkeys": B.Sign(msg), "lowthreshold": L.Sign(msg)}
		script := map[string][]byte{"tracked": A.Script, "otherkeys": B.Script, "lowthreshold": L.Script}
		// proof: storage key = 20-byte script hash 0 ++ one 16-byte group with padding 16 (empty key), no nodes.
		// (A truncated key, e.g. proof {1,2,3}, sends neo-gogogo's ReadBytesWithGrouping into an unbounded
		// allocation loop AFTER the signature check passed - outside this property, reported separately.)
		proof := append(append([]byte{37}, make([]byte, 36)...), 16, 0)
		nr := neoRouter{name: "neo", chain: chain, m: m, n: n, proofMarker: "VerifyFromNeoTx error", proof: proof,
			build: func(c neoCase) ([]byte, uint32) {
				return on.NeoStateRootBytes(on.NeoStateRootWith(sr, sigs[c.by].Invocation(c.list), script[c.by])), 77
			},
			direct: func(s *hsenv.Sim, raw []byte) error {
				m := new(neo.NeoCrossChainMsg)
				if err := m.Deserialization(common.NewZeroCopySource(raw)); err != nil {
					return err
				}
				return neo.VerifyCrossChainMsgSig(s.Reader(), chain, m)
			}}
		cases := neoCases(m, n)
		runNeo(nr, d, cases)
		r.Note(fmt.Sprintf("neo_cases_%dof%d", m, n), len(cases))
	}
}

func neo3Part(legacy bool) {
	name := "neo3"
	router := utils.NEO3_ROUTER
	if legacy {
		name, router = "neo3legacy", utils.NEO3_LEGACY_ROUTER
	}
	maxN := r.QT(4, 5)
	const magic = 0x334f454e
	for n := 1; n <= maxN; n++ {
		if r.Expired() {
			r.Capped(fmt.Sprintf("%s n>=%d", name, n))
			return
		}
		m := n - (n-1)/3
		out := polyenv.Key(399)
		chain := uint64(300 + n)
		if legacy {
			chain += 50
		}
		var root [32]byte
		root[0] = 0xef
		var pubHex []string
		script := map[string][]byte{}
		var inv func(by string, l []on.Sig) []byte
		var wire func(inv, ver []byte) []byte
		if legacy {
			A := on.NewNeo3LSet(m, polyenv.KeysFrom(300, n), out)
			B := on.NewNeo3LSet(m, polyenv.KeysFrom(320, n), out)
			L := B
			if m > 1 {
				L = on.NewNeo3LSet(m-1, polyenv.KeysFrom(300, n), out)
			}
			sr, msg := on.Neo3LStateRootUnsigned(88, root, magic)
			sigs := map[string]*on.Neo3LSigs{"tracked": A.Sign(msg), "otherkeys": B.Sign(msg), "lowthreshold": L.Sign(msg)}
			script["tracked"], script["otherkeys"], script["lowthreshold"] = A.Script, B.Script, L.Script
			pubHex = A.PubHex
			inv = func(by string, l []on.Sig) []byte { return sigs[by].Invocation(l) }
			wire = func(i, v []byte) []byte { return on.Neo3LStateRootBytes(on.Neo3LStateRootWith(sr, i, v)) }
		} else {
			A := on.NewNeo3Set(m, polyenv.KeysFrom(300, n), out)
			B := on.NewNeo3Set(m, polyenv.KeysFrom(320, n), out)
			L := B
			if m > 1 {
				L = on.NewNeo3Set(m-1, polyenv.KeysFrom(300, n), out)
			}
			sr, msg := on.Neo3StateRootUnsigned(88, root, magic)
			sigs := map[string]*on.Neo3Sigs{"tracked": A.Sign(msg), "otherkeys": B.Sign(msg), "lowthreshold": L.Sign(msg)}
			script["tracked"], script["otherkeys"], script["lowthreshold"] = A.Script, B.Script, L.Script
			pubHex = A.PubHex
			inv = func(by string, l []on.Sig) []byte { return sigs[by].Invocation(l) }
			wire = func(i, v []byte) []byte { return on.Neo3StateRootBytes(on.Neo3StateRootWith(sr, i, v)) }
		}
		w := baseWorld()
		must(on.RegisterSideChain(w, vals, chain, router, name, []byte{5, 0, 0, 0}, on.MagicBytes(magic)), "register "+name)
		must(on.RegisterStateValidators(w, vals, pubHex, 0), "state validators")
		d := w.Dump()
		w.Close()
		nr := neoRouter{name: name, chain: chain, m: m, n: n, proofMarker: "VerifyFromNeoTx error", proof: []byte{5, 9, 0, 0, 0, 0xaa, 0}, noImport: legacy,
			build: func(c neoCase) ([]byte, uint32) {
				return wire(inv(c.by, c.list), script[c.by]), 88
			},
			direct: func(s *hsenv.Sim, raw []byte) error {
				if legacy {
					m := new(neo3legacy.NeoCrossChainMsg)
					if err := m.Deserialization(common.NewZeroCopySource(raw)); err != nil {
						return err
					}
					return neo3legacy.VerifyCrossChainMsgSig(s.Reader(), magic, m)
				}
				m := new(neo3.NeoCrossChainMsg)
				if err := m.Deserialization(common.NewZeroCopySource(raw)); err != nil {
					return err
				}
				return neo3.VerifyCrossChainMsgSig(s.Reader(), magic, m)
			}}
		cases := neoCases(m, n)
		runNeo(nr, d, cases)
		r.Note(fmt.Sprintf("%s_cases_n%d", name, n), len(cases))
	}
}

func main() {
	r = ev.Start("C24", "exploration")
	r.Require("accept", "reject", "ont:accept", "ont:reject", "neo:accept", "neo:reject", "neo3:accept", "neo3:reject", "neo3legacy:accept", "neo3legacy:reject")
	vals = polyenv.Keys(4)
	polyenv.Setup(0, vals)
	polyenv.InstallHeightLedger()
	ontPart()
	neoPart()
	neo3Part(false)
	neo3Part(true)
	r.Assume("ECDSA P-256 / SHA-256 are sound (a signature made over another message or by another key never verifies)",
		"the NEO / NEO N3 handlers' verdict on the signatures is read from the stage at which ImportOuterTransfer fails (no valid MPT proof is synthesised); the exported verifier is evaluated directly as well")
	var vk []string
	for k := range viols {
		vk = append(vk, k)
	}
	sort.Strings(vk)
	for _, k := range vk {
		r.Violation(k, viols[k].detail)
	}
	if canonErr != "" && len(vk) == 0 {
		r.HarnessError("%s", canonErr)
	}
	if canonErr != "" {
		r.Note("canonical_input_rejected", canonErr)
	}
	mu.Lock()
	c := map[string]int{}
	for k, v := range cnt {
		c[k] = v
	}
	mu.Unlock()
	fmt.Println("outcomes:", c)
	r.Finish(map[string]any{
		"rule":            "accepted ⇒ |distinct tracked members with a valid signature| ≥ required (ONT ceil(N/3) at the greatest key height below the message; NEO/N3: tracked script's m and script hash == tracked)",
		"routers_covered": []string{"ont (syncCrossChainMsg + importOuterTransfer)", "neo (verifier + importOuterTransfer)", "neo3 (verifier + importOuterTransfer)", "neo3legacy (verifier only: cross_chain_manager.GetChainHandler has no case for router 11)"},
		"ont_N_max":       r.QT(6, 9),
		"neo_sets":        "1of2,2of3,3of4" + map[bool]string{true: ",3of5", false: ""}[r.Thorough()],
		"neo3_n_max":      r.QT(4, 5),
		"outcomes":        c,
	})
}
