// C24 — validator-signed cross-chain messages (Ontology, NEO, NEO N3) are accepted only if validly signed by the
// required number of DISTINCT members of the validator set tracked for the chain; a signer listed several
// times counts once; outsiders never count.
//
// The real contracts are driven on a native World: side chains registered through side_chain_manager, trust
// roots installed through header_sync.syncGenesisHeader (ONT additionally a key header through syncBlockHeader,
// NEO N3 state validators through neo3_state_manager), then every member of a bounded-exhaustive family of
// signer lists is submitted
//
//	ONT   (a) header_sync.syncCrossChainMsg (accepted = tx ok ∧ message stored)
//	      (b) cross_chain_manager.ImportOuterTransfer with an unusable proof: the handler's verdict on the
//	          signatures is read from the stage at which the transaction fails
//	NEO / NEO N3 / NEO N3 legacy
//	      (a) the exported verifier VerifyCrossChainMsgSig on the real state (message decoded by the real decoder)
//	      (b) cross_chain_manager.ImportOuterTransfer, stage as above
//
// Families. ONT, tracked set of N = 1..6 (thorough 9) peers: all subsets; every subset plus one duplicated
// member; one member repeated 1..N times; every subset plus an outsider; every subset with one signature over
// another message; every subset with the last signature missing. ONT with two key heights {0,10}: all lists of
// ≤3 members of (old ∪ new) at message heights 5, 10, 11. ONT LAYOUT families (listed bookkeepers and SigData are
// independent ordered lists): quorum-many tracked NON-signers followed by signing outsiders / one outsider repeated /
// one member repeated / other members; all N listed with first-q, last-q or outsiders signing; an outsider or a
// duplicate inserted at EVERY position (signing too / not signing / signing instead); SigData reversed, longer
// (extra outsider, outsider first, repeated, unlisted member), shorter, empty; and for N=4 ALL ordered bookkeeper
// lists of length ≤4 over {p0,p1,p2,outsider} × ALL SigData lists of length ≤2 over {p0,p2,outsider,bad}
// (thorough: +second outsider, SigData ≤3). NEO (m,n) ∈ {(1,2),(2,3),(3,4)} (+(3,5)) and N3
// n = 1..4 (+5), m = n-(n-1)/3: ALL sequences of length ≤ n (n+1 for n ≤ 3; thorough n ≤ 4) over {member 0..n-1, outsider, bad signature} under
// the tracked script, plus canonical / full lists under a foreign-key script and under the same keys with a
// lower threshold.
//
// ONT HISTORIES through the real handlers with complete deposits (old-style ONT side chain, RFC-6962 proofs built by
// the harness): already stored ∈ {nothing, genuine message at H via syncCrossChainMsg, genuine at H via an earlier
// deposit} × submitted message signers ∈ {unsigned, duplicate, outsiders, below threshold, nonsigners-then-outsiders,
// full quorum} × claimed height ∈ {H,H+1} × entrance Height ∈ {H,H+1,H+2} × message root ∈ {A,B} × proof under
// root ∈ {A,B}. Oracle: deposit accepted ⇒ the root the proof verifies under belongs to a validly signed message
// (the stored genuine one, or the submitted one if it carries enough distinct tracked signatures).
// NEO / NEO N3 handlers keep no message records (every call re-verifies, SyncCrossChainMsg is a no-op): no history
// dimension exists there.
//
// Oracle (by construction of the input, no code shared with the implementation):
//
//	accepted ⇒ script/keys belong to the tracked set ∧ |{distinct tracked members with a valid signature}| ≥ required
//	required = ⌈N/3⌉ (ONT, as coded len*3 ≥ N) resp. the tracked script's m (NEO)
//	canonical well-formed message must be accepted (else harness error).
package main

import (
	"crypto/sha256"
	"fmt"
	"sort"
	"strings"
	"sync"

	"github.com/polynetwork/poly/common"
	_ "github.com/polynetwork/poly/native/service"
	ccmcom "github.com/polynetwork/poly/native/service/cross_chain_manager/common"
	"github.com/polynetwork/poly/native/service/header_sync/neo"
	"github.com/polynetwork/poly/native/service/header_sync/neo3"
	"github.com/polynetwork/poly/native/service/header_sync/neo3legacy"
	"github.com/polynetwork/poly/native/service/utils"
	"verif.local/engine/ev"
	"verif.local/engine/lib/hsenv"
	on "verif.local/engine/lib/ontneo"
	"verif.local/engine/polyenv"
)

var (
	r    *ev.Run
	vals []*polyenv.Acct
	mu   sync.Mutex
	cnt  = map[string]int{}
)

func count(k string) { mu.Lock(); cnt[k]++; mu.Unlock() }

// violations are collected and the smallest witness per key (fewest listed signers, then smallest tracked set)
// is reported at the end, so that the replay artefact is minimal and does not depend on goroutine scheduling.
type witness struct {
	rank   int
	detail map[string]any
}

var viols = map[string]witness{}

func violation(key string, rank int, detail map[string]any) {
	mu.Lock()
	if w, ok := viols[key]; !ok || rank < w.rank {
		viols[key] = witness{rank, detail}
	}
	mu.Unlock()
}

const workers = 8

// parallel runs f(i, sim) for i in [0,n) on `workers` goroutines, each with a private Sim loaded lazily by f.
func parallel(n int, f func(i int, s *hsenv.Sim)) {
	var wg sync.WaitGroup
	var next int
	var m sync.Mutex
	for w := 0; w < workers; w++ {
		wg.Add(1)
		go func() {
			defer wg.Done()
			s := hsenv.NewSim()
			defer s.Close()
			for {
				m.Lock()
				i := next
				next++
				m.Unlock()
				if i >= n || r.Expired() {
					return
				}
				f(i, s)
			}
		}()
	}
	wg.Wait()
}

func baseWorld() *polyenv.World {
	w := polyenv.NewWorld()
	w.Genesis(vals)
	return w
}

// canonicalRejected: a well-formed canonical input was refused. On the unchanged tree that means the harness
// builds wrong inputs (exit 2); but a mutant that verifies against the WRONG validator set refuses the canonical
// input AND accepts a forged one, so the verdict is postponed to the end: violations win over this error.
var (
	canonMu  sync.Mutex
	canonErr string
)

func canonicalRejected(format string, a ...any) {
	canonMu.Lock()
	if canonErr == "" {
		canonErr = fmt.Sprintf(format, a...)
	}
	canonMu.Unlock()
}

func must(err error, what string) {
	if err != nil {
		r.HarnessError("%s: %v", what, err)
	}
}

func mustOK(res polyenv.Result, what string) {
	if !res.OK {
		r.HarnessError("%s: %v", what, res.Err)
	}
}

// stage classifies a failing ImportOuterTransfer: which check rejected it.
func stage(res polyenv.Result, sigMarker, proofMarker string) string {
	if res.OK {
		return "ok"
	}
	e := res.Err.Error()
	switch {
	case strings.Contains(e, sigMarker):
		return "sig-rejected"
	case strings.Contains(e, proofMarker):
		return "sig-accepted"
	}
	return "other:" + e
}

// ---------------------------------------------------------------------------------------------
// Ontology

// ontCase: the listed bookkeepers (ordered) and the SigData entries (ordered) are independent lists.
type ontCase struct {
	fam    string
	height uint32
	keys   []*polyenv.Acct
	sigs   []on.OntSig
}

func label(c ontCase, name map[string]string) string {
	var k, g []string
	for _, a := range c.keys {
		k = append(k, name[a.PubHex])
	}
	for _, x := range c.sigs {
		t := name[x.By.PubHex]
		if x.Bad {
			t += "!bad"
		}
		g = append(g, t)
	}
	return "bookkeepers=[" + strings.Join(k, ",") + "] sigdata=[" + strings.Join(g, ",") + "]"
}

// distinctValid = |{distinct members of tracked with a valid signature in SigData}| (by construction; re-checked with
// real signature verification before a violation is reported).
func distinctValid(tracked map[string]bool, sigs []on.OntSig) int {
	seen := map[string]bool{}
	for _, s := range sigs {
		if !s.Bad && tracked[s.By.PubHex] {
			seen[s.By.PubHex] = true
		}
	}
	return len(seen)
}

func signedBy(ks ...*polyenv.Acct) []on.OntSig {
	out := make([]on.OntSig, len(ks))
	for i, k := range ks {
		out[i] = on.OntSig{By: k}
	}
	return out
}

func cat(l ...[]*polyenv.Acct) []*polyenv.Acct {
	var o []*polyenv.Acct
	for _, x := range l {
		o = append(o, x...)
	}
	return o
}

func rep(k *polyenv.Acct, n int) []*polyenv.Acct {
	var o []*polyenv.Acct
	for i := 0; i < n; i++ {
		o = append(o, k)
	}
	return o
}

func insertAt(l []*polyenv.Acct, pos int, k *polyenv.Acct) []*polyenv.Acct {
	o := append([]*polyenv.Acct{}, l[:pos]...)
	o = append(o, k)
	return append(o, l[pos:]...)
}

// paired: every listed key signs, in list order.
func paired(fam string, h uint32, ks ...*polyenv.Acct) ontCase {
	return ontCase{fam, h, append([]*polyenv.Acct{}, ks...), signedBy(ks...)}
}

func ontFamilies(P []*polyenv.Acct, F []*polyenv.Acct, h uint32) []ontCase {
	n := len(P)
	q := (n + 2) / 3
	var cs []ontCase
	for mask := 0; mask < 1<<n; mask++ {
		var S []*polyenv.Acct
		for i := 0; i < n; i++ {
			if mask>>i&1 == 1 {
				S = append(S, P[i])
			}
		}
		cs = append(cs, paired("subset", h, S...))
		cs = append(cs, paired("subset+outsider", h, cat(S, F[:1])...))
		for j := range S {
			cs = append(cs, paired("subset+duplicate", h, cat(S, S[j:j+1])...))
			b := paired("subset-one-bad-signature", h, S...)
			b.sigs[j].Bad = true
			cs = append(cs, b)
		}
		if len(S) > 0 {
			b := paired("subset-last-signature-missing", h, S...)
			b.sigs = b.sigs[:len(b.sigs)-1]
			cs = append(cs, b)
		}
	}
	for i := 0; i < n; i++ {
		for c := 2; c <= n; c++ {
			cs = append(cs, paired("one-member-repeated", h, rep(P[i], c)...))
		}
	}
	// LAYOUT families: listed keys and signing keys differ / are ordered adversarially.
	S := P[:q] // canonical signer set
	cs = append(cs, ontCase{"layout:nonsigners-then-outsiders", h, cat(S, F[:q]), signedBy(F[:q]...)})
	cs = append(cs, ontCase{"layout:nonsigners-then-outsider-repeated", h, cat(S, rep(F[0], q)), signedBy(rep(F[0], q)...)})
	cs = append(cs, ontCase{"layout:outsiders-then-nonsigners", h, cat(F[:q], S), signedBy(F[:q]...)})
	if n > q {
		cs = append(cs, ontCase{"layout:nonsigners-then-member-repeated", h, cat(S, rep(P[q], q)), signedBy(rep(P[q], q)...)})
		cs = append(cs, ontCase{"layout:nonsigners-then-member-repeated", h, cat(S, rep(P[q], q+1)), signedBy(rep(P[q], q+1)...)})
	}
	if n >= 2*q {
		cs = append(cs, ontCase{"layout:nonsigners-then-signers", h, cat(S, P[q:2*q]), signedBy(P[q : 2*q]...)})
	}
	cs = append(cs, ontCase{"layout:all-listed-last-q-sign", h, P, signedBy(P[n-q:]...)})
	cs = append(cs, ontCase{"layout:all-listed-first-q-sign", h, P, signedBy(P[:q]...)})
	cs = append(cs, ontCase{"layout:all-listed-outsiders-sign", h, P, signedBy(F[:q]...)})
	for pos := 0; pos <= q; pos++ {
		withF := insertAt(S, pos, F[0])
		cs = append(cs, ontCase{"layout:outsider-at-position/not-signing", h, withF, signedBy(S...)})
		cs = append(cs, ontCase{"layout:outsider-at-position/signing-too", h, withF, signedBy(withF...)})
		cs = append(cs, ontCase{"layout:outsider-at-position/signing-instead-of-last-member", h, withF, signedBy(cat(S[:q-1], F[:1])...)})
		cs = append(cs, ontCase{"layout:outsider-at-position/only-outsider-signs-q-times", h, withF, signedBy(rep(F[0], q)...)})
		for j := range S {
			withD := insertAt(S, pos, S[j])
			cs = append(cs, ontCase{"layout:duplicate-at-position/signing-too", h, withD, signedBy(withD...)})
			cs = append(cs, ontCase{"layout:duplicate-at-position/not-signing", h, withD, signedBy(S...)})
			cs = append(cs, ontCase{"layout:duplicate-at-position/only-duplicate-signs", h, withD, signedBy(rep(S[j], q+1)...)})
		}
	}
	rev := append([]*polyenv.Acct{}, S...)
	for i, j := 0, len(rev)-1; i < j; i, j = i+1, j-1 {
		rev[i], rev[j] = rev[j], rev[i]
	}
	cs = append(cs, ontCase{"layout:sigdata-reversed", h, S, signedBy(rev...)})
	cs = append(cs, ontCase{"layout:sigdata-longer/extra-outsider", h, S, signedBy(cat(S, F[:1])...)})
	cs = append(cs, ontCase{"layout:sigdata-longer/outsider-first", h, S, signedBy(cat(F[:1], S)...)})
	cs = append(cs, ontCase{"layout:sigdata-longer/repeated", h, S, signedBy(cat(S, S[:1])...)})
	cs = append(cs, ontCase{"layout:sigdata-longer/only-outsiders", h, S, signedBy(cat(F[:q], F[:1])...)})
	if q > 1 {
		cs = append(cs, ontCase{"layout:sigdata-longer/unlisted-member", h, S[:q-1], signedBy(S...)})
		cs = append(cs, ontCase{"layout:sigdata-shorter", h, S, signedBy(S[:q-1]...)})
	}
	cs = append(cs, ontCase{"layout:sigdata-empty", h, S, nil})
	return cs
}

// ontSmallExhaustive: N=4 (quorum 2). ALL ordered bookkeeper lists of length <= 4 over kAlpha combined with ALL
// ordered SigData lists of length <= maxSig over sAlpha.
func ontSmallExhaustive(kAlpha []*polyenv.Acct, sAlpha []on.OntSig, maxKeys, maxSig int, h uint32) []ontCase {
	var keyLists [][]*polyenv.Acct
	level := [][]*polyenv.Acct{{}}
	keyLists = append(keyLists, level...)
	for l := 1; l <= maxKeys; l++ {
		var nx [][]*polyenv.Acct
		for _, p := range level {
			for _, a := range kAlpha {
				nx = append(nx, append(append([]*polyenv.Acct{}, p...), a))
			}
		}
		keyLists = append(keyLists, nx...)
		level = nx
	}
	var sigLists [][]on.OntSig
	sl := [][]on.OntSig{{}}
	sigLists = append(sigLists, sl...)
	for l := 1; l <= maxSig; l++ {
		var nx [][]on.OntSig
		for _, p := range sl {
			for _, a := range sAlpha {
				nx = append(nx, append(append([]on.OntSig{}, p...), a))
			}
		}
		sigLists = append(sigLists, nx...)
		sl = nx
	}
	var cs []ontCase
	for _, k := range keyLists {
		for _, g := range sigLists {
			cs = append(cs, ontCase{"layout:exhaustive-small", h, k, g})
		}
	}
	return cs
}

func hsKey(prefix string, chain uint64, rest []byte) string {
	return polyenv.StorageKey(utils.ConcatKey(utils.HeaderSyncContractAddress, []byte(prefix), utils.GetUint64Bytes(chain), rest))
}

// runOnt evaluates all cases against the state d; tracked(h) gives the set in force for a message height.
func runOnt(tag string, chain uint64, d polyenv.Dump, cases []ontCase, tracked func(h uint32) []*polyenv.Acct, name map[string]string) {
	parallel(len(cases), func(i int, s *hsenv.Sim) {
		c := cases[i]
		tr := map[string]bool{}
		trackedKeys := tracked(c.height)
		for _, k := range trackedKeys {
			tr[k.PubHex] = true
		}
		dv := distinctValid(tr, c.sigs)
		enough := dv*3 >= len(tr)
		var root [32]byte
		root[0] = 0xab
		raw, hash, sigData := on.OntCrossMsgLayout(c.height, root, c.keys, c.sigs)
		lab := label(c, name)
		if !enough {
			// confirm the count by verifying every SigData entry against every tracked key with real crypto
			seen := map[string]bool{}
			for _, sg := range sigData {
				for _, k := range trackedKeys {
					if on.OntVerify(k, hash, sg) {
						seen[k.PubHex] = true
					}
				}
			}
			if len(seen) != dv {
				r.HarnessError("ont: constructed count %d != verified count %d for %s", dv, len(seen), lab)
			}
		}
		detail := func(path string, extra string) map[string]any {
			return map[string]any{"router": "ont", "path": path, "tracked_set_size": len(tr), "required": (len(tr) + 2) / 3,
				"distinct_valid_tracked_signers": dv, "signer_list": lab, "msg_height": c.height, "family": c.fam, "config": tag,
				"raw_msg_hex": fmt.Sprintf("%x", raw), "note": extra}
		}
		// (a) header_sync.syncCrossChainMsg
		s.Load(d)
		res := s.Exec(on.CrossMsgTx(chain, raw), 10, 1000)
		stored := s.Raw(hsKey("crossChainMsg", chain, utils.GetUint32Bytes(c.height))) != ""
		r.Eval()
		acc := res.OK && stored
		if res.OK && !stored {
			r.HarnessError("ont syncCrossChainMsg ok but nothing stored (%s %s)", tag, lab)
		}
		verdict(acc, enough, "ont", "SyncCrossChainMsg", c.fam, dv, len(c.keys), detail("header_sync.SyncCrossChainMsg", ""))
		// (b) cross_chain_manager.ImportOuterTransfer
		s.Load(d)
		res2 := s.Exec(on.ImportTx(chain, c.height, []byte{1, 2, 3}, raw), 10, 1000)
		r.Eval()
		st := stage(res2, "VerifyCrossChainMsg error", "VerifyOntTx error")
		if strings.HasPrefix(st, "other") || st == "ok" {
			r.HarnessError("ont import: unexpected outcome %s (%s %s)", st, tag, lab)
		}
		verdict(st == "sig-accepted", enough, "ont", "MakeDepositProposal", c.fam, dv, len(c.keys), detail("cross_chain_manager.ImportOuterTransfer", st))
		if c.fam == "subset" && dv == len(c.keys) && dv == (len(tr)+2)/3 && !acc {
			canonicalRejected("ont canonical message (exactly ceil(N/3) distinct members) rejected: %s %s: %v", tag, lab, res.Err)
		}
	})
}

// verdict applies the implication oracle and does the bookkeeping.
func verdict(accepted, enough bool, router, path, fam string, dv, listed int, detail map[string]any) {
	cls := "reject"
	if accepted {
		cls = "accept"
	}
	r.Class(cls)
	r.Class(router + ":" + cls)
	r.Case(fmt.Sprintf("%s/%s/%s/distinct=%d/listed=%d/%s", router, path, fam, dv, listed, cls))
	count(router + "/" + path + "/" + cls)
	if accepted && dv < listed || !accepted && dv > 0 && listed > dv {
		r.Sample(map[string]any{"router": router, "path": path, "family": fam, "outcome": cls, "distinct_valid_tracked": dv, "listed": listed,
			"signers": detail["signer_list"], "invocation": detail["invocation"], "tracked": detail["tracked"], "tracked_set_size": detail["tracked_set_size"]})
	}
	if accepted && !enough {
		key := fmt.Sprintf("%s:%s:accepted-without-enough-distinct-tracked-signers:%s", router, path, fam)
		violation(key, listed*1000+rankOf(detail), detail)
	}
}

func rankOf(d map[string]any) int {
	if v, ok := d["tracked_set_size"].(int); ok {
		return v
	}
	return 0
}

func ontPart() {
	maxN := r.QT(6, 9)
	F := polyenv.KeysFrom(196, 4)
	for n := 1; n <= maxN; n++ {
		if r.Expired() {
			r.Capped(fmt.Sprintf("ont N>=%d", n))
			return
		}
		P := polyenv.KeysFrom(100, n)
		name := map[string]string{}
		for i, k := range F {
			name[k.PubHex] = fmt.Sprintf("outsider%d", i)
		}
		for i, k := range P {
			name[k.PubHex] = fmt.Sprintf("p%d", i)
		}
		chain := uint64(100 + n)
		w := baseWorld()
		must(on.RegisterSideChain(w, vals, chain, utils.ONT_ROUTER, "ont", []byte{1}, nil), "register ont")
		mustOK(w.Exec(on.GenesisTx(vals, chain, on.OntHeader(0, P, 1, nil)), 5, 500), "ont genesis")
		d := w.Dump()
		w.Close()
		cases := ontFamilies(P, F, 5)
		if n == 4 {
			bad := on.OntSig{By: P[0], Bad: true}
			if r.Quick() {
				cases = append(cases, ontSmallExhaustive([]*polyenv.Acct{P[0], P[1], P[2], F[0]},
					[]on.OntSig{{By: P[0]}, {By: P[2]}, {By: F[0]}, bad}, 4, 2, 5)...)
			} else {
				cases = append(cases, ontSmallExhaustive([]*polyenv.Acct{P[0], P[1], P[2], F[0], F[1]},
					[]on.OntSig{{By: P[0]}, {By: P[2]}, {By: F[0]}, {By: F[1]}, bad}, 4, 3, 5)...)
			}
		}
		runOnt(fmt.Sprintf("N=%d", n), chain, d, cases, func(uint32) []*polyenv.Acct { return P }, name)
		r.Note(fmt.Sprintf("ont_cases_N%d", n), len(cases))
	}
	// two key heights: old set at 0, new set recorded by a real key header at height 10
	old, nw := polyenv.KeysFrom(120, 4), polyenv.KeysFrom(130, 4)
	name := map[string]string{}
	for i := range old {
		name[old[i].PubHex] = fmt.Sprintf("old%d", i)
		name[nw[i].PubHex] = fmt.Sprintf("new%d", i)
	}
	chain := uint64(150)
	w := baseWorld()
	must(on.RegisterSideChain(w, vals, chain, utils.ONT_ROUTER, "ont2", []byte{1}, nil), "register ont2")
	mustOK(w.Exec(on.GenesisTx(vals, chain, on.OntHeader(0, old, 1, nil)), 5, 500), "ont2 genesis")
	mustOK(w.Exec(on.HeadersTx(chain, on.OntHeader(10, nw, 2, []on.OntSigner{{Key: old[0]}, {Key: old[1]}})), 6, 600), "ont2 key header 10")
	d := w.Dump()
	w.Close()
	all := append(append([]*polyenv.Acct{}, old...), nw...)
	var cases []ontCase
	for _, h := range []uint32{5, 10, 11} {
		for mask := 0; mask < 1<<8; mask++ {
			var S []*polyenv.Acct
			for i := 0; i < 8; i++ {
				if mask>>i&1 == 1 {
					S = append(S, all[i])
				}
			}
			if len(S) <= 3 {
				cases = append(cases, paired(fmt.Sprintf("two-key-heights/h=%d", h), h, S...))
			}
		}
	}
	runOnt("keyheights{0,10}", chain, d, cases, func(h uint32) []*polyenv.Acct {
		if h > 10 {
			return nw
		}
		return old
	}, name)
	r.Note("ont_cases_two_key_heights", len(cases))
}

// ---------------------------------------------------------------------------------------------
// ONT histories: what is already stored for (chain, height) × message variant × claimed height × entrance height × root

func leafHash(v []byte) [32]byte { return sha256.Sum256(append([]byte{0}, v...)) }
func nodeHash(l, rr [32]byte) [32]byte {
	return sha256.Sum256(append(append([]byte{1}, l[:]...), rr[:]...))
}

// ontProof is the wire form merkle.MerkleProve reads: varbytes(value) ++ (flag, sibling)*; flag 0 = sibling is LEFT.
func ontProof(value []byte, flag byte, sibling *[32]byte) []byte {
	sink := common.NewZeroCopySink(nil)
	sink.WriteVarBytes(value)
	if sibling != nil {
		sink.WriteByte(flag)
		sink.WriteBytes(sibling[:])
	}
	return sink.Bytes()
}

func ontHistoryPart() {
	const (
		chain = uint64(160)
		dst   = uint64(161)
		H     = uint32(5)
	)
	P := polyenv.KeysFrom(140, 4)
	F := polyenv.KeysFrom(196, 2)
	name := map[string]string{F[0].PubHex: "outsider0", F[1].PubHex: "outsider1"}
	tr := map[string]bool{}
	for i, k := range P {
		name[k.PubHex] = fmt.Sprintf("p%d", i)
		tr[k.PubHex] = true
	}
	val := func(ccid byte) []byte {
		m := &ccmcom.MakeTxParam{TxHash: []byte{0xe0, ccid}, CrossChainID: []byte{ccid}, FromContractAddress: []byte{0xf0}, ToChainID: dst,
			ToContractAddress: make([]byte, 20), Method: "unlock", Args: []byte{1, 2, 3}}
		sink := common.NewZeroCopySink(nil)
		m.Serialization(sink)
		return sink.Bytes()
	}
	v0, v1, vf := val(1), val(2), val(3)
	l0, l1 := leafHash(v0), leafHash(v1)
	rootA := nodeHash(l0, l1) // the root the validators signed (commits to v0 and v1)
	rootB := leafHash(vf)     // another root (commits to vf only)
	proof0 := ontProof(v0, 1, &l1)
	proofs := map[string][]byte{"A": ontProof(v1, 0, &l0), "B": ontProof(vf, 0, nil)}
	ccidOf := map[string][]byte{"A": {2}, "B": {3}}
	roots := map[string][32]byte{"A": rootA, "B": rootB}
	doneKey := func(ccid []byte) string {
		return polyenv.StorageKey(utils.ConcatKey(utils.CrossChainManagerContractAddress, []byte("doneTx"), utils.GetUint64Bytes(chain), ccid))
	}
	w := baseWorld()
	must(on.RegisterSideChain(w, vals, chain, utils.ONT_ROUTER, "onth", nil, nil), "register ont (old-style, empty CCMC)")
	must(on.RegisterSideChain(w, vals, dst, utils.VOTE_ROUTER, "dst", []byte{2}, nil), "register target chain")
	mustOK(w.Exec(on.GenesisTx(vals, chain, on.OntHeader(0, P, 1, nil)), 5, 500), "onth genesis")
	genuine, _, _ := on.OntCrossMsgLayout(H, rootA, P[:2], signedBy(P[:2]...))
	states := map[string]polyenv.Dump{"nothing-stored": w.Dump()}
	ws := polyenv.NewWorldFrom(states["nothing-stored"])
	mustOK(ws.Exec(on.CrossMsgTx(chain, genuine), 6, 600), "onth sync genuine message")
	states["genuine-at-H-via-syncCrossChainMsg"] = ws.Dump()
	ws.Close()
	wd := polyenv.NewWorldFrom(states["nothing-stored"])
	res0 := wd.Exec(on.ImportTx(chain, H, proof0, genuine), 6, 600)
	mustOK(res0, "onth genuine deposit of v0")
	states["genuine-at-H-via-earlier-deposit"] = wd.Dump()
	if wd.Dump().Map()[doneKey([]byte{1})] == "" {
		r.HarnessError("onth: genuine deposit did not mark v0 done")
	}
	wd.Close()
	w.Close()
	type sv struct {
		name string
		keys []*polyenv.Acct
		sigs []on.OntSig
	}
	variants := []sv{
		{"unsigned", nil, nil},
		{"duplicate-signer", []*polyenv.Acct{P[2], P[2]}, signedBy(P[2], P[2])},
		{"outsiders", F, signedBy(F...)},
		{"below-threshold", P[2:3], signedBy(P[2])},
		{"nonsigners-then-outsiders", cat(P[:2], F), signedBy(F...)},
		{"full-quorum", P[2:4], signedBy(P[2], P[3])},
	}
	type hc struct {
		state, rootName, proofName string
		v                          sv
		claimed, entrance          uint32
	}
	var cases []hc
	var stNames []string
	for k := range states {
		stNames = append(stNames, k)
	}
	sort.Strings(stNames)
	for _, st := range stNames {
		for _, v := range variants {
			for _, claimed := range []uint32{H, H + 1} {
				for _, entrance := range []uint32{H, H + 1, H + 2} {
					for _, rn := range []string{"A", "B"} {
						for _, pn := range []string{"A", "B"} {
							cases = append(cases, hc{st, rn, pn, v, claimed, entrance})
						}
					}
				}
			}
		}
	}
	parallel(len(cases), func(i int, s *hsenv.Sim) {
		c := cases[i]
		raw, _, _ := on.OntCrossMsgLayout(c.claimed, roots[c.rootName], c.v.keys, c.v.sigs)
		dv := distinctValid(tr, c.v.sigs)
		submittedValid := dv*3 >= len(tr)
		s.Load(states[c.state])
		res := s.Exec(on.ImportTx(chain, c.entrance, proofs[c.proofName], raw), 10, 1000)
		r.Eval()
		accepted := res.OK && s.Raw(doneKey(ccidOf[c.proofName])) != ""
		// the proof verifies under exactly one root (c.proofName); that root must belong to a validly signed message:
		// the stored genuine one (root A) or the submitted one if IT is validly signed
		justified := (c.proofName == "A" && c.state != "nothing-stored") || (c.rootName == c.proofName && submittedValid)
		cls := "reject"
		if accepted {
			cls = "accept"
		}
		r.Class("ont-history:" + cls)
		r.Class("ont:" + cls)
		r.Class(cls)
		count("ont/history/" + cls)
		r.Case(fmt.Sprintf("ont-history/%s/%s/claimed=H+%d/entrance=H+%d/msgroot=%s/proofroot=%s/%s", c.state, c.v.name, c.claimed-H, c.entrance-H, c.rootName, c.proofName, cls))
		detail := map[string]any{"router": "ont", "path": "cross_chain_manager.ImportOuterTransfer (full deposit with a matching merkle proof)",
			"already_stored": c.state, "submitted_message_signers": label(ontCase{keys: c.v.keys, sigs: c.v.sigs}, name), "submitted_message_claims_height": c.claimed,
			"entrance_height_param": c.entrance, "genuine_height": H, "submitted_message_root": c.rootName, "proof_verifies_under_root": c.proofName,
			"distinct_valid_tracked_signers_of_submitted": dv, "required": 2, "tracked_set_size": len(tr), "tx_err": fmt.Sprint(res.Err),
			"raw_msg_hex": fmt.Sprintf("%x", raw), "proof_hex": fmt.Sprintf("%x", proofs[c.proofName])}
		if accepted && !justified {
			violation("ont:MakeDepositProposal:deposit-accepted-against-states-root-of-unverified-message:"+c.v.name, len(c.v.keys)*1000+int(c.entrance), detail)
		}
		if accepted && len(c.v.keys) < 2 {
			r.Sample(map[string]any{"history": c.state, "signers": c.v.name, "claimed": c.claimed, "entrance": c.entrance, "msgroot": c.rootName, "proofroot": c.proofName, "outcome": cls})
		}
		if !accepted && c.v.name == "full-quorum" && c.rootName == c.proofName && c.state == "nothing-stored" && c.claimed == c.entrance {
			canonicalRejected("ont history: honest deposit rejected (%s claimed=%d entrance=%d root=%s): %v", c.state, c.claimed, c.entrance, c.rootName, res.Err)
		}
	})
	r.Note("ont_history_cases", len(cases))
}

// ---------------------------------------------------------------------------------------------
// NEO family: generic enumeration of invocation lists

// seqs returns all sequences of length <= maxLen over the alphabet {member 0..n-1, outsider, bad(member 0)}.
func seqs(n, maxLen int) [][]on.Sig {
	var alpha []on.Sig
	for k := 0; k < n; k++ {
		alpha = append(alpha, on.Sig{K: k})
	}
	alpha = append(alpha, on.Sig{Foreign: true}, on.Sig{K: 0, Bad: true})
	out := [][]on.Sig{{}}
	level := [][]on.Sig{{}}
	for l := 1; l <= maxLen; l++ {
		var nx [][]on.Sig
		for _, p := range level {
			for _, a := range alpha {
				nx = append(nx, append(append([]on.Sig{}, p...), a))
			}
		}
		out = append(out, nx...)
		level = nx
	}
	return out
}

func sigLabel(l []on.Sig) string {
	var p []string
	for _, e := range l {
		switch {
		case e.Foreign:
			p = append(p, "outsider")
		case e.Bad:
			p = append(p, fmt.Sprintf("k%d!bad", e.K))
		default:
			p = append(p, fmt.Sprintf("k%d", e.K))
		}
	}
	return "[" + strings.Join(p, ",") + "]"
}

func distinctGood(l []on.Sig) int {
	seen := map[int]bool{}
	for _, e := range l {
		if !e.Foreign && !e.Bad {
			seen[e.K] = true
		}
	}
	return len(seen)
}

func firstK(m int) []on.Sig {
	var l []on.Sig
	for k := 0; k < m; k++ {
		l = append(l, on.Sig{K: k})
	}
	return l
}

// neoCase: invocation list signed by `by` ("tracked" | "otherkeys" | "lowthreshold") under that set's script.
type neoCase struct {
	by   string
	list []on.Sig
}

func neoCases(m, n int) []neoCase {
	var cs []neoCase
	maxLen := n // also one signature MORE than keys where affordable
	if n <= 3 || (r.Thorough() && n <= 4) {
		maxLen = n + 1
	}
	for _, l := range seqs(n, maxLen) {
		cs = append(cs, neoCase{"tracked", l})
	}
	for _, by := range []string{"otherkeys", "lowthreshold"} {
		cs = append(cs, neoCase{by, firstK(m)}, neoCase{by, firstK(n)})
		if m > 1 {
			cs = append(cs, neoCase{by, firstK(m - 1)})
		}
	}
	return cs
}

// router-specific closure set
type neoRouter struct {
	name        string
	build       func(c neoCase) (raw []byte, index uint32) // wire message for a case
	direct      func(s *hsenv.Sim, raw []byte) error       // exported verifier on the real state
	proofMarker string
	proof       []byte // a well-formed proof of something else: fails cleanly AFTER the signature check
	noImport    bool   // cross_chain_manager has no handler for this router (neo3legacy): only the verifier is driven
	chain       uint64
	m, n        int
}

func runNeo(nr neoRouter, d polyenv.Dump, cases []neoCase) {
	parallel(len(cases), func(i int, s *hsenv.Sim) {
		c := cases[i]
		raw, index := nr.build(c)
		dg := distinctGood(c.list)
		enough := c.by == "tracked" && dg >= nr.m
		fam := c.by
		lab := sigLabel(c.list)
		detail := func(path, note string) map[string]any {
			return map[string]any{"router": nr.name, "path": path, "tracked": fmt.Sprintf("%d-of-%d", nr.m, nr.n), "witness_script": c.by,
				"invocation": lab, "distinct_valid_tracked_signers": dg, "raw_msg_hex": fmt.Sprintf("%x", raw), "note": note}
		}
		s.Load(d)
		var err error
		if rec, p := ev.Guard(func() { err = nr.direct(s, raw) }); p {
			count(nr.name + "/panic")
			r.Class("panic")
			err = fmt.Errorf("panic: %v", rec)
		}
		r.Eval()
		verdict(err == nil, enough, nr.name, "VerifyCrossChainMsgSig", fam, dg, len(c.list), detail("header_sync."+nr.name+".VerifyCrossChainMsgSig", ""))
		if c.by == "tracked" && len(c.list) == nr.m && dg == nr.m && sorted(c.list) && err != nil {
			canonicalRejected("%s canonical message (%d distinct members in script order) rejected: %s: %v", nr.name, nr.m, lab, err)
		}
		if nr.noImport {
			return
		}
		s.Load(d)
		res := s.Exec(on.ImportTx(nr.chain, index, nr.proof, raw), 10, 1000)
		r.Eval()
		st := stage(res, "VerifyCrossChainMsg error", nr.proofMarker)
		if res.Panic != nil {
			st = "sig-rejected"
			count(nr.name + "/panic-in-tx")
		}
		if strings.HasPrefix(st, "other") || st == "ok" {
			r.HarnessError("%s import: unexpected outcome %s (%s)", nr.name, st, lab)
		}
		verdict(st == "sig-accepted", enough, nr.name, "MakeDepositProposal", fam, dg, len(c.list), detail("cross_chain_manager.ImportOuterTransfer", st))
	})
}

func sorted(l []on.Sig) bool {
	for i := 1; i < len(l); i++ {
		if l[i].K <= l[i-1].K {
			return false
		}
	}
	return true
}

func neoPart() {
	sets := [][2]int{{1, 2}, {2, 3}, {3, 4}}
	if r.Thorough() {
		sets = append(sets, [2]int{3, 5})
	}
	for si, mn := range sets {
		if r.Expired() {
			r.Capped(fmt.Sprintf("neo sets >= %v", mn))
			return
		}
		m, n := mn[0], mn[1]
		out := polyenv.Key(299)
		A := on.NewNeoSet(m, polyenv.KeysFrom(200, n), out)
		B := on.NewNeoSet(m, polyenv.KeysFrom(220, n), out)
		L := B // same keys with a lower threshold (m-1); for m == 1 there is none: use the foreign-key set again
		if m > 1 {
			L = on.NewNeoSet(m-1, polyenv.KeysFrom(200, n), out)
		}
		chain := uint64(200 + si)
		w := baseWorld()
		must(on.RegisterSideChain(w, vals, chain, utils.NEO_ROUTER, "neo", []byte{1}, nil), "register neo")
		gh, _ := on.NeoHeaderUnsigned(0, A.Hash, 1)
		mustOK(w.Exec(on.GenesisTx(vals, chain, on.NeoHeaderBytes(gh, []byte{}, []byte{0x51})), 5, 500), "neo genesis")
		d := w.Dump()
		w.Close()
		var root [32]byte
		root[0] = 0xcd
		sr, msg := on.NeoStateRootUnsigned(77, root)
		sigs := map[string]*on.NeoSigs{"tracked": A.Sign(msg), "otherkeys": B.Sign(msg), "lowthreshold": L.Sign(msg)}
		script := map[string][]byte{"tracked": A.Script, "otherkeys": B.Script, "lowthreshold": L.Script}
		// proof: storage key = 20-byte script hash 0 ++ one 16-byte group with padding 16 (empty key), no nodes.
		// (A truncated key, e.g. proof {1,2,3}, sends neo-gogogo's ReadBytesWithGrouping into an unbounded
		// allocation loop AFTER the signature check passed - outside this property, reported separately.)
		proof := append(append([]byte{37}, make([]byte, 36)...), 16, 0)
		nr := neoRouter{name: "neo", chain: chain, m: m, n: n, proofMarker: "VerifyFromNeoTx error", proof: proof,
			build: func(c neoCase) ([]byte, uint32) {
				return on.NeoStateRootBytes(on.NeoStateRootWith(sr, sigs[c.by].Invocation(c.list), script[c.by])), 77
			},
			direct: func(s *hsenv.Sim, raw []byte) error {
				m := new(neo.NeoCrossChainMsg)
				if err := m.Deserialization(common.NewZeroCopySource(raw)); err != nil {
					return err
				}
				return neo.VerifyCrossChainMsgSig(s.Reader(), chain, m)
			}}
		cases := neoCases(m, n)
		runNeo(nr, d, cases)
		r.Note(fmt.Sprintf("neo_cases_%dof%d", m, n), len(cases))
	}
}

func neo3Part(legacy bool) {
	name := "neo3"
	router := utils.NEO3_ROUTER
	if legacy {
		name, router = "neo3legacy", utils.NEO3_LEGACY_ROUTER
	}
	maxN := r.QT(4, 5)
	const magic = 0x334f454e
	for n := 1; n <= maxN; n++ {
		if r.Expired() {
			r.Capped(fmt.Sprintf("%s n>=%d", name, n))
			return
		}
		m := n - (n-1)/3
		out := polyenv.Key(399)
		chain := uint64(300 + n)
		if legacy {
			chain += 50
		}
		var root [32]byte
		root[0] = 0xef
		var pubHex []string
		script := map[string][]byte{}
		var inv func(by string, l []on.Sig) []byte
		var wire func(inv, ver []byte) []byte
		if legacy {
			A := on.NewNeo3LSet(m, polyenv.KeysFrom(300, n), out)
			B := on.NewNeo3LSet(m, polyenv.KeysFrom(320, n), out)
			L := B
			if m > 1 {
				L = on.NewNeo3LSet(m-1, polyenv.KeysFrom(300, n), out)
			}
			sr, msg := on.Neo3LStateRootUnsigned(88, root, magic)
			sigs := map[string]*on.Neo3LSigs{"tracked": A.Sign(msg), "otherkeys": B.Sign(msg), "lowthreshold": L.Sign(msg)}
			script["tracked"], script["otherkeys"], script["lowthreshold"] = A.Script, B.Script, L.Script
			pubHex = A.PubHex
			inv = func(by string, l []on.Sig) []byte { return sigs[by].Invocation(l) }
			wire = func(i, v []byte) []byte { return on.Neo3LStateRootBytes(on.Neo3LStateRootWith(sr, i, v)) }
		} else {
			A := on.NewNeo3Set(m, polyenv.KeysFrom(300, n), out)
			B := on.NewNeo3Set(m, polyenv.KeysFrom(320, n), out)
			L := B
			if m > 1 {
				L = on.NewNeo3Set(m-1, polyenv.KeysFrom(300, n), out)
			}
			sr, msg := on.Neo3StateRootUnsigned(88, root, magic)
			sigs := map[string]*on.Neo3Sigs{"tracked": A.Sign(msg), "otherkeys": B.Sign(msg), "lowthreshold": L.Sign(msg)}
			script["tracked"], script["otherkeys"], script["lowthreshold"] = A.Script, B.Script, L.Script
			pubHex = A.PubHex
			inv = func(by string, l []on.Sig) []byte { return sigs[by].Invocation(l) }
			wire = func(i, v []byte) []byte { return on.Neo3StateRootBytes(on.Neo3StateRootWith(sr, i, v)) }
		}
		w := baseWorld()
		must(on.RegisterSideChain(w, vals, chain, router, name, []byte{5, 0, 0, 0}, on.MagicBytes(magic)), "register "+name)
		must(on.RegisterStateValidators(w, vals, pubHex, 0), "state validators")
		d := w.Dump()
		w.Close()
		nr := neoRouter{name: name, chain: chain, m: m, n: n, proofMarker: "VerifyFromNeoTx error", proof: []byte{5, 9, 0, 0, 0, 0xaa, 0}, noImport: legacy,
			build: func(c neoCase) ([]byte, uint32) {
				return wire(inv(c.by, c.list), script[c.by]), 88
			},
			direct: func(s *hsenv.Sim, raw []byte) error {
				if legacy {
					m := new(neo3legacy.NeoCrossChainMsg)
					if err := m.Deserialization(common.NewZeroCopySource(raw)); err != nil {
						return err
					}
					return neo3legacy.VerifyCrossChainMsgSig(s.Reader(), magic, m)
				}
				m := new(neo3.NeoCrossChainMsg)
				if err := m.Deserialization(common.NewZeroCopySource(raw)); err != nil {
					return err
				}
				return neo3.VerifyCrossChainMsgSig(s.Reader(), magic, m)
			}}
		cases := neoCases(m, n)
		runNeo(nr, d, cases)
		r.Note(fmt.Sprintf("%s_cases_n%d", name, n), len(cases))
	}
}

func main() {
	r = ev.Start("C24", "exploration")
	r.Require("accept", "reject", "ont:accept", "ont:reject", "ont-history:accept", "ont-history:reject", "neo:accept", "neo:reject", "neo3:accept", "neo3:reject", "neo3legacy:accept", "neo3legacy:reject")
	vals = polyenv.Keys(4)
	polyenv.Setup(0, vals)
	polyenv.InstallHeightLedger()
	ontPart()
	ontHistoryPart()
	neoPart()
	neo3Part(false)
	neo3Part(true)
	r.Assume("ECDSA P-256 / SHA-256 are sound (a signature made over another message or by another key never verifies)",
		"the NEO / NEO N3 handlers' verdict on the signatures is read from the stage at which ImportOuterTransfer fails (no valid MPT proof is synthesised); the exported verifier is evaluated directly as well")
	var vk []string
	for k := range viols {
		vk = append(vk, k)
	}
	sort.Strings(vk)
	for _, k := range vk {
		r.Violation(k, viols[k].detail)
	}
	if canonErr != "" && len(vk) == 0 {
		r.HarnessError("%s", canonErr)
	}
	if canonErr != "" {
		r.Note("canonical_input_rejected", canonErr)
	}
	mu.Lock()
	c := map[string]int{}
	for k, v := range cnt {
		c[k] = v
	}
	mu.Unlock()
	fmt.Println("outcomes:", c)
	r.Finish(map[string]any{
		"rule":            "accepted ⇒ |distinct tracked members with a valid signature| ≥ required (ONT ceil(N/3) at the greatest key height below the message; NEO/N3: tracked script's m and script hash == tracked)",
		"routers_covered": []string{"ont (syncCrossChainMsg + importOuterTransfer)", "neo (verifier + importOuterTransfer)", "neo3 (verifier + importOuterTransfer)", "neo3legacy (verifier only: cross_chain_manager.GetChainHandler has no case for router 11)"},
		"ont_N_max":       r.QT(6, 9),
		"neo_sets":        "1of2,2of3,3of4" + map[bool]string{true: ",3of5", false: ""}[r.Thorough()],
		"neo3_n_max":      r.QT(4, 5),
		"outcomes":        c,
	})
}
