package main

// Reference model of the PoSA acceptance rules, written from the consensus specifications (parlia, congress,
// clique, bor) over the driver's own description of each header (who sealed it, with which difficulty, what
// it lists, how it was malformed). It shares no code with the routers.

import (
	"bytes"
	"sort"

	ecommon "github.com/ethereum/go-ethereum/common"
	"github.com/polynetwork/poly/native/service/header_sync/eth"
	"verif.local/engine/lib/posa"
)

// spec describes one synthetic header relative to its parent.
type spec struct {
	signer int    // index of the key that seals
	diff   int64  // difficulty field
	list   []int  // validator list carried in the extra (key indices in listed order); nil = none
	kind   string // "" = every fixed-format field well formed, else the name of the malformation
	vote   int    // clique: key index voted on (coinbase), -1 = no vote
	auth   bool   // clique: authorise (nonce ff..ff) or drop (nonce 00..00)
}

type mnode struct {
	label  string
	parent *mnode
	height uint64
	sp     spec
	hdr    *eth.Header
	hash   string
	taint  bool // this header or an ancestor was stored although the model rejects it
	prop   int  // bor: key index of the proposer of the snapshot in force at this header (-1 unknown)
}

type model struct {
	rt         *posa.Router
	keys       []posa.Key
	epoch      uint64   // chain constant: validator lists / checkpoints are legal only at multiples (bor: sprint length)
	gprev      []int    // parlia/congress trust root: the older validator set recorded next to the genesis list
	epochLists []string // list codes offered at epoch heights (nil: A, B, C)
}

func (m *model) addrs(idx []int) []ecommon.Address {
	out := make([]ecommon.Address, len(idx))
	for i, k := range idx {
		out[i] = m.keys[k].Addr
	}
	return out
}

// sortedByAddr orders key indices by address (clique signer order, bor validator order).
func (m *model) sortedByAddr(idx []int) []int {
	s := append([]int{}, idx...)
	sort.Slice(s, func(i, j int) bool { return bytes.Compare(m.keys[s[i]].Addr[:], m.keys[s[j]].Addr[:]) < 0 })
	return s
}

func has(set []int, k int) bool {
	for _, x := range set {
		if x == k {
			return true
		}
	}
	return false
}

// chain returns genesis..p.
func chain(p *mnode) []*mnode {
	var c []*mnode
	for x := p; x != nil; x = x.parent {
		c = append(c, x)
	}
	for i, j := 0, len(c)-1; i < j; i, j = i+1, j-1 {
		c[i], c[j] = c[j], c[i]
	}
	return c
}

// inEffect is the ordered validator set whose members may seal the child of p (height p.height+1).
func (m *model) inEffect(p *mnode) []int {
	n := p.height + 1
	switch m.rt.Family {
	case posa.Parlia, posa.Congress:
		cur := m.gprev
		var pend []int
		var at uint64
		for _, a := range chain(p) {
			if pend != nil && a.height >= at {
				cur, pend = pend, nil
			}
			if a.sp.list != nil {
				pend = a.sp.list
				at = a.height + 1 // congress: with the next block
				if m.rt.Family == posa.Parlia {
					at = a.height + uint64(len(cur)/2) + 1 // parlia: after len(current)/2 further blocks
				}
			}
		}
		if pend != nil && n >= at {
			cur = pend
		}
		return cur
	case posa.Clique:
		return m.sortedByAddr(m.cliqueSigners(p))
	case posa.Bor:
		// producers listed by the last sprint-end ancestor (height+1 multiple of the sprint), else the genesis snapshot's set
		var set []int
		for _, a := range chain(p) {
			if a.parent == nil {
				set = a.sp.list
			} else if (a.height+1)%m.epoch == 0 && a.sp.list != nil {
				set = a.sp.list
			}
		}
		return m.sortedByAddr(set)
	}
	return nil
}

// cliqueSigners replays the clique votes from the last checkpoint ancestor up to p (EIP-225).
func (m *model) cliqueSigners(p *mnode) []int {
	type vote struct {
		signer, addr int
		auth         bool
	}
	var signers []int
	var votes []vote
	for _, a := range chain(p) {
		if a.sp.list != nil && (a.parent == nil || a.height%m.epoch == 0) {
			signers, votes = append([]int{}, a.sp.list...), nil
			continue
		}
		if a.sp.vote < 0 {
			continue
		}
		for i, v := range votes { // a signer's earlier vote on the same address is replaced
			if v.signer == a.sp.signer && v.addr == a.sp.vote {
				votes = append(votes[:i:i], votes[i+1:]...)
				break
			}
		}
		if has(signers, a.sp.vote) == a.sp.auth {
			continue // meaningless vote (authorise a signer / drop a non-signer)
		}
		votes = append(votes, vote{a.sp.signer, a.sp.vote, a.sp.auth})
		cnt := 0
		for _, v := range votes {
			if v.addr == a.sp.vote && v.auth == a.sp.auth {
				cnt++
			}
		}
		if cnt <= len(signers)/2 {
			continue
		}
		if a.sp.auth {
			signers = append(signers, a.sp.vote)
		} else {
			var keep []int
			for _, s := range signers {
				if s != a.sp.vote {
					keep = append(keep, s)
				}
			}
			signers = keep
		}
		var kv []vote
		for _, v := range votes {
			if v.addr == a.sp.vote || (!a.sp.auth && v.signer == a.sp.vote) {
				continue
			}
			kv = append(kv, v)
		}
		votes = kv
	}
	return signers
}

func sameSet(a, b []int) bool {
	if len(a) != len(b) {
		return false
	}
	for _, x := range a {
		if !has(b, x) {
			return false
		}
	}
	return true
}

// judge lists the clauses of the property that a header (described by sp, child of p) breaks; empty = it may be stored.
// borProposer is the key index of the bor proposer in force (-1 unknown: the difficulty clause is then not judged).
func (m *model) judge(p *mnode, sp spec, borProposer int) []string {
	if p == nil {
		return []string{"parent-not-stored"}
	}
	var bad []string
	n := p.height + 1
	if sp.kind != "" {
		bad = append(bad, "malformed-"+sp.kind)
	}
	set := m.inEffect(p)
	switch m.rt.Family {
	case posa.Parlia, posa.Congress:
		if sp.list != nil && n%m.epoch != 0 {
			bad = append(bad, "validator-list-on-non-epoch-header")
		}
	case posa.Clique:
		cp := n%m.epoch == 0
		switch {
		case sp.list != nil && !cp:
			bad = append(bad, "validator-list-on-non-epoch-header")
		case cp && sp.list == nil:
			bad = append(bad, "checkpoint-without-signer-list")
		case cp && !sameSet(sp.list, set):
			bad = append(bad, "checkpoint-list-differs-from-signers")
		}
		if cp && sp.vote >= 0 {
			bad = append(bad, "vote-on-checkpoint")
		}
	case posa.Bor:
		if sp.list != nil && (n+1)%m.epoch != 0 {
			bad = append(bad, "validator-list-on-non-sprint-end-header")
		}
	}
	if !has(set, sp.signer) {
		bad = append(bad, "signer-not-in-validator-set")
		return bad // turn / window are undefined for a non-member
	}
	if m.rt.Family != posa.Bor {
		w := len(set) / 2 // a validator may seal once in any len/2+1 consecutive blocks: it must not have sealed the previous len/2
		for a, i := p, 0; a != nil && i < w; a, i = a.parent, i+1 {
			if a.sp.signer == sp.signer {
				bad = append(bad, "signer-within-recent-window")
				break
			}
		}
		want := int64(1)
		if set[int(n%uint64(len(set)))] == sp.signer {
			want = 2
		}
		if sp.diff != want {
			bad = append(bad, "difficulty-does-not-match-turn")
		}
	} else if borProposer >= 0 && has(set, borProposer) {
		idx := func(k int) int {
			for i, x := range set {
				if x == k {
					return i
				}
			}
			return -1
		}
		succ := (idx(sp.signer) - idx(borProposer) + len(set)) % len(set)
		if sp.diff != int64(len(set)-succ) {
			bad = append(bad, "difficulty-does-not-match-turn")
		}
	}
	return bad
}
