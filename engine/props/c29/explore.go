package main

import (
	"crypto/sha256"
	"encoding/binary"
	"encoding/hex"
	"fmt"
	"io"
	"math/big"
	"sort"
	"strconv"
	"strings"
	"sync"

	ecommon "github.com/ethereum/go-ethereum/common"
	"github.com/ethereum/go-ethereum/core/types"
	"github.com/ethereum/go-ethereum/crypto"
	hscommon "github.com/polynetwork/poly/native/service/header_sync/common"
	"github.com/polynetwork/poly/native/service/header_sync/eth"
	"verif.local/engine/ev"
	"verif.local/engine/lib/hsenv"
	"verif.local/engine/lib/posa"
	"verif.local/engine/mc"
	"verif.local/engine/polyenv"
)

const outsider = 4 // key index that is never a member of any validator set

var listCodes = map[string][]int{"A": {0, 1, 2}, "B": {3, 1, 2}, "C": {0, 1, 2, 3},
	// hand-over family: larger sets that shrink / grow across a len/2 boundary
	"P": {0, 1, 2, 3, 4, 5, 6}, "Q": {0, 1, 2, 3, 4}, "R": {6, 2, 4}}

// ---------------------------------------------------------------------------------------------
// header construction

func (m *model) listBytes(sp spec) []byte {
	if sp.list == nil {
		return nil
	}
	switch m.rt.Family {
	case posa.Bor:
		return posa.BorList(m.addrs(sp.list), 10)
	case posa.Clique:
		return posa.AddrList(m.addrs(m.sortedByAddr(sp.list)))
	}
	return posa.AddrList(m.addrs(sp.list))
}

// build makes the header described by sp on top of p and seals it with the signer's real key.
func (m *model) build(p *mnode, sp spec, unknownParent bool) *eth.Header {
	rt := m.rt
	ph := p.hdr
	h := &eth.Header{ParentHash: rt.Hash(ph), UncleHash: posa.UncleHash, TxHash: types.EmptyRootHash, ReceiptHash: types.EmptyRootHash,
		Root: types.EmptyRootHash, Difficulty: big.NewInt(sp.diff), Number: new(big.Int).SetUint64(p.height + 1), GasLimit: ph.GasLimit,
		GasUsed: 21000, Time: ph.Time + 3}
	if unknownParent {
		h.ParentHash = crypto.Keccak256Hash([]byte("c29-no-such-header"))
	}
	switch rt.Family {
	case posa.Clique:
		if sp.vote >= 0 {
			h.Coinbase = m.keys[sp.vote].Addr
			if sp.auth {
				h.Nonce = types.BlockNonce{0xff, 0xff, 0xff, 0xff, 0xff, 0xff, 0xff, 0xff}
			}
		}
	case posa.Bor:
		h.Coinbase = m.keys[sp.signer].Addr
		h.Time = ph.Time + 20 // >= producer delay for every succession number
	default:
		h.Coinbase = m.keys[sp.signer].Addr
	}
	lb := m.listBytes(sp)
	vanity := posa.Vanity
	switch sp.kind {
	case "short-vanity":
		vanity = 20
	case "list-length":
		lb = append(lb, 1, 2, 3, 4, 5, 6, 7)
	case "mix-digest":
		h.MixDigest[0] = 1
	case "uncle-hash":
		h.UncleHash = types.EmptyRootHash
	case "gas-limit":
		h.GasLimit = ph.GasLimit + ph.GasLimit/rt.GasDiv
	case "gas-used":
		h.GasUsed = h.GasLimit + 1
	case "timestamp":
		h.Time = ph.Time + rt.Period - 1
	case "coinbase":
		h.Coinbase = m.keys[(sp.signer+1)%4].Addr
	case "number":
		h.Number = new(big.Int).SetUint64(p.height + 2)
	case "difficulty-3":
		h.Difficulty = big.NewInt(3)
	case "difficulty-0":
		h.Difficulty = big.NewInt(0)
	case "vote-nonce":
		h.Nonce = types.BlockNonce{0, 0, 0, 0, 0, 0, 0, 1}
	}
	h.Extra = posa.Extra(vanity, lb)
	rt.Sign(h, m.keys[sp.signer])
	if sp.kind == "bad-seal" {
		h.Extra[len(h.Extra)-posa.SealLen+3] ^= 0x40
	}
	return h
}

func (m *model) kinds() []string {
	rt := m.rt
	ks := []string{"short-vanity", "list-length", "mix-digest", "uncle-hash", "number"}
	if rt.GasDiv > 0 {
		ks = append(ks, "gas-limit")
	}
	if rt.GasUsedRule {
		ks = append(ks, "gas-used")
	}
	if rt.Period > 0 {
		ks = append(ks, "timestamp")
	}
	switch rt.Family {
	case posa.Parlia, posa.Congress:
		ks = append(ks, "coinbase", "bad-seal", "difficulty-3", "difficulty-0")
	case posa.Clique:
		ks = append(ks, "vote-nonce", "difficulty-3", "difficulty-0")
	case posa.Bor:
		ks = append(ks, "bad-seal")
	}
	return ks
}

// ---------------------------------------------------------------------------------------------
// events

func encodeSpec(sp spec, listCode string) string {
	s := "k" + strconv.Itoa(sp.signer) + "d" + strconv.FormatInt(sp.diff, 10)
	if listCode != "" {
		s += "L" + listCode
	}
	if sp.vote >= 0 {
		if sp.auth {
			s += "v+" + strconv.Itoa(sp.vote)
		} else {
			s += "v-" + strconv.Itoa(sp.vote)
		}
	}
	if sp.kind != "" {
		s += "!" + sp.kind
	}
	return s
}

// decodeSpec parses what encodeSpec wrote; list code "S" = the signer set in force (clique checkpoint).
func (m *model) decodeSpec(p *mnode, s string) spec {
	sp := spec{vote: -1}
	if i := strings.IndexByte(s, '!'); i >= 0 {
		sp.kind = s[i+1:]
		s = s[:i]
	}
	if i := strings.IndexByte(s, 'v'); i >= 0 {
		sp.auth = s[i+1] == '+'
		sp.vote, _ = strconv.Atoi(s[i+2:])
		s = s[:i]
	}
	if i := strings.IndexByte(s, 'L'); i >= 0 {
		code := s[i+1:]
		if code == "S" {
			sp.list = append([]int{}, m.inEffect(p)...)
		} else {
			sp.list = listCodes[code]
		}
		s = s[:i]
	}
	i := strings.IndexByte(s, 'd')
	sp.signer, _ = strconv.Atoi(s[1:i])
	sp.diff, _ = strconv.ParseInt(s[i+1:], 10, 64)
	return sp
}

// honest picks a (signer, difficulty) the model accepts on top of p: the in-turn validator if it may seal, else the
// first other one. For bor with an unknown proposer the first member with every difficulty is returned.
func (m *model) honest(p *mnode, prop int) []spec {
	set := m.inEffect(p)
	if m.rt.Family == posa.Bor {
		if prop < 0 || !has(set, prop) {
			var out []spec
			for d := 1; d <= len(set); d++ {
				out = append(out, spec{signer: set[0], diff: int64(d), vote: -1})
			}
			return out
		}
		return []spec{{signer: prop, diff: int64(len(set)), vote: -1}}
	}
	n := p.height + 1
	turn := set[int(n%uint64(len(set)))]
	cands := append([]int{turn}, set...)
	var list []int
	switch lc := m.listsAt(p, n)[0]; lc {
	case "":
	case "S":
		list = append([]int{}, set...)
	default:
		list = listCodes[lc]
	}
	for _, k := range cands {
		for _, d := range []int64{2, 1} {
			sp := spec{signer: k, diff: d, vote: -1, list: list}
			if len(m.judge(p, sp, -1)) == 0 {
				sp.list = nil // events carry the list as a code
				return []spec{sp}
			}
		}
	}
	return nil
}

// listsAt: the validator-list alternatives offered for a header at height n ("" = none).
func (m *model) listsAt(p *mnode, n uint64) []string {
	switch m.rt.Family {
	case posa.Parlia, posa.Congress:
		if n%m.epoch == 0 {
			if m.epochLists != nil {
				return m.epochLists
			}
			return []string{"A", "B", "C"}
		}
	case posa.Clique:
		if n%m.epoch == 0 {
			out := []string{"S"}
			if !sameSet(m.inEffect(p), listCodes["A"]) {
				out = append(out, "A")
			}
			return append(out, "B", "")
		}
	case posa.Bor:
		if (n+1)%m.epoch == 0 {
			return []string{"A", "B", "C"}
		}
	}
	return []string{""}
}

func (m *model) events(s state) []string {
	var evs []string
	for pi, p := range s.nodes {
		n := p.height + 1
		set := m.inEffect(p)
		diffs := []int64{2, 1}
		if m.rt.Family == posa.Bor {
			diffs = nil
			for d := len(set); d >= 1; d-- {
				diffs = append(diffs, int64(d))
			}
		}
		lists := m.listsAt(p, n)
		votes := []spec{{vote: -1}}
		if m.rt.Family == posa.Clique && n%m.epoch != 0 {
			votes = append(votes, spec{vote: 3, auth: true}, spec{vote: 0, auth: false})
		}
		for k := 0; k <= outsider; k++ {
			for _, d := range diffs {
				for _, lc := range lists {
					for _, v := range votes {
						sp := spec{signer: k, diff: d, vote: v.vote, auth: v.auth}
						evs = append(evs, p.label+"|"+encodeSpec(sp, lc))
					}
				}
			}
		}
		// malformations and misplaced lists on top of an otherwise acceptable header: on every stored header while the
		// state is small, later only on the most recently stored one (these checks do not depend on the rest of the tree)
		if len(s.nodes) > 3 && pi != len(s.nodes)-1 {
			continue
		}
		for _, hs := range m.honest(p, p.borProp(m)) {
			defList := lists[0]
			for _, k := range m.kinds() {
				sp := hs
				sp.kind = k
				evs = append(evs, p.label+"|"+encodeSpec(sp, defList))
			}
			if lists[0] == "" { // not a height where a list is legal
				evs = append(evs, p.label+"|"+encodeSpec(hs, "B"))
			}
			if m.rt.Family == posa.Clique && n%m.epoch == 0 { // vote on a checkpoint
				sp := hs
				sp.vote, sp.auth = 3, true
				evs = append(evs, p.label+"|"+encodeSpec(sp, "S"))
			}
		}
	}
	tip := s.nodes[len(s.nodes)-1]
	for _, hs := range m.honest(tip, tip.borProp(m)) {
		evs = append(evs, tip.label+"|"+encodeSpec(hs, m.listsAt(tip, tip.height+1)[0])+"?orphan")
		break
	}
	if len(s.nodes) > 1 {
		evs = append(evs, tip.label+"|dup")
	}
	return evs
}

// ---------------------------------------------------------------------------------------------
// implementation view (read back through exported getters + raw header records) and invariants (as C27)

type rec struct {
	Hash, Parent string
	Height       uint64
	TD, Own      *big.Int
	st           *posa.StoredHeader
}

type view struct {
	Stored     map[string]rec
	Main       map[uint64]string
	HeadHeight uint64
	Head       string
	Errs       []string
}

func (m *model) inspect(sim *hsenv.Sim, chain uint64, rootH uint64) view {
	v := view{Stored: map[string]rec{}, Main: map[uint64]string{}}
	pre := hsenv.HSPrefix(hscommon.HEADER_INDEX, chain)
	for _, k := range sim.Keys(pre) {
		hx := hex.EncodeToString([]byte(k[len(pre):]))
		st, err := m.rt.DecodeStored([]byte(sim.Raw(k)))
		if err != nil {
			v.Errs = append(v.Errs, fmt.Sprintf("header record %s undecodable: %v", hx, err))
			continue
		}
		if got := hex.EncodeToString(m.rt.Hash(st.Header).Bytes()); got != hx {
			v.Errs = append(v.Errs, fmt.Sprintf("header stored under %s hashes to %s", hx, got))
		}
		v.Stored[hx] = rec{Hash: hx, Parent: hex.EncodeToString(st.Header.ParentHash.Bytes()), Height: st.Header.Number.Uint64(),
			TD: st.TD, Own: st.Header.Difficulty, st: st}
	}
	ns := sim.Reader()
	hh, err := m.rt.CanonHeight(ns, chain)
	if err != nil {
		v.Errs = append(v.Errs, fmt.Sprintf("GetCanonicalHeight: %v", err))
		return v
	}
	v.HeadHeight = hh
	for h := rootH; h <= hh && h < rootH+64; h++ {
		x, err := m.rt.CanonHash(ns, chain, h)
		if err != nil {
			v.Errs = append(v.Errs, fmt.Sprintf("GetCanonicalHeader(%d): %v", h, err))
		}
		v.Main[h] = x
	}
	v.Head = v.Main[hh]
	return v
}

type problem struct{ Key, Detail string }

func checkInv(v view, rootHash string, rootHeight uint64) []problem {
	var ps []problem
	add := func(k, f string, a ...any) { ps = append(ps, problem{k, fmt.Sprintf(f, a...)}) }
	for _, e := range v.Errs {
		add("getter-inconsistent", "%s", e)
	}
	if _, ok := v.Stored[rootHash]; !ok {
		add("root-missing", "trust root %s not stored", rootHash)
	}
	maxTD := new(big.Int)
	for h, r := range v.Stored {
		if r.TD == nil || r.Own == nil {
			add("getter-inconsistent", "header %s without difficulty sum", h)
			continue
		}
		if r.TD.Cmp(maxTD) > 0 {
			maxTD = r.TD
		}
		if h == rootHash {
			continue
		}
		p, ok := v.Stored[r.Parent]
		if !ok {
			add("parent-missing", "header %s (height %d) stored without its parent %s", h, r.Height, r.Parent)
			continue
		}
		if r.Height != p.Height+1 {
			add("height", "header %s height %d, parent height %d", h, r.Height, p.Height)
		}
		if p.TD != nil && new(big.Int).Add(p.TD, r.Own).Cmp(r.TD) != 0 {
			add("td-sum", "header %s TD %v != parent TD %v + own %v", h, r.TD, p.TD, r.Own)
		}
	}
	if v.HeadHeight < rootHeight {
		add("head-below-root", "head height %d < root height %d", v.HeadHeight, rootHeight)
		return ps
	}
	for h := rootHeight; h <= v.HeadHeight; h++ {
		x := v.Main[h]
		if x == "" {
			add("main-gap", "canonical index has no entry at height %d (root %d, head %d)", h, rootHeight, v.HeadHeight)
			continue
		}
		r, ok := v.Stored[x]
		if !ok {
			add("main-dangling", "canonical index at %d names unknown header %s", h, x)
			continue
		}
		if r.Height != h {
			add("main-height", "canonical index at %d names header of height %d", h, r.Height)
		}
		if h == rootHeight {
			if x != rootHash {
				add("main-root", "canonical index at root height names %s, not the trust root", x)
			}
		} else if r.Parent != v.Main[h-1] {
			add("main-link", "canonical[%d]=%s has parent %s but canonical[%d]=%s", h, x, r.Parent, h-1, v.Main[h-1])
		}
	}
	if hr, ok := v.Stored[v.Head]; ok && hr.TD != nil {
		if hr.TD.Cmp(maxTD) < 0 {
			add("head-not-max-td", "canonical head %s TD %v < max stored TD %v", v.Head, hr.TD, maxTD)
		}
	} else {
		add("head-unknown", "canonical head %q is not a stored header", v.Head)
	}
	return ps
}

// ---------------------------------------------------------------------------------------------
// BFS

type state struct {
	dump  polyenv.Dump
	nodes []*mnode // stored headers: the model's view, kept equal to the implementation's; nodes[0] = trust root
	hskey string
	head  string
	probs []problem
	class []string
}

// borProp: key index of the bor proposer in force for the children of this node that stay in its sprint (-1 unknown).
func (n *mnode) borProp(m *model) int {
	if m.rt.Family != posa.Bor {
		return -1
	}
	if (n.height+1)%m.epoch == 0 { // the child starts a new sprint: the router rotates the proposer
		return -1
	}
	return n.prop
}

func hsKey(d polyenv.Dump) string {
	pre := hsenv.HSContractPrefix()
	h := sha256.New()
	var l [8]byte
	for _, kv := range d {
		if strings.HasPrefix(kv.K, pre) {
			binary.LittleEndian.PutUint32(l[:4], uint32(len(kv.K)))
			binary.LittleEndian.PutUint32(l[4:], uint32(len(kv.V)))
			h.Write(l[:])
			io.WriteString(h, kv.K)
			io.WriteString(h, kv.V)
		}
	}
	return string(h.Sum(nil))
}

func (s state) find(label string) *mnode {
	for _, n := range s.nodes {
		if n.label == label {
			return n
		}
	}
	return nil
}

func (s state) byHash(h string) *mnode {
	for _, n := range s.nodes {
		if n.hash == h {
			return n
		}
	}
	return nil
}

func (m *model) keyIndex(a ecommon.Address) int {
	for i, k := range m.keys {
		if k.Addr == a {
			return i
		}
	}
	return -1
}

// errClass shortens an error text to a stable class.
func errClass(err error) string {
	if err == nil {
		return "nil"
	}
	s := err.Error()
	for _, pat := range []string{"RecentlySigned", "invalid difficulty", "invalid signer", "coinbase do not match", "can not change epoch continuously",
		"unknown ancestor", "invalid gas limit", "invalid gasUsed", "invalid timestamp", "ErrInvalidTimestamp", "non-zero mix digest", "non empty uncle hash",
		"vanity prefix missing", "signature suffix missing", "invalid signer list", "errExtraValidators", "errInvalidSpanValidators",
		"UnauthorizedSignerError", "WrongDifficultyError", "BlockTooSoonError", "unauthorized signer", "mismatching signer list",
		"non-checkpoint block contains extra signer list", "invalid signer list on checkpoint block", "vote nonce", "beneficiary in checkpoint",
		"block in the future", "recovery failed", "invalid signature", "panic"} {
		if strings.Contains(s, pat) {
			return pat
		}
	}
	if len(s) > 60 {
		s = s[len(s)-60:]
	}
	return s
}

// Harness errors of the kind "an honest header was rejected" are postponed to the end of the run: they are raised only
// if no violation outside KNOWN_FINDINGS.txt was recorded (exit 1 must win over exit 2).
var (
	deferredMu sync.Mutex
	deferred   []string
)

func deferHarness(format string, a ...any) {
	deferredMu.Lock()
	deferred = append(deferred, fmt.Sprintf(format, a...))
	deferredMu.Unlock()
}

// loaded remembers which dump a pooled Sim currently holds (by identity of the dump's backing array), so that the
// many rejected submissions explored from one state do not reload it.
var loaded sync.Map

func loadInto(sim *hsenv.Sim, d polyenv.Dump) {
	if cur, ok := loaded.Load(sim); ok && len(d) > 0 && cur.(*polyenv.KV) == &d[0] {
		return
	}
	sim.Load(d)
	if len(d) > 0 {
		loaded.Store(sim, &d[0])
	}
}

// famOpt turns explore into a directed family: an honest in-turn backbone of `backbone` headers is synced first; the BFS
// starts from every backbone prefix from index `from` on and only offers (sealer, difficulty) events on the most
// recently stored header (no malformations, no forks below the tip).
type famOpt struct {
	name     string
	backbone int
	from     int
	nkeys    int    // sealers k0..k(nkeys-1); the last one is the outsider
	votes    []spec // clique: vote alternatives per header (vote = -1: plain header); nil = plain only
}

// tipEvents: every sealer with both difficulties on top of the newest stored header.
func (m *model) tipEvents(s state, opt *famOpt) []string {
	p := s.nodes[len(s.nodes)-1]
	lc := m.listsAt(p, p.height+1)[0]
	votes := []spec{{vote: -1}}
	if opt.votes != nil && (p.height+1)%m.epoch != 0 {
		votes = opt.votes
	}
	var evs []string
	for k := 0; k < opt.nkeys; k++ {
		for _, d := range []int64{2, 1} {
			for _, v := range votes {
				evs = append(evs, p.label+"|"+encodeSpec(spec{signer: k, diff: d, vote: v.vote, auth: v.auth}, lc))
			}
		}
	}
	return evs
}

func explore(r *ev.Run, env *hsenv.Env, m *model, sims chan *hsenv.Sim, base polyenv.Dump, chain uint64, gnode *mnode, graw []byte, depth, workers int, opt *famOpt) mc.Stats {
	rt := m.rt
	tag := rt.Name
	ctag := tag // class prefix
	if opt != nil {
		ctag = tag + ":" + opt.name
	}
	sim := <-sims
	sim.Load(base)
	res := sim.Exec(env.GenesisTx(chain, graw), 2, 200)
	if !res.OK {
		r.HarnessError("%s: genesis header rejected: %v", tag, res.Err)
	}
	rootH := gnode.height
	v0 := m.inspect(sim, chain, rootH)
	init := state{dump: sim.Dump(), nodes: []*mnode{gnode}, head: v0.Head}
	init.hskey = hsKey(init.dump)
	init.probs = checkInv(v0, gnode.hash, rootH)
	if rt.Family == posa.Bor {
		if st, ok := v0.Stored[gnode.hash]; ok && st.st.BorProposer != nil {
			gnode.prop = m.keyIndex(*st.st.BorProposer)
		}
	}
	sims <- sim
	report := func(s state, path []string) {
		for _, p := range s.probs {
			noteViolation(tag + "/" + p.Key)
			r.Violation(tag+"/"+p.Key, map[string]any{"router": tag, "events": path, "what": p.Detail,
				"note": "event = <parent label>|k<sealing key>d<difficulty>[L<list: A=k0,k1,k2 B=k3,k1,k2 C=k0..k3 P=k0..k6 Q=k0..k4 R=k6,k2,k4 S=signers in force>][v+N / v-N clique vote][!malformation][?orphan]; " +
					"trust root G at height " + strconv.FormatUint(rootH, 10) + " lists " + fmt.Sprint(gnode.sp.list) + "; model epoch " + strconv.FormatUint(m.epoch, 10)})
		}
	}
	report(init, nil)
	cfg := mc.Config[state]{
		Init:     []state{init},
		MaxDepth: depth,
		Workers:  workers,
		Events: func(s state, d int) []string {
			if opt != nil {
				return m.tipEvents(s, opt)
			}
			return m.events(s)
		},
		Key:  func(s state) string { return s.hskey },
		Stop: r.Expired,
		Step: func(s state, evn string) (state, bool) {
			sim := <-sims
			defer func() { sims <- sim }()
			bar := strings.IndexByte(evn, '|')
			p := s.find(evn[:bar])
			body := evn[bar+1:]
			orphan := strings.HasSuffix(body, "?orphan")
			body = strings.TrimSuffix(body, "?orphan")
			var hd *eth.Header
			var sp spec
			var bad []string
			dup := body == "dup"
			if dup {
				hd = p.hdr
			} else {
				sp = m.decodeSpec(p, body)
				hd = m.build(p, sp, orphan)
			}
			hx := hex.EncodeToString(rt.Hash(hd).Bytes())
			if !dup && s.byHash(hx) != nil {
				return s, false // the same header is already stored (event aliases a stored node)
			}
			loadInto(sim, s.dump)
			res := sim.Exec(hsenv.HeadersTx(chain, rt.Raw(hd)), 3, 300)
			if len(res.WriteSet) > 0 {
				loaded.Delete(sim)
			}
			r.Eval()
			nx := state{nodes: s.nodes, head: s.head}
			if res.Panic != nil {
				r.Class(ctag + ":panic")
				r.Note("panics_observed", fmt.Sprint(res.Panic))
				res.OK = false
			}
			if len(res.WriteSet) == 0 { // failed / no-op transaction: the store is untouched by construction
				nx.dump, nx.hskey = s.dump, s.hskey
			} else {
				nx.dump = sim.Dump()
				nx.hskey = hsKey(nx.dump)
			}
			// what got stored?
			pre := hsenv.HSPrefix(hscommon.HEADER_INDEX, chain)
			keys := sim.Keys(pre)
			stored := false
			for _, k := range keys {
				kh := hex.EncodeToString([]byte(k[len(pre):]))
				if kh == hx && !dup {
					stored = true
				} else if s.byHash(kh) == nil {
					nx.probs = append(nx.probs, problem{"unsubmitted-header-stored", "header " + kh + " appeared in the store"})
				}
			}
			if len(keys) != len(s.nodes)+btoi(stored) {
				nx.probs = append(nx.probs, problem{"stored-set", fmt.Sprintf("%d header records, model has %d", len(keys), len(s.nodes)+btoi(stored))})
			}
			if !stored {
				if nx.hskey != s.hskey {
					nx.probs = append(nx.probs, problem{"reject-changed-state", fmt.Sprintf("submission %s stored nothing but changed %d keys", evn, len(s.dump.Diff(nx.dump)))})
				}
				switch {
				case dup:
					nx.class = []string{"dup-noop"}
				case orphan:
					nx.class = []string{"orphan-ignored"}
				default:
					bad = m.judge(p, sp, p.borProp(m))
					if len(bad) == 0 {
						switch {
						case m.rt.Family == posa.Bor && p.borProp(m) < 0:
							nx.class = []string{"reject"} // proposer unknown to the model: nothing claimed
						case p.taint:
							nx.class = []string{"model-valid-rejected-after-flagged-ancestor", "model-valid-rejected-after-flagged-ancestor:" + errClass(res.Err)}
						default:
							nx.class = []string{"model-valid-rejected", "model-valid-rejected:" + errClass(res.Err)}
							r.Note("model_valid_rejected_sample_"+tag, map[string]any{"state": labels(s), "event": evn, "err": fmt.Sprint(res.Err)})
						}
					} else {
						nx.class = []string{"reject", "reject:" + bad[0]}
					}
				}
				if len(nx.probs) == 0 {
					return nx, true
				}
			}
			v := m.inspect(sim, chain, rootH)
			nx.head = v.Head
			nx.probs = append(nx.probs, checkInv(v, gnode.hash, rootH)...)
			if stored {
				var pp *mnode
				if !orphan {
					pp = p
				}
				node := &mnode{label: p.label + "/" + body, parent: p, height: p.height + 1, sp: sp, hdr: hd, hash: hx, prop: -1}
				prop := -1
				if rt.Family == posa.Bor {
					if me, ok := v.Stored[hx]; ok {
						switch {
						case me.st.BorProposer != nil:
							prop = m.keyIndex(*me.st.BorProposer)
						case me.st.BorSnapRef != nil:
							if sn, ok := v.Stored[hex.EncodeToString(me.st.BorSnapRef.Bytes())]; ok && sn.st.BorProposer != nil {
								prop = m.keyIndex(*sn.st.BorProposer)
							}
						}
					}
					node.prop = prop
				}
				bad = m.judge(pp, sp, prop)
				for _, b := range bad {
					nx.probs = append(nx.probs, problem{"stored/" + b, fmt.Sprintf("header %s (height %d, sealed by k%d, difficulty %d, list %v, validator set in force %v) was stored: %s",
						evn, node.height, sp.signer, sp.diff, sp.list, m.inEffect(p), b)})
				}
				node.taint = p.taint || len(bad) > 0
				nx.nodes = append(append(make([]*mnode, 0, len(s.nodes)+1), s.nodes...), node)
				nx.class = []string{"accept"}
				if len(bad) > 0 {
					nx.class = append(nx.class, "accept-flagged")
				}
				if sp.list != nil {
					nx.class = append(nx.class, "accept-list-header")
				}
				set := m.inEffect(p)
				if !sameSet(set, gnode.sp.list) {
					nx.class = append(nx.class, "accept-under-new-set")
				}
				me := v.Stored[hx]
				oldHead, okOld := v.Stored[s.head]
				tie := okOld && me.TD != nil && oldHead.TD != nil && me.TD.Cmp(oldHead.TD) == 0
				if tie {
					nx.class = append(nx.class, "tie-observed")
				}
				switch {
				case v.Head == hx && s.head == p.hash:
					nx.class = append(nx.class, "extend-head")
				case v.Head == hx && tie:
					nx.class = append(nx.class, "tie-head-switched")
				case v.Head == hx:
					nx.class = append(nx.class, "reorg")
				case tie:
					nx.class = append(nx.class, "tie-head-kept")
				default:
					nx.class = append(nx.class, "side-lighter-kept")
				}
			}
			return nx, true
		},
		Check: func(prev state, evn string, next state, path []string) {
			for _, c := range next.class {
				r.Class(ctag + ":" + c)
			}
			if len(next.class) > 0 {
				r.Case(ctag + "/" + strings.Join(next.class, ","))
			}
			if len(next.probs) > 0 {
				report(next, path)
			}
			if len(next.class) > 0 && next.class[0] == "accept" {
				r.Sample(map[string]any{"router": tag, "events": path, "classes": next.class})
			}
		},
	}
	if opt != nil {
		// honest in-turn backbone; every prefix from opt.from on is a start state
		cur := init
		if opt.backbone > 0 {
			cfg.Init = nil
		}
		for i := 0; i < opt.backbone; i++ {
			tip := cur.nodes[len(cur.nodes)-1]
			hs := m.honest(tip, -1)
			if len(hs) == 0 {
				deferHarness("%s/%s: no honest successor at height %d", tag, opt.name, tip.height+1)
				break
			}
			evn := tip.label + "|" + encodeSpec(hs[0], m.listsAt(tip, tip.height+1)[0])
			nx, _ := cfg.Step(cur, evn)
			if len(nx.nodes) != len(cur.nodes)+1 {
				// completeness broken: remember it, keep exploring from the last accepted prefix (a mutant that rejects the
				// honest header usually also stores a dishonest one, and that violation must win over the harness error)
				deferHarness("%s/%s: honest backbone header %s rejected", tag, opt.name, evn)
				r.Class(ctag + ":honest-backbone-header-rejected")
				if i < opt.from { // this prefix is not yet a start state
					cfg.Init = append(cfg.Init, cur)
				}
				break
			}
			if len(nx.probs) > 0 {
				report(nx, []string{"backbone", evn})
			}
			cur = nx
			if i+1 >= opt.from {
				cfg.Init = append(cfg.Init, cur)
			}
		}
	}
	return mc.BFS(cfg)
}

func labels(s state) []string {
	var out []string
	for _, n := range s.nodes {
		out = append(out, n.label)
	}
	return out
}

func btoi(b bool) int {
	if b {
		return 1
	}
	return 0
}

func sortedKeys(m map[string]int64) []string {
	var ks []string
	for k := range m {
		ks = append(ks, k)
	}
	sort.Strings(ks)
	return ks
}
