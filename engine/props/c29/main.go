// C29 — PoSA light clients accept only valid validator seals (header_sync bsc, bytom, heco, hsc, pixiechain, msc,
// polygon bor).
//
// Model checking of the real header_sync contract: per router a synthetic source chain over real secp256k1
// validator keys (k0..k3 validators, k4 outsider) is grown by a BFS over ALL submission sequences up to a depth:
// in every state, on top of EVERY stored header, every (sealing key, difficulty, validator-list / vote) combination
// plus a set of malformed variants of an otherwise acceptable header (short vanity, bad list length, list at a height
// where none is legal, mix digest, uncle hash, gas limit / gas used, timestamp, coinbase != sealer, corrupted seal,
// difficulty outside the alphabet, number != parent+1), an orphan and a duplicate. Seals are REAL signatures over
// a seal hash computed by the harness from the chains' specifications (no hook). State = contract storage dump.
// After every transaction the header records are read back: a header that got stored is judged by an independent
// reference model of the consensus rules (model.go: validator set in force incl. hand-over delay, recent-signer
// window, in-turn difficulty, fixed-format fields, clique vote tally); the canonical-chain invariants of C27
// (parent stored, TD sums, canonical index contiguous / linked / rooted, canonical head has the maximal TD) are
// evaluated through the routers' exported getters.
package main

import (
	"encoding/hex"
	"fmt"
	"math/big"
	"os"
	"runtime"
	"runtime/debug"
	"runtime/pprof"
	"strconv"
	"strings"
	"sync"

	"github.com/ethereum/go-ethereum/core/types"
	_ "github.com/polynetwork/poly/native/service"
	"github.com/polynetwork/poly/native/service/governance/side_chain_manager"
	hscommon "github.com/polynetwork/poly/native/service/header_sync/common"
	"github.com/polynetwork/poly/native/service/header_sync/eth"
	"github.com/polynetwork/poly/native/service/header_sync/polygon"
	"verif.local/engine/ev"
	"verif.local/engine/lib/hsenv"
	"verif.local/engine/lib/posa"
	"verif.local/engine/polyenv"
)

// hand-over families: old list -> new list (codes of listCodes), model epoch 8
var handoverPairs = []struct{ name, old, nw string }{{"shrink-7-3", "P", "R"}, {"grow-3-7", "A", "P"}, {"shrink-5-3", "Q", "A"}}

const famEpoch = 8

const (
	mscEpoch  = 3 // clique checkpoint distance configured for the msc chain (ExtraInfo.Epoch) = model epoch of all chains
	borSprint = 4
)

// genesis builds the trust root of a chain of router m.rt at the given height.
func genesis(m *model, height uint64) (*mnode, []byte) {
	rt := m.rt
	v0 := m.gprev
	set := v0
	if rt.Family == posa.Clique || rt.Family == posa.Bor {
		set = m.sortedByAddr(v0)
	}
	signer := set[int(height%uint64(len(set)))]
	diff := int64(2)
	if rt.Family == posa.Bor {
		signer = set[0]
		diff = int64(len(set))
	}
	sp := spec{signer: signer, diff: diff, list: v0, vote: -1}
	h := &eth.Header{UncleHash: posa.UncleHash, TxHash: types.EmptyRootHash, ReceiptHash: types.EmptyRootHash, Root: types.EmptyRootHash,
		Difficulty: big.NewInt(diff), Number: new(big.Int).SetUint64(height), GasLimit: 30_000_000, GasUsed: 21000, Time: posa.PastTime}
	if rt.Family != posa.Clique {
		h.Coinbase = m.keys[signer].Addr
	}
	if rt.Family == posa.Bor {
		h.Extra = posa.Extra(posa.Vanity, nil) // a sprint-start header carries no list; the set comes with the snapshot
	} else {
		h.Extra = posa.Extra(posa.Vanity, m.listBytes(sp))
	}
	rt.Sign(h, m.keys[signer])
	raw := rt.GenesisRaw(h, m.addrs(v0), m.addrs(m.gprev), height-m.epoch, m.keys[signer].Addr)
	return &mnode{label: "G", height: height, sp: sp, hdr: h, hash: hex.EncodeToString(rt.Hash(h).Bytes()), prop: -1}, raw
}

func main() {
	r := ev.Start("C29", "model_checking")
	if pf := os.Getenv("VERIF_C29_PROF"); pf != "" {
		f, _ := os.Create(pf)
		pprof.StartCPUProfile(f)
		defer pprof.StopCPUProfile()
		stopProf = pprof.StopCPUProfile
	}
	gcp := 25
	if v, err := strconv.Atoi(os.Getenv("VERIF_GOGC")); err == nil {
		gcp = v
	}
	debug.SetGCPercent(gcp) // small heap: fresh pages are expensive to fault in on this box
	debug.SetMemoryLimit(5 << 30)
	polygon.VerifSkipSpanCheck(true)
	env := hsenv.Setup(0) // private net: no router start-block gate, no test-net header fix-ups
	w := env.NewWorld()
	routers := posa.Routers(mscEpoch, borSprint)
	keys := make([]posa.Key, 5)
	for i := range keys {
		keys[i] = posa.KeyOf(i)
	}
	chainOf := map[string]uint64{}
	probeOf := map[string]uint64{}
	for i, rt := range routers {
		chainOf[rt.Name] = uint64(101 + i)
		probeOf[rt.Name] = uint64(201 + i)
		for ci, c := range []uint64{chainOf[rt.Name], probeOf[rt.Name]} {
			reg := rt
			if ci == 1 {
				reg = rt.WithEpoch(200) // probe chain: the real chain constant
			}
			if err := reg.Register(w, env.Vals, c, 1, []byte{1, 2, 3}); err != nil {
				r.HarnessError("%v", err)
			}
			if sc, err := side_chain_manager.GetSideChain(hsenv.Reader(w), c); err != nil || sc == nil {
				r.HarnessError("side chain %d (%s) not registered: %v", c, rt.Name, err)
			}
		}
	}
	famChain := map[string]uint64{}
	for i, rt := range routers {
		if rt.Family != posa.Parlia && rt.Family != posa.Congress {
			continue
		}
		for j, pr := range handoverPairs {
			c := uint64(501 + 10*i + j)
			famChain[rt.Name+"/"+pr.name] = c
			if err := rt.WithEpoch(famEpoch).Register(w, env.Vals, c, 1, []byte{1, 2, 3}); err != nil {
				r.HarnessError("%v", err)
			}
			if sc, err := side_chain_manager.GetSideChain(hsenv.Reader(w), c); err != nil || sc == nil {
				r.HarnessError("side chain %d (%s/%s) not registered: %v", c, rt.Name, pr.name, err)
			}
		}
	}
	// msc vote family: its own chain with a long epoch so that vote, vote, plain, seal fit between two checkpoints
	const mscVoteChain = 601
	mscVoteRouter := posa.RouterByName(posa.Routers(famEpoch, borSprint), "msc")
	if err := mscVoteRouter.Register(w, env.Vals, mscVoteChain, 1, []byte{1, 2, 3}); err != nil {
		r.HarnessError("%v", err)
	}
	if sc, err := side_chain_manager.GetSideChain(hsenv.Reader(w), mscVoteChain); err != nil || sc == nil {
		r.HarnessError("side chain %d (msc votes) not registered: %v", mscVoteChain, err)
	}
	base := w.Dump()
	w.Close()

	workers := runtime.NumCPU()
	if workers > 8 {
		workers = 8
	}
	sims := make(chan *hsenv.Sim, workers)
	for i := 0; i < workers; i++ {
		sims <- hsenv.NewSim()
	}
	only := map[string]bool{}
	for _, a := range strings.Split(strings.TrimSpace(os.Getenv("VERIF_C29_ROUTERS")), ",") {
		if a != "" {
			only[a] = true
		}
	}

	// --- probe with the chains' REAL epoch constant (200): trust root at an epoch block, its child carries a list.
	for _, rt := range routers {
		if rt.Family != posa.Parlia && rt.Family != posa.Congress {
			continue
		}
		if len(only) > 0 && !only[rt.Name] {
			continue
		}
		m := &model{rt: rt, keys: keys, epoch: 200, gprev: listCodes["A"]}
		probeRealEpoch(r, env, m, sims, base, probeOf[rt.Name])
	}

	// depth bound per router (quick / thorough). bytom is a verbatim copy of bsc and hsc a near copy of heco, so the
	// deepest level is spent on one of each pair; msc (votes) and pixiechain (lists accepted everywhere) branch most.
	depths := map[string][2]int{"bsc": {5, 7}, "bytom": {5, 6}, "heco": {5, 7}, "hsc": {5, 6}, "pixiechain": {4, 5}, "msc": {3, 4}, "polygon-bor": {4, 5}}
	per := map[string]any{}
	totalStates, totalTrans, maxDepth := 0, 0, 0
	for _, rt := range routers {
		if len(only) > 0 && !only[rt.Name] {
			continue
		}
		m := &model{rt: rt, keys: keys, epoch: mscEpoch, gprev: listCodes["A"]}
		gh := uint64(999)
		if rt.Family == posa.Bor {
			m.epoch = borSprint
			gh = 1000
		}
		g, graw := genesis(m, gh)
		d := r.QT(depths[rt.Name][0], depths[rt.Name][1])
		st := explore(r, env, m, sims, base, chainOf[rt.Name], g, graw, d, workers, nil)
		totalStates += st.States
		totalTrans += st.Transitions
		if st.MaxDepth > maxDepth {
			maxDepth = st.MaxDepth
		}
		if st.Truncated {
			r.Capped(fmt.Sprintf("%s: deadline inside depth %d", rt.Name, st.MaxDepth+1))
		}
		per[rt.Name] = map[string]any{"states": st.States, "transitions": st.Transitions, "max_depth": st.MaxDepth, "per_depth": st.PerDepth,
			"truncated": st.Truncated, "trust_root_height": gh, "depth_bound": d, "covered": covered(rt), "missing": missing(rt)}
	}
	// --- directed hand-over families (parlia / congress routers): validator sets of 3..7 that SHRINK or GROW across a
	// len/2 boundary. An honest in-turn backbone runs from the trust root (epoch block 1000 listing the old set) over the
	// next epoch header (1008, lists the new set) until both windows have passed; from every backbone prefix that ends
	// within len(old)/2+1 blocks before the epoch header or later, every sealer (all 7 keys + outsider) x both
	// difficulties is tried on the tip, to the given deviation depth. Same oracle, same violation keys.
	famKeys := make([]posa.Key, 8)
	for i := range famKeys {
		famKeys[i] = posa.KeyOf(10 + i)
	}
	famDepth := r.QT(2, 4)
	for _, rt := range routers {
		if rt.Family != posa.Parlia && rt.Family != posa.Congress {
			continue
		}
		if len(only) > 0 && !only[rt.Name] {
			continue
		}
		fams := map[string]any{}
		for _, pr := range handoverPairs {
			old, nw := listCodes[pr.old], listCodes[pr.nw]
			m := &model{rt: rt, keys: famKeys, epoch: famEpoch, gprev: old, epochLists: []string{pr.nw}}
			g, graw := genesis(m, 1000)
			opt := &famOpt{name: pr.name, backbone: famEpoch + len(old)/2 + len(nw)/2 + 2, from: famEpoch - len(old)/2 - 1, nkeys: len(famKeys)}
			st := explore(r, env, m, sims, base, famChain[rt.Name+"/"+pr.name], g, graw, famDepth, workers, opt)
			totalStates += st.States
			totalTrans += st.Transitions
			if st.Truncated {
				r.Capped(fmt.Sprintf("%s/%s: deadline", rt.Name, pr.name))
			}
			fams[pr.name] = map[string]any{"old_set": old, "new_set": nw, "epoch_header": 1000 + famEpoch, "backbone_headers": opt.backbone,
				"start_prefixes": opt.backbone - opt.from + 1, "deviation_depth": famDepth, "states": st.States, "transitions": st.Transitions}
			if len(only) == 0 {
				ct := rt.Name + ":" + pr.name
				r.Require(ct+":accept", ct+":accept-under-new-set", ct+":reject:signer-within-recent-window", ct+":reject:signer-not-in-validator-set",
					ct+":reject:difficulty-does-not-match-turn")
			}
		}
		if pm, ok := per[rt.Name].(map[string]any); ok {
			pm["handover_families"] = fams
		}
	}
	// --- msc vote family (the only router whose signer set changes by in-header Coinbase/Nonce votes): epoch 8, trust
	// root 1000 listing k0,k1,k2; on the tip every sealer x both difficulties x {plain, authorise k3, drop k0 (thorough
	// also the meaningless votes: authorise signer k0, drop non-signer k3)} to depth 4: two votes reach the majority of
	// three, a plain header follows, then the dropped / the added key seals. Model: clique tally of model.go.
	if len(only) == 0 || only["msc"] {
		m := &model{rt: mscVoteRouter, keys: keys, epoch: famEpoch, gprev: listCodes["A"]}
		g, graw := genesis(m, 1000)
		votes := []spec{{vote: -1}, {vote: 3, auth: true}, {vote: 0, auth: false}}
		if r.Thorough() {
			votes = append(votes, spec{vote: 0, auth: true}, spec{vote: 3, auth: false})
		}
		opt := &famOpt{name: "votes", nkeys: len(keys), votes: votes}
		st := explore(r, env, m, sims, base, mscVoteChain, g, graw, 4, workers, opt)
		totalStates += st.States
		totalTrans += st.Transitions
		if st.Truncated {
			r.Capped("msc/votes: deadline")
		}
		if pm, ok := per["msc"].(map[string]any); ok {
			pm["vote_family"] = map[string]any{"epoch": famEpoch, "depth": 4, "vote_alternatives": len(votes), "states": st.States, "transitions": st.Transitions, "per_depth": st.PerDepth}
		}
		if len(only) == 0 {
			r.Require("msc:votes:accept", "msc:votes:accept-under-new-set", "msc:votes:reject:signer-not-in-validator-set", "msc:votes:reject:signer-within-recent-window")
		}
	}
	if len(only) == 0 { // (ev.Finish reports violations before the vacuity guard)
		for _, rt := range routers {
			r.Require(rt.Name+":accept", rt.Name+":reject", rt.Name+":accept-list-header", rt.Name+":accept-under-new-set",
				rt.Name+":extend-head", rt.Name+":reject:signer-not-in-validator-set", rt.Name+":reject:difficulty-does-not-match-turn",
				rt.Name+":orphan-ignored", rt.Name+":dup-noop")
			if rt.Family != posa.Bor {
				r.Require(rt.Name+":reject:signer-within-recent-window", rt.Name+":reorg", rt.Name+":tie-observed")
			}
		}
	}
	stopProf()
	if len(deferred) > 0 && !hasNewViolation() {
		r.HarnessError("%s (and %d more)", deferred[0], len(deferred)-1)
	}
	if len(deferred) > 0 {
		r.Note("honest_headers_rejected", deferred)
	}
	r.Assume("secp256k1 / Keccak-256 / RLP of go-ethereum 1.9.15 are correct",
		"header timestamps lie in the past: the routers' wall-clock test header.Time > time.Now() (finding F7) is constant false",
		"polygon bor: the comparison of a sprint-end header's producer list with a heimdall span is switched off through the repo's own test flag skipVerifySpan (span proofs need a heimdall light-client state); the bor proposer used for the in-turn difficulty is read from the router's stored snapshot (proposer-priority rotation is not re-modelled)",
		"model epoch: validator lists / checkpoints are legal at heights divisible by 3 (bor: sprint 4) so that a hand-over lies inside the explored depth; only msc and bor know this constant, the parlia/congress routers have no epoch parameter (probed separately with the real constant 200)")
	r.Finish(map[string]any{
		"rule":   "stored => parent stored && sealer in the validator set in force && not within the recent-signer window (len/2 previous blocks) && difficulty == in-turn?2:1 (bor: N - succession) && fixed-format fields well formed; canonical index rooted/contiguous/linked, TD sums, canonical head has maximal TD",
		"states": totalStates, "transitions": totalTrans, "traces_validated_against_impl": totalTrans, "max_depth": maxDepth,
		"bfs_depth_bound": depths, "routers": per, "validator_keys": "BFS: k0..k3 (+k4 outsider), sets A={k0,k1,k2} B={k3,k1,k2} C={k0,k1,k2,k3}; hand-over families: k0..k6 (+k7 outsider), P={k0..k6} Q={k0..k4} R={k6,k2,k4} A={k0,k1,k2}",
	})
}

var stopProf = func() {}

// violation keys recorded by this run (explore.report / probe) and the keys listed as known for C29
var (
	vkeysMu sync.Mutex
	vkeys   = map[string]bool{}
)

func noteViolation(key string) {
	vkeysMu.Lock()
	vkeys[key] = true
	vkeysMu.Unlock()
}

func hasNewViolation() bool {
	known := map[string]bool{}
	if b, err := os.ReadFile("/verif/KNOWN_FINDINGS.txt"); err == nil {
		for _, ln := range strings.Split(string(b), "\n") {
			ln = strings.TrimSpace(ln)
			if !strings.HasPrefix(ln, "known:") || !strings.Contains(ln, "property=C29") {
				continue
			}
			for _, f := range strings.Fields(ln) {
				if strings.HasPrefix(f, "key=") {
					known[f[4:]] = true
					break
				}
			}
		}
	}
	vkeysMu.Lock()
	defer vkeysMu.Unlock()
	for k := range vkeys {
		if !known[k] {
			return true
		}
	}
	return false
}

func covered(rt *posa.Router) []string {
	c := []string{"real seals by members / non-members / outsider", "both difficulties per sealer", "recent-signer window (sets of 3 and 4; 3, 5 and 7 in the hand-over families)",
		"forks on every stored header, TD ties, reorgs", "orphans, duplicates", "malformed: " + strings.Join((&model{rt: rt}).kinds(), ",")}
	switch rt.Family {
	case posa.Parlia:
		c = append(c, "validator-set hand-over at an epoch header incl. the len/2 delay", "validator list on non-epoch header")
	case posa.Congress:
		c = append(c, "validator-set hand-over with the block after the epoch header", "validator list on non-epoch header")
	case posa.Clique:
		c = append(c, "clique votes (authorise k3 / drop k0), checkpoint list vs tallied signers, vote nonce, vote on checkpoint")
	case posa.Bor:
		c = append(c, "sprint-end producer list, hand-over at sprint start, difficulty = N - succession, producer delay")
	}
	return c
}

func missing(rt *posa.Router) []string {
	switch rt.Family {
	case posa.Bor:
		return []string{"heimdall span proof of sprint-end headers (skipVerifySpan)", "independent proposer-priority model (proposer read from the stored snapshot)", "unequal voting powers"}
	case posa.Parlia, posa.Congress:
		return []string{"validator sets larger than 7; sets of 5..7 only along directed hand-over chains (no forks there)"}
	}
	return []string{"signer sets larger than 4"}
}

// probeRealEpoch: fixed scenario with the chains' real epoch length 200 (a chain constant the parlia/congress routers
// do not know): trust root = epoch block 1000 listing A; its child 1001 (not an epoch block) carries list B.
func probeRealEpoch(r *ev.Run, env *hsenv.Env, m *model, sims chan *hsenv.Sim, base polyenv.Dump, chain uint64) {
	sim := <-sims
	defer func() { sims <- sim }()
	rt := m.rt
	sim.Load(base)
	g, graw := genesis(m, 1000)
	if res := sim.Exec(env.GenesisTx(chain, graw), 2, 200); !res.OK {
		r.HarnessError("%s: probe genesis rejected: %v", rt.Name, res.Err)
	}
	pre := hsenv.HSPrefix(hscommon.HEADER_INDEX, chain)
	isStored := func(h *eth.Header) bool { return sim.Raw(pre+string(rt.Hash(h).Bytes())) != "" }
	submit := func(p *mnode, sp spec) (*mnode, bool, string) {
		hd := m.build(p, sp, false)
		res := sim.Exec(hsenv.HeadersTx(chain, rt.Raw(hd)), 3, 300)
		r.Eval()
		n := &mnode{label: p.label + "/" + encodeSpec(sp, ""), parent: p, height: p.height + 1, sp: sp, hdr: hd, hash: hex.EncodeToString(rt.Hash(hd).Bytes()), prop: -1}
		return n, isStored(hd), fmt.Sprint(res.Err)
	}
	// 1001: ordinary header by the in-turn validator; 1002 (not an epoch block either) carries list B. (Directly after a
	// list-carrying header four of the routers refuse another list for len/2 blocks: "can not change epoch continuously".)
	h1 := m.honest(g, -1)[0]
	n0, ok0, e0 := submit(g, h1)
	if !ok0 {
		deferHarness("%s: probe: honest header 1001 rejected: %s", rt.Name, e0)
		return
	}
	setA := m.inEffect(n0)
	var sp spec
	for _, k := range setA {
		d := int64(1)
		if setA[int(1002%uint64(len(setA)))] == k {
			d = 2
		}
		sp = spec{signer: k, diff: d, list: listCodes["B"], vote: -1}
		c := sp
		c.list = nil
		if len(m.judge(n0, c, -1)) == 0 {
			break
		}
	}
	n1, stored, errs := submit(n0, sp)
	bad := m.judge(n0, sp, -1)
	if !stored {
		r.Class(rt.Name + ":probe-real-epoch:rejected")
		r.Note("probe_real_epoch_"+rt.Name, "rejected: "+errs)
		return
	}
	r.Class(rt.Name + ":probe-real-epoch:stored")
	// consequence: follow the chain until a key outside the trust root's set (k3, listed only by the illegal header) seals a stored header
	var follow []string
	cur := n1
	for i := 0; i < 4; i++ {
		set := m.inEffect(cur)
		var nsp spec
		if has(set, 3) && cur.sp.signer != 3 {
			d := int64(1)
			if set[int((cur.height+1)%uint64(len(set)))] == 3 {
				d = 2
			}
			nsp = spec{signer: 3, diff: d, vote: -1}
		} else {
			hs := m.honest(cur, -1)
			if len(hs) == 0 {
				break
			}
			nsp = hs[0]
		}
		nn, ok, e := submit(cur, nsp)
		follow = append(follow, fmt.Sprintf("height %d sealed by k%d difficulty %d: stored=%v err=%s", nn.height, nsp.signer, nsp.diff, ok, e))
		if !ok {
			break
		}
		cur = nn
		if nsp.signer == 3 {
			break
		}
	}
	for _, b := range bad {
		noteViolation(rt.Name + "/stored/" + b)
		r.Violation(rt.Name+"/stored/"+b, map[string]any{"router": rt.Name,
			"scenario": "chain epoch length 200 (bsc/heco main-net constant; the router has no epoch parameter): trust root = epoch block 1000 listing {k0,k1,k2}; " +
				"header 1001 sealed by k" + fmt.Sprint(h1.signer) + "; header 1002 (NOT an epoch block) sealed by validator k" + fmt.Sprint(sp.signer) + fmt.Sprintf(" with difficulty %d carries the validator list {k3,k1,k2}", sp.diff),
			"what":        "header 1002 was stored and its list is adopted as the next validator set; parlia/congress reject such a header (errExtraValidators: non-epoch block with validator list)",
			"consequence": follow})
	}
}
