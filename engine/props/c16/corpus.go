// C16 dynamic corpus: one real chain, blocks built lazily (later blocks use what earlier ones produced: the raw ripple
// payment, the unsigned BTC transaction). Every transaction carries the outcome the harness expects, so a corpus that
// silently degenerates (all transactions failing) is a harness error, not a quiet pass.
package main

import (
	"fmt"
	"math/big"

	"github.com/polynetwork/poly/common"
	"github.com/polynetwork/poly/core/types"
	"github.com/polynetwork/poly/native/event"
	scom "github.com/polynetwork/poly/native/service/cross_chain_manager/common"
	"github.com/polynetwork/poly/native/service/governance/neo3_state_manager"
	"github.com/polynetwork/poly/native/service/governance/node_manager"
	"github.com/polynetwork/poly/native/service/governance/relayer_manager"
	"github.com/polynetwork/poly/native/service/governance/side_chain_manager"
	"github.com/polynetwork/poly/native/service/governance/signature_manager"
	"github.com/polynetwork/poly/native/service/utils"
	"verif.local/engine/lib/ccm"
	"verif.local/engine/lib/gov"
	on "verif.local/engine/lib/ontneo"
	"verif.local/engine/polyenv"
)

// side chains of the corpus
const (
	chFee    = uint64(7)  // never registered: UpdateFee / AddSignature do not look at the registry
	chVote   = uint64(10) // vote-router source chain
	chDest   = uint64(11) // plain destination (ETH router, nothing synced: only the registry entry is needed)
	chRipple = uint64(12)
	chTmp    = uint64(13) // registered, updated, quit
	chOnt    = uint64(14)
	chBtc    = uint64(15)
	chMsc    = uint64(16)
	chEth    = uint64(17) // ETH router with real ethash verification
)

// ctx = one corpus transaction: what it is and whether it must succeed.
type ctx struct {
	tx   *types.Transaction
	name string // contract.method[/detail]
	want bool
}

type step struct {
	name      string
	build     func() []ctx
	expensive bool // one execution costs tens of seconds: reduced set of history variants in the quick tier
}

type corpus struct {
	vals   []*polyenv.Acct
	events []*event.ExecuteNotify // of every committed block, in order
	rip    *rippleEnv
	btc    *btcEnv
	msc    *mscEnv
}

// lastEvent returns the states of the most recent committed event whose first state is name.
func (c *corpus) lastEvent(name string) []interface{} {
	for i := len(c.events) - 1; i >= 0; i-- {
		for j := len(c.events[i].Notify) - 1; j >= 0; j-- {
			if st, ok := c.events[i].Notify[j].States.([]interface{}); ok && len(st) > 0 {
				if s, ok := st[0].(string); ok && s == name {
					return st
				}
			}
		}
	}
	panic("corpus: no committed event " + name)
}

func ok(t *types.Transaction, name string) ctx   { return ctx{t, name, true} }
func fail(t *types.Transaction, name string) ctx { return ctx{t, name, false} }

var (
	NM, RM, SCM, SM, SVM = utils.NodeManagerContractAddress, utils.RelayerManagerContractAddress, utils.SideChainManagerContractAddress,
		utils.SignatureManagerContractAddress, utils.Neo3StateManagerContractAddress
	CCM = utils.CrossChainManagerContractAddress
)

func (c *corpus) steps() []step {
	vals := c.vals
	c1, c2, owner, rel1, rel2, svApp := polyenv.Key(20), polyenv.Key(21), polyenv.Key(30), polyenv.Key(40), polyenv.Key(41), polyenv.Key(31)
	svs := []string{polyenv.Key(50).PubHex, polyenv.Key(51).PubHex, polyenv.Key(52).PubHex}
	one := func(contract common.Address, method string, args []byte, who *polyenv.Acct) *types.Transaction {
		return tx(contract, method, args, polyenv.Single(who))
	}
	regSC := func(id, router uint64, name string, ccmc, extra []byte) ctx {
		return ok(one(SCM, side_chain_manager.REGISTER_SIDE_CHAIN, gov.SideChainArgs(gov.SideChainRec{Owner: owner.Addr, ChainID: id, Router: router,
			Name: name, BlocksToWait: 1, CCMC: ccmc, Extra: extra}), owner), fmt.Sprintf("side_chain_manager.registerSideChain/%d", id))
	}
	scApprove := func(method string, id uint64, v *polyenv.Acct, want bool) ctx {
		return ctx{one(SCM, method, gov.ChainID(id, v.Addr), v), fmt.Sprintf("side_chain_manager.%s/%d", method, id), want}
	}
	updFee := func(chain uint64, v *polyenv.Acct, view uint64, fee int64, want bool) ctx {
		return ctx{one(SCM, side_chain_manager.UPDATE_FEE, ser(func(s *common.ZeroCopySink) {
			(&side_chain_manager.UpdateFeeParam{Address: v.Addr, ChainId: chain, View: view, Fee: big.NewInt(fee)}).Serialization(s)
		}), v), fmt.Sprintf("side_chain_manager.updateFee/%d", chain), want}
	}
	addSig := func(v *polyenv.Acct, sig byte) ctx {
		return ok(one(SM, signature_manager.ADD_SIGNATURE, ser(func(s *common.ZeroCopySink) {
			(&signature_manager.AddSignatureParam{Address: v.Addr, SideChainID: chFee, Subject: []byte("subject"), Signature: []byte{sig, sig}}).Serialization(s)
		}), v), "signature_manager.addSignature")
	}
	apprCand := func(cand, v *polyenv.Acct) ctx {
		return ok(one(NM, node_manager.APPROVE_CANDIDATE, gov.Peer(cand.PubHex, v.Addr), v), "node_manager.approveCandidate")
	}
	black := func(cand, v *polyenv.Acct) ctx {
		return ok(one(NM, node_manager.BLACK_NODE, gov.PeerList([]string{cand.PubHex}, v.Addr), v), "node_manager.blackNode")
	}
	commitDpos := func(signers []*polyenv.Acct) ctx {
		return ok(tx(NM, node_manager.COMMIT_DPOS, nil, polyenv.Multi(signers)), "node_manager.commitDpos")
	}
	vote := func(extra []byte, height uint32, v *polyenv.Acct, what string) ctx {
		nonce++
		return ok(ccm.VoteImport(chVote, height, extra, v, nonce), "cross_chain_manager.ImportOuterTransfer/vote:"+what)
	}
	// messages carried by the vote-router chain
	id := func(s string) []byte { return sha(s) }
	fromContract := []byte{0xc1, 0x6c, 0x0c, 0x4b, 0x1d, 0x01, 0x02, 0x03, 0x04, 0x05, 0x06, 0x07, 0x08, 0x09, 0x0a, 0x0b, 0x0c, 0x0d, 0x0e, 0x0f}
	msgA := ccm.MsgBytes(ccm.Msg(id("c16-src-tx-A"), id("c16-ccid-A"), fromContract, chDest, []byte{0xde, 0x57, 0x01}, "unlock", []byte("payload-A")))
	msgB := ccm.MsgBytes(ccm.Msg(id("c16-src-tx-B"), id("c16-ccid-B"), fromContract, chDest, []byte{0xde, 0x57, 0x02}, "unlock", []byte("payload-B")))
	rip := c.rip
	msgR := ccm.MsgBytes(ccm.Msg(id("c16-src-tx-R"), id("c16-ccid-R"), fromContract, chRipple, rip.vault[:], "unlock", ser(func(s *common.ZeroCopySink) {
		s.WriteVarBytes(rip.vault[:])
		s.WriteVarBytes(rip.payee[:])
		s.WriteUint64(1_000_000)
	})))

	var st []step
	add := func(name string, f func() []ctx) { st = append(st, step{name: name, build: f}) }

	add("requests", func() []ctx {
		return []ctx{
			ok(one(NM, node_manager.REGISTER_CANDIDATE, gov.RegisterPeer(c1.PubHex, c1.Addr), c1), "node_manager.registerCandidate"),
			ok(one(NM, node_manager.REGISTER_CANDIDATE, gov.RegisterPeer(c2.PubHex, c2.Addr), c2), "node_manager.registerCandidate"),
			ok(one(RM, relayer_manager.REGISTER_RELAYER, gov.RelayerList([]common.Address{rel1.Addr, rel2.Addr}, owner.Addr), owner), "relayer_manager.registerRelayer"),
			regSC(chVote, utils.VOTE_ROUTER, "vote-src", []byte{10}, nil),
			regSC(chDest, utils.ETH_ROUTER, "dest", []byte{0xcc, 11}, nil),
			regSC(chRipple, utils.RIPPLE_ROUTER, "xrp", []byte{12}, rip.extraInfo()),
			regSC(chTmp, utils.ETH_ROUTER, "tmp", []byte{0xcc, 13}, []byte("v1")),
			regSC(chOnt, utils.ONT_ROUTER, "ont", []byte{1}, nil),
			regSC(chBtc, utils.BTC_ROUTER, "btc-regtest", ccm.LE64(uint64(utils.TyRegtest)), nil),
			regSC(chMsc, utils.MSC_ROUTER, "msc", []byte{0xcc, 16}, c.msc.extraInfo()),
			regSC(chEth, utils.ETH_ROUTER, "ropsten", make([]byte, 20), nil),
			ok(one(SVM, neo3_state_manager.REGISTER_STATE_VALIDATOR, gov.SVList(svs, svApp.Addr), svApp), "neo3_state_manager.registerStateValidator"),
		}
	})
	fees := []int64{50, 10, 70, 30}
	for k := 0; k < 4; k++ {
		k := k
		add(fmt.Sprintf("approval round 1 by validator %d", k), func() []ctx {
			v := vals[k]
			out := []ctx{apprCand(c1, v), apprCand(c2, v)}
			for _, id := range []uint64{chVote, chDest, chRipple, chTmp, chOnt, chBtc, chMsc, chEth} {
				out = append(out, scApprove(side_chain_manager.APPROVE_REGISTER_SIDE_CHAIN, id, v, true))
			}
			out = append(out,
				ok(one(RM, relayer_manager.APPROVE_REGISTER_RELAYER, gov.ApproveRelayer(0, v.Addr), v), "relayer_manager.approveRegisterRelayer"),
				ok(one(SVM, neo3_state_manager.APPROVE_REGISTER_STATE_VALIDATOR, gov.ApproveSV(0, v.Addr), v), "neo3_state_manager.approveRegisterStateValidator"),
				updFee(chFee, v, 0, fees[k], true), addSig(v, byte(k+1)))
			return out
		})
	}
	add("late approvals, follow-up requests, ripple assets and fee", func() []ctx {
		v4 := vals[4]
		am := map[uint64][]byte{chRipple: rip.vault[:], chDest: {0xa5, 0x5e, 0x70, 11}, chVote: {0xa5, 0x5e, 0x70, 10}}
		lm := map[uint64][]byte{chRipple: rip.vault[:], chDest: {0x10, 0xc4, 11}, chVote: {0x10, 0xc4, 10}}
		out := []ctx{
			scApprove(side_chain_manager.APPROVE_REGISTER_SIDE_CHAIN, chVote, v4, false), // request is gone
			updFee(chFee, v4, 0, 20, false), // view moved on
			updFee(chFee, v4, 1, 20, true),
			addSig(v4, 5),
			ok(one(SCM, side_chain_manager.REGISTER_ASSET, ser(func(s *common.ZeroCopySink) {
				(&side_chain_manager.RegisterAssetParam{OperatorAddress: rip.operator.Addr, ChainId: chRipple, AssetMap: am, LockProxyMap: lm}).Serialization(s)
			}), rip.operator), "side_chain_manager.registerAsset"),
			ok(one(SCM, side_chain_manager.UPDATE_SIDE_CHAIN, gov.SideChainArgs(gov.SideChainRec{Owner: owner.Addr, ChainID: chTmp, Router: utils.ETH_ROUTER,
				Name: "tmp-v2", BlocksToWait: 2, CCMC: []byte{0xcc, 13, 2}, Extra: []byte("v2")}), owner), "side_chain_manager.updateSideChain"),
			ok(one(RM, relayer_manager.REMOVE_RELAYER, gov.RelayerList([]common.Address{rel1.Addr}, owner.Addr), owner), "relayer_manager.removeRelayer"),
			ok(one(SVM, neo3_state_manager.REMOVE_STATE_VALIDATOR, gov.SVList(svs[1:2], svApp.Addr), svApp), "neo3_state_manager.removeStateValidator"),
		}
		for k, f := range []int64{10, 40, 20, 30} { // four votes in one block: the fee map grows inside the block's cache
			out = append(out, updFee(chRipple, vals[k], 0, f, true))
		}
		return out
	})
	for k := 0; k < 4; k++ {
		k := k
		add(fmt.Sprintf("approval round 2 + import votes by validator %d", k), func() []ctx {
			v := vals[k]
			return []ctx{
				scApprove(side_chain_manager.APPROVE_UPDATE_SIDE_CHAIN, chTmp, v, true),
				ok(one(RM, relayer_manager.APPROVE_REMOVE_RELAYER, gov.ApproveRelayer(0, v.Addr), v), "relayer_manager.approveRemoveRelayer"),
				ok(one(SVM, neo3_state_manager.APPROVE_REMOVE_STATE_VALIDATOR, gov.ApproveSV(0, v.Addr), v), "neo3_state_manager.approveRemoveStateValidator"),
				vote(msgA, 100, v, "A->dest"),
				vote(msgR, 101, v, "R->ripple"),
			}
		})
	}
	add("quit request, second asset registration, blackChain, first ripple signature", func() []ctx {
		am := map[uint64][]byte{chOnt: {0xa5, 0x5e, 0x70, 14}, chBtc: {0xa5, 0x5e, 0x70, 15}, chDest: {0xa5, 0x5e, 0x70, 0xff}}
		lm := map[uint64][]byte{chOnt: {0x10, 0xc4, 14}, chBtc: {0x10, 0xc4, 15}}
		nonce++
		return []ctx{
			ok(one(SCM, side_chain_manager.QUIT_SIDE_CHAIN, gov.ChainID(chTmp, owner.Addr), owner), "side_chain_manager.quitSideChain"),
			ok(one(SCM, side_chain_manager.REGISTER_ASSET, ser(func(s *common.ZeroCopySink) {
				(&side_chain_manager.RegisterAssetParam{OperatorAddress: rip.operator.Addr, ChainId: chRipple, AssetMap: am, LockProxyMap: lm}).Serialization(s)
			}), rip.operator), "side_chain_manager.registerAsset"),
			ok(ccm.BlackTx(chDest, false, nonce, polyenv.Multi(vals)), "cross_chain_manager.BlackChain"),
			vote(msgA, 100, vals[4], "A->dest (already released)"),
			vote(msgB, 102, vals[0], "B->dest"),
			vote(msgB, 102, vals[1], "B->dest"),
			vote(msgB, 102, vals[2], "B->dest"),
			rip.multiSignTx(c, id("c16-src-tx-R"), []int{0}, true),
		}
	})
	add("quit approvals 1, blacked release, second and third ripple signature (quorum)", func() []ctx {
		t := vote(msgB, 102, vals[3], "B->dest (target blacked)")
		t.want = false
		return []ctx{
			scApprove(side_chain_manager.APPROVE_QUIT_SIDE_CHAIN, chTmp, vals[0], true),
			scApprove(side_chain_manager.APPROVE_QUIT_SIDE_CHAIN, chTmp, vals[1], true),
			t,
			rip.multiSignTx(c, id("c16-src-tx-R"), []int{1}, true),
			rip.multiSignTx(c, id("c16-src-tx-R"), []int{2}, true),
		}
	})
	add("quit approvals 2, whiteChain, release, late ripple signature, reconstruct", func() []ctx {
		nonce++
		return []ctx{
			scApprove(side_chain_manager.APPROVE_QUIT_SIDE_CHAIN, chTmp, vals[2], true),
			scApprove(side_chain_manager.APPROVE_QUIT_SIDE_CHAIN, chTmp, vals[3], true),
			scApprove(side_chain_manager.APPROVE_QUIT_SIDE_CHAIN, chTmp, vals[4], false),
			ok(ccm.BlackTx(chDest, true, nonce, polyenv.Multi(vals)), "cross_chain_manager.WhiteChain"),
			vote(msgB, 102, vals[4], "B->dest (released)"),
			rip.multiSignTx(c, id("c16-src-tx-R"), []int{3}, true),
			rip.reconstructTx(id("c16-src-tx-R")),
		}
	})
	// ---- Ontology light client: trust root with 4 peers, peer-set change to 5 other peers, cross-chain message
	oldP, newP := polyenv.KeysFrom(120, 4), polyenv.KeysFrom(130, 5)
	sg := func(ks []*polyenv.Acct) []on.OntSigner {
		var o []on.OntSigner
		for _, k := range ks {
			o = append(o, on.OntSigner{Key: k})
		}
		return o
	}
	add("ont genesis header", func() []ctx {
		return []ctx{ok(on.GenesisTx(vals, chOnt, on.OntHeader(0, oldP, 1, nil)), "header_sync.syncGenesisHeader/ont")}
	})
	add("ont headers: ordinary, peer-set change, first under the new set", func() []ctx {
		return []ctx{
			ok(on.HeadersTx(chOnt, on.OntHeader(5, nil, 2, sg(oldP[:3]))), "header_sync.syncBlockHeader/ont"),
			ok(on.HeadersTx(chOnt, on.OntHeader(10, newP, 3, sg(oldP))), "header_sync.syncBlockHeader/ont key header"),
			ok(on.HeadersTx(chOnt, on.OntHeader(11, nil, 4, sg(newP[:4]))), "header_sync.syncBlockHeader/ont"),
		}
	})
	add("ont cross-chain messages", func() []ctx {
		var root [32]byte
		root[0] = 0xab
		return []ctx{
			ok(on.CrossMsgTx(chOnt, on.OntCrossMsg(12, root, sg(newP[1:4]))), "header_sync.syncCrossChainMsg/ont"),
			ok(on.CrossMsgTx(chOnt, on.OntCrossMsg(7, root, sg(oldP[:2]))), "header_sync.syncCrossChainMsg/ont old set"),
			fail(on.ImportTx(chOnt, 13, []byte{1, 2, 3}, on.OntCrossMsg(13, root, sg(newP[:3]))), "cross_chain_manager.ImportOuterTransfer/ont bad proof"),
		}
	})
	// ---- msc (clique) light client: 3 signers, checkpoint trust root, two sealed headers
	st = append(st, c.msc.steps(c)...)
	// ---- ETH: real proof-of-work header (ethash cache handling)
	st = append(st, ethSteps(c)...)
	// ---- BTC: 3-of-4 vault, deposit BTC -> vote chain, withdrawal vote chain -> BTC, three MultiSign transactions
	st = append(st, c.btc.steps(c, vote)...)
	// ---- consensus epoch changes last (they change the validator set the approvals above count against)
	add("commitDpos, blackNode 1", func() []ctx {
		return []ctx{commitDpos(vals), updFee(chFee, vals[0], 1, 5, true), black(c2, vals[0]), black(c2, vals[1])}
	})
	add("blackNode 2", func() []ctx {
		return []ctx{black(c2, vals[2]), black(c2, vals[3]), black(c2, vals[4]), updFee(chFee, vals[2], 1, 9, true)}
	})
	with1 := append(append([]*polyenv.Acct{}, vals...), c1)
	add("commitDpos with the new consensus node", func() []ctx { return []ctx{commitDpos(with1)} })
	add("quitNode", func() []ctx {
		nonce++
		return []ctx{ // the operator is derived from the 6 consensus nodes until quitNode takes c1 out
			ok(ccm.BlackTx(chTmp, false, nonce, polyenv.Multi(with1)), "cross_chain_manager.BlackChain/6-node operator"),
			ok(one(NM, node_manager.QUIT_NODE, gov.Peer(c1.PubHex, c1.Addr), c1), "node_manager.quitNode"),
		}
	})
	add("commitDpos removing the quitting node", func() []ctx { return []ctx{commitDpos(vals)} })
	return st
}

var _ = scom.MULTI_SIGN
