package main

// BTC side of the corpus (regtest): a 3-of-4 multisig vault registered through the real RegisterRedeem / SetBtcTxParam
// transactions (signatures arriving in two transactions, so the BindSignInfo map is merged), a deposit proven by an SPV
// merkle block against a header with real (trivial, regtest) proof of work, a withdrawal released by the vote router into
// btc.MakeTransaction, and the vault keys' MultiSign transactions up to the fully signed transaction.
// The construction follows props/c26/handler.go (2-of-3 there).

import (
	"bytes"
	"encoding/binary"
	"encoding/hex"
	"fmt"
	"time"

	"github.com/btcsuite/btcd/blockchain"
	"github.com/btcsuite/btcd/btcec"
	"github.com/btcsuite/btcd/chaincfg"
	"github.com/btcsuite/btcd/chaincfg/chainhash"
	"github.com/btcsuite/btcd/txscript"
	"github.com/btcsuite/btcd/wire"
	"github.com/btcsuite/btcutil"
	bchhash "github.com/gcash/bchd/chaincfg/chainhash"
	wire_bch "github.com/gcash/bchd/wire"
	"github.com/polynetwork/poly/common"
	"github.com/polynetwork/poly/core/types"
	"github.com/polynetwork/poly/native/service/cross_chain_manager/btc"
	scom "github.com/polynetwork/poly/native/service/cross_chain_manager/common"
	"github.com/polynetwork/poly/native/service/governance/side_chain_manager"
	"github.com/polynetwork/poly/native/service/utils"
	"verif.local/engine/lib/ccm"
	on "verif.local/engine/lib/ontneo"
	"verif.local/engine/polyenv"
)

const btcRootHeight = uint32(100)

type btcEnv struct {
	keys    []*btcec.PrivateKey
	addrs   []string // AddressPubKey.EncodeAddress() on regtest, the key of the MultiSignInfo map
	redeem  []byte
	rk      []byte
	p2wsh   []byte
	payee   string
	bound   []byte // contract on the vote chain bound to the vault
	deposit *wire.MsgTx
	dhdr    *wire.BlockHeader
}

func must(err error) {
	if err != nil {
		panic(err)
	}
}

func newBtcEnv() *btcEnv {
	e := &btcEnv{bound: []byte{0xc1, 0x6c, 0x0c, 0x4b, 0x1d, 0x01, 0x02, 0x03, 0x04, 0x05, 0x06, 0x07, 0x08, 0x09, 0x0a, 0x0b, 0x0c, 0x0d, 0x0e, 0x0f}}
	net := &chaincfg.RegressionNetParams
	b := txscript.NewScriptBuilder().AddOp(txscript.OP_3)
	for i := 0; i < 4; i++ {
		priv, pub := btcec.PrivKeyFromBytes(btcec.S256(), sha(fmt.Sprintf("c16-redeem-key-%d", i)))
		e.keys = append(e.keys, priv)
		b.AddData(pub.SerializeCompressed())
		a, err := btcutil.NewAddressPubKey(pub.SerializeCompressed(), net)
		must(err)
		e.addrs = append(e.addrs, a.EncodeAddress())
	}
	var err error
	e.redeem, err = b.AddOp(txscript.OP_4).AddOp(txscript.OP_CHECKMULTISIG).Script()
	must(err)
	e.rk = btcutil.Hash160(e.redeem)
	wa, err := btcutil.NewAddressWitnessScriptHash(sha256sum(e.redeem), net)
	must(err)
	e.p2wsh, err = txscript.PayToAddrScript(wa)
	must(err)
	_, ppub := btcec.PrivKeyFromBytes(btcec.S256(), sha("c16-btc-payee"))
	pa, err := btcutil.NewAddressPubKeyHash(btcutil.Hash160(ppub.SerializeCompressed()), net)
	must(err)
	e.payee = pa.EncodeAddress()
	return e
}

func sha256sum(b []byte) []byte { return sha(string(b)) }

func (e *btcEnv) der(hash []byte, who ...int) [][]byte {
	var out [][]byte
	for _, i := range who {
		sig, err := e.keys[i].Sign(hash)
		must(err)
		out = append(out, sig.Serialize())
	}
	return out
}

func ser80(h *wire.BlockHeader) []byte {
	var b bytes.Buffer
	must(h.Serialize(&b))
	return b.Bytes()
}

func mineHeader(h *wire.BlockHeader) {
	target := blockchain.CompactToBig(h.Bits)
	for n := uint32(0); ; n++ {
		h.Nonce = n
		bh := h.BlockHash()
		if blockchain.HashToBig(&bh).Cmp(target) <= 0 {
			return
		}
	}
}

func (e *btcEnv) registerRedeem(who ...int) ctx {
	rr := &side_chain_manager.RegisterRedeemParam{RedeemChainID: chBtc, ContractChainID: chVote, Redeem: e.redeem, CVersion: 0, ContractAddress: e.bound}
	msg := append(append(append(append(append([]byte{}, e.redeem...), utils.GetUint64Bytes(chBtc)...), e.bound...),
		utils.GetUint64Bytes(chVote)...), utils.GetUint64Bytes(0)...)
	rr.Signs = e.der(btcutil.Hash160(msg), who...)
	return ok(tx(SCM, side_chain_manager.REGISTER_REDEEM, ser(rr.Serialization), polyenv.Single(polyenv.Key(30))), fmt.Sprintf("side_chain_manager.registerRedeem/sigs%v", who))
}

func (e *btcEnv) setTxParam(feeRate, minChange uint64, who ...int) ctx {
	bp := &side_chain_manager.BtcTxParam{Redeem: e.redeem, RedeemChainId: chBtc, Detial: &side_chain_manager.BtcTxParamDetial{PVersion: 0, FeeRate: feeRate, MinChange: minChange}}
	msg := append(append(append(append(append([]byte{}, e.redeem...), utils.GetUint64Bytes(chBtc)...), utils.GetUint64Bytes(feeRate)...),
		utils.GetUint64Bytes(minChange)...), utils.GetUint64Bytes(0)...)
	bp.Sigs = e.der(btcutil.Hash160(msg), who...)
	return ok(tx(SCM, side_chain_manager.SET_BTC_TX_PARAM, ser(bp.Serialization), polyenv.Single(polyenv.Key(30))), fmt.Sprintf("side_chain_manager.setBtcTxParam/sigs%v", who))
}

// mkDeposit builds the BTC -> vote-chain lock transaction and the regtest block header confirming it.
func (e *btcEnv) mkDeposit(value int64) {
	mtx := wire.NewMsgTx(wire.TxVersion)
	prevOut, _ := chainhash.NewHash(sha("c16-btc-funding"))
	mtx.AddTxIn(wire.NewTxIn(wire.NewOutPoint(prevOut, 0), nil, nil))
	mtx.AddTxOut(wire.NewTxOut(value, e.p2wsh))
	args := &btc.Args{ToChainID: chVote, Fee: 0, Address: bytes.Repeat([]byte{0xab}, 20)}
	data := append([]byte{btc.OP_RETURN_SCRIPT_FLAG}, ser(args.Serialization)...)
	opret, err := txscript.NewScriptBuilder().AddOp(txscript.OP_RETURN).AddData(data).Script()
	must(err)
	mtx.AddTxOut(wire.NewTxOut(0, opret))
	e.deposit = mtx
	gh := chaincfg.RegressionNetParams.GenesisBlock.Header
	e.dhdr = &wire.BlockHeader{Version: 1, PrevBlock: gh.BlockHash(), MerkleRoot: mtx.TxHash(),
		Timestamp: time.Unix(1_600_000_000, 0), Bits: chaincfg.RegressionNetParams.PowLimitBits}
	mineHeader(e.dhdr)
}

func (e *btcEnv) depositImport() ctx {
	var raw bytes.Buffer
	must(e.deposit.BtcEncode(&raw, wire.ProtocolVersion, wire.LatestEncoding))
	txid := e.deposit.TxHash()
	var bh wire_bch.BlockHeader
	must(bh.Deserialize(bytes.NewReader(ser80(e.dhdr))))
	th, _ := bchhash.NewHash(txid[:])
	mb := wire_bch.MsgMerkleBlock{Header: bh, Transactions: 1, Hashes: []*bchhash.Hash{th}, Flags: []byte{1}}
	var proof bytes.Buffer
	must(mb.BchEncode(&proof, wire_bch.ProtocolVersion, wire_bch.LatestEncoding))
	relayer := polyenv.Key(30)
	nonce++
	ep := &scom.EntranceParam{SourceChainID: chBtc, Height: btcRootHeight + 1, Proof: proof.Bytes(), RelayerAddress: relayer.Addr[:], Extra: raw.Bytes()}
	return ok(ccm.ImportTx(ep, nonce, polyenv.Single(relayer)), "cross_chain_manager.ImportOuterTransfer/btc deposit")
}

// multiSign builds the MultiSign transaction of vault key i over the unsigned transaction the chain emitted (makeBtcTx event).
func (e *btcEnv) multiSign(c *corpus, i int, want bool) ctx {
	st := c.lastEvent("makeBtcTx")
	raw, err := hex.DecodeString(st[2].(string))
	must(err)
	amts := st[3].([]uint64)
	mtx := wire.NewMsgTx(wire.TxVersion)
	must(mtx.BtcDecode(bytes.NewReader(raw), wire.ProtocolVersion, wire.LatestEncoding))
	txid := mtx.TxHash()
	for _, in := range mtx.TxIn {
		in.SignatureScript = nil
	}
	sh := txscript.NewTxSigHashes(mtx)
	var sigs [][]byte
	for idx := range mtx.TxIn {
		s, err := txscript.RawTxInWitnessSignature(mtx, sh, idx, int64(amts[idx]), e.redeem, txscript.SigHashAll, e.keys[i])
		must(err)
		sigs = append(sigs, s)
	}
	p := &scom.MultiSignParam{ChainID: chBtc, RedeemKey: hex.EncodeToString(e.rk), TxHash: txid[:], Address: e.addrs[i], Signs: sigs}
	return ctx{tx(CCM, scom.MULTI_SIGN, ser(p.Serialization), polyenv.Single(polyenv.Key(30))), fmt.Sprintf("cross_chain_manager.MultiSign/btc key%d", i), want}
}

func (e *btcEnv) steps(c *corpus, vote func(extra []byte, height uint32, v *polyenv.Acct, what string) ctx) []step {
	e.mkDeposit(200_000)
	wargs := ser(func(s *common.ZeroCopySink) {
		s.WriteVarBytes([]byte(e.payee))
		s.WriteUint64(50_000)
		s.WriteVarBytes(e.redeem)
	})
	wid := sha("c16-btc-withdraw")
	wmsg := ccm.MsgBytes(ccm.Msg(wid, wid, e.bound, chBtc, []byte("btc"), "unlock", wargs))
	return []step{
		{name: "btc: redeem registration (2 of the 3 needed signatures), tx parameters, trust root", build: func() []ctx {
			gh := chaincfg.RegressionNetParams.GenesisBlock.Header
			var hb [4]byte
			binary.BigEndian.PutUint32(hb[:], btcRootHeight)
			return []ctx{e.registerRedeem(0, 1), e.setTxParam(2, 2000, 0, 1, 2),
				ok(on.GenesisTx(c.vals, chBtc, append(ser80(&gh), hb[:]...)), "header_sync.syncGenesisHeader/btc")}
		}},
		{name: "btc: remaining redeem signatures, deposit block header", build: func() []ctx {
			return []ctx{e.registerRedeem(2, 3), ok(on.HeadersTx(chBtc, ser80(e.dhdr)), "header_sync.syncBlockHeader/btc")}
		}},
		{name: "btc: deposit import", build: func() []ctx { return []ctx{e.depositImport()} }},
		{name: "btc: withdrawal votes up to release (makeBtcTx)", build: func() []ctx {
			var out []ctx
			for k := 0; k < 4; k++ {
				out = append(out, vote(wmsg, 500, c.vals[k], "withdraw->btc"))
			}
			return out
		}},
		{name: "btc: MultiSign by vault keys 0 and 1", build: func() []ctx { return []ctx{e.multiSign(c, 0, true), e.multiSign(c, 1, true)} }},
		{name: "btc: MultiSign by vault key 2 (complete), key 3 (too late)", build: func() []ctx {
			return []ctx{e.multiSign(c, 2, true), e.multiSign(c, 3, false)}
		}},
	}
}

var _ types.Transaction
