#!/bin/bash
# C16: builds the call-graph reachability tool (own module: golang.org/x/tools v0.29.0) and the driver, then runs the driver.
set -u
V=/verif
export GOFLAGS=-mod=mod GOPROXY=off GOSUMDB=off GOTOOLCHAIN=local
( cd $V/engine/tools/reach && go build -o $V/.build/bin/reach . ) 2> $V/.build/build_reach.log || { echo "HARNESS-ERROR property=C16 reach tool build failed"; tail -20 $V/.build/build_reach.log; exit 2; }
cd $V/engine
if ! go build -tags verif -overlay "$VERIF_OVERLAY" -o $V/.build/bin/c16 ./props/c16 2> $V/.build/build_c16.log; then
  echo "HARNESS-ERROR property=C16 build failed (see $V/.build/build_c16.log)"; tail -30 $V/.build/build_c16.log; exit 2
fi
[ "${1:-}" = "--build-only" ] && exit 0
exec $V/.build/bin/c16 "$@"
