#!/bin/bash
# C16: builds the call-graph reachability tool (own module: golang.org/x/tools v0.29.0) and the driver, then runs the driver.
set -u
V=/verif
export GOFLAGS=-mod=mod GOPROXY=off GOSUMDB=off GOTOOLCHAIN=local
( cd $V/engine/tools/reach && go build -o $V/.build/bin/reach . ) 2> $V/.build/build_reach.log || { echo "HARNESS-ERROR property=C16 reach tool build failed"; tail -20 $V/.build/build_reach.log; exit 2; }
cd $V/engine
# C16 uses its own variant of the runtime hook file (adds call-site recording for the `map_range_sites` evidence)
OV2=$V/.build/overlay_c16_pcs.json
python3 - "$VERIF_OVERLAY" "$OV2" <<'PY' || { echo "HARNESS-ERROR property=C16 overlay rewrite failed"; exit 2; }
import json, sys
o = json.load(open(sys.argv[1]))
ks = [k for k in o["Replace"] if k.endswith("/src/runtime/zz_verif_map.go")]
assert len(ks) == 1, ks
o["Replace"][ks[0]] = "/verif/engine/props/c16/goroot/zz_verif_map.go.txt"
json.dump(o, open(sys.argv[2], "w"), indent=1)
PY
export VERIF_OVERLAY=$OV2
if ! go build -tags verif -overlay "$VERIF_OVERLAY" -o $V/.build/bin/c16 ./props/c16 2> $V/.build/build_c16.log; then
  echo "HARNESS-ERROR property=C16 build failed (see $V/.build/build_c16.log)"; tail -30 $V/.build/build_c16.log; exit 2
fi
[ "${1:-}" = "--build-only" ] && exit 0
exec $V/.build/bin/c16 "$@"
