package main

// The cold reference of the process-history dimension: a child process (same binary, VERIF_C16_COLD_CHILD=1) that opens its
// own fresh ledger and executes every corpus block EXACTLY ONCE (ExecuteBlock, then SubmitBlock of that very result) — the
// history of an honest node that never discards an execution. The parent streams the blocks (raw bytes, so both processes
// execute identical transactions although ECDSA signing is randomised) as it builds them; the child answers one digest per
// block; the two run concurrently. The parent compares the digests with its own baseline results, which were obtained
// after discarded executions of this and of other blocks.

import (
	"bufio"
	"bytes"
	"encoding/hex"
	"fmt"
	"os"
	"os/exec"
	"strings"
	"sync"

	"github.com/polynetwork/poly/core/ledger"
	"github.com/polynetwork/poly/core/store"
	"github.com/polynetwork/poly/core/types"
	"verif.local/engine/ev"
	"verif.local/engine/lib/maporder"
	"verif.local/engine/polyenv"
)

const coldPrefix = "C16COLD "

type coldChild struct {
	cmd    *exec.Cmd
	in     *bufio.Writer
	closer interface{ Close() error }
	mu     sync.Mutex
	lines  []string
	errLn  string
	done   chan struct{}
	stderr bytes.Buffer
	dead   bool
}

func startColdChild(r *ev.Run) *coldChild {
	c := &coldChild{done: make(chan struct{})}
	c.cmd = exec.Command(os.Args[0])
	c.cmd.Env = append(os.Environ(), "VERIF_C16_COLD_CHILD=1")
	c.cmd.Stderr = &c.stderr
	w, err := c.cmd.StdinPipe()
	if err != nil {
		bail(r, "cold child: %v", err)
	}
	out, err := c.cmd.StdoutPipe()
	if err != nil {
		bail(r, "cold child: %v", err)
	}
	if err := c.cmd.Start(); err != nil {
		bail(r, "cold child: %v", err)
	}
	c.in, c.closer = bufio.NewWriterSize(w, 1<<20), w
	go func() {
		defer close(c.done)
		sc := bufio.NewScanner(out)
		sc.Buffer(make([]byte, 1<<20), 64<<20)
		for sc.Scan() {
			ln := sc.Text()
			if !strings.HasPrefix(ln, coldPrefix) {
				continue // log noise of the code under test
			}
			ln = strings.TrimPrefix(ln, coldPrefix)
			c.mu.Lock()
			if strings.HasPrefix(ln, "ERR ") && c.errLn == "" {
				c.errLn = ln
			} else {
				c.lines = append(c.lines, ln)
			}
			c.mu.Unlock()
		}
	}()
	return c
}

func (c *coldChild) send(b *types.Block) {
	if c.dead {
		return
	}
	fmt.Fprintln(c.in, hex.EncodeToString(b.ToArray()))
	c.in.Flush()
}

// finish closes the stream, waits for the child and returns its digests in block order.
func (c *coldChild) finish() ([]string, error) {
	if c.dead {
		return nil, fmt.Errorf("already finished")
	}
	c.dead = true
	c.in.Flush()
	c.closer.Close()
	<-c.done
	err := c.cmd.Wait()
	c.mu.Lock()
	defer c.mu.Unlock()
	if c.errLn != "" {
		return c.lines, fmt.Errorf("%s", c.errLn)
	}
	if err != nil {
		return c.lines, fmt.Errorf("%v: %s", err, tailS(c.stderr.String(), 800))
	}
	return c.lines, nil
}

func (c *coldChild) kill() {
	if !c.dead {
		c.dead = true
		c.closer.Close()
		c.cmd.Process.Kill()
		c.cmd.Wait()
	}
}

// coldChildMain is the child: never returns.
func coldChildMain() {
	say := func(format string, a ...any) { fmt.Println(coldPrefix + fmt.Sprintf(format, a...)) }
	vals := polyenv.Keys(5)
	polyenv.Setup(0, vals)
	dir := polyenv.TmpDir("c16cold")
	ch, err := polyenv.OpenChain(dir, vals)
	if err != nil {
		os.RemoveAll(dir)
		say("ERR open chain: %v", err)
		os.Exit(1)
	}
	ledger.DefLedger = ledger.VerifNewLedger(ch.L)
	code := 0
	sc := bufio.NewScanner(os.Stdin)
	sc.Buffer(make([]byte, 1<<20), 64<<20)
	for n := 0; sc.Scan(); n++ {
		raw, err := hex.DecodeString(strings.TrimSpace(sc.Text()))
		if err != nil {
			say("ERR block %d: %v", n, err)
			code = 1
			break
		}
		blk, err := types.BlockFromRawBytes(raw)
		if err != nil {
			say("ERR block %d: %v", n, err)
			code = 1
			break
		}
		var res store.ExecuteResult
		var xerr error
		maporder.Run(nil, 0, func() { res, xerr = ch.L.ExecuteBlock(blk) }) // the parent's baseline order
		say("%s", digestOf(res, xerr))
		if xerr == nil {
			xerr = ch.L.SubmitBlock(blk, res)
		}
		if xerr != nil {
			say("ERR block %d: %v", n, xerr)
			code = 1
			break
		}
	}
	ch.Close()
	os.RemoveAll(dir)
	os.Exit(code)
}
