// Static list of map-iteration sites (C16 evidence `map_range_sites`).
//
// Every `range` statement over a map-typed expression (go/types) in the packages that make up block execution
// (native/..., core/store/ledgerstore, core/store/overlaydb, core/states, core/types, smartcontract/...) is listed.
// The sources are read as the build sees them (lib/src: killdemo mutants included); dependencies are imported from the
// export data of the build cache (`go list -export`), so the pass costs seconds, not a second full type check.
package main

import (
	"bytes"
	"encoding/json"
	"fmt"
	"go/ast"
	"go/importer"
	"go/parser"
	"go/token"
	"go/types"
	"io"
	"os"
	"os/exec"
	"path/filepath"
	"sort"
	"strings"

	"verif.local/engine/ev"
	"verif.local/engine/lib/src"
)

const repoMod = "github.com/polynetwork/poly/"

// Site is one `range` over a map in repository code.
type Site struct {
	File string `json:"file"` // repo-relative
	Line int    `json:"line"`
	Func string `json:"func"`
	Expr string `json:"expr"`
	Map  string `json:"map_type"`
	// filled at run time
	Reached  int      `json:"iterations_observed"`       // how often the corpus started this iteration (baseline runs)
	MaxSize  int32    `json:"max_entries_observed"`      // biggest map seen here
	Explored int      `json:"iterations_with_ge2_entries"` // iterations that were deviation sites (all rotations tried)
	Blocks   []int    `json:"corpus_blocks,omitempty"`
	Covered  bool     `json:"covered"` // reached with >= 2 entries, i.e. its order was really explored
	Why      string   `json:"not_covered_reason,omitempty"`
	blockSet map[int]bool
}

func (s *Site) key() string { return fmt.Sprintf("%s:%d", s.File, s.Line) }

var sitePkgPatterns = []string{
	repoMod + "native/...",
	repoMod + "core/store/ledgerstore",
	repoMod + "core/store/overlaydb",
	repoMod + "core/states",
	repoMod + "core/types",
	repoMod + "core/payload",
	repoMod + "smartcontract/...",
}

type listedPkg struct {
	ImportPath string
	Dir        string
	Export     string
	GoFiles    []string
	CgoFiles   []string
	Standard   bool
	Module     *struct{ Path string }
	Error      *struct{ Err string }
	DepOnly    bool
}

// staticMapSites runs the pass. It returns the sites and the number of packages type-checked.
func staticMapSites() ([]*Site, int, error) {
	args := []string{"list", "-e", "-export", "-deps", "-tags", "verif", "-json=ImportPath,Dir,Export,GoFiles,CgoFiles,Standard,Module,Error,DepOnly"}
	if ov := os.Getenv("VERIF_OVERLAY"); ov != "" {
		args = append(args, "-overlay", ov)
	}
	args = append(args, sitePkgPatterns...)
	cmd := exec.Command("go", args...)
	cmd.Dir = filepath.Join(ev.Root, "engine")
	cmd.Env = append(os.Environ(), "GOFLAGS=-mod=mod", "GOPROXY=off", "GOSUMDB=off", "GOTOOLCHAIN=local")
	var stderr bytes.Buffer
	cmd.Stderr = &stderr
	out, err := cmd.Output()
	if err != nil && len(out) == 0 {
		return nil, 0, fmt.Errorf("go list: %v: %s", err, tailS(stderr.String(), 800))
	}
	exports := map[string]string{}
	var targets []*listedPkg
	dec := json.NewDecoder(bytes.NewReader(out))
	for {
		var p listedPkg
		if err := dec.Decode(&p); err == io.EOF {
			break
		} else if err != nil {
			return nil, 0, fmt.Errorf("go list json: %v", err)
		}
		if p.Export != "" {
			exports[p.ImportPath] = p.Export
		}
		if !p.DepOnly && strings.HasPrefix(p.ImportPath, repoMod) {
			pp := p
			targets = append(targets, &pp)
		}
	}
	fset := token.NewFileSet()
	imp := importer.ForCompiler(fset, "gc", func(path string) (io.ReadCloser, error) {
		f, ok := exports[path]
		if !ok {
			return nil, fmt.Errorf("no export data for %s", path)
		}
		return os.Open(f)
	})
	var sites []*Site
	checked := 0
	for _, p := range targets {
		var files []*ast.File
		rel := map[*ast.File]string{}
		for _, gf := range append(append([]string{}, p.GoFiles...), p.CgoFiles...) {
			abs := filepath.Join(p.Dir, gf)
			relp := strings.TrimPrefix(abs, src.Repo+"/")
			real := src.Path(relp)
			if real == "" {
				continue
			}
			f, err := parser.ParseFile(fset, real, nil, parser.SkipObjectResolution)
			if err != nil {
				return nil, 0, fmt.Errorf("parse %s: %v", real, err)
			}
			files = append(files, f)
			rel[f] = relp
		}
		if len(files) == 0 {
			continue
		}
		info := &types.Info{Types: map[ast.Expr]types.TypeAndValue{}}
		conf := types.Config{Importer: imp, Error: func(error) {}, FakeImportC: true}
		conf.Check(p.ImportPath, fset, files, info) // soft errors tolerated: untyped range operands are reported below
		checked++
		for _, f := range files {
			var stack []string
			var walk func(n ast.Node) bool
			walk = func(n ast.Node) bool {
				switch x := n.(type) {
				case *ast.FuncDecl:
					name := x.Name.Name
					if x.Recv != nil && len(x.Recv.List) > 0 {
						name = "(" + exprText(fset, x.Recv.List[0].Type) + ")." + name
					}
					stack = append(stack, name)
					if x.Body != nil {
						ast.Inspect(x.Body, walk)
					}
					stack = stack[:len(stack)-1]
					return false
				case *ast.RangeStmt:
					tv, ok := info.Types[x.X]
					if !ok || tv.Type == nil {
						break
					}
					if m, ok := tv.Type.Underlying().(*types.Map); ok {
						fn := "(package level)"
						if len(stack) > 0 {
							fn = stack[len(stack)-1]
						}
						sites = append(sites, &Site{File: rel[f], Line: fset.Position(x.For).Line, Func: fn, Expr: exprText(fset, x.X),
							Map: types.TypeString(m, func(p *types.Package) string { return p.Name() }), blockSet: map[int]bool{}})
					}
				}
				return true
			}
			ast.Inspect(f, walk)
		}
	}
	sort.Slice(sites, func(i, j int) bool {
		if sites[i].File != sites[j].File {
			return sites[i].File < sites[j].File
		}
		return sites[i].Line < sites[j].Line
	})
	return sites, checked, nil
}

func exprText(fset *token.FileSet, e ast.Expr) string {
	switch x := e.(type) {
	case *ast.Ident:
		return x.Name
	case *ast.SelectorExpr:
		return exprText(fset, x.X) + "." + x.Sel.Name
	case *ast.StarExpr:
		return "*" + exprText(fset, x.X)
	case *ast.CallExpr:
		return exprText(fset, x.Fun) + "(..)"
	case *ast.IndexExpr:
		return exprText(fset, x.X) + "[..]"
	case *ast.ParenExpr:
		return "(" + exprText(fset, x.X) + ")"
	}
	return fmt.Sprintf("%T", e)
}
