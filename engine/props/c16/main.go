// C16 — block execution is deterministic.
//
// (a) dynamic: a corpus of real blocks is executed on ONE real ledger (LedgerStoreImp.ExecuteBlock = the production executeBlock,
//     a dry run; the block is then committed and the next one built on it) under harness-owned map-iteration order (lib/maporder:
//     GOROOT overlay of runtime.mapiterinit). For every block: baseline twice, then every 1-deviation (thorough: 2-deviation) of
//     the iteration start at every map iteration with >= 2 entries; the write set, state-change digest, state root, cross-state
//     root, cross hashes and events must be identical. The corpus (corpus.go, ripple.go, btc.go, msc.go) covers node_manager,
//     relayer_manager, neo3_state_manager, signature_manager, side_chain_manager (register/update/quit, registerAsset,
//     registerRedeem, setBtcTxParam, updateFee), cross_chain_manager (vote-router imports up to release, ripple MakeTransaction /
//     MultiSignRipple / ReconstructRippleTx, BTC deposit / withdrawal / MultiSign, BlackChain / WhiteChain) and header_sync
//     (ont incl. peer-set change and cross-chain messages, msc clique, btc) with 5 validators.
//     Process history is a dimension of its own for EVERY block (same prior state, same block, same result?): a child process
//     that executes each block exactly once (cold, cold.go); first execution in the exploring process; after its own discarded
//     execution; after a pre-execution of each of its transactions; after a discarded execution of a different block.
//     One block relays a ropsten header with a REAL ethash seal (eth.go; verifhook.SkipSealFlag stays false).
//     Every iteration is attributed to its source `range` statement (call-site PCs recorded by this driver's own variant of the
//     runtime hook, goroot/zz_verif_map.go.txt, swapped in by run.sh); the evidence lists every `range` over a map in the
//     block-execution packages (sites.go: go/types pass over the sources as built) with what the corpus did there.
// (b) static: exhaustive call-graph reachability (CHA over SSA, tools/reach) from every native handler and executeBlock to
//     wall-clock / randomness / environment sources; every site in native contract code is a violation (known ones are listed
//     in KNOWN_FINDINGS.txt per call site), so a NEW call site alarms.
package main

import (
	"crypto/sha256"
	"encoding/hex"
	"encoding/json"
	"fmt"
	"os"
	"os/exec"
	"path/filepath"
	"strings"

	"github.com/polynetwork/poly/common"
	"github.com/polynetwork/poly/core/store"
	"github.com/polynetwork/poly/core/types"
	_ "github.com/polynetwork/poly/native/service"
	"verif.local/engine/ev"
	"verif.local/engine/polyenv"
)

func ser(f func(*common.ZeroCopySink)) []byte {
	s := common.NewZeroCopySink(nil)
	f(s)
	return s.Bytes()
}

type digest struct {
	Hash, MerkleRoot, CrossRoot string
	WriteSet                   string
	Cross                      []string
	Notify                     string
}

func digestOf(res store.ExecuteResult, err error) string {
	if err != nil {
		return "ERR:" + err.Error()
	}
	d := digest{Hash: res.Hash.ToHexString(), MerkleRoot: res.MerkleRoot.ToHexString(), CrossRoot: res.CrossStatesRoot.ToHexString()}
	h := sha256.New()
	if res.WriteSet != nil {
		res.WriteSet.ForEach(func(k, v []byte) {
			h.Write([]byte(hex.EncodeToString(k) + "=" + hex.EncodeToString(v) + ";"))
		})
	}
	d.WriteSet = hex.EncodeToString(h.Sum(nil))
	for _, c := range res.CrossHashes {
		d.Cross = append(d.Cross, c.ToHexString())
	}
	nb, _ := json.Marshal(res.Notify)
	d.Notify = string(nb)
	b, _ := json.Marshal(d)
	return string(b)
}

var nonce uint32

func tx(contract common.Address, method string, args []byte, signers ...polyenv.Signer) *types.Transaction {
	nonce++
	return polyenv.Tx(contract, method, args, nonce, signers...)
}

func main() {
	if os.Getenv("VERIF_C16_COLD_CHILD") != "" {
		coldChildMain() // cold reference of the process-history dimension (cold.go)
	}
	r := ev.Start("C16", "model_checking")
	r.Require("block_deterministic", "static_done")

	// ------------------------------------------------------------------ (b) static reachability: runs beside the dynamic part
	reachOut := filepath.Join(polyenv.TmpDir("c16"), "reach.json")
	scratch = append(scratch, filepath.Dir(reachOut))
	type reachRes struct {
		out []byte
		err error
	}
	reachCh := make(chan reachRes, 1)
	go func() {
		if os.Getenv("VERIF_C16_DYNAMIC_ONLY") != "" {
			return
		}
		// the reach tool must see the same sources as the build, minus the GOROOT map-order overlay (irrelevant for it)
		cmd := exec.Command(filepath.Join(ev.Root, ".build/bin/reach"), "-overlay", os.Getenv("VERIF_OVERLAY"), "-out", reachOut)
		cmd.Env = append(os.Environ(), "GOFLAGS=-mod=mod")
		out, err := cmd.CombinedOutput()
		reachCh <- reachRes{out, err}
	}()
	// static list of map-iteration sites (go/types over the sources as built), also beside the dynamic part
	type sitesRes struct {
		sites []*Site
		pkgs  int
		err   error
	}
	sitesCh := make(chan sitesRes, 1)
	go func() {
		s, n, err := staticMapSites()
		sitesCh <- sitesRes{s, n, err}
	}()

	// ------------------------------------------------------------------ (a) dynamic, map order owned by the harness
	dyn := dynamicPart(r)

	sr := <-sitesCh
	if sr.err != nil {
		bail(r, "static map-site pass failed: %v", sr.err)
	}
	if len(sr.sites) < 25 {
		bail(r, "static map-site pass implausible: %d sites in %d packages", len(sr.sites), sr.pkgs)
	}
	siteEvidence(r, dyn, sr.sites, sr.pkgs)

	if os.Getenv("VERIF_C16_DYNAMIC_ONLY") != "" { // development switch: the run then ends in the vacuity guard (static_done missing)
		cleanScratch()
		r.Finish(map[string]any{"rule": "dynamic part only (development run)", "map_order_executions": dyn.totalExec})
	}
	rr := <-reachCh
	if rr.err != nil {
		bail(r, "reach tool failed: %v: %s", rr.err, tailS(string(rr.out), 1500))
	}
	var reach struct {
		Roots     []string `json:"roots"`
		Visited   int      `json:"functions_visited"`
		Edges     int      `json:"edges_examined"`
		ThirdPart int      `json:"third_party_edges_not_entered"`
		Sites     []struct {
			Caller, Callee, Pos string
			Path                []string
		} `json:"sites"`
	}
	b, _ := os.ReadFile(reachOut)
	if json.Unmarshal(b, &reach) != nil || len(reach.Roots) < 20 || reach.Visited < 300 {
		bail(r, "reach result implausible: roots=%d visited=%d", len(reach.Roots), reach.Visited)
	}
	var nonContract []string
	for _, s := range reach.Sites {
		short := strings.ReplaceAll(s.Caller, "github.com/polynetwork/poly/", "")
		key := "nondeterministic-source:" + short + "->" + s.Callee
		key = strings.ReplaceAll(key, " ", "")
		if strings.Contains(s.Caller, "github.com/polynetwork/poly/native/") {
			r.Violation(key, map[string]any{"caller": s.Caller, "callee": s.Callee, "pos": s.Pos, "call_path": s.Path})
			r.Class("static_site_in_contract_code")
		} else {
			// e.g. the fixed-seed PRNG that picks skip-list heights inside overlaydb.MemDB: not native contract code and not
			// observable in results (C09/C11 decide that); reported, not alarmed.
			nonContract = append(nonContract, short+" -> "+s.Callee+" @"+strings.ReplaceAll(s.Pos, "/repo/", ""))
		}
		r.Case(key)
	}
	r.Note("static_roots", len(reach.Roots))
	r.Note("static_functions_visited", reach.Visited)
	r.Note("static_edges_examined", reach.Edges)
	r.Note("thirdparty_edges_not_entered", reach.ThirdPart)
	r.Note("non_contract_sites_reported_only", nonContract)
	r.Class("static_done")

	r.Assume("map iteration: for maps with <= 8 entries the Go 1.23 runtime can only produce rotations of the slot order; all are explored at each site (deviation bound in evidence)",
		"static part: CHA call graph (over-approximation); only repository functions are entered; third-party interiors are out of scope by the stated rule",
		"scheduling: block execution is single-threaded (no goroutines are started by executeBlock or the native contracts)")
	cleanScratch()
	r.Finish(map[string]any{
		"rule": fmt.Sprintf("(a) %d corpus blocks (%d transactions, %d contract methods) x every map-iteration site with >=2 entries x every rotation, deviation bound %d, x 5 process histories (cold child process, first, after own discarded execution, after pre-execution of its txs, after a different discarded block); (b) exhaustive reachability from %d roots",
			dyn.blocks, dyn.txs, len(dyn.methods), dyn.bound, len(reach.Roots)),
		"states":      dyn.totalSites + reach.Visited,
		"transitions": dyn.totalExec + reach.Edges,
		"traces_validated_against_impl": dyn.totalExec,
		"map_order_sites":               dyn.totalSites,
		"map_order_executions":          dyn.totalExec,
		"deviation_bound":               dyn.bound,
	})
}

// Finish / HarnessError leave through os.Exit: deferred clean-up would never run, so scratch directories are removed explicitly.
var scratch []string

func cleanScratch() {
	for _, d := range scratch {
		os.RemoveAll(d)
	}
	scratch = nil
}

func bail(r *ev.Run, format string, a ...any) {
	cleanScratch()
	r.HarnessError(format, a...)
}

func parseDigest(s string) *digest {
	d := new(digest)
	if json.Unmarshal([]byte(s), d) != nil {
		return nil
	}
	return d
}

// firstEventDiff names the transaction (contract.method) whose event list differs first.
func firstEventDiff(a, b string, names []string) string {
	var la, lb []json.RawMessage
	if json.Unmarshal([]byte(a), &la) != nil || json.Unmarshal([]byte(b), &lb) != nil || len(la) != len(lb) {
		return "shape"
	}
	for i := range la {
		if string(la[i]) != string(lb[i]) {
			if i < len(names) {
				n := names[i]
				if k := strings.IndexByte(n, '/'); k >= 0 {
					n = n[:k]
				}
				return n
			}
			return fmt.Sprint(i)
		}
	}
	return "none"
}

func txNames(txs []*types.Transaction) []string {
	var out []string
	for _, t := range txs {
		h := t.Hash()
		out = append(out, h.ToHexString()[:8])
	}
	return out
}

func tailS(s string, n int) string {
	if len(s) > n {
		return s[len(s)-n:]
	}
	return s
}
