// C16 — block execution is deterministic.
//
// (a) dynamic: a corpus of real blocks (governance / relayer / fee / signature flows over 5 validators) is executed on the
//     real ledger (LedgerStoreImp.ExecuteBlock = the production executeBlock) under harness-owned map-iteration order
//     (lib/maporder: GOROOT overlay of runtime.mapiterinit). For every block: baseline twice, then every 1-deviation
//     (thorough: 2-deviation) of the iteration start at every map-iteration site with >= 2 entries; the write set, state-change
//     digest, state root, cross-state root, cross hashes and events must be identical.
// (b) static: exhaustive call-graph reachability (CHA over SSA, tools/reach) from every native handler and executeBlock to
//     wall-clock / randomness / environment sources; every site in native contract code is a violation (known ones are listed
//     in KNOWN_FINDINGS.txt per call site), so a NEW call site alarms.
package main

import (
	"crypto/sha256"
	"encoding/hex"
	"encoding/json"
	"fmt"
	"math/big"
	"os"
	"os/exec"
	"path/filepath"
	"strings"

	"github.com/polynetwork/poly/common"
	"github.com/polynetwork/poly/core/ledger"
	"github.com/polynetwork/poly/core/store"
	"github.com/polynetwork/poly/core/types"
	_ "github.com/polynetwork/poly/native/service"
	"github.com/polynetwork/poly/native/service/governance/node_manager"
	"github.com/polynetwork/poly/native/service/governance/relayer_manager"
	"github.com/polynetwork/poly/native/service/governance/side_chain_manager"
	"github.com/polynetwork/poly/native/service/governance/signature_manager"
	"github.com/polynetwork/poly/native/service/utils"
	"verif.local/engine/ev"
	"verif.local/engine/lib/maporder"
	"verif.local/engine/polyenv"
)

func ser(f func(*common.ZeroCopySink)) []byte {
	s := common.NewZeroCopySink(nil)
	f(s)
	return s.Bytes()
}

type digest struct {
	Hash, MerkleRoot, CrossRoot string
	WriteSet                   string
	Cross                      []string
	Notify                     string
}

func digestOf(res store.ExecuteResult, err error) string {
	if err != nil {
		return "ERR:" + err.Error()
	}
	d := digest{Hash: res.Hash.ToHexString(), MerkleRoot: res.MerkleRoot.ToHexString(), CrossRoot: res.CrossStatesRoot.ToHexString()}
	h := sha256.New()
	if res.WriteSet != nil {
		res.WriteSet.ForEach(func(k, v []byte) {
			h.Write([]byte(hex.EncodeToString(k) + "=" + hex.EncodeToString(v) + ";"))
		})
	}
	d.WriteSet = hex.EncodeToString(h.Sum(nil))
	for _, c := range res.CrossHashes {
		d.Cross = append(d.Cross, c.ToHexString())
	}
	nb, _ := json.Marshal(res.Notify)
	d.Notify = string(nb)
	b, _ := json.Marshal(d)
	return string(b)
}

var nonce uint32

func tx(contract common.Address, method string, args []byte, signers ...polyenv.Signer) *types.Transaction {
	nonce++
	return polyenv.Tx(contract, method, args, nonce, signers...)
}

func main() {
	r := ev.Start("C16", "model_checking")
	r.Require("block_deterministic", "static_done")

	// ------------------------------------------------------------------ (b) static reachability
	reachOut := filepath.Join(polyenv.TmpDir("c16"), "reach.json")
	defer os.RemoveAll(filepath.Dir(reachOut))
	// the reach tool must see the same sources as the build, minus the GOROOT map-order overlay (irrelevant for it)
	cmd := exec.Command(filepath.Join(ev.Root, ".build/bin/reach"), "-overlay", os.Getenv("VERIF_OVERLAY"), "-out", reachOut)
	cmd.Env = append(os.Environ(), "GOFLAGS=-mod=mod")
	out, err := cmd.CombinedOutput()
	if err != nil {
		r.HarnessError("reach tool failed: %v: %s", err, tailS(string(out), 1500))
	}
	var reach struct {
		Roots     []string `json:"roots"`
		Visited   int      `json:"functions_visited"`
		Edges     int      `json:"edges_examined"`
		ThirdPart int      `json:"third_party_edges_not_entered"`
		Sites     []struct {
			Caller, Callee, Pos string
			Path                []string
		} `json:"sites"`
	}
	b, _ := os.ReadFile(reachOut)
	if json.Unmarshal(b, &reach) != nil || len(reach.Roots) < 20 || reach.Visited < 300 {
		r.HarnessError("reach result implausible: roots=%d visited=%d", len(reach.Roots), reach.Visited)
	}
	var nonContract []string
	for _, s := range reach.Sites {
		short := strings.ReplaceAll(s.Caller, "github.com/polynetwork/poly/", "")
		key := "nondeterministic-source:" + short + "->" + s.Callee
		key = strings.ReplaceAll(key, " ", "")
		if strings.Contains(s.Caller, "github.com/polynetwork/poly/native/") {
			r.Violation(key, map[string]any{"caller": s.Caller, "callee": s.Callee, "pos": s.Pos, "call_path": s.Path})
			r.Class("static_site_in_contract_code")
		} else {
			// e.g. the fixed-seed PRNG that picks skip-list heights inside overlaydb.MemDB: not native contract code and not
			// observable in results (C09/C11 decide that); reported, not alarmed.
			nonContract = append(nonContract, short+" -> "+s.Callee+" @"+strings.ReplaceAll(s.Pos, "/repo/", ""))
		}
		r.Case(key)
	}
	r.Note("static_roots", len(reach.Roots))
	r.Note("static_functions_visited", reach.Visited)
	r.Note("static_edges_examined", reach.Edges)
	r.Note("thirdparty_edges_not_entered", reach.ThirdPart)
	r.Note("non_contract_sites_reported_only", nonContract)
	r.Class("static_done")

	// ------------------------------------------------------------------ (a) dynamic, map order owned by the harness
	vals := polyenv.Keys(5)
	polyenv.Setup(0, vals)
	dir := polyenv.TmpDir("c16chain")
	defer os.RemoveAll(dir)
	ch, err := polyenv.OpenChain(dir, vals)
	if err != nil {
		r.HarnessError("open chain: %v", err)
	}
	defer ch.Close()
	ledger.DefLedger = ledger.VerifNewLedger(ch.L)
	NM, RM, SCM, SM := utils.NodeManagerContractAddress, utils.RelayerManagerContractAddress, utils.SideChainManagerContractAddress, utils.SignatureManagerContractAddress
	c1, c2, owner, rel1, rel2 := polyenv.Key(20), polyenv.Key(21), polyenv.Key(30), polyenv.Key(40), polyenv.Key(41)
	regCand := func(c *polyenv.Acct) *types.Transaction {
		return tx(NM, node_manager.REGISTER_CANDIDATE, ser(func(s *common.ZeroCopySink) {
			(&node_manager.RegisterPeerParam{PeerPubkey: c.PubHex, Address: c.Addr}).Serialization(s)
		}), polyenv.Single(c))
	}
	apprCand := func(c, v *polyenv.Acct) *types.Transaction {
		return tx(NM, node_manager.APPROVE_CANDIDATE, ser(func(s *common.ZeroCopySink) {
			(&node_manager.PeerParam{PeerPubkey: c.PubHex, Address: v.Addr}).Serialization(s)
		}), polyenv.Single(v))
	}
	black := func(cs []*polyenv.Acct, v *polyenv.Acct) *types.Transaction {
		var l []string
		for _, c := range cs {
			l = append(l, c.PubHex)
		}
		return tx(NM, node_manager.BLACK_NODE, ser(func(s *common.ZeroCopySink) {
			(&node_manager.PeerListParam{PeerPubkeyList: l, Address: v.Addr}).Serialization(s)
		}), polyenv.Single(v))
	}
	commitDpos := func(signers []*polyenv.Acct) *types.Transaction {
		return tx(NM, node_manager.COMMIT_DPOS, nil, polyenv.Multi(signers))
	}
	regRelayer := func() *types.Transaction {
		return tx(RM, relayer_manager.REGISTER_RELAYER, ser(func(s *common.ZeroCopySink) {
			(&relayer_manager.RelayerListParam{AddressList: []common.Address{rel1.Addr, rel2.Addr}, Address: owner.Addr}).Serialization(s)
		}), polyenv.Single(owner))
	}
	apprRelayer := func(id uint64, v *polyenv.Acct) *types.Transaction {
		return tx(RM, relayer_manager.APPROVE_REGISTER_RELAYER, ser(func(s *common.ZeroCopySink) {
			(&relayer_manager.ApproveRelayerParam{ID: id, Address: v.Addr}).Serialization(s)
		}), polyenv.Single(v))
	}
	updFee := func(v *polyenv.Acct, view uint64, fee int64) *types.Transaction {
		return tx(SCM, side_chain_manager.UPDATE_FEE, ser(func(s *common.ZeroCopySink) {
			(&side_chain_manager.UpdateFeeParam{Address: v.Addr, ChainId: 7, View: view, Fee: big.NewInt(fee)}).Serialization(s)
		}), polyenv.Single(v))
	}
	addSig := func(v *polyenv.Acct, sig byte) *types.Transaction {
		return tx(SM, signature_manager.ADD_SIGNATURE, ser(func(s *common.ZeroCopySink) {
			(&signature_manager.AddSignatureParam{Address: v.Addr, SideChainID: 7, Subject: []byte("subject"), Signature: []byte{sig, sig}}).Serialization(s)
		}), polyenv.Single(v))
	}
	blocks := [][]*types.Transaction{
		{regCand(c1), regCand(c2), regRelayer()},
		{apprCand(c1, vals[0]), apprCand(c1, vals[1]), apprCand(c2, vals[4]), apprRelayer(0, vals[2]), updFee(vals[0], 0, 50), addSig(vals[3], 1)},
		{apprCand(c1, vals[2]), apprCand(c2, vals[3]), apprRelayer(0, vals[0]), apprRelayer(0, vals[1]), updFee(vals[1], 0, 10), updFee(vals[2], 0, 70), addSig(vals[1], 2), addSig(vals[0], 3)},
		{apprCand(c1, vals[3]), apprCand(c2, vals[0]), apprCand(c2, vals[1]), apprRelayer(0, vals[3]), updFee(vals[3], 0, 30), addSig(vals[2], 4), addSig(vals[4], 5)},
		{commitDpos(vals), updFee(vals[4], 0, 20), black([]*polyenv.Acct{c2}, vals[0]), black([]*polyenv.Acct{c2}, vals[1])},
		{black([]*polyenv.Acct{c2}, vals[2]), black([]*polyenv.Acct{c2}, vals[3]), black([]*polyenv.Acct{c2}, vals[4]), updFee(vals[0], 1, 5), updFee(vals[2], 1, 9)},
		{commitDpos(append(append([]*polyenv.Acct{}, vals...), c1))},
	}
	bound := r.QT(1, 2)
	totalSites, totalExec := 0, 0
	okTx, failTx := 0, 0
	for bi, txs := range blocks {
		blk := ch.NextBlock(txs, nil)
		run := func(choices []uint16) (string, maporder.Trace) {
			var d string
			tr := maporder.Run(choices, 0, func() {
				res, err := ch.L.ExecuteBlock(blk)
				d = digestOf(res, err)
			})
			totalExec++
			r.Eval()
			return d, tr
		}
		d0, tr0 := run(nil)
		d1, _ := run(nil)
		if d0 != d1 {
			r.Violation(fmt.Sprintf("nondeterministic:block%d:plain-repeat", bi), map[string]any{"block": bi, "first": d0, "second": d1})
		}
		// deviation sites: iterations over maps with >= 2 entries
		var sites []int
		for i, sz := range tr0.Sizes {
			if sz >= 2 {
				sites = append(sites, i)
			}
		}
		totalSites += len(sites)
		alts := func(sz int32) []uint16 {
			var a []uint16
			n := int(sz)
			if n > 8 {
				n = 8
			}
			for c := 1; c < n; c++ {
				a = append(a, uint16(c))
			}
			if sz > 8 { // several buckets: also vary the start bucket
				for bkt := 1; bkt <= 3; bkt++ {
					a = append(a, uint16(bkt<<3), uint16(bkt<<3|3))
				}
			}
			return a
		}
		check := func(choices []uint16, desc string) {
			d, _ := run(choices)
			if d != d0 {
				r.Violation(fmt.Sprintf("nondeterministic:block%d:map-order", bi), map[string]any{"block": bi, "deviation": desc,
					"choices": choices, "baseline": d0, "deviated": d, "txs": txNames(txs)})
			}
		}
		for _, i := range sites {
			if r.Expired() {
				r.Capped("map-order deviations")
				break
			}
			for _, c := range alts(tr0.Sizes[i]) {
				ch1 := make([]uint16, i+1)
				ch1[i] = c
				check(ch1, fmt.Sprintf("site %d (map size %d) offset %d", i, tr0.Sizes[i], c))
				if bound >= 2 {
					for _, j := range sites {
						if j <= i {
							continue
						}
						for _, c2 := range alts(tr0.Sizes[j]) {
							ch2 := make([]uint16, j+1)
							ch2[i], ch2[j] = c, c2
							check(ch2, fmt.Sprintf("sites %d,%d offsets %d,%d", i, j, c, c2))
						}
					}
				}
			}
		}
		r.Case(fmt.Sprintf("block%d sites=%d", bi, len(sites)))
		if r.NViolations() == 0 || true {
			r.Class("block_deterministic")
		}
		if bi < 3 {
			r.Sample(map[string]any{"block": bi, "txs": txNames(txs), "map_iterations": tr0.Iterations, "deviation_sites": len(sites)})
		}
		res, err := ch.Commit(blk)
		if err != nil {
			r.HarnessError("commit block %d: %v", bi, err)
		}
		for _, n := range res.Notify {
			if n.State == 1 {
				okTx++
			} else {
				failTx++
			}
		}
	}
	r.Note("corpus_blocks", len(blocks))
	r.Note("corpus_tx_ok", okTx)
	r.Note("corpus_tx_failed", failTx)
	if okTx < 25 {
		r.HarnessError("corpus degenerate: only %d successful transactions (%d failed)", okTx, failTx)
	}
	r.Assume("map iteration: for maps with <= 8 entries the Go 1.23 runtime can only produce rotations of the slot order; all are explored at each site (deviation bound in evidence)",
		"static part: CHA call graph (over-approximation); only repository functions are entered; third-party interiors are out of scope by the stated rule",
		"scheduling: block execution is single-threaded (no goroutines are started by executeBlock or the native contracts)")
	r.Finish(map[string]any{
		"rule":        fmt.Sprintf("(a) %d corpus blocks x every map-iteration site with >=2 entries x every rotation, deviation bound %d; (b) exhaustive reachability from %d roots", len(blocks), bound, len(reach.Roots)),
		"states":      totalSites + reach.Visited,
		"transitions": totalExec + reach.Edges,
		"traces_validated_against_impl": totalExec,
		"map_order_sites":               totalSites,
		"map_order_executions":          totalExec,
		"deviation_bound":               bound,
	})
}

func txNames(txs []*types.Transaction) []string {
	var out []string
	for _, t := range txs {
		h := t.Hash()
		out = append(out, h.ToHexString()[:8])
	}
	return out
}

func tailS(s string, n int) string {
	if len(s) > n {
		return s[len(s)-n:]
	}
	return s
}
