package main

// Ripple side of the corpus: a 3-of-4 multi-signing account. The raw payment is produced by the real
// ripple.MakeTransaction (vote-router import released towards the ripple chain); the signer entries are real
// multi-signatures over it (rubblelabs/ripple data.MultiSign), submitted through MultiSignRipple one signer at a time.

import (
	"crypto/sha256"
	"encoding/hex"
	"encoding/json"
	"fmt"
	"math/big"
	"strings"

	"github.com/polynetwork/poly/common"
	scom "github.com/polynetwork/poly/native/service/cross_chain_manager/common"
	rp "github.com/polynetwork/poly/native/service/cross_chain_manager/ripple"
	"github.com/polynetwork/poly/native/service/governance/side_chain_manager"
	rtypes "github.com/polynetwork/ripple-sdk/types"
	rcrypto "github.com/rubblelabs/ripple/crypto"
	"github.com/rubblelabs/ripple/data"
	"verif.local/engine/polyenv"
)

func sha(s string) []byte {
	h := sha256.Sum256([]byte(s))
	return h[:]
}

type rippleEnv struct {
	operator *polyenv.Acct
	signers  []*rtypes.Account
	pks      [][]byte
	vault    data.Account // the multi-signing account (asset address = lock proxy on the ripple chain)
	payee    data.Account
}

func newRippleEnv() *rippleEnv {
	e := &rippleEnv{operator: polyenv.Key(901)}
	for i := 0; i < 4; i++ {
		key, err := rcrypto.NewECDSAKey(sha(fmt.Sprintf("c16-ripple-signer-%d", i))[:16])
		if err != nil {
			panic(err)
		}
		var seq uint32
		id, err := rcrypto.AccountId(key, &seq)
		if err != nil {
			panic(err)
		}
		a := &rtypes.Account{Key: key}
		copy(a.Account[:], id.Payload())
		e.signers = append(e.signers, a)
		e.pks = append(e.pks, key.Public(&seq))
	}
	copy(e.vault[:], sha("c16-ripple-vault"))
	copy(e.payee[:], sha("c16-ripple-payee"))
	return e
}

func (e *rippleEnv) extraInfo() []byte {
	x := &side_chain_manager.RippleExtraInfo{Operator: e.operator.Addr, Sequence: 1, Quorum: 3, SignerNum: 4, Pks: e.pks, ReserveAmount: big.NewInt(1)}
	s := common.NewZeroCopySink(nil)
	x.Serialization(s)
	return s.Bytes()
}

// multiSignTx builds MultiSignRipple carrying the signatures of the given signers over the raw payment the chain emitted.
func (e *rippleEnv) multiSignTx(c *corpus, srcTx []byte, who []int, want bool) ctx {
	raw := c.lastEvent("rippleTxJson")[4].(string)
	mp := &rtypes.MultisignPayment{}
	for _, i := range who {
		p, err := e.signers[i].MultiSignTx(raw)
		if err != nil {
			panic(err)
		}
		sg := p.Signers[len(p.Signers)-1]
		s := &rtypes.Signer{}
		s.Signer.Account = sg.Signer.Account.String()
		s.Signer.SigningPubKey = strings.ToUpper(hex.EncodeToString(sg.Signer.SigningPubKey[:]))
		s.Signer.TxnSignature = strings.ToUpper(hex.EncodeToString(*sg.Signer.TxnSignature))
		mp.Signers = append(mp.Signers, s)
	}
	js, err := json.Marshal(mp)
	if err != nil {
		panic(err)
	}
	p := &rp.MultiSignParam{ToChainId: chRipple, AssetAddress: e.vault[:], FromChainId: chVote, TxHash: srcTx, TxJson: string(js)}
	s := common.NewZeroCopySink(nil)
	p.Serialization(s)
	return ctx{tx(CCM, scom.MULTI_SIGN_RIPPLE, s.Bytes(), polyenv.Single(polyenv.Key(30))), fmt.Sprintf("cross_chain_manager.MultiSignRipple/signers%v", who), want}
}

func (e *rippleEnv) reconstructTx(srcTx []byte) ctx {
	p := &rp.ReconstructTxParam{FromChainId: chVote, TxHash: srcTx, ToChainId: chRipple}
	s := common.NewZeroCopySink(nil)
	p.Serialization(s)
	return ok(tx(CCM, scom.RECONSTRUCT_RIPPLE_TX, s.Bytes(), polyenv.Single(polyenv.Key(30))), "cross_chain_manager.ReconstructRippleTx")
}
