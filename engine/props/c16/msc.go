package main

// msc (clique) light client in the corpus: three signers, a sealed checkpoint header as trust root and two in-turn sealed
// headers on top (lib/posa does the seal hash / signing). Exercises Snapshot.signers() (map of 3 signers).

import (
	"bytes"
	"math/big"
	"sort"

	ecommon "github.com/ethereum/go-ethereum/common"
	etypes "github.com/ethereum/go-ethereum/core/types"
	"github.com/polynetwork/poly/native/service/header_sync/eth"
	on "verif.local/engine/lib/ontneo"
	"verif.local/engine/lib/posa"
)

const (
	mscEpoch   = 3
	mscGenesis = 6
)

type mscEnv struct {
	rt   *posa.Router
	keys []posa.Key // sorted by address
}

func newMscEnv() *mscEnv {
	e := &mscEnv{rt: posa.RouterByName(posa.Routers(mscEpoch, 4), "msc")}
	for i := 0; i < 3; i++ {
		e.keys = append(e.keys, posa.KeyOf(i))
	}
	sort.Slice(e.keys, func(i, j int) bool { return bytes.Compare(e.keys[i].Addr[:], e.keys[j].Addr[:]) < 0 })
	return e
}

func (e *mscEnv) extraInfo() []byte { return e.rt.ExtraInfo }

func (e *mscEnv) header(parent *eth.Header, number uint64, withList bool) *eth.Header {
	h := &eth.Header{UncleHash: posa.UncleHash, TxHash: etypes.EmptyRootHash, ReceiptHash: etypes.EmptyRootHash, Root: etypes.EmptyRootHash,
		Difficulty: big.NewInt(2), Number: new(big.Int).SetUint64(number), GasLimit: 30_000_000, GasUsed: 21000, Time: posa.PastTime}
	if parent != nil {
		h.ParentHash = e.rt.Hash(parent)
		h.Time = parent.Time + 3
	}
	var list []byte
	if withList {
		var a []ecommon.Address
		for _, k := range e.keys {
			a = append(a, k.Addr)
		}
		list = posa.AddrList(a)
	}
	h.Extra = posa.Extra(posa.Vanity, list)
	e.rt.Sign(h, e.keys[number%uint64(len(e.keys))])
	return h
}

func (e *mscEnv) steps(c *corpus) []step {
	g := e.header(nil, mscGenesis, true)
	h1 := e.header(g, mscGenesis+1, false)
	h2 := e.header(h1, mscGenesis+2, false)
	return []step{
		{name: "msc: checkpoint trust root", build: func() []ctx {
			return []ctx{ok(on.GenesisTx(c.vals, chMsc, e.rt.GenesisRaw(g, nil, nil, 0, ecommon.Address{})), "header_sync.syncGenesisHeader/msc")}
		}},
		{name: "msc: two sealed headers", build: func() []ctx {
			return []ctx{ok(on.HeadersTx(chMsc, e.rt.Raw(h1), e.rt.Raw(h2)), "header_sync.syncBlockHeader/msc")}
		}},
	}
}
