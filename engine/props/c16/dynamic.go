package main

// Dynamic part of C16: the corpus blocks are dry-run (LedgerStoreImp.ExecuteBlock) under every 1-deviation (thorough:
// 2-deviation) of the map-iteration start at every iteration with >= 2 entries; every iteration is attributed to its
// source-level `range` statement through the call-site PCs recorded by props/c16/goroot/zz_verif_map.go.txt.

import (
	"fmt"
	"os"
	"runtime"
	"sort"
	"strings"
	"time"
	_ "unsafe"

	"github.com/polynetwork/poly/common"
	"github.com/polynetwork/poly/common/log"
	"github.com/polynetwork/poly/core/ledger"
	"github.com/polynetwork/poly/core/store"
	"github.com/polynetwork/poly/core/types"
	"github.com/polynetwork/poly/native/service/governance/side_chain_manager"
	"verif.local/engine/ev"
	"verif.local/engine/lib/maporder"
	"verif.local/engine/lib/src"
	"verif.local/engine/polyenv"
)

//go:linkname verifMapArmPCs runtime.verifMapArmPCs
func verifMapArmPCs(pcs []uintptr)

const pcDepth = 8 // = verifMapPCDepth of the runtime file

// where = the source position of one map iteration: the innermost frame outside runtime / reflect.
type where struct {
	file string // repo-relative if inside the repository (mutant overlays mapped back), else absolute
	line int
	fn   string
	repo bool
}

func (w where) key() string { return fmt.Sprintf("%s:%d", w.file, w.line) }

var overlayBack map[string]string // replacement path -> repo-relative path

func locate(pcs []uintptr) where {
	n := 0
	for n < len(pcs) && pcs[n] != 0 {
		n++
	}
	if n == 0 {
		return where{file: "?", fn: "?"}
	}
	fr := runtime.CallersFrames(pcs[:n])
	for {
		f, more := fr.Next()
		if !strings.HasPrefix(f.Function, "runtime.") && !strings.HasPrefix(f.Function, "reflect.") && f.Function != "" {
			w := where{file: f.File, line: f.Line, fn: f.Function}
			if overlayBack == nil {
				overlayBack = map[string]string{}
				for orig, repl := range src.Replaced() {
					if repl != "" && strings.HasPrefix(orig, src.Repo+"/") {
						overlayBack[repl] = strings.TrimPrefix(orig, src.Repo+"/")
					}
				}
			}
			if rel, ok := overlayBack[w.file]; ok {
				w.file, w.repo = rel, true
			} else if strings.HasPrefix(w.file, src.Repo+"/") {
				w.file, w.repo = strings.TrimPrefix(w.file, src.Repo+"/"), true
			}
			return w
		}
		if !more {
			return where{file: "?", fn: f.Function}
		}
	}
}

type siteObs struct {
	w        where
	reached  int
	maxSize  int32
	explored int
	blocks   map[int]bool
}

type history struct {
	name    string
	prelude func()
}

type dynResult struct {
	historyRuns, coldCompared int
	bound, blocks, txs     int
	totalSites, totalExec  int
	okTx, failTx           int
	methods                map[string]int
	obs                    map[string]*siteObs // by where.key()
	perBlock               []map[string]any
	codecChecks            int
}

func (d *dynResult) observe(w where, size int32, block int, explored bool) {
	o := d.obs[w.key()]
	if o == nil {
		o = &siteObs{w: w, blocks: map[int]bool{}}
		d.obs[w.key()] = o
	}
	o.reached++
	if size > o.maxSize {
		o.maxSize = size
	}
	if explored {
		o.explored++
	}
	o.blocks[block] = true
}

func alts(sz int32) []uint16 {
	var a []uint16
	n := int(sz)
	if n > 8 {
		n = 8
	}
	for c := 1; c < n; c++ {
		a = append(a, uint16(c))
	}
	if sz > 8 { // several buckets: also vary the start bucket
		for bkt := 1; bkt <= 3; bkt++ {
			a = append(a, uint16(bkt<<3), uint16(bkt<<3|3))
		}
	}
	return a
}

// explore runs f under the baseline order twice and under every deviation; report(desc, choices, base, got) on a difference.
// It returns the reference trace positions. pairCap bounds the number of sites taking part in 2-deviations.
// hist = process-history variants: each prelude is run (its result discarded), then the block is executed once more under the
// baseline order and must give the baseline result. onBaseline is called right after the reference execution.
func explore(r *ev.Run, d *dynResult, block int, bound, pairCap int, exec func(), result func() string, report func(kind, desc string, at where, choices []uint16, base, got string),
	onBaseline func(digest string), hist []history) (iterations, nsites int, capped bool) {
	pcs := make([]uintptr, pcDepth*4096)
	run := func(choices []uint16, record bool) (string, maporder.Trace) {
		tr := maporder.Run(choices, 0, func() {
			if record {
				verifMapArmPCs(pcs)
			}
			exec()
		})
		d.totalExec++
		r.Eval()
		return result(), tr // digest computed outside the armed region (its own map walks are not the code under test)
	}
	// history (a'): first execution of this block in this process (earlier blocks were executed, discarded and committed);
	// history (b): again, after its own discarded execution. (The really cold reference comes from the child process.)
	d0, _ := run(nil, false)
	d1, tr := run(nil, true)
	if onBaseline != nil {
		onBaseline(d1)
	}
	if d0 != d1 {
		report("process-history", "first execution in the process vs. the execution after its own discarded execution", where{}, nil, d0, d1)
	}
	for _, h := range hist {
		maporder.Run(nil, 0, h.prelude)
		got, _ := run(nil, false)
		d.historyRuns++
		if got != d1 {
			report("process-history", h.name, where{}, nil, d1, got)
		}
	}
	if tr.Iterations > len(tr.Sizes) {
		bail(r, "block %d: %d map iterations exceed the trace buffer", block, tr.Iterations)
	}
	var sites []int
	for i, sz := range tr.Sizes {
		w := locate(pcs[i*pcDepth : (i+1)*pcDepth])
		d.observe(w, sz, block, sz >= 2)
		if sz >= 2 {
			sites = append(sites, i)
		}
	}
	d.totalSites += len(sites)
	check := func(choices []uint16, at where, desc string) {
		got, _ := run(choices, false)
		if got != d1 {
			report("map-order", desc, at, choices, d1, got)
		}
	}
	pairSites := sites
	if bound >= 2 && len(pairSites) > pairCap {
		pairSites = pairSites[:pairCap]
		capped = true
	}
	for _, i := range sites {
		if r.Expired() {
			r.Capped("map-order deviations")
			return tr.Iterations, len(sites), capped
		}
		wi := locate(pcs[i*pcDepth : (i+1)*pcDepth])
		for _, c := range alts(tr.Sizes[i]) {
			ch1 := make([]uint16, i+1)
			ch1[i] = c
			check(ch1, wi, fmt.Sprintf("iteration %d at %s (%d entries) starts at offset %d", i, wi.key(), tr.Sizes[i], c))
		}
	}
	if bound >= 2 {
		for a, i := range pairSites {
			for _, j := range pairSites[a+1:] {
				if r.Expired() {
					r.Capped("map-order 2-deviations")
					return tr.Iterations, len(sites), capped
				}
				for _, c := range alts(tr.Sizes[i]) {
					for _, c2 := range alts(tr.Sizes[j]) {
						ch2 := make([]uint16, j+1)
						ch2[i], ch2[j] = c, c2
						check(ch2, locate(pcs[i*pcDepth:(i+1)*pcDepth]), fmt.Sprintf("iterations %d,%d start at offsets %d,%d", i, j, c, c2))
					}
				}
			}
		}
	}
	return tr.Iterations, len(sites), capped
}

func dynamicPart(r *ev.Run) *dynResult {
	if os.Getenv("VERIF_C16_DEBUG") != "" {
		log.InitLog(log.DebugLog, os.Stdout)
	}
	d := &dynResult{bound: r.QT(1, 2), methods: map[string]int{}, obs: map[string]*siteObs{}}
	pairCap := 64 // no corpus block has that many sites today: bound 2 is complete in thorough
	vals := polyenv.Keys(5)
	polyenv.Setup(0, vals)
	dir := polyenv.TmpDir("c16chain")
	scratch = append(scratch, dir) // removed by cleanScratch (main) or bail
	ch, err := polyenv.OpenChain(dir, vals)
	if err != nil {
		bail(r, "open chain: %v", err)
	}
	defer ch.Close() // the directory itself is removed after the static part has reported
	ledger.DefLedger = ledger.VerifNewLedger(ch.L)

	c := &corpus{vals: vals, rip: newRippleEnv(), btc: newBtcEnv(), msc: newMscEnv()}
	anyCapped := false
	t0 := time.Now()
	cold := startColdChild(r)
	var baselines, blockNames []string
	var blockKeys []string
	var prevTxs []*types.Transaction
	defer func() { cold.kill() }()
	for bi, st := range c.steps() {
		items := st.build()
		var txs []*types.Transaction
		var names []string
		for _, it := range items {
			txs = append(txs, it.tx)
			names = append(names, it.name)
			m := it.name
			if k := strings.IndexByte(m, '/'); k >= 0 {
				m = m[:k]
			}
			d.methods[m]++
		}
		blk := ch.NextBlock(txs, nil)
		cold.send(blk) // the child executes it exactly once in a fresh process, concurrently
		bkey := blockKey(st.name, names)
		var xres, baseRes store.ExecuteResult
		var xerr error
		var hist []history
		if !st.expensive || r.Thorough() {
			txs, prev := txs, prevTxs
			hist = []history{
				{"after a pre-execution (LedgerStoreImp.PreExecuteContract) of each of its transactions", func() {
					for _, t := range txs {
						ev.Guard(func() { ch.L.PreExecuteContract(t) })
					}
				}},
				{"after a discarded execution of a different block on the same state (previous corpus block's transactions, then this block's in reverse order)", func() {
					alt := append([]*types.Transaction{}, prev...)
					for i := len(txs) - 1; i >= 0; i-- {
						alt = append(alt, txs[i])
					}
					ev.Guard(func() { ch.L.ExecuteBlock(ch.NextBlock(alt, nil)) })
				}},
			}
		}
		iters, nsites, capped := explore(r, d, bi, d.bound, pairCap, func() { xres, xerr = ch.L.ExecuteBlock(blk) }, func() string { return digestOf(xres, xerr) }, func(kind, desc string, at where, choices []uint16, base, got string) {
			if kind == "process-history" {
				at = where{fn: bkey}
			}
			r.Violation(violKey(kind, at, diffField(base, got, names)), map[string]any{"block": bi, "block_name": st.name,
				"deviation": desc, "iteration_site": at.key(), "iteration_func": at.fn, "choices": choices, "baseline": clip(base), "deviated": clip(got), "txs": names, "differs_in": diffField(base, got, names)})
		}, func(dg string) { baseRes = xres; baselines = append(baselines, dg) }, hist)
		blockNames, blockKeys, prevTxs = append(blockNames, st.name), append(blockKeys, bkey), txs
		anyCapped = anyCapped || capped
		r.Case(fmt.Sprintf("block%d sites=%d", bi, nsites))
		r.Class("block_deterministic")
		// commit the result of the reference execution (baseline order): the chain the later blocks build on does not depend on
		// this process' random seed, and expensive blocks are not executed once more
		res := baseRes
		if xerr != nil && res.WriteSet == nil {
			bail(r, "execute block %d (%s): %v", bi, st.name, xerr)
		}
		err := ch.L.SubmitBlock(blk, res)
		if err != nil {
			bail(r, "commit block %d (%s): %v", bi, st.name, err)
		}
		if len(res.Notify) != len(items) {
			bail(r, "block %d: %d results for %d transactions", bi, len(res.Notify), len(items))
		}
		nok := 0
		for i, n := range res.Notify {
			got := n.State == 1
			if got {
				d.okTx++
				nok++
			} else {
				d.failTx++
			}
			if got != items[i].want {
				if r.NViolations() > 0 { // an order dependence already reported changed the course of the corpus: report that, not the corpus
					r.Capped(fmt.Sprintf("corpus cut short at block %d: an outcome changed after a violation", bi))
					return d
				}
				bail(r, "corpus block %d (%s) tx %d %s: success=%v, expected %v (VERIF_C16_DEBUG=1 prints the contract error)", bi, st.name, i, items[i].name, got, items[i].want)
			}
		}
		c.events = append(c.events, res.Notify...)
		if os.Getenv("VERIF_C16_DEBUG") != "" {
			fmt.Printf("block %d %-70s txs=%d ok=%d iters=%d sites=%d exec_total=%d t=%s\n", bi, st.name, len(items), nok, iters, nsites, d.totalExec, time.Since(t0).Round(time.Millisecond))
		}
		d.perBlock = append(d.perBlock, map[string]any{"block": bi, "name": st.name, "txs": names, "tx_ok": nok, "tx_failed": len(items) - nok,
			"map_iterations": iters, "deviation_sites": nsites, "cross_hashes": len(res.CrossHashes)})
		if bi < 3 {
			r.Sample(map[string]any{"block": bi, "name": st.name, "txs": names, "map_iterations": iters, "deviation_sites": nsites})
		}
		d.blocks++
		d.txs += len(items)
	}
	// the cold reference: a fresh process that executed every block exactly once
	coldDigests, cerr := cold.finish()
	if cerr != nil && r.NViolations() == 0 {
		bail(r, "cold child: %v", cerr)
	}
	for i, dg := range coldDigests {
		if i >= len(baselines) {
			break
		}
		d.coldCompared++
		r.Eval()
		if dg != baselines[i] {
			f := diffField(baselines[i], dg, nil)
			r.Violation(violKey("process-history", where{fn: blockKeys[i]}, f), map[string]any{"block": i, "block_name": blockNames[i],
				"deviation": "fresh process that executes every corpus block exactly once (cold) vs. this process after discarded executions", "baseline": clip(baselines[i]), "deviated": clip(dg), "differs_in": f})
			break // the two chains have diverged: every later state root differs as a consequence
		}
	}
	if cerr == nil && r.NViolations() == 0 && d.coldCompared != len(baselines) {
		bail(r, "cold child answered for %d of %d blocks", d.coldCompared, len(baselines))
	}
	r.Note("process_history_variants", []string{"fresh process, every block executed exactly once (child process, all blocks)",
		"first execution of the block in the exploring process", "after its own discarded execution",
		"after a pre-execution of each of its transactions", "after a discarded execution of a different block on the same state",
		"(expensive blocks, quick tier: the last two are skipped)"})
	r.Note("process_history_executions", d.historyRuns+2*d.blocks)
	r.Note("cold_child_blocks_compared", d.coldCompared)
	if anyCapped {
		r.Capped(fmt.Sprintf("2-deviations restricted to the first %d iteration sites of a block", pairCap))
	}
	// encoders with map-typed members that run on the client side only (never during block execution): same exploration
	am := map[uint64][]byte{3: {3}, 1: {1}, 2: {2}, 9: {9}}
	lm := map[uint64][]byte{7: {7}, 5: {5}, 6: {6}}
	var enc []byte
	explore(r, d, -1, d.bound, pairCap, func() {
		enc = ser(func(s *common.ZeroCopySink) {
			(&side_chain_manager.RegisterAssetParam{ChainId: 1, AssetMap: am, LockProxyMap: lm}).Serialization(s)
		})
	}, func() string { return fmt.Sprintf("%x", enc) }, func(kind, desc string, at where, choices []uint16, base, got string) {
		r.Violation("nondeterministic:encoder:RegisterAssetParam.Serialization", map[string]any{"deviation": desc, "choices": choices, "baseline": base, "deviated": got})
	}, nil, nil)
	d.codecChecks++
	r.Note("corpus", d.perBlock)
	r.Note("corpus_blocks", d.blocks)
	r.Note("corpus_tx_ok", d.okTx)
	r.Note("corpus_tx_failed", d.failTx)
	r.Note("corpus_methods", d.methods)
	if r.NViolations() == 0 && (d.okTx < 120 || d.failTx < 5) {
		bail(r, "corpus degenerate: %d successful / %d failed transactions", d.okTx, d.failTx)
	}
	return d
}

// blockKey identifies a corpus block in process-history violation keys: its distinct contract methods (<= 3), else its name.
func blockKey(name string, txNames []string) string {
	var ms []string
	seen := map[string]bool{}
	for _, n := range txNames {
		if k := strings.IndexByte(n, '/'); k >= 0 {
			n = n[:k]
		}
		if !seen[n] {
			seen[n] = true
			ms = append(ms, n)
		}
	}
	if len(ms) > 3 {
		return "block(" + name + ")"
	}
	return strings.Join(ms, "+")
}

// violKey: stable and specific = kind, the function whose map iteration was deviated, the result component that differs.
func violKey(kind string, at where, field string) string {
	fn := strings.TrimPrefix(at.fn, repoMod)
	if fn == "" {
		fn = "-"
	}
	return fmt.Sprintf("nondeterministic:%s:%s:%s", kind, fn, field)
}

// diffField names the first component of the digest that differs (stable violation key).
func diffField(a, b string, names []string) string {
	da, db := parseDigest(a), parseDigest(b)
	switch {
	case da == nil || db == nil:
		return "error"
	case da.WriteSet != db.WriteSet || da.Hash != db.Hash || da.MerkleRoot != db.MerkleRoot:
		return "write-set"
	case da.CrossRoot != db.CrossRoot || strings.Join(da.Cross, ",") != strings.Join(db.Cross, ","):
		return "cross-states"
	case da.Notify != db.Notify:
		return "events:" + firstEventDiff(da.Notify, db.Notify, names)
	}
	return "other"
}

func clip(s string) string {
	if len(s) > 6000 {
		return s[:6000] + "...(clipped)"
	}
	return s
}

// siteEvidence joins the static list with what the corpus reached and writes `map_range_sites`.
func siteEvidence(r *ev.Run, d *dynResult, sites []*Site, pkgs int) {
	reasons := map[string]string{
		"native/service/cross_chain_manager/btc/btc_handler.go:makeBtcTx": "structurally one entry: MakeTransaction fills `amounts` with the single recipient of the message; reached with 1 entry",
		"native/service/cross_chain_manager/btc/utils.go:getTxOuts":       "same single-entry `amounts` map as makeBtcTx; reached with 1 entry",
		"native/service/header_sync/eth/cache.go:(*Caches).deleteCaches":   "ethash epoch caches: filled only by real proof-of-work verification (tens of MB per epoch, >= 2 entries needs headers of two epochs in one transaction); the offline ETH corpus of the framework runs with verifhook.SkipSealFlag, so the map stays empty; the loop only deletes",
		"native/service/header_sync/eth/rlp/typecache.go:(*typeCache).generate": "process-global reflect type cache (copy of the whole map on first use of a type): runs once per type per process, i.e. only in the warm-up execution, and is not part of any result",
		"native/service/governance/side_chain_manager/param.go:(*RegisterAssetParam).Serialization": "client-side encoder, not on the block-execution path (the contract only decodes it)",
	}
	byKey := map[string]*Site{}
	for _, s := range sites {
		byKey[s.key()] = s
	}
	covered, total := 0, 0
	var unlisted []map[string]any
	other := map[string]map[string]any{}
	for k, o := range d.obs {
		if s, ok := byKey[k]; ok {
			s.Reached, s.MaxSize, s.Explored = o.reached, o.maxSize, o.explored
			for b := range o.blocks {
				s.Blocks = append(s.Blocks, b)
			}
			sort.Ints(s.Blocks)
			continue
		}
		if o.w.repo {
			unlisted = append(unlisted, map[string]any{"site": k, "func": o.w.fn, "iterations_observed": o.reached, "max_entries_observed": o.maxSize, "iterations_with_ge2_entries": o.explored})
			continue
		}
		e := other[o.w.fn]
		if e == nil {
			e = map[string]any{"iterations_observed": 0, "max_entries_observed": int32(0), "iterations_with_ge2_entries": 0}
			other[o.w.fn] = e
		}
		e["iterations_observed"] = e["iterations_observed"].(int) + o.reached
		e["iterations_with_ge2_entries"] = e["iterations_with_ge2_entries"].(int) + o.explored
		if o.maxSize > e["max_entries_observed"].(int32) {
			e["max_entries_observed"] = o.maxSize
		}
	}
	var notCovered []string
	for _, s := range sites {
		total++
		s.Covered = s.Explored > 0
		if s.Covered {
			covered++
			continue
		}
		why := reasons[s.File+":"+s.Func]
		if why == "" {
			if s.Reached > 0 {
				why = "reached by the corpus only with < 2 entries"
			} else {
				why = "not reached by the corpus"
			}
		}
		s.Why = why
		notCovered = append(notCovered, s.key()+" "+s.Func)
	}
	sort.Slice(unlisted, func(i, j int) bool { return unlisted[i]["site"].(string) < unlisted[j]["site"].(string) })
	r.Note("map_range_sites", sites)
	r.Note("map_range_sites_total", total)
	r.Note("map_range_sites_covered", covered)
	r.Note("map_range_sites_not_covered", notCovered)
	r.Note("map_range_sites_packages_typechecked", pkgs)
	r.Note("map_iterations_in_repo_code_outside_listed_packages", unlisted)
	r.Note("map_iterations_in_third_party_code", other)
	if covered < 20 {
		bail(r, "only %d of %d map-iteration sites were explored with >= 2 entries", covered, total)
	}
}
