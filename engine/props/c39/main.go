// C39 — transaction signature validation is exact.
//
// Bounded-exhaustive enumeration of signature-entry lists, every one serialised, decoded by the real
// transaction decoder and run through validation.VerifyTransaction (the pool-admission path). The reference
// is symbolic: every signature in the alphabet is *constructed* (who signed, over which hash, or garbage), so
// "valid for key position j" is known by construction and no verification code is shared.
//
//	reference(tx)   = |entries| ≤ 16 ∧ ∀ entry: reference(entry)
//	reference(entry)= 1 ≤ m ≤ n ≤ 16 ∧ |sigs| ≥ m ∧ the FIRST m signatures are valid signatures over the tx hash by
//	                  listed keys, no key identity used more often than it is listed (distinct key POSITIONS)
//	addresses       = { hash160(serialised key) | hash160(LE16(n) ‖ varbytes(key)… in canonical order ‖ LE16(m)) }
package main

import (
	"bytes"
	"crypto/elliptic"
	"crypto/sha256"
	"encoding/binary"
	"encoding/hex"
	"fmt"
	"math/big"
	"sort"
	"strings"
	"sync"
	"sync/atomic"
	"time"

	"github.com/ontio/ontology-crypto/keypair"
	s "github.com/ontio/ontology-crypto/signature"
	"github.com/ontio/ontology-eventbus/actor"
	"github.com/polynetwork/poly/common"
	"github.com/polynetwork/poly/common/constants"
	"github.com/polynetwork/poly/core/payload"
	"github.com/polynetwork/poly/core/signature"
	"github.com/polynetwork/poly/core/types"
	"github.com/polynetwork/poly/core/validation"
	ontErrors "github.com/polynetwork/poly/errors"
	"github.com/polynetwork/poly/validator/stateless"
	vatypes "github.com/polynetwork/poly/validator/types"
	"golang.org/x/crypto/ripemd160"
	"verif.local/engine/ev"
	"verif.local/engine/polyenv"
)

// ---------------------------------------------------------------------------------------------
// keys

type key struct {
	id     int
	name   string
	priv   keypair.PrivateKey
	pub    keypair.PublicKey
	scheme s.SignatureScheme
	ser    []byte // serialised public key
}

func (k *key) PrivKey() keypair.PrivateKey { return k.priv }
func (k *key) PubKey() keypair.PublicKey   { return k.pub }
func (k *key) Scheme() s.SignatureScheme   { return k.scheme }

type altScheme struct {
	*key
	sch s.SignatureScheme
}

func (a altScheme) Scheme() s.SignatureScheme { return a.sch }

var allKeys []*key

func addKey(name string, priv keypair.PrivateKey, pub keypair.PublicKey, sch s.SignatureScheme) *key {
	k := &key{id: len(allKeys), name: name, priv: priv, pub: pub, scheme: sch, ser: keypair.SerializePublicKey(pub)}
	allKeys = append(allKeys, k)
	return k
}

// ---------------------------------------------------------------------------------------------
// symbolic signatures

type sym struct {
	name   string
	data   []byte
	signer int  // key identity that produced it, -1 = nobody (garbage)
	okHash bool // made over the hash of the transaction under test
}

func (x sym) validFor(id int) bool { return x.signer == id && x.okHash }

var hashT, hashOther common.Uint256

func mustSign(k signature.Signer, h common.Uint256) []byte {
	d, err := signature.Sign(k, h[:])
	if err != nil {
		panic(err)
	}
	return d
}

var symCache = map[string]sym{}
var symMu sync.Mutex

// V(k): valid signature of k over the tx hash (one fixed byte string per key).
func V(k *key) sym {
	return cached("V:"+k.name, func() sym { return sym{k.name, mustSign(k, hashT), k.id, true} })
}

// V2(k): a second valid signature by the same key (ECDSA: the (r, n-s) twin; otherwise signed again).
func V2(k *key) sym {
	v := V(k)
	return cached("V2:"+k.name, func() sym {
		if k.scheme == s.SHA256withECDSA && len(v.data) == 64 {
			n := elliptic.P256().Params().N
			ss := new(big.Int).SetBytes(v.data[32:])
			ss.Sub(n, ss)
			d := append([]byte{}, v.data[:32]...)
			sb := ss.Bytes()
			d = append(d, make([]byte, 32-len(sb))...)
			d = append(d, sb...)
			return sym{k.name + "'", d, k.id, true}
		}
		return sym{k.name + "'", mustSign(k, hashT), k.id, true}
	})
}

// VA(k): valid signature under another scheme the key type supports (ECDSA only).
func VA(k *key) sym {
	return cached("VA:"+k.name, func() sym {
		return sym{k.name + "/sha3", mustSign(altScheme{k, s.SHA3_256withECDSA}, hashT), k.id, true}
	})
}

// W(k): honest signature of k over ANOTHER transaction's hash.
func W(k *key) sym {
	return cached("W:"+k.name, func() sym { return sym{k.name + "@otherhash", mustSign(k, hashOther), k.id, false} })
}

func cached(n string, f func() sym) sym {
	symMu.Lock()
	defer symMu.Unlock()
	if v, ok := symCache[n]; ok {
		return v
	}
	v := f()
	symCache[n] = v
	return v
}

func garbage(name string, d []byte) sym { return sym{name, d, -1, false} }

var (
	gEmpty = garbage("g0", []byte{})
	gOne   = garbage("g1", []byte{0x01})
	g64    = garbage("g64", bytes.Repeat([]byte{0x01}, 64))
	gZero  = garbage("gz64", make([]byte, 64))
)

func trunc(v sym) sym { return garbage("trunc("+v.name+")", append([]byte{}, v.data[:len(v.data)-1]...)) }
func flip(v sym) sym {
	d := append([]byte{}, v.data...)
	d[len(d)-1] ^= 0x01
	return garbage("flip("+v.name+")", d)
}

// ---------------------------------------------------------------------------------------------
// entries, reference

type entry struct {
	keys []*key
	m    uint16
	sigs []sym
}

func (e entry) String() string {
	var kn, sn []string
	for _, k := range e.keys {
		kn = append(kn, k.name)
	}
	for _, x := range e.sigs {
		sn = append(sn, x.name)
	}
	return fmt.Sprintf("{keys[%s] m=%d sigs[%s]}", strings.Join(kn, ","), e.m, strings.Join(sn, ","))
}

func refEntry(e entry) bool {
	n, m := len(e.keys), int(e.m)
	if m < 1 || m > n || n > 16 || len(e.sigs) < m {
		return false
	}
	listed := map[int]int{}
	for _, k := range e.keys {
		listed[k.id]++
	}
	used := map[int]int{}
	for _, x := range e.sigs[:m] {
		if !x.okHash || x.signer < 0 || listed[x.signer] == 0 {
			return false
		}
		used[x.signer]++
		if used[x.signer] > listed[x.signer] {
			return false // the same key (position) would be counted twice
		}
	}
	return true
}

func refTx(es []entry) bool {
	if len(es) > 16 {
		return false
	}
	for _, e := range es {
		if !refEntry(e) {
			return false
		}
	}
	return true
}

func hash160(b []byte) common.Address {
	t := sha256.Sum256(b)
	md := ripemd160.New()
	md.Write(t[:])
	var a common.Address
	copy(a[:], md.Sum(nil))
	return a
}

// canonical key order, independently: key type (ECDSA 0x12 < SM2 0x13 < EdDSA 0x14), then the X coordinate /
// key bytes. All ECDSA keys here are P-256 (33-byte compressed form: sign byte ‖ X).
func sortKeyRef(k *key) []byte {
	switch k.scheme {
	case s.SHA256withECDSA:
		return append([]byte{0x12}, k.ser[1:]...)
	case s.SM3withSM2:
		return append([]byte{0x13}, k.ser[3:]...)
	default:
		return append([]byte{0x14}, k.ser[2:]...)
	}
}

func refAddr(e entry) common.Address {
	if len(e.keys) == 1 {
		return hash160(e.keys[0].ser)
	}
	ks := append([]*key{}, e.keys...)
	sort.SliceStable(ks, func(i, j int) bool { return bytes.Compare(sortKeyRef(ks[i]), sortKeyRef(ks[j])) < 0 })
	var b bytes.Buffer
	var u [2]byte
	binary.LittleEndian.PutUint16(u[:], uint16(len(ks)))
	b.Write(u[:])
	for _, k := range ks {
		b.WriteByte(byte(len(k.ser)))
		b.Write(k.ser)
	}
	binary.LittleEndian.PutUint16(u[:], e.m)
	b.Write(u[:])
	return hash160(b.Bytes())
}

func addrSet(a []common.Address) string {
	m := map[string]bool{}
	for _, x := range a {
		m[hex.EncodeToString(x[:])] = true
	}
	var l []string
	for k := range m {
		l = append(l, k)
	}
	sort.Strings(l)
	return strings.Join(l, ",")
}

// ---------------------------------------------------------------------------------------------
// real side

var unsignedBody []byte

func body(nonce uint32) ([]byte, common.Uint256) {
	tx := &types.Transaction{Version: types.CURR_TX_VERSION, TxType: types.Invoke, Nonce: nonce,
		Payload: &payload.InvokeCode{Code: []byte{0xc3, 0x39}}, Attributes: []byte{}}
	sink := common.NewZeroCopySink(nil)
	if err := tx.SerializeUnsigned(sink); err != nil {
		panic(err)
	}
	t := sha256.Sum256(sink.Bytes())
	return sink.Bytes(), common.Uint256(sha256.Sum256(t[:]))
}

func realSigs(es []entry) []types.Sig {
	out := make([]types.Sig, len(es))
	for i, e := range es {
		sg := types.Sig{M: e.m}
		for _, k := range e.keys {
			sg.PubKeys = append(sg.PubKeys, k.pub)
		}
		for _, x := range e.sigs {
			sg.SigData = append(sg.SigData, x.data)
		}
		out[i] = sg
	}
	return out
}

// build encodes body ‖ sigs with the real Sig encoder and decodes with the real transaction decoder.
// inMemory (entries without keys cannot be encoded): the Sig list is attached to a decoded signature-less tx.
func build(es []entry) (*types.Transaction, bool) {
	sink := common.NewZeroCopySink(nil)
	sink.WriteBytes(unsignedBody)
	serialisable := true
	for _, e := range es {
		if len(e.keys) == 0 {
			serialisable = false
		}
	}
	sigs := realSigs(es)
	if serialisable {
		sink.WriteVarUint(uint64(len(sigs)))
		for i := range sigs {
			if err := sigs[i].Serialize(sink); err != nil {
				panic(err)
			}
		}
	} else {
		sink.WriteVarUint(0)
	}
	tx, err := types.TransactionFromRawBytes(sink.Bytes())
	if err != nil {
		panic(fmt.Sprintf("decode of built tx failed: %v", err))
	}
	if !serialisable {
		tx.Sigs = sigs
	}
	if tx.Hash() != hashT {
		panic("hash mismatch")
	}
	return tx, serialisable
}

type tcase struct {
	shape string // violation-key class
	es    []entry
}

type result struct {
	accepted, want bool
}

var statelessPID *actor.PID
var reordered int64

func runCase(r *ev.Run, c tcase) {
	want := refTx(c.es)
	desc := func() map[string]any {
		var l []string
		for _, e := range c.es {
			l = append(l, e.String())
		}
		if len(l) > 4 {
			l = append(l[:3], fmt.Sprintf("... (%d entries)", len(c.es)), l[len(l)-1])
		}
		return map[string]any{"entries": l, "n_entries": len(c.es), "reference_accepts": want}
	}
	tx, serialisable := build(c.es)
	var code ontErrors.ErrCode
	rec, p := ev.Guard(func() { code = validation.VerifyTransaction(tx) })
	r.Eval()
	if p {
		d := desc()
		d["panic"] = fmt.Sprint(rec)
		r.Violation("verify:"+c.shape+":panic", d)
		r.Class("panic")
		return
	}
	got := code == ontErrors.ErrNoError
	if !got && code != ontErrors.ErrVerifySignature {
		d := desc()
		d["errcode"] = int(code)
		r.Violation("verify:"+c.shape+":unexpected-errcode", d)
	}
	if want {
		r.Class("accept")
	} else {
		r.Class("reject")
	}
	r.Class(c.shape)
	if got != want {
		d := desc()
		if got {
			r.Violation("verify:"+c.shape+":accepted-but-reference-rejects", d)
		} else {
			r.Violation("verify:"+c.shape+":rejected-but-reference-accepts", d)
		}
		return
	}
	if !got {
		if len(tx.SignedAddr) != 0 {
			d := desc()
			d["signed_addr"] = addrSet(tx.SignedAddr)
			r.Violation("signedaddr:"+c.shape+":attributed-on-rejected-tx", d)
		}
		return
	}
	for i, e := range c.es { // observation only: verification sorts the caller's PubKeys slice in place
		for j, k := range e.keys {
			if j < len(tx.Sigs[i].PubKeys) && !keypair.ComparePublicKey(tx.Sigs[i].PubKeys[j], k.pub) {
				atomic.AddInt64(&reordered, 1)
				break
			}
		}
	}
	// accepted: attributed addresses == addresses of the entries (set), no duplicates; fresh decode agrees
	var ref []common.Address
	for _, e := range c.es {
		ref = append(ref, refAddr(e))
	}
	wantSet := addrSet(ref)
	if g := addrSet(tx.SignedAddr); g != wantSet {
		d := desc()
		d["got"], d["want"] = g, wantSet
		r.Violation("signedaddr:"+c.shape+":not-the-entry-addresses", d)
	}
	seen := map[common.Address]bool{}
	for _, a := range tx.SignedAddr {
		if seen[a] {
			r.Violation("signedaddr:"+c.shape+":duplicate-address", desc())
		}
		seen[a] = true
	}
	if ga, err := tx.GetSignatureAddresses(); err != nil || addrSet(ga) != wantSet {
		d := desc()
		d["got"], d["err"] = addrSet(ga), fmt.Sprint(err)
		r.Violation("signedaddr:"+c.shape+":GetSignatureAddresses-after-verify", d)
	}
	if serialisable {
		fresh, err := types.TransactionFromRawBytes(append([]byte{}, tx.Raw...))
		if err != nil {
			r.HarnessError("re-decode: %v", err)
		}
		fa, err := fresh.GetSignatureAddresses()
		if err != nil || addrSet(fa) != wantSet {
			d := desc()
			d["got"], d["err"] = addrSet(fa), fmt.Sprint(err)
			r.Violation("signedaddr:"+c.shape+":fresh-decode-GetSignatureAddresses", d)
		}
	}
}

// ---------------------------------------------------------------------------------------------
// enumeration helpers

func seqs(alpha []sym, maxLen int, f func([]sym)) {
	var rec func(cur []sym)
	rec = func(cur []sym) {
		f(append([]sym{}, cur...))
		if len(cur) == maxLen {
			return
		}
		for _, a := range alpha {
			rec(append(cur, a))
		}
	}
	rec(nil)
}

func perms(n int) [][]int {
	var out [][]int
	var rec func(cur []int, used []bool)
	rec = func(cur []int, used []bool) {
		if len(cur) == n {
			out = append(out, append([]int{}, cur...))
			return
		}
		for i := 0; i < n; i++ {
			if !used[i] {
				used[i] = true
				rec(append(cur, i), used)
				used[i] = false
			}
		}
	}
	rec(nil, make([]bool, n))
	return out
}

func main() {
	r := ev.Start("C39", "exploration")
	polyenv.Setup(0, polyenv.Keys(4))
	if constants.MULTI_SIG_MAX_PUBKEY_SIZE != 16 || constants.TX_MAX_SIG_SIZE != 16 {
		r.HarnessError("limits changed: %d %d (reference hard-codes 16/16 from the property's 'within limits')",
			constants.MULTI_SIG_MAX_PUBKEY_SIZE, constants.TX_MAX_SIG_SIZE)
	}
	r.Require("accept", "reject", "single", "multi-n2", "multi-n3", "keylimit", "entrycount", "pair", "addr_order_independent",
		"history/after-getaddrs", "history/after-hash-toarray", "history/second-verify", "history/interleaved", "history/pool-order",
		"history/mutated", "mutated_then_rejected_expected")
	unsignedBody, hashT = body(1)
	unsignedBodyOther, hashOther = body(2)

	pa := polyenv.Keys(4)
	var k [4]*key
	for i := range k {
		k[i] = addKey(fmt.Sprintf("k%d", i+1), pa[i].Priv, pa[i].Pub, s.SHA256withECDSA)
	}
	smPriv, smPub, err := keypair.GenerateKeyPair(keypair.PK_SM2, keypair.SM2P256V1)
	if err != nil {
		r.HarnessError("sm2 keygen: %v", err)
	}
	sm := addKey("sm2", smPriv, smPub, s.SM3withSM2)
	edPriv, edPub, err := keypair.GenerateKeyPair(keypair.PK_EDDSA, keypair.ED25519)
	if err != nil {
		r.HarnessError("ed25519 keygen: %v", err)
	}
	ed := addKey("ed", edPriv, edPub, s.SHA512withEDDSA)
	var big17 []*key
	for i, a := range polyenv.KeysFrom(100, 17) {
		big17 = append(big17, addKey(fmt.Sprintf("q%d", i), a.Priv, a.Pub, s.SHA256withECDSA))
	}

	var cases []tcase
	add := func(shape string, es ...entry) { cases = append(cases, tcase{shape, es}) }

	// canonical honest cases must be accepted (else the harness is broken, not the code)
	for _, e := range []entry{
		{[]*key{k[0]}, 1, []sym{V(k[0])}}, {[]*key{sm}, 1, []sym{V(sm)}}, {[]*key{ed}, 1, []sym{V(ed)}},
		{[]*key{k[0], k[1], k[2]}, 2, []sym{V(k[0]), V(k[2])}},
		{[]*key{k[0]}, 1, []sym{V2(k[0])}}, {[]*key{k[0]}, 1, []sym{VA(k[0])}},
	} {
		tx, _ := build([]entry{e})
		if code := validation.VerifyTransaction(tx); code != ontErrors.ErrNoError {
			// an honest signature refused: either the harness builds wrong signatures or the code is broken;
			// the enumeration below reports it as a violation with the entry — do not abort.
			r.Note("canonical_refused", e.String())
		}
	}

	// A. single-key entries
	for _, K := range []*key{k[0], sm, ed} {
		other := k[1]
		cross := sm
		if K == sm {
			cross = ed
		}
		alpha := []sym{V(K), V2(K), V(other), V(cross), W(K), gEmpty, gOne, g64, gZero, trunc(V(K)), flip(V(K))}
		if K.scheme == s.SHA256withECDSA {
			alpha = append(alpha, VA(K))
		}
		seqs(alpha, 2, func(sg []sym) {
			for m := uint16(0); m <= 2; m++ {
				add("single", entry{[]*key{K}, m, sg})
			}
		})
	}
	// entries without any key (only constructible in memory)
	add("single", entry{nil, 0, nil})
	add("single", entry{nil, 1, []sym{V(k[0])}})
	add("single", entry{nil, 0, []sym{V(k[0])}})

	// B. n = 2
	maxLen2 := r.QT(3, 4)
	for _, kl := range [][]*key{{k[0], k[1]}, {k[1], k[0]}, {k[0], k[0]}, {k[0], sm}, {ed, k[0]}, {sm, ed}} {
		alpha := []sym{V(kl[0]), V2(kl[0]), V(kl[1]), V2(kl[1]), V(k[2]), W(kl[0]), g64, gEmpty}
		kl := kl
		seqs(alpha, maxLen2, func(sg []sym) {
			for m := uint16(0); m <= 3; m++ {
				add("multi-n2", entry{kl, m, sg})
			}
		})
	}
	// C. n = 3
	maxLen3 := r.QT(3, 4)
	for _, kl := range [][]*key{{k[0], k[1], k[2]}, {k[2], k[0], k[1]}, {k[0], k[0], k[1]}, {k[0], k[1], k[0]}, {k[0], sm, ed}} {
		alpha := []sym{V(kl[0]), V2(kl[0]), V(kl[1]), V(kl[2]), V2(kl[2]), V(k[3]), W(kl[1]), g64}
		kl := kl
		seqs(alpha, maxLen3, func(sg []sym) {
			for m := uint16(0); m <= 4; m++ {
				add("multi-n3", entry{kl, m, sg})
			}
		})
	}
	// C'. n = 4 (thorough only)
	if r.Thorough() {
		for _, kl := range [][]*key{{k[0], k[1], k[2], k[3]}, {k[3], k[0], sm, k[0]}} {
			alpha := []sym{V(kl[0]), V(kl[1]), V(kl[2]), V2(kl[2]), V(kl[3]), V2(kl[3]), V(ed), g64}
			kl := kl
			seqs(alpha, 4, func(sg []sym) {
				for m := uint16(0); m <= 5; m++ {
					add("multi-n4", entry{kl, m, sg})
				}
			})
		}
	}
	// D. key limit: n ∈ {15,16,17}
	for _, n := range []int{15, 16, 17} {
		kl := big17[:n]
		for _, m := range []int{0, 1, 2, n - 1, n, n + 1} {
			mk := func(ks []*key) []sym {
				var o []sym
				for _, q := range ks {
					o = append(o, V(q))
				}
				return o
			}
			mm := m
			if mm > n {
				mm = n
			}
			firstM := mk(kl[:mm])
			lastM := mk(kl[n-mm:])
			add("keylimit", entry{kl, uint16(m), firstM})
			add("keylimit", entry{kl, uint16(m), lastM})
			add("keylimit", entry{kl, uint16(m), mk(kl)}) // everybody signs
			if mm >= 2 {
				dup := append([]sym{}, firstM...)
				dup[mm-1] = V2(kl[0]) // first key signs twice inside the counted prefix
				add("keylimit", entry{kl, uint16(m), dup})
				bad := append([]sym{}, firstM...)
				bad[mm-1] = g64
				add("keylimit", entry{kl, uint16(m), bad})
				add("keylimit", entry{kl, uint16(m), firstM[:mm-1]}) // one short
				// a garbage signature AFTER the counted prefix is never looked at
				add("keylimit", entry{kl, uint16(m), append(append([]sym{}, firstM...), g64)})
			}
			// reversed key order, same signers
			rev := make([]*key, n)
			for i := range rev {
				rev[i] = kl[n-1-i]
			}
			add("keylimit", entry{rev, uint16(m), firstM})
		}
	}
	// E. number of entries: 0, pairs (and triples in thorough), 15/16/17
	add("entrycount")
	E := []entry{
		{[]*key{k[0]}, 1, []sym{V(k[0])}},
		{[]*key{k[1]}, 1, []sym{V(k[1])}},
		{[]*key{k[0]}, 1, []sym{V(k[1])}},                                   // other key's signature
		{[]*key{k[0], k[1], k[2]}, 2, []sym{V(k[0]), V(k[1])}},              // honest 2-of-3
		{[]*key{k[2], k[1], k[0]}, 2, []sym{V(k[2]), V(k[0])}},              // same account, other key order / signers
		{[]*key{k[0], k[1], k[2]}, 2, []sym{V(k[0]), V2(k[0])}},             // one key twice
		{[]*key{k[0], k[1]}, 2, []sym{V(k[1]), V(k[0])}},                    // honest 2-of-2, signatures in other order
		{[]*key{sm}, 1, []sym{V(sm)}},
		{[]*key{ed}, 1, []sym{V(ed)}},
		{[]*key{k[0], k[1]}, 0, []sym{V(k[0])}},                             // m = 0
		{[]*key{k[0], k[1], k[2]}, 3, []sym{V(k[0]), V(k[1]), V(k[2])}},     // 3-of-3: other account than 2-of-3
		{[]*key{k[0], k[1], k[2]}, 2, []sym{V(k[0]), g64, V(k[1])}},         // bad signature inside the counted prefix
	}
	for _, a := range E {
		for _, b := range E {
			add("pair", a, b)
		}
	}
	if r.Thorough() {
		for _, a := range E {
			for _, b := range E {
				for _, c := range E {
					add("pair", a, b, c)
				}
			}
		}
	}
	for _, n := range []int{15, 16, 17} {
		var honest []entry
		for i := 0; i < n; i++ {
			honest = append(honest, entry{[]*key{big17[i]}, 1, []sym{V(big17[i])}})
		}
		add("entrycount", honest...)
		for i := 0; i < n; i++ { // exactly one bad entry at every position
			mut := append([]entry{}, honest...)
			mut[i] = entry{[]*key{big17[i]}, 1, []sym{V(big17[(i+1)%17])}}
			add("entrycount", mut...)
		}
		var same []entry
		for i := 0; i < n; i++ {
			same = append(same, E[0])
		}
		add("entrycount", same...)
		// n multi entries
		var multi []entry
		for i := 0; i < n; i++ {
			multi = append(multi, entry{[]*key{big17[i], k[0]}, 1, []sym{V(big17[i])}})
		}
		add("entrycount", multi...)
	}

	const sid = "verif-c39-stateless"
	if _, err := stateless.NewValidator(sid); err != nil {
		r.HarnessError("stateless.NewValidator: %v", err)
	}
	statelessPID = actor.NewLocalPID(sid)
	otherValid = []entry{{[]*key{k[1]}, 1, []sym{W(k[1])}}}   // W = signed over the other body: valid THERE
	otherInvalid = []entry{{[]*key{k[1]}, 1, []sym{W(k[0])}}} // other key's signature
	// run (cases are independent; every verdict is taken on a fresh object, then on objects with a history — hist.go)
	var wg sync.WaitGroup
	ch := make(chan int, 256)
	capped := false
	var cmu sync.Mutex
	for w := 0; w < 12; w++ {
		wg.Add(1)
		go func() {
			defer wg.Done()
			for i := range ch {
				if r.Expired() {
					cmu.Lock()
					capped = true
					cmu.Unlock()
					continue
				}
				runCase(r, cases[i])
				runHistories(r, cases[i])
			}
		}()
	}
	for i := range cases {
		ch <- i
	}
	close(ch)
	wg.Wait()
	if capped {
		r.Capped("case list cut by deadline")
	}
	shapeCount := map[string]int{}
	for _, c := range cases {
		shapeCount[c.shape]++
		var l []string
		for _, e := range c.es {
			l = append(l, e.String())
		}
		r.Case(strings.Join(l, ""))
	}
	for i := 0; i < len(cases) && i < 40; i += 7 {
		r.Sample(map[string]any{"shape": cases[i].shape, "entry": cases[i].es[0].String(), "reference_accepts": refTx(cases[i].es)})
	}

	// F. address of an m-of-n entry: independent of key order, equal to the reference program hash, and
	// different accounts get different addresses.
	pubsOf := func(ks []*key) []keypair.PublicKey {
		o := make([]keypair.PublicKey, len(ks))
		for i, q := range ks {
			o[i] = q.pub
		}
		return o
	}
	accounts := map[string]string{} // address -> canonical account description
	checkAddr := func(ks []*key, m int) {
		e := entry{keys: ks, m: uint16(m)}
		want := refAddr(e)
		var orders [][]int
		if len(ks) <= 4 {
			orders = perms(len(ks))
		} else {
			n := len(ks)
			id, rev, rot1, rot7 := make([]int, n), make([]int, n), make([]int, n), make([]int, n)
			for i := 0; i < n; i++ {
				id[i], rev[i], rot1[i], rot7[i] = i, n-1-i, (i+1)%n, (i+7)%n
			}
			orders = [][]int{id, rev, rot1, rot7}
		}
		for _, o := range orders {
			pk := make([]*key, len(ks))
			for i, j := range o {
				pk[i] = ks[j]
			}
			in := pubsOf(pk) // fresh slice: the implementation sorts its argument in place
			got, err := types.AddressFromMultiPubKeys(in, m)
			r.Eval()
			if err != nil || got != want {
				r.Violation("address:multi:order-dependent-or-not-reference", map[string]any{"keys": entry{keys: pk, m: uint16(m)}.String(),
					"got": got.ToHexString(), "want": want.ToHexString(), "err": fmt.Sprint(err)})
			} else {
				r.Class("addr_order_independent")
			}
		}
		var names []string
		for _, q := range ks {
			names = append(names, string(sortKeyRef(q)))
		}
		sort.Strings(names)
		acct := fmt.Sprintf("%d-of-%x", m, strings.Join(names, "|"))
		if prev, ok := accounts[want.ToHexString()]; ok && prev != acct {
			r.Violation("address:collision-between-accounts", map[string]any{"a": prev, "b": acct})
		}
		accounts[want.ToHexString()] = acct
	}
	pool := []*key{k[0], k[1], k[2], k[3], sm, ed}
	for mask := 1; mask < 1<<len(pool); mask++ {
		var ks []*key
		for i, q := range pool {
			if mask&(1<<i) != 0 {
				ks = append(ks, q)
			}
		}
		if len(ks) < 2 || len(ks) > 4 {
			continue
		}
		for m := 1; m <= len(ks); m++ {
			checkAddr(ks, m)
		}
	}
	checkAddr([]*key{k[0], k[0]}, 1)
	checkAddr([]*key{k[0], k[0]}, 2)
	checkAddr([]*key{k[0], k[0], k[1]}, 2)
	for _, m := range []int{1, 11, 16} {
		checkAddr(big17[:16], m)
	}
	for _, q := range pool {
		r.Eval()
		a := types.AddressFromPubKey(q.pub)
		if a != hash160(q.ser) {
			r.Violation("address:single:not-hash160-of-key", map[string]any{"key": q.name})
		}
		if prev, ok := accounts[a.ToHexString()]; ok {
			r.Violation("address:collision-between-accounts", map[string]any{"a": prev, "b": "single " + q.name})
		}
		accounts[a.ToHexString()] = "single " + q.name
	}

	// G. the stateless validator actor gives the same verdict as VerifyTransaction (pool path), on the pair class
	actorAsked := 0
	for _, a := range E {
		for _, b := range E[:4] {
			es := []entry{a, b}
			tx, _ := build(es)
			res, err := statelessPID.RequestFuture(&vatypes.CheckTx{WorkerId: 3, Tx: tx}, 10*time.Second).Result()
			if err != nil {
				r.HarnessError("stateless actor: %v", err)
			}
			rsp := res.(*vatypes.CheckResponse)
			r.Eval()
			actorAsked++
			want := refTx(es)
			if (rsp.ErrCode == ontErrors.ErrNoError) != want || rsp.Hash != tx.Hash() || rsp.Type != vatypes.Stateless || rsp.WorkerId != 3 {
				r.Violation("stateless-actor:verdict", map[string]any{"entries": []string{a.String(), b.String()}, "rsp": fmt.Sprintf("%+v", *rsp), "reference_accepts": want})
			}
		}
	}

	r.Note("cases_by_shape", shapeCount)
	r.Note("observation_accepted_entries_whose_PubKeys_were_reordered_in_place_by_verification", reordered)
	r.Note("stateless_actor_requests", actorAsked)
	r.Assume("a signature is 'valid for key K' iff it was produced by K's private key over the hash of the transaction under test (known by construction); "+
		"ECDSA (r, n-s) twins and SHA3-256-with-ECDSA signatures of the same key count as valid signatures of that key",
		"m-of-n: the FIRST m signatures are the ones that count (DESIGN §3 C39); a key listed twice provides two positions",
		"SM2 / Ed25519 private keys are generated per run (ontology-crypto GenerateKeyPair); the verdicts do not depend on them",
		"an entry with zero keys cannot be encoded and is tested on an in-memory transaction only")
	r.Finish(map[string]any{
		"rule": fmt.Sprintf("every case × 7 object histories (fresh from bytes; after GetSignatureAddresses; after Hash/ToArray; verified twice; interleaved with another valid and another invalid tx; pool order GetSignatureAddresses→ToArray→stateless actor; accepted→signature byte flipped in place→restored). single entries: 3 key types × all signature sequences len≤2 over 11-12 symbols × m∈0..2; n=2: 6 key lists × sequences len≤%d over 8 symbols × m∈0..3; n=3: 5 key lists × len≤%d over 8 symbols × m∈0..4; (thorough: n=4: 2 key lists × len≤4 over 8 symbols × m∈0..5); n∈{15,16,17} × m∈{0,1,2,n-1,n,n+1} × 8 signature patterns; entry counts 0, all pairs%s of 12 entries, 15/16/17 entries (honest, one bad at each position, repeated, multi); addresses: all ≥2-subsets (≤4) of 6 keys × all m × all permutations + 16-key lists",
			maxLen2, maxLen3, map[bool]string{true: " and triples", false: ""}[r.Thorough()]),
		"cases": len(cases), "object_histories": append([]string{"fresh"}, histories...),
	})
}
