// C39 — object-history dimension. runCase (main.go) takes the verdict on an object fresh from bytes; here the same
// signature-entry list is validated on objects with a history, because Transaction carries mutable verification state
// (SignedAddr) that GetSignatureAddresses() also fills — straight from the LISTED keys, without checking a signature:
//
//	after-getaddrs     GetSignatureAddresses() first (what txnpool's isValidSender does), then VerifyTransaction
//	after-hash-toarray Hash() and ToArray() first
//	second-verify      VerifyTransaction twice on the same object (both verdicts are compared)
//	interleaved        another valid tx, this tx, another invalid tx, this tx again
//	pool-order         GetSignatureAddresses → ToArray → the real stateless validator actor (CheckTx); these are the
//	                   calls txnpool makes on the object in isValidSender / handleTransaction before the validators see
//	                   it (isValidSender itself is unexported and needs the ledger actor: not driven)
//	mutated            reference-accepted tx: verify (accept), flip one byte of a counted signature IN PLACE, verify
//	                   (must reject), restore the byte, verify (must accept)
//
// Oracle unchanged (reference verdict of the entry list as it is at the time of the call; attributed addresses ==
// independent derivation). A rejected object must carry no SignedAddr unless the history itself put the claimed
// addresses there (GetSignatureAddresses before verification, or an earlier acceptance followed by in-place mutation).
package main

import (
	"fmt"
	"time"

	"github.com/polynetwork/poly/common"
	"github.com/polynetwork/poly/core/types"
	"github.com/polynetwork/poly/core/validation"
	ontErrors "github.com/polynetwork/poly/errors"
	vatypes "github.com/polynetwork/poly/validator/types"
	"verif.local/engine/ev"
)

var histories = []string{"after-getaddrs", "after-hash-toarray", "second-verify", "interleaved", "pool-order", "mutated"}

var otherValid, otherInvalid []entry // set by main; signed over ANOTHER transaction body
var unsignedBodyOther []byte

// buildOther encodes/decodes an entry list on the other transaction body (hashOther).
func buildOther(es []entry) *types.Transaction {
	sink := common.NewZeroCopySink(nil)
	sink.WriteBytes(unsignedBodyOther)
	sigs := realSigs(es)
	sink.WriteVarUint(uint64(len(sigs)))
	for i := range sigs {
		if err := sigs[i].Serialize(sink); err != nil {
			panic(err)
		}
	}
	tx, err := types.TransactionFromRawBytes(sink.Bytes())
	if err != nil || tx.Hash() != hashOther {
		panic(fmt.Sprintf("buildOther: %v", err))
	}
	return tx
}

func caseDesc(c tcase, want bool, hist string) map[string]any {
	var l []string
	for _, e := range c.es {
		l = append(l, e.String())
	}
	if len(l) > 4 {
		l = append(l[:3], fmt.Sprintf("... (%d entries)", len(c.es)), l[len(l)-1])
	}
	return map[string]any{"entries": l, "n_entries": len(c.es), "reference_accepts": want, "object_history": hist}
}

func refAddrSet(es []entry) string {
	var ref []common.Address
	for _, e := range es {
		ref = append(ref, refAddr(e))
	}
	return addrSet(ref)
}

// derivable: the claimed (keys, m) of every entry define an address at all
func derivable(es []entry) bool {
	for _, e := range es {
		n, m := len(e.keys), int(e.m)
		if n == 0 || n > 16 || (n > 1 && (m < 1 || m > n)) {
			return false
		}
	}
	return true
}

// verdict runs one validation and compares with want. step names the call inside the history.
func verdict(r *ev.Run, c tcase, hist, step string, tx *types.Transaction, want bool, viaActor bool, rejectedMustBeUnattributed bool) bool {
	var code ontErrors.ErrCode
	noAnswer := false
	rec, p := ev.Guard(func() {
		if viaActor {
			res, err := statelessPID.RequestFuture(&vatypes.CheckTx{WorkerId: 1, Tx: tx}, 5*time.Second).Result()
			if err != nil { // the validator panicked on this transaction (the supervisor restarts it) or hangs
				noAnswer = true
				return
			}
			code = res.(*vatypes.CheckResponse).ErrCode
		} else {
			code = validation.VerifyTransaction(tx)
		}
	})
	r.Eval()
	key := "verify:" + c.shape + ":" + hist
	if step != "" {
		key += ":" + step
	}
	if p {
		d := caseDesc(c, want, hist)
		d["panic"] = fmt.Sprint(rec)
		r.Violation(key+":panic", d)
		return false
	}
	if noAnswer {
		r.Violation(key+":no-answer-from-validator-actor", caseDesc(c, want, hist))
		return false
	}
	got := code == ontErrors.ErrNoError
	if got != want {
		if got {
			r.Violation(key+":accepted-but-reference-rejects", caseDesc(c, want, hist))
		} else {
			r.Violation(key+":rejected-but-reference-accepts", caseDesc(c, want, hist))
		}
		return false
	}
	if got {
		ws := refAddrSet(c.es)
		if g := addrSet(tx.SignedAddr); g != ws {
			d := caseDesc(c, want, hist)
			d["got"], d["want"] = g, ws
			r.Violation("signedaddr:"+c.shape+":"+hist+":not-the-entry-addresses", d)
		}
		if ga, err := tx.GetSignatureAddresses(); err != nil || addrSet(ga) != ws {
			d := caseDesc(c, want, hist)
			d["got"], d["err"] = addrSet(ga), fmt.Sprint(err)
			r.Violation("signedaddr:"+c.shape+":"+hist+":GetSignatureAddresses-after-verify", d)
		}
	} else if rejectedMustBeUnattributed && len(tx.SignedAddr) != 0 {
		d := caseDesc(c, want, hist)
		d["signed_addr"] = addrSet(tx.SignedAddr)
		r.Violation("signedaddr:"+c.shape+":"+hist+":attributed-on-rejected-tx", d)
	}
	return true
}

func runHistories(r *ev.Run, c tcase) {
	want := refTx(c.es)
	for _, h := range histories {
		tx, serialisable := build(c.es)
		r.Class("history/" + h)
		switch h {
		case "after-getaddrs", "pool-order":
			var ga []common.Address
			var err error
			if rec, p := ev.Guard(func() { ga, err = tx.GetSignatureAddresses() }); p {
				d := caseDesc(c, want, h)
				d["panic"] = fmt.Sprint(rec)
				r.Violation("getaddrs:"+c.shape+":panic", d)
				continue
			}
			// independent derivation of the CLAIMED addresses on a never-verified object
			if derivable(c.es) {
				if err != nil || addrSet(ga) != refAddrSet(c.es) || len(ga) != len(c.es) {
					d := caseDesc(c, want, h)
					d["got"], d["err"], d["want"] = addrSet(ga), fmt.Sprint(err), refAddrSet(c.es)
					r.Violation("signedaddr:"+c.shape+":GetSignatureAddresses-before-verify", d)
				}
			}
			if h == "pool-order" {
				if !serialisable {
					continue // the pool only ever holds decoded transactions
				}
				_ = tx.ToArray()
				verdict(r, c, h, "", tx, want, true, false)
			} else {
				verdict(r, c, h, "", tx, want, false, false)
			}
		case "after-hash-toarray":
			if tx.Hash() != hashT {
				r.HarnessError("hash changed")
			}
			if serialisable {
				_ = tx.ToArray()
			}
			verdict(r, c, h, "", tx, want, false, true)
		case "second-verify":
			if verdict(r, c, h, "first", tx, want, false, true) {
				verdict(r, c, h, "second", tx, want, false, true)
			}
		case "interleaved":
			ov := buildOther(otherValid)
			oi := buildOther(otherInvalid)
			if validation.VerifyTransaction(ov) != ontErrors.ErrNoError {
				r.Note("interleaved_other_valid_refused", true)
			}
			if !verdict(r, c, h, "first", tx, want, false, true) {
				continue
			}
			if validation.VerifyTransaction(oi) == ontErrors.ErrNoError {
				r.Note("interleaved_other_invalid_accepted", true)
			}
			verdict(r, c, h, "second", tx, want, false, true)
		case "mutated":
			if !want || !serialisable || len(c.es) == 0 {
				continue
			}
			if !verdict(r, c, h, "before", tx, true, false, true) {
				continue
			}
			sd := tx.Sigs[0].SigData[0] // a counted signature of entry 0 (m ≥ 1)
			sd[len(sd)-1] ^= 0x01
			r.Class("mutated_then_rejected_expected")
			verdict(r, c, h, "after-invalidating", tx, false, false, false)
			sd[len(sd)-1] ^= 0x01
			verdict(r, c, h, "after-restoring", tx, true, false, false)
		}
	}
}
