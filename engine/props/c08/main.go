// C08 — proofs served to relayers verify against committed roots (model_checking, real ledger).
//
// Histories: real on-disk ledgers (4 validators, private net). Block 1 registers three side chains
// (source: VOTE router; two destinations: ETH router) through the real side_chain_manager; every following
// block i carries r_i cross-chain records produced by real ImportOuterTransfer transactions of the vote
// router (two validator votes collected beforehand — in the same block for even heights, in the previous
// block for odd heights — and the deciding third vote, which runs MakeTransaction -> PutRequest +
// PutMerkleVal + makeProof notify, in block i). Headers are built the way consensus/vbft does
// (constructBlock): header h carries the block root over hashes 0..h-1 and the cross-state root OF BLOCK
// h-1 (getCrossStatesRoot(blkNum-1)); hence the root that commits to the records of block h is
// header[h+1].CrossStateRoot and every chain ends with one empty block.
// quick: r = [0,1,2,3,5,0,4,1,8] through ExecuteBlock+SubmitBlock, through AddBlock, and alternating.
// plus all r-vectors over {0,1,2,3} of length 3 (64 chains). thorough: length 4 (256 chains) + one
// 40-block chain (r up to 65).
//
// Serving is INTERLEAVED with growth: after every committed block the whole grid so far is served and
// checked on the running ledger, then the chain continues (serve -> commit -> serve), followed by the
// final full grid and a close/reopen pass. RESTART (close + reopen of the same directory) is also an event
// of the history: every history over {E, X}^3 (quick) / ^4 (thorough) with every multiset of <= 2 restart
// positions, and the 9-block chain with a restart at every single position; after a restart the grid is
// served before any further commit, and again after every later block.
// Oracle, for every chain, at every such round and after close/reopen, proofs obtained through the RPC handlers
// (http/base/rpc GetCrossStatesProof / GetMerkleProof; for the parallel thorough chains through the
// ledger.Ledger methods those handlers call):
//  * every record key emitted in a makeProof notify of block h: MerkleProve(proof(h,key),
//    header[h+1].CrossStateRoot) succeeds and returns exactly the stored request bytes, which decode to the
//    ToMerkleValue {poly tx hash, source chain, the MakeTxParam that was voted}; an independent textbook
//    verifier agrees; header[h+1].CrossStateRoot equals the reference RFC 6962 root over the record leaves.
//  * for ALL h < r <= tip: MerkleProve(GetMerkleProof(h, r), header[r].BlockRoot) == hash of block h,
//    and header[r].BlockRoot equals the reference root over [0, hash(0) .. hash(r-1)].
//  * controls: a proof checked against another block's root is refused.
// Tree builders: for every leaf count n (1..130 quick / 1..1030 thorough), two leaf families and EVERY leaf
// position: MerkleProve(MerkleLeafPath(data_i, leaves), HashFullTreeWithLeafHash(leaves)) == data_i,
// and the root equals the reference root.
package main

import (
	"bytes"
	"crypto/sha256"
	"encoding/binary"
	"encoding/hex"
	"fmt"
	"os"
	"sync"
	"sync/atomic"

	"github.com/polynetwork/poly/common"
	"github.com/polynetwork/poly/core/ledger"
	"github.com/polynetwork/poly/core/store"
	"github.com/polynetwork/poly/core/types"
	bcomn "github.com/polynetwork/poly/http/base/common"
	"github.com/polynetwork/poly/http/base/rpc"
	"github.com/polynetwork/poly/merkle"
	"github.com/polynetwork/poly/native/event"
	_ "github.com/polynetwork/poly/native/service"
	scom "github.com/polynetwork/poly/native/service/cross_chain_manager/common"
	"github.com/polynetwork/poly/native/service/governance/side_chain_manager"
	"github.com/polynetwork/poly/native/service/utils"
	"verif.local/engine/ev"
	"verif.local/engine/polyenv"
)

var r *ev.Run

const (
	srcChain  = uint64(101)
	dstChainA = uint64(102)
	dstChainB = uint64(103)
)

// ---------------------------------------------------------------------------------------------
// reference: RFC 6962 tree and audit-path verification (textbook, shares nothing with package merkle)

func hLeaf(d []byte) common.Uint256 {
	return common.Uint256(sha256.Sum256(append([]byte{0}, d...)))
}

func hNode(l, rr common.Uint256) common.Uint256 {
	b := append([]byte{1}, l[:]...)
	b = append(b, rr[:]...)
	return common.Uint256(sha256.Sum256(b))
}

func refRoot(leaves []common.Uint256) common.Uint256 {
	n := len(leaves)
	if n == 1 {
		return leaves[0]
	}
	k := 1
	for k*2 < n {
		k *= 2
	}
	return hNode(refRoot(leaves[:k]), refRoot(leaves[k:]))
}

// refVerify: path = varbytes(value) ++ { side byte, 32-byte sibling }*; side 0 = sibling on the left.
func refVerify(path []byte, root common.Uint256) ([]byte, int, bool) {
	src := common.NewZeroCopySource(path)
	val, eof := src.NextVarBytes()
	if eof {
		return nil, 0, false
	}
	h := hLeaf(val)
	steps := 0
	for src.Len() > 0 {
		side, e1 := src.NextByte()
		sib, e2 := src.NextHash()
		if e1 || e2 || side > 1 {
			return nil, steps, false
		}
		if side == 0 {
			h = hNode(sib, h)
		} else {
			h = hNode(h, sib)
		}
		steps++
	}
	return val, steps, h == root
}

func ceilLog2(n int) int {
	d := 0
	for (1 << uint(d)) < n {
		d++
	}
	return d
}

// ---------------------------------------------------------------------------------------------
// transactions

var nonce uint32

func nextNonce() uint32 { return atomic.AddUint32(&nonce, 1) }

func regSideChain(owner *polyenv.Acct, id, router uint64, name string) *types.Transaction {
	p := &side_chain_manager.RegisterSideChainParam{Address: owner.Addr, ChainId: id, Router: router, Name: name, BlocksToWait: 1,
		CCMCAddress: bytes.Repeat([]byte{byte(id)}, 20)}
	s := common.NewZeroCopySink(nil)
	p.Serialization(s)
	return polyenv.Tx(utils.SideChainManagerContractAddress, side_chain_manager.REGISTER_SIDE_CHAIN, s.Bytes(), nextNonce(), polyenv.Single(owner))
}

func approveSideChain(v *polyenv.Acct, id uint64) *types.Transaction {
	p := &side_chain_manager.ChainidParam{Chainid: id, Address: v.Addr}
	s := common.NewZeroCopySink(nil)
	p.Serialization(s)
	return polyenv.Tx(utils.SideChainManagerContractAddress, side_chain_manager.APPROVE_REGISTER_SIDE_CHAIN, s.Bytes(), nextNonce(), polyenv.Single(v))
}

var argSizes = []int{0, 1, 31, 32, 33, 77, 252, 253, 300, 1500}

// recParam: the id-th cross-chain request (deterministic; argument sizes straddle the var-int boundaries).
func recParam(id int) *scom.MakeTxParam {
	seed := sha256.Sum256([]byte(fmt.Sprintf("c08-rec-%d", id)))
	args := make([]byte, argSizes[id%len(argSizes)])
	for i := range args {
		args[i] = seed[i%32] ^ byte(i)
	}
	to := dstChainA
	if id%3 == 2 {
		to = dstChainB
	}
	cc := sha256.Sum256(seed[:])
	return &scom.MakeTxParam{TxHash: seed[:], CrossChainID: cc[:], FromContractAddress: seed[:20], ToChainID: to,
		ToContractAddress: cc[:20], Method: "unlock", Args: args}
}

func voteTx(v *polyenv.Acct, id int) *types.Transaction {
	mp := recParam(id)
	ms := common.NewZeroCopySink(nil)
	mp.Serialization(ms)
	e := &scom.EntranceParam{SourceChainID: srcChain, Height: uint32(1000 + id), RelayerAddress: v.Addr[:], Extra: ms.Bytes()}
	s := common.NewZeroCopySink(nil)
	e.Serialization(s)
	return polyenv.Tx(utils.CrossChainManagerContractAddress, scom.IMPORT_OUTER_TRANSFER_NAME, s.Bytes(), nextNonce(), polyenv.Single(v))
}

// ---------------------------------------------------------------------------------------------
// chain construction

type rec struct {
	id     int
	h      uint32
	keyHex string
	txHash common.Uint256
	toID   uint64
}

type built struct {
	tag  string
	ch   *polyenv.Chain
	vals []*polyenv.Acct
	recs map[uint32][]rec
	tip  uint32
	stuck bool // the ledger could not be closed/reopened any more (after a recorded violation): history abandoned
}

var tmpDirs sync.Map

var nCommits int64

func commitBlock(ch *polyenv.Chain, txs []*types.Transaction, viaSync bool) store.ExecuteResult {
	h := ch.L.GetCurrentBlockHeight()
	prevCross, err := ch.L.GetCrossStateRoot(h) // what consensus puts into header h+1 (chain_store.getCrossStateRoot)
	if err != nil {
		r.HarnessError("GetCrossStateRoot(%d): %v", h, err)
	}
	b := ch.NextBlock(txs, nil, func(hd *types.Header) { hd.CrossStateRoot = prevCross })
	res, err := ch.L.ExecuteBlock(b)
	if err != nil {
		r.HarnessError("ExecuteBlock(%d): %v", h+1, err)
	}
	if viaSync {
		err = ch.L.AddBlock(b, res.MerkleRoot)
	} else {
		err = ch.L.SubmitBlock(b, res)
	}
	if err != nil || ch.L.GetCurrentBlockHeight() != h+1 {
		r.HarnessError("commit of block %d failed: %v", h+1, err)
	}
	for i, n := range res.Notify {
		if n.State != event.CONTRACT_STATE_SUCCESS {
			r.HarnessError("block %d tx %d failed (harness transaction construction)", h+1, i)
		}
	}
	atomic.AddInt64(&nCommits, 1)
	return res
}

// build commits: block 1 = side-chain registration, blocks 2..L+1 with rvec[i] records, block L+2 empty.
// mode: "submit" | "sync" | "alternate".
// onBlock (optional) runs after EVERY committed block with bt.tip = the current height: proofs are served
// while the chain keeps growing (serve -> commit -> serve again on the same running ledger).
// reopens: positions p (multiset, <= 2 entries = deviation bound 2) at which the ledger is closed and
// reopened through the real restart path (NewLedgerStore + InitLedgerStoreWithGenesisBlock on the same
// directory): p = 0 before any block, p = k after block k; the same p twice = two restarts in a row. After
// each restart the grid is served BEFORE any further commit, then the history continues on the reopened ledger.
func build(tag string, rvec []int, mode string, onBlock func(b *built, event string), reopens []int) *built {
	vals := polyenv.Keys(4)
	dir := polyenv.TmpDir("c08-")
	tmpDirs.Store(dir, true)
	ch, err := polyenv.OpenChain(dir, vals)
	if err != nil {
		r.HarnessError("OpenChain: %v", err)
	}
	bt := &built{tag: tag, ch: ch, vals: vals, recs: map[uint32][]rec{}}
	via := func(h uint32) bool {
		return mode == "sync" || (mode == "alternate" && h%2 == 1)
	}
	// block 1
	var setup []*types.Transaction
	for _, c := range []struct {
		id, router uint64
		name       string
	}{{srcChain, utils.VOTE_ROUTER, "src"}, {dstChainA, utils.ETH_ROUTER, "dstA"}, {dstChainB, utils.ETH_ROUTER, "dstB"}} {
		setup = append(setup, regSideChain(vals[3], c.id, c.router, c.name))
		for _, v := range vals[:3] {
			setup = append(setup, approveSideChain(v, c.id))
		}
	}
	served := func(event string) {
		bt.tip = bt.ch.L.GetCurrentBlockHeight()
		if onBlock != nil {
			onBlock(bt, event)
		}
	}
	restarts := func() {
		pos := int(bt.ch.L.GetCurrentBlockHeight())
		for i, p := range reopens {
			if p == pos && !bt.stuck {
				bt.reopen()
				if bt.stuck {
					return
				}
				atomic.AddInt64(&nReopens, 1)
				served(fmt.Sprintf("restart#%d-after-block-%d", i+1, pos))
			}
		}
	}
	restarts()
	if bt.stuck {
		return bt
	}
	commitBlock(bt.ch, setup, via(1))
	served("after-block-1")
	restarts()
	if bt.stuck {
		return bt
	}
	// record ids per block
	nextID := 0
	ids := map[uint32][]int{}
	L := len(rvec)
	for i := 0; i < L; i++ {
		h := uint32(2 + i)
		for j := 0; j < rvec[i]; j++ {
			ids[h] = append(ids[h], nextID)
			nextID++
		}
	}
	prevotes := func(h uint32) []*types.Transaction {
		var out []*types.Transaction
		for _, id := range ids[h] {
			out = append(out, voteTx(vals[0], id), voteTx(vals[1], id))
		}
		return out
	}
	// odd heights get their pre-votes in the previous block: block 3's go into block 2, ...
	for i := 0; i < L; i++ {
		h := uint32(2 + i)
		var txs []*types.Transaction
		if h%2 == 0 {
			txs = append(txs, prevotes(h)...)
		}
		var deciders []*types.Transaction
		for _, id := range ids[h] {
			t := voteTx(vals[2], id)
			deciders = append(deciders, t)
			txs = append(txs, t)
		}
		if (h+1)%2 == 1 {
			txs = append(txs, prevotes(h+1)...)
		}
		res := commitBlock(bt.ch, txs, via(h))
		// collect the makeProof notifies: that is where a relayer learns the key
		var got []rec
		for _, n := range res.Notify {
			for _, ne := range n.Notify {
				if len(ne.States.([]interface{})) == 6 && ne.States.([]interface{})[0] == scom.NOTIFY_MAKE_PROOF {
					st := ne.States.([]interface{})
					got = append(got, rec{h: h, keyHex: st[5].(string), txHash: n.TxHash, toID: st[2].(uint64)})
				}
			}
		}
		if len(got) != len(ids[h]) {
			r.HarnessError("%s block %d: %d makeProof notifies, wanted %d records", tag, h, len(got), len(ids[h]))
		}
		for j := range got {
			got[j].id = ids[h][j]
			if got[j].txHash != deciders[j].Hash() {
				r.HarnessError("%s block %d record %d: notify from tx %x, deciding tx %x", tag, h, j, got[j].txHash, deciders[j].Hash())
			}
		}
		bt.recs[h] = got
		if len(res.CrossHashes) != len(got) {
			r.HarnessError("%s block %d: %d cross hashes for %d records", tag, h, len(res.CrossHashes), len(got))
		}
		served(fmt.Sprintf("after-block-%d", h))
		restarts()
		if bt.stuck {
			return bt
		}
	}
	commitBlock(bt.ch, nil, via(uint32(L+2)))
	served(fmt.Sprintf("after-block-%d", L+2))
	restarts()
	return bt
}

func (b *built) close() {
	// StateStore.Close dereferences the merkle hash store, which is nil when the restart found the hash
	// file inconsistent ("persistence will be disabled"); that state is reported by the proof checks
	if _, p := ev.Guard(func() { b.ch.Close() }); p {
		r.Class("close-panicked-on-disabled-hash-store")
	}
	os.RemoveAll(b.ch.Dir)
	tmpDirs.Delete(b.ch.Dir)
}

func (b *built) reopen() {
	if _, p := ev.Guard(func() { b.ch.Close() }); p {
		r.Class("close-panicked-on-disabled-hash-store")
		// the state store's leveldb is still open (and locked) in this process: the directory cannot be
		// reopened here; the disabled hash store has already been reported by the proof checks
		b.stuck = true
		return
	}
	ch, err := polyenv.OpenChain(b.ch.Dir, b.vals)
	if err != nil {
		r.Violation("restart/ledger-does-not-reopen", map[string]any{"chain": b.tag, "tip": b.tip, "err": err.Error()})
		b.stuck = true
		return
	}
	b.ch = ch
}

// ---------------------------------------------------------------------------------------------
// serving

type server interface {
	cross(h uint32, keyHex string) ([]byte, error)
	block(h, rootH uint32) ([]byte, error)
	name() string
}

// rpcServer: the JSON-RPC handlers (need the process-wide ledger.DefLedger).
type rpcServer struct{}

func (rpcServer) name() string { return "rpc" }

func unpack(resp map[string]interface{}) ([]byte, error) {
	if code, _ := resp["error"].(int64); code != 0 {
		return nil, fmt.Errorf("rpc error %v: %v", resp["error"], resp["result"])
	}
	mp, ok := resp["result"].(bcomn.MerkleProof)
	if !ok {
		return nil, fmt.Errorf("rpc result type %T", resp["result"])
	}
	return hex.DecodeString(mp.AuditPath)
}

func (rpcServer) cross(h uint32, keyHex string) ([]byte, error) {
	return unpack(rpc.GetCrossStatesProof([]interface{}{float64(h), keyHex}))
}

func (rpcServer) block(h, rootH uint32) ([]byte, error) {
	return unpack(rpc.GetMerkleProof([]interface{}{float64(h), float64(rootH)}))
}

// ledgerServer: the ledger.Ledger methods the handlers delegate to (no process-wide state).
type ledgerServer struct{ lg *ledger.Ledger }

func (ledgerServer) name() string { return "ledger" }

func (s ledgerServer) cross(h uint32, keyHex string) ([]byte, error) {
	k, err := hex.DecodeString(keyHex)
	if err != nil {
		return nil, err
	}
	return s.lg.GetCrossStatesProof(h, k)
}

func (s ledgerServer) block(h, rootH uint32) ([]byte, error) { return s.lg.GetMerkleProof(h, rootH) }

// ---------------------------------------------------------------------------------------------
// oracle

var nCross, nBlockProofs, nInterleaved, nReopens int64

func (b *built) check(sv server, phase string) {
	L := b.ch.L
	lg := ledger.VerifNewLedger(L)
	hdr := make([]*types.Header, b.tip+1)
	for h := uint32(0); h <= b.tip; h++ {
		x, err := L.GetHeaderByHeight(h)
		if err != nil || x == nil {
			r.HarnessError("%s: header %d: %v", b.tag, h, err)
		}
		hdr[h] = x
	}
	where := func(h uint32, extra map[string]any) map[string]any {
		rv := []int{}
		for x := uint32(2); x < b.tip; x++ {
			rv = append(rv, len(b.recs[x]))
		}
		m := map[string]any{"chain": b.tag, "records_per_block_from_height_2": rv, "phase": phase, "served_by": sv.name(), "height": h}
		for k, v := range extra {
			m[k] = v
		}
		return m
	}
	// ---- cross-chain records
	for h := uint32(1); h < b.tip; h++ {
		recs := b.recs[h]
		root := hdr[h+1].CrossStateRoot
		// reference root over the record leaves in transaction order
		var leaves []common.Uint256
		for _, rc := range recs {
			kb, _ := hex.DecodeString(rc.keyHex)
			val, err := lg.GetStorageItem(utils.CrossChainManagerContractAddress, kb[len(utils.CrossChainManagerContractAddress):])
			if err != nil {
				r.Violation("cross/stored-record-missing", where(h, map[string]any{"key": rc.keyHex, "err": err.Error()}))
				continue
			}
			leaves = append(leaves, hLeaf(val))
		}
		want := common.UINT256_EMPTY
		if len(leaves) > 0 {
			want = refRoot(leaves)
		}
		r.Eval()
		if root != want {
			r.Violation(fmt.Sprintf("cross/header-root-differs-from-reference/n=%d", len(recs)), where(h, map[string]any{"header_root": root.ToHexString(), "reference": want.ToHexString()}))
		}
		r.Case(fmt.Sprintf("cross-root/n=%d", len(recs)))
		for j, rc := range recs {
			atomic.AddInt64(&nCross, 1)
			r.Eval()
			kcls := fmt.Sprintf("n=%d/pos=%d", len(recs), j)
			kb, _ := hex.DecodeString(rc.keyHex)
			// the key the notify announces is the request key of this poly transaction
			wantKey := append(append(append(append([]byte{}, utils.CrossChainManagerContractAddress[:]...), []byte("request")...), le64(rc.toID)...), rc.txHash[:]...)
			if !bytes.Equal(kb, wantKey) {
				r.Violation("cross/notify-key-unexpected", where(h, map[string]any{"key": rc.keyHex, "want": hex.EncodeToString(wantKey)}))
			}
			stored, _ := lg.GetStorageItem(utils.CrossChainManagerContractAddress, kb[len(utils.CrossChainManagerContractAddress):])
			var proof []byte
			var err error
			if pv, p := ev.Guard(func() { proof, err = sv.cross(h, rc.keyHex) }); p {
				r.Violation("cross/proof-serving-panics/"+kcls, where(h, map[string]any{"key": rc.keyHex, "panic": fmt.Sprint(pv)}))
				continue
			}
			if err != nil {
				r.Violation("cross/no-proof-served/"+kcls, where(h, map[string]any{"key": rc.keyHex, "err": err.Error()}))
				continue
			}
			val, err := merkle.MerkleProve(proof, root[:])
			if err != nil {
				r.Violation("cross/proof-does-not-verify/"+kcls, where(h, map[string]any{"key": rc.keyHex, "err": err.Error(), "proof": hex.EncodeToString(proof)}))
				continue
			}
			rv, steps, ok := refVerify(proof, root)
			if !ok || !bytes.Equal(rv, val) || steps > ceilLog2(len(recs)) {
				r.Violation("cross/reference-verifier-disagrees/"+kcls, where(h, map[string]any{"key": rc.keyHex, "ok": ok, "steps": steps}))
			}
			if !bytes.Equal(val, stored) {
				r.Violation("cross/proof-yields-other-than-stored-record/"+kcls, where(h, map[string]any{"key": rc.keyHex, "proved": hex.EncodeToString(val), "stored": hex.EncodeToString(stored)}))
				continue
			}
			mv := new(scom.ToMerkleValue)
			if err := mv.Deserialization(common.NewZeroCopySource(val)); err != nil {
				r.Violation("cross/record-undecodable/"+kcls, where(h, map[string]any{"err": err.Error()}))
				continue
			}
			wp := recParam(rc.id)
			if !bytes.Equal(mv.TxHash, rc.txHash[:]) || mv.FromChainID != srcChain || !sameParam(mv.MakeTxParam, wp) {
				r.Violation("cross/record-content/"+kcls, where(h, map[string]any{"got": mv, "want": wp}))
				continue
			}
			r.Class("cross/verified")
			r.Case("cross/" + kcls + fmt.Sprintf("/len=%d", len(val)))
			// control: the same proof against another non-empty block's root must be refused
			for o := uint32(2); o <= b.tip; o++ {
				if o != h+1 && hdr[o].CrossStateRoot != root && hdr[o].CrossStateRoot != common.UINT256_EMPTY {
					if _, err := merkle.MerkleProve(proof, hdr[o].CrossStateRoot[:]); err == nil {
						r.Violation("control/cross-proof-verifies-against-foreign-root", where(h, map[string]any{"other": o}))
					} else {
						r.Class("control/foreign-root-refused")
					}
					break
				}
			}
		}
		if len(recs) == 0 {
			r.Class("cross/empty-block")
		}
	}
	// ---- block inclusion: all h < rootH <= tip
	for rootH := uint32(1); rootH <= b.tip; rootH++ {
		leaves := []common.Uint256{hLeaf(common.UINT256_EMPTY[:])}
		for x := uint32(0); x < rootH; x++ {
			hh := hdr[x].Hash()
			leaves = append(leaves, hLeaf(hh[:]))
		}
		want := refRoot(leaves)
		if hdr[rootH].BlockRoot != want {
			r.Violation("block/header-root-differs-from-reference", where(rootH, map[string]any{"header_root": hdr[rootH].BlockRoot.ToHexString(), "reference": want.ToHexString()}))
		}
		for h := uint32(0); h < rootH; h++ {
			atomic.AddInt64(&nBlockProofs, 1)
			r.Eval()
			kcls := blockClass(h, rootH)
			var proof []byte
			var err error
			if pv, p := ev.Guard(func() { proof, err = sv.block(h, rootH) }); p {
				r.Violation("block/proof-serving-panics/"+kcls, where(h, map[string]any{"root_height": rootH, "panic": fmt.Sprint(pv)}))
				continue
			}
			if err != nil {
				r.Violation("block/no-proof-served/"+kcls, where(h, map[string]any{"root_height": rootH, "err": err.Error()}))
				continue
			}
			val, err := merkle.MerkleProve(proof, hdr[rootH].BlockRoot[:])
			if err != nil {
				r.Violation("block/proof-does-not-verify/"+kcls, where(h, map[string]any{"root_height": rootH, "err": err.Error()}))
				continue
			}
			bh := hdr[h].Hash()
			if !bytes.Equal(val, bh[:]) {
				r.Violation("block/proof-yields-other-hash/"+kcls, where(h, map[string]any{"root_height": rootH, "proved": hex.EncodeToString(val), "block_hash": bh.ToHexString()}))
				continue
			}
			if rv, steps, ok := refVerify(proof, hdr[rootH].BlockRoot); !ok || !bytes.Equal(rv, val) || steps > ceilLog2(int(rootH)+1) {
				r.Violation("block/reference-verifier-disagrees/"+kcls, where(h, map[string]any{"root_height": rootH, "ok": ok, "steps": steps}))
				continue
			}
			r.Class("block/verified")
			r.Case(fmt.Sprintf("block/h=%d/root=%d", h, rootH))
			if rootH < b.tip {
				if _, err := merkle.MerkleProve(proof, hdr[rootH+1].BlockRoot[:]); err == nil {
					r.Violation("control/block-proof-verifies-against-foreign-root", where(h, map[string]any{"root_height": rootH}))
				} else {
					r.Class("control/foreign-root-refused")
				}
			}
		}
	}
}

// blockClass: stable coarse key of an (h, rootHeight) pair: shape of the accumulator (rootHeight+1 leaves)
// and position of the proved leaf; the exact pair is in the violation detail.
func blockClass(h, rootH uint32) string {
	n := rootH + 1
	shape := "size-other"
	switch {
	case n&(n-1) == 0:
		shape = "size-pow2"
	case (n-1)&(n-2) == 0:
		shape = "size-pow2+1"
	}
	pos := "middle"
	switch {
	case h == 0:
		pos = "genesis"
	case h == rootH-1:
		pos = "parent-of-root-block"
	}
	return shape + "/" + pos
}

func le64(v uint64) []byte {
	b := make([]byte, 8)
	binary.LittleEndian.PutUint64(b, v)
	return b
}

func sameParam(a, b *scom.MakeTxParam) bool {
	return a != nil && bytes.Equal(a.TxHash, b.TxHash) && bytes.Equal(a.CrossChainID, b.CrossChainID) &&
		bytes.Equal(a.FromContractAddress, b.FromContractAddress) && a.ToChainID == b.ToChainID &&
		bytes.Equal(a.ToContractAddress, b.ToContractAddress) && a.Method == b.Method && bytes.Equal(a.Args, b.Args)
}

// ---------------------------------------------------------------------------------------------
// the two tree builders, every leaf count and position

var nTree int64

func treeBuilders(maxN, workers int) {
	var wg sync.WaitGroup
	next := int64(0)
	for w := 0; w < workers; w++ {
		wg.Add(1)
		go func() {
			defer wg.Done()
			for {
				n := int(atomic.AddInt64(&next, 1))
				if n > maxN {
					return
				}
				if r.Expired() {
					r.Capped(fmt.Sprintf("tree builders n>=%d", n))
					return
				}
				for _, fam := range []string{"distinct", "lasttwoequal"} {
					data := make([][]byte, n)
					leaves := make([]common.Uint256, n)
					for i := range data {
						data[i] = []byte(fmt.Sprintf("leaf-%d-%d", n, i))
						if fam == "lasttwoequal" && i == n-1 && n >= 2 {
							data[i] = data[i-1]
						}
						leaves[i] = hLeaf(data[i])
					}
					var root common.Uint256
					if _, p := ev.Guard(func() { root = merkle.TreeHasher{}.HashFullTreeWithLeafHash(leaves) }); p {
						r.Violation(fmt.Sprintf("tree/root-builder-panics/%s", fam), map[string]any{"n": n})
						continue
					}
					if root != refRoot(leaves) {
						r.Violation(fmt.Sprintf("tree/root-differs-from-reference/%s", fam), map[string]any{"n": n})
					}
					for i := 0; i < n; i++ {
						atomic.AddInt64(&nTree, 1)
						path, err := merkle.MerkleLeafPath(data[i], leaves)
						if err != nil {
							r.Violation(fmt.Sprintf("tree/no-path/%s", fam), map[string]any{"n": n, "pos": i, "err": err.Error()})
							break
						}
						val, err := merkle.MerkleProve(path, root[:])
						if err != nil || !bytes.Equal(val, data[i]) {
							r.Violation(fmt.Sprintf("tree/path-does-not-verify-against-root/%s", fam), map[string]any{"n": n, "pos": i, "err": fmt.Sprint(err)})
							break
						}
						if _, steps, ok := refVerify(path, root); !ok || steps > ceilLog2(n) {
							r.Violation(fmt.Sprintf("tree/reference-verifier-disagrees/%s", fam), map[string]any{"n": n, "pos": i, "steps": steps})
							break
						}
					}
					r.Evals(n)
					r.Case(fmt.Sprintf("tree/%s/n=%d", fam, n))
					r.Class("tree/verified")
				}
			}
		}()
	}
	wg.Wait()
}

// ---------------------------------------------------------------------------------------------

func runChain(tag string, rvec []int, mode string, useRPC bool, reopens ...int) {
	if useRPC {
		defer polyenv.InstallHeightLedger()
	}
	// interleaving: after every committed block the whole grid so far (all cross-state proofs of blocks
	// < tip, all block proofs h < r <= tip) is served and checked, then the chain continues
	b := build(tag, rvec, mode, func(b *built, event string) {
		var sv server = ledgerServer{ledger.VerifNewLedger(b.ch.L)}
		if useRPC {
			ledger.DefLedger = ledger.VerifNewLedger(b.ch.L) // also answers the height asked during execution
			sv = rpcServer{}
		}
		b.check(sv, "interleaved/"+event)
		atomic.AddInt64(&nInterleaved, 1)
	}, reopens)
	defer b.close()
	for _, phase := range []string{"live", "reopened"} {
		if phase == "reopened" && !b.stuck {
			b.reopen()
		}
		if b.stuck {
			break
		}
		var sv server = ledgerServer{ledger.VerifNewLedger(b.ch.L)}
		if useRPC {
			// the RPC handlers read the process-wide DefLedger
			ledger.DefLedger = ledger.VerifNewLedger(b.ch.L)
			sv = rpcServer{}
		}
		b.check(sv, phase)
		if useRPC {
			// and the delegate, for comparison of the two serving layers
			b.check(ledgerServer{ledger.VerifNewLedger(b.ch.L)}, phase)
			polyenv.InstallHeightLedger()
		}
	}
	r.Sample(map[string]any{"chain": tag, "records_per_block": rvec, "mode": mode, "tip": b.tip, "restarts_after_blocks": reopens})
}

func main() {
	r = ev.Start("C08", "model_checking")
	defer func() { tmpDirs.Range(func(k, _ any) bool { os.RemoveAll(k.(string)); return true }) }()
	vals := polyenv.Keys(4)
	polyenv.Setup(0, vals)
	polyenv.InstallHeightLedger() // side_chain_manager (de)serialisation asks DefLedger for the height (fork height 0 on this net)

	maxLeaves := r.QT(130, 1030)
	done := make(chan struct{})
	go func() { treeBuilders(maxLeaves, 8); close(done) }()

	chains := 0
	base := []int{0, 1, 2, 3, 5, 0, 4, 1, 8}
	for _, mode := range []string{"submit", "sync", "alternate"} {
		if r.Expired() {
			r.Capped("base chain " + mode)
			break
		}
		runChain("base9/"+mode, base, mode, true)
		chains++
	}
	{
		// all r-vectors over {0..3} of length 3 (quick, 64 chains) / 4 (thorough, 256 chains): parallel,
		// served through the ledger.Ledger methods
		vl := r.QT(3, 4)
		var wg sync.WaitGroup
		sem := make(chan struct{}, 12)
		for v := 0; v < 1<<uint(2*vl); v++ {
			if r.Expired() {
				r.Capped("r-vectors")
				break
			}
			rv := make([]int, vl)
			name := ""
			for i := range rv {
				rv[i] = (v >> uint(2*i)) & 3
				name += fmt.Sprint(rv[i])
			}
			wg.Add(1)
			sem <- struct{}{}
			go func(v int, rv []int, name string) {
				defer wg.Done()
				defer func() { <-sem }()
				runChain(fmt.Sprintf("rvec%d/%s", len(rv), name), rv, []string{"submit", "sync", "alternate"}[v%3], false)
			}(v, rv, name)
			chains++
		}
		wg.Wait()
	}
	{
		// restart as an event of the history alphabet: every history over {E (no record), X (2 records)}^vl with
		// every multiset of <= 2 restart positions (before any block, between blocks, twice in a row, at the end)
		vl := r.QT(3, 4)
		var wg sync.WaitGroup
		sem := make(chan struct{}, 12)
		run := func(tag string, rv []int, mode string, reopens ...int) {
			if r.Expired() {
				r.Capped("restart schedules")
				return
			}
			wg.Add(1)
			sem <- struct{}{}
			chains++
			go func() {
				defer wg.Done()
				defer func() { <-sem }()
				runChain(tag, rv, mode, false, reopens...)
			}()
		}
		modes := []string{"submit", "sync", "alternate"}
		k := 0
		for v := 0; v < 1<<uint(vl); v++ {
			rv := make([]int, vl)
			name := ""
			for i := range rv {
				if v&(1<<uint(i)) != 0 {
					rv[i] = 2
					name += "X"
				} else {
					name += "E"
				}
			}
			last := vl + 2 // blocks: 1 (registration), 2..vl+1 (history), vl+2 (closing empty block)
			for p := 0; p <= last; p++ {
				run(fmt.Sprintf("restart/%s/at=%d", name, p), rv, modes[k%3], p)
				k++
				for q := p; q <= last; q++ {
					run(fmt.Sprintf("restart/%s/at=%d,%d", name, p, q), rv, modes[k%3], p, q)
					k++
				}
			}
		}
		for p := 0; p <= len(base)+2; p++ {
			run(fmt.Sprintf("restart/base9/at=%d", p), base, modes[p%3], p)
		}
		wg.Wait()
	}
	if r.Thorough() {
		long := make([]int, 40)
		pat := []int{0, 1, 2, 3, 5, 0, 4, 1, 8, 7, 9, 16, 17, 0, 0, 31, 33, 6, 64, 65}
		for i := range long {
			long[i] = pat[i%len(pat)]
		}
		runChain("long40/alternate", long, "alternate", true, 10, 25)
		chains++
	}
	<-done
	if r.NViolations() == 0 { // vacuity guard for a run that claims the property held
		r.Require("cross/verified", "cross/empty-block", "block/verified", "control/foreign-root-refused", "tree/verified")
	}
	r.Assume("SHA-256 is correct (reference tree and verifier use crypto/sha256 directly)",
		"headers are assembled as consensus/vbft constructBlock does: BlockRoot from GetBlockRootWithPreBlockHashes, CrossStateRoot = stored cross-state root of the PREVIOUS block; the ledger store itself never checks CrossStateRoot",
		"cross-chain records come from the vote router only (the record/proof machinery after MakeDepositProposal is router independent)")
	r.Finish(map[string]any{
		"rule":                          "MerkleProve(served proof(h,key), header[h+1].CrossStateRoot) == stored request == expected ToMerkleValue; MerkleProve(served block proof(h,r), header[r].BlockRoot) == hash(h) for all h<r<=tip; roots == reference RFC 6962 roots; tree builders agree for every n and position",
		"chains":                        chains,
		"states":                        nCommits,
		"transitions":                   nCommits,
		"traces_validated_against_impl": nCross + nBlockProofs,
		"interleaved_serving_rounds":    nInterleaved,
		"mid_history_restarts":          nReopens,
		"restart_schedules":             fmt.Sprintf("every history over {E, X=2 records}^%d with every multiset of <=2 restart positions (0..%d); base 9-block chain with a restart at every single position", r.QT(3, 4), r.QT(3, 4)+2),
		"cross_proofs_checked":          nCross,
		"block_proofs_checked":          nBlockProofs,
		"tree_builder_positions":        nTree,
		"tree_builder_leaf_counts":      fmt.Sprintf("1..%d", maxLeaves),
		"max_depth":                     map[bool]int{true: 11, false: 42}[r.Quick()],
		"r_vectors":                     fmt.Sprintf("{0..3}^%d", r.QT(3, 4)),
		"commit_paths":                  []string{"ExecuteBlock+SubmitBlock", "ExecuteBlock+AddBlock", "alternating"},
		"serving_layers":                []string{"http/base/rpc handlers (DefLedger)", "ledger.Ledger methods"},
	})
}
