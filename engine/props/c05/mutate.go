// Deviation-bounded mutation engine with child-process execution (`ulimit -v 4000000` + timeout).
// NOTE: this file is an identical copy of props/c02/mutate.go (package main cannot be shared); keep them in sync.
//
// The driver supplies: objects (reference encodings with field spans), optional extra cases, and the decoders to run on a
// mutated input. The parent re-executes its own binary (`<self> <childFlag> tier k n from`); every child enumerates the same
// deterministic case list and handles the indices of its shard. A child that dies (fatal runtime error such as out-of-memory,
// which `recover` cannot catch) is detected by the missing DONE line; the case announced last is blamed and the shard resumes
// behind it.
package main

import (
	"bufio"
	"bytes"
	"fmt"
	"math"
	"os"
	"os/exec"
	"runtime"
	"sort"
	"strconv"
	"strings"
	"sync"

	"verif.local/engine/ev"
)

type object struct {
	kind  string
	label string
	e     *enc
}

type mcase struct {
	obj    int
	class  string // splice | trunc | byte | pair | <driver specific>
	site   string // span name(s)
	what   string
	data   []byte
	expect string // driver specific expectation tag ("" = anything but a crash)
	// optional: report under this decoder name instead of the object's (e.g. a payload relabelled as another kind)
	decName string
	// optional: build data on demand (huge inputs)
	lazy func() []byte
}

// decoder runs real code on a mutated input; note != "" reports an oracle failure on that input.
type decoder struct {
	name string
	run  func(in []byte, c *mcase) (accepted bool, note string)
}

type mutSpec struct {
	childFlag   string
	objects     func(thorough bool) []object
	extra       func(objs []object, thorough bool, emit func(c *mcase)) // may be nil
	decodersFor func(kind string) []decoder
	mainDecoder func(kind string) string // blamed when the whole child process dies
}

func spanAt(e *enc, off int) *span {
	for i := range e.spans {
		if off >= e.spans[i].start && off < e.spans[i].end {
			return &e.spans[i]
		}
	}
	return nil
}

func isPrefix(s *span) bool { return s.kind == "varuint" || s.kind == "u16" || s.kind == "u32" || s.kind == "u64" }

func prefixBytes(kind string, v uint64) []byte {
	switch kind {
	case "u16":
		return le(v, 2)
	case "u32":
		return le(v, 4)
	case "u64":
		return le(v, 8)
	}
	return varuint(v)
}

func spliceAt(b []byte, s *span, repl []byte) []byte {
	out := make([]byte, 0, len(b)+9)
	out = append(out, b[:s.start]...)
	out = append(out, repl...)
	out = append(out, b[s.end:]...)
	return out
}

func bigValues(s *span, total int) map[uint64]string {
	rem := uint64(total - s.end)
	switch s.kind {
	case "u16":
		return map[uint64]string{(s.orig + 1) & 0xFFFF: "orig+1", 0xFFFF: "0xFFFF"}
	case "u32":
		return map[uint64]string{s.orig + 1: "orig+1", 0xFFFFFFFF: "2^32-1", 0x10000: "2^16"}
	}
	// var-uint and u64 counts / lengths
	return map[uint64]string{s.orig + 1: "orig+1", rem + 1: "remaining+1", 0xFFFF: "0xFFFF", 1 << 32: "2^32", 1 << 40: "2^40", 1 << 62: "2^62", 1 << 63: "2^63", math.MaxUint64: "2^64-1"}
}

func sortedKeys(m map[uint64]string) []uint64 {
	var ks []uint64
	for k := range m {
		ks = append(ks, k)
	}
	sort.Slice(ks, func(i, j int) bool { return ks[i] < ks[j] })
	return ks
}

func hugeOf(s *span) uint64 {
	switch s.kind {
	case "u16":
		return 0xFFFF
	case "u32":
		return 0xFFFFFFFF
	}
	return 1 << 62
}

// forEachCase enumerates the whole mutation space deterministically: all single prefix splices first (simplest object
// first), then truncations and single-byte corruptions, then driver extras, then prefix pairs.
func forEachCase(spec *mutSpec, objs []object, thorough bool, f func(i int, c *mcase)) int {
	i := 0
	emit := func(c *mcase) { f(i, c); i++ }
	for oi, o := range objs {
		for si := range o.e.spans {
			s := &o.e.spans[si]
			if !isPrefix(s) {
				continue
			}
			vals := bigValues(s, len(o.e.b))
			for _, v := range sortedKeys(vals) {
				emit(&mcase{obj: oi, class: "splice", site: s.name, what: vals[v], data: spliceAt(o.e.b, s, prefixBytes(s.kind, v))})
			}
		}
	}
	for oi, o := range objs {
		b := o.e.b
		for t := 0; t < len(b); t++ {
			emit(&mcase{obj: oi, class: "trunc", site: spanAt(o.e, t).name, what: fmt.Sprintf("truncate@%d", t), data: b[:t:t]})
		}
		for off := 0; off < len(b); off++ {
			for _, rep := range []byte{b[off] ^ 0x01, b[off] ^ 0x80, 0x00, 0xFF} {
				if rep == b[off] {
					continue
				}
				m := append([]byte{}, b...)
				m[off] = rep
				emit(&mcase{obj: oi, class: "byte", site: spanAt(o.e, off).name, what: fmt.Sprintf("byte@%d=%#02x", off, rep), data: m})
			}
		}
	}
	if spec.extra != nil {
		spec.extra(objs, thorough, emit)
	}
	for oi, o := range objs {
		var ps []*span
		for si := range o.e.spans {
			if isPrefix(&o.e.spans[si]) {
				ps = append(ps, &o.e.spans[si])
			}
		}
		pv := func(s *span) [][]byte {
			return [][]byte{prefixBytes(s.kind, 0), prefixBytes(s.kind, s.orig+1), prefixBytes(s.kind, hugeOf(s))}
		}
		names := []string{"0", "orig+1", "huge"}
		for x := 0; x < len(ps); x++ {
			for y := x + 1; y < len(ps); y++ {
				for vx, bx := range pv(ps[x]) {
					for vy, by := range pv(ps[y]) {
						m := spliceAt(o.e.b, ps[y], by) // later span first so the earlier offsets stay valid
						m = spliceAt(m, ps[x], bx)
						emit(&mcase{obj: oi, class: "pair", site: ps[x].name + "+" + ps[y].name, what: names[vx] + "," + names[vy], data: m})
					}
				}
			}
		}
	}
	return i
}

func clipBytes(b []byte, n int) []byte {
	if len(b) > n {
		return b[:n]
	}
	return b
}

func atoi(s string) int { v, _ := strconv.Atoi(s); return v }

// childMain: process cases i with i%n == k, i >= from. Protocol on stdout: "S i" before each case, "P i dec\tmsg" for a
// recovered panic, "N i dec\tnote" for an oracle note, "T acc rej" + "DONE" at the end.
func childMain(spec *mutSpec, args []string) {
	tier, k, n, from := args[0], atoi(args[1]), atoi(args[2]), atoi(args[3])
	only := -1
	if len(args) > 4 {
		only = atoi(args[4])
	}
	objs := spec.objects(tier == "thorough")
	w := bufio.NewWriterSize(os.Stdout, 1<<16)
	acc, rej := 0, 0
	forEachCase(spec, objs, tier == "thorough", func(i int, c *mcase) {
		if i%n != k || i < from || (only >= 0 && i != only) {
			return
		}
		// the marker must be out before a fatal runtime error can kill the process
		fmt.Fprintf(w, "S %d\n", i)
		w.Flush()
		if c.lazy != nil {
			c.data = c.lazy()
		}
		for _, d := range spec.decodersFor(objs[c.obj].kind) {
			in := append([]byte{}, c.data...)
			var ok bool
			var note string
			if pv, p := ev.Guard(func() { ok, note = d.run(in, c) }); p {
				fmt.Fprintf(w, "P %d %s\t%s\n", i, d.name, strings.ReplaceAll(fmt.Sprint(pv), "\n", " "))
				continue
			}
			if ok {
				acc++
			} else {
				rej++
			}
			if note != "" {
				fmt.Fprintf(w, "N %d %s\t%s\n", i, d.name, note)
			}
		}
	})
	fmt.Fprintf(w, "T %d %d\nDONE\n", acc, rej)
	w.Flush()
}

type childEvent struct {
	idx    int
	dec    string
	class  string // panic | fatal-oom | fatal | timeout | note | harness
	detail string
}

// runShard drives one shard to completion, restarting the child after every fatal death.
func runShard(spec *mutSpec, tier string, k, n, total int, out chan<- childEvent, acc, rej *int64, mu *sync.Mutex) {
	from := 0
	self, _ := os.Executable()
	for restarts := 0; restarts < 1000; restarts++ {
		cmd := exec.Command("bash", "-c", `ulimit -v 4000000; exec timeout -s KILL 900 "$0" "$@"`, self, spec.childFlag, tier, strconv.Itoa(k), strconv.Itoa(n), strconv.Itoa(from))
		var stderr bytes.Buffer
		cmd.Stderr = &stderr
		stdout, err := cmd.StdoutPipe()
		if err != nil || cmd.Start() != nil {
			out <- childEvent{-1, "", "harness", "cannot start child"}
			return
		}
		last, done := -1, false
		sc := bufio.NewScanner(stdout)
		sc.Buffer(make([]byte, 1<<20), 1<<20)
		for sc.Scan() {
			ln := sc.Text()
			switch {
			case strings.HasPrefix(ln, "S "):
				last = atoi(ln[2:])
			case strings.HasPrefix(ln, "P "), strings.HasPrefix(ln, "N "):
				f := strings.SplitN(ln[2:], " ", 2)
				dm := strings.SplitN(f[1], "\t", 2)
				cl := "panic"
				if ln[0] == 'N' {
					cl = "note"
				}
				out <- childEvent{atoi(f[0]), dm[0], cl, dm[1]}
			case strings.HasPrefix(ln, "T "):
				f := strings.Fields(ln[2:])
				mu.Lock()
				*acc += int64(atoi(f[0]))
				*rej += int64(atoi(f[1]))
				mu.Unlock()
			case ln == "DONE":
				done = true
			}
		}
		werr := cmd.Wait()
		if done {
			return
		}
		se := stderr.String()
		class := "fatal"
		first := strings.SplitN(strings.TrimSpace(se), "\n", 2)[0]
		switch {
		case strings.Contains(se, "out of memory") || strings.Contains(se, "cannot allocate memory"):
			class = "fatal-oom"
		case werr != nil && strings.Contains(werr.Error(), "killed"):
			class = "timeout"
		}
		if last < 0 {
			out <- childEvent{-1, "", "harness", "child died before its first case: " + first}
			return
		}
		out <- childEvent{last, "", class, first}
		from = last + 1
		if from >= total {
			return
		}
	}
	out <- childEvent{-1, "", "harness", "too many child restarts"}
}

// runMutations executes the whole mutation space in child processes and converts crashes / notes into violations.
// Key = <decoder>:<panic|fatal-oom|fatal|timeout>:<site>  or  <decoder>:<note>.
func runMutations(r *ev.Run, spec *mutSpec) map[string]any {
	thorough := r.Thorough()
	objs := spec.objects(thorough)
	perClass := map[string]int{}
	total := forEachCase(spec, objs, thorough, func(i int, c *mcase) { perClass[c.class]++ })
	n := runtime.NumCPU()
	if n > 16 {
		n = 16
	}
	events := make(chan childEvent, 1024)
	var acc, rej int64
	var mu sync.Mutex
	var wg sync.WaitGroup
	for k := 0; k < n; k++ {
		wg.Add(1)
		go func(k int) {
			defer wg.Done()
			runShard(spec, r.Tier, k, n, total, events, &acc, &rej, &mu)
		}(k)
	}
	go func() { wg.Wait(); close(events) }()
	byIdx := map[int][]childEvent{}
	for e := range events {
		if e.class == "harness" {
			r.HarnessError("mutation child: %s", e.detail)
		}
		byIdx[e.idx] = append(byIdx[e.idx], e)
	}
	// second pass over the deterministic case list to attach descriptors; single deviations first so that pairs which
	// merely contain an already-failing single deviation are not reported again
	type bad struct {
		c  mcase
		ev childEvent
	}
	var bads []bad
	forEachCase(spec, objs, thorough, func(i int, c *mcase) {
		for _, e := range byIdx[i] {
			bads = append(bads, bad{*c, e})
		}
	})
	failingSingle := map[string]bool{}
	counts := map[string]int{}
	for pass := 0; pass < 2; pass++ {
		for _, b := range bads {
			isPair := b.c.class == "pair"
			if isPair != (pass == 1) {
				continue
			}
			dec := b.ev.dec
			if dec == "" { // fatal death: the whole process went down
				dec = spec.mainDecoder(objs[b.c.obj].kind)
			}
			if b.c.decName != "" {
				dec = b.c.decName
			}
			if b.c.lazy != nil && b.c.data == nil {
				b.c.data = clipBytes(b.c.lazy(), 256)
			}
			cl := b.ev.class
			if cl == "note" && strings.HasPrefix(b.ev.detail, "info:") { // informational outcome class, not a failure
				r.Class(b.ev.detail[5:])
				continue
			}
			counts[cl]++
			r.Class("mutant_" + cl)
			if cl == "note" {
				r.Violation(dec+":"+b.ev.detail, map[string]any{"object": objs[b.c.obj].label, "mutation": b.c.class + " " + b.c.what, "site": b.c.site,
					"input_hex": clipHex(b.c.data), "input_len": len(b.c.data), "expect": b.c.expect})
				continue
			}
			if isPair {
				parts := strings.Split(b.c.site, "+")
				if failingSingle[dec+"|"+parts[0]] || failingSingle[dec+"|"+parts[1]] {
					counts["pair_subsumed_by_single"]++
					continue
				}
			} else {
				failingSingle[dec+"|"+b.c.site] = true
			}
			site := b.c.site
			if b.c.class == "trunc" {
				site = "truncated-in-" + site
			}
			r.Violation(fmt.Sprintf("%s:%s:%s", dec, cl, site), map[string]any{"object": objs[b.c.obj].label, "mutation": b.c.class + " " + b.c.what,
				"site": b.c.site, "input_hex": fmt.Sprintf("%x", b.c.data), "input_len": len(b.c.data), "child_says": b.ev.detail,
				"how": "decoded in a child process under `ulimit -v 4000000`; panic = recovered runtime panic, fatal-oom = process killed by the Go runtime (not recoverable)"})
		}
	}
	r.Evals(total)
	if acc > 0 {
		r.Class("mutant_accepted")
	}
	if rej > 0 {
		r.Class("mutant_clean_error")
	}
	for _, o := range objs {
		r.Case("mutations of " + o.label)
	}
	return map[string]any{"mutation_cases": total, "mutation_cases_by_class": perClass, "mutant_decodes_accepted": acc, "mutant_decodes_clean_error": rej,
		"mutant_failures": counts, "mutation_objects": len(objs), "child_processes": n}
}
