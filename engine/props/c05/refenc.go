// Reference models and an independent span-recording encoder for transactions, headers and blocks.
// NOTE: this file is an identical copy of props/c02/refenc.go (package main cannot be shared); keep them in sync.
package main

import (
	"bytes"
	"crypto/elliptic"
	"crypto/sha256"
	"fmt"
	"math/big"

	"github.com/ontio/ontology-crypto/ec"
	"github.com/ontio/ontology-crypto/keypair"
	"github.com/polynetwork/poly/common"
	"github.com/polynetwork/poly/core/payload"
	"github.com/polynetwork/poly/core/types"
)

// ---------------------------------------------------------------------------------------------
// deterministic keys

var keyCache = map[int]keypair.PublicKey{}

func pub(i int) keypair.PublicKey {
	if k, ok := keyCache[i]; ok {
		return k
	}
	c := elliptic.P256()
	h := sha256.Sum256([]byte(fmt.Sprintf("verif-key-%d", i)))
	d := new(big.Int).SetBytes(h[:])
	d.Mod(d, new(big.Int).Sub(c.Params().N, big.NewInt(1)))
	d.Add(d, big.NewInt(1))
	pri := &ec.PrivateKey{Algorithm: ec.ECDSA, PrivateKey: ec.ConstructPrivateKey(d.Bytes(), c)}
	k := pri.Public().(keypair.PublicKey)
	keyCache[i] = k
	return k
}

func pubBytes(i int) []byte { return keypair.SerializePublicKey(pub(i)) }

func pattern(n int, seed byte) []byte {
	b := make([]byte, n)
	for i := range b {
		b[i] = byte(i)*5 + seed
	}
	return b
}

func dsha(b []byte) common.Uint256 {
	t := sha256.Sum256(b)
	return common.Uint256(sha256.Sum256(t[:]))
}

// ---------------------------------------------------------------------------------------------
// models + independent reference encoder that records field spans

type mSig struct {
	sigData [][]byte
	pubs    []int
	m       uint16
}

type mTx struct {
	nonce                       uint32
	chainID, gasLimit, gasPrice uint64
	code                        []byte
	payer                       [20]byte
	sigs                        []mSig
}

type mHeader struct {
	chainID                          uint64
	prev, txRoot, crossRoot, blkRoot [32]byte
	timestamp, height                uint32
	consData                         uint64
	consPayload                      []byte
	nextBk                           [20]byte
	bookkeepers                      []int
	sigData                          [][]byte
}

type span struct {
	name       string
	start, end int
	kind       string // fixed | bytes | varuint | u16 | u32   (the last three are count/length prefixes)
	orig       uint64
}

type enc struct {
	b      []byte
	spans  []span
	prefix string
}

func (e *enc) add(name, kind string, bs []byte, orig uint64) {
	e.spans = append(e.spans, span{e.prefix + name, len(e.b), len(e.b) + len(bs), kind, orig})
	e.b = append(e.b, bs...)
}
func le(v uint64, n int) []byte {
	b := make([]byte, n)
	for i := 0; i < n; i++ {
		b[i] = byte(v >> (8 * uint(i)))
	}
	return b
}
func varuint(v uint64) []byte {
	switch {
	case v < 0xFD:
		return []byte{byte(v)}
	case v <= 0xFFFF:
		return append([]byte{0xFD}, le(v, 2)...)
	case v <= 0xFFFFFFFF:
		return append([]byte{0xFE}, le(v, 4)...)
	}
	return append([]byte{0xFF}, le(v, 8)...)
}
func (e *enc) fixed(name string, v uint64, n int) { e.add(name, "fixed", le(v, n), v) }
func (e *enc) raw(name string, bs []byte)         { e.add(name, "bytes", bs, 0) }
func (e *enc) varbytes(name string, bs []byte) {
	e.add(name+"-len", "varuint", varuint(uint64(len(bs))), uint64(len(bs)))
	if len(bs) > 0 {
		e.add(name, "bytes", bs, 0)
	}
}

func (e *enc) txUnsigned(t *mTx) {
	e.fixed("version", 0, 1)
	e.fixed("txtype", 0xd1, 1)
	e.fixed("nonce", uint64(t.nonce), 4)
	e.fixed("chainid", t.chainID, 8)
	e.fixed("gaslimit", t.gasLimit, 8)
	e.fixed("gasprice", t.gasPrice, 8)
	e.varbytes("code", t.code)
	e.varbytes("attributes", nil)
	e.raw("payer", t.payer[:])
	e.fixed("cointype", 0, 1)
}

func (e *enc) tx(t *mTx) {
	e.txUnsigned(t)
	e.add("sigcount-prefix", "varuint", varuint(uint64(len(t.sigs))), uint64(len(t.sigs)))
	for _, s := range t.sigs {
		e.add("sig.sigdata-count", "u16", le(uint64(len(s.sigData)), 2), uint64(len(s.sigData)))
		for _, d := range s.sigData {
			e.varbytes("sig.sigdata", d)
		}
		e.add("sig.pubkey-count", "u16", le(uint64(len(s.pubs)), 2), uint64(len(s.pubs)))
		for _, p := range s.pubs {
			e.varbytes("sig.pubkey", pubBytes(p))
		}
		e.fixed("sig.m", uint64(s.m), 2)
	}
}

func (e *enc) headerUnsigned(h *mHeader) {
	e.fixed("version", 0, 4)
	e.fixed("chainid", h.chainID, 8)
	e.raw("prevhash", h.prev[:])
	e.raw("txroot", h.txRoot[:])
	e.raw("crossroot", h.crossRoot[:])
	e.raw("blockroot", h.blkRoot[:])
	e.fixed("timestamp", uint64(h.timestamp), 4)
	e.fixed("height", uint64(h.height), 4)
	e.fixed("consensusdata", h.consData, 8)
	e.varbytes("conspayload", h.consPayload)
	e.raw("nextbookkeeper", h.nextBk[:])
}

func (e *enc) header(h *mHeader) {
	e.headerUnsigned(h)
	e.add("bookkeeper-count", "varuint", varuint(uint64(len(h.bookkeepers))), uint64(len(h.bookkeepers)))
	for _, k := range h.bookkeepers {
		e.varbytes("bookkeeper", pubBytes(k))
	}
	e.add("sigdata-count", "varuint", varuint(uint64(len(h.sigData))), uint64(len(h.sigData)))
	for _, s := range h.sigData {
		e.varbytes("sigdata", s)
	}
}

func (e *enc) block(h *mHeader, txs []*mTx) {
	e.prefix = "hdr."
	e.header(h)
	e.prefix = ""
	e.add("txcount", "u32", le(uint64(len(txs)), 4), uint64(len(txs)))
	e.prefix = "tx."
	for _, t := range txs {
		e.tx(t)
	}
	e.prefix = ""
}

func refTx(t *mTx) *enc           { e := &enc{}; e.tx(t); return e }
func refTxUnsigned(t *mTx) []byte { e := &enc{}; e.txUnsigned(t); return e.b }
func refHeader(h *mHeader) *enc   { e := &enc{}; e.header(h); return e }
func refHeaderUnsigned(h *mHeader) []byte {
	e := &enc{}
	e.headerUnsigned(h)
	return e.b
}
func refBlock(h *mHeader, txs []*mTx) *enc { e := &enc{}; e.block(h, txs); return e }

// reference Merkle root (level by level, duplicate odd, double SHA-256)
func refRoot(leaves []common.Uint256) common.Uint256 {
	if len(leaves) == 0 {
		return common.Uint256{}
	}
	level := append([]common.Uint256{}, leaves...)
	for len(level) > 1 {
		var next []common.Uint256
		for i := 0; i < len(level); i += 2 {
			l, r := level[i], level[i]
			if i+1 < len(level) {
				r = level[i+1]
			}
			next = append(next, dsha(append(append([]byte{}, l[:]...), r[:]...)))
		}
		level = next
	}
	return level[0]
}

// ---------------------------------------------------------------------------------------------
// real objects from models

func realSigs(ms []mSig) []types.Sig {
	out := make([]types.Sig, len(ms))
	for i, s := range ms {
		out[i].M = s.m
		out[i].SigData = append([][]byte{}, s.sigData...)
		for _, p := range s.pubs {
			out[i].PubKeys = append(out[i].PubKeys, pub(p))
		}
	}
	return out
}

func realTx(t *mTx) *types.Transaction {
	return &types.Transaction{Version: 0, TxType: types.Invoke, Nonce: t.nonce, ChainID: t.chainID, GasLimit: t.gasLimit,
		GasPrice: t.gasPrice, Payload: &payload.InvokeCode{Code: t.code}, Attributes: []byte{}, Payer: common.Address(t.payer),
		Sigs: realSigs(t.sigs)}
}

func realHeader(h *mHeader) *types.Header {
	hd := &types.Header{Version: 0, ChainID: h.chainID, PrevBlockHash: h.prev, TransactionsRoot: h.txRoot, CrossStateRoot: h.crossRoot,
		BlockRoot: h.blkRoot, Timestamp: h.timestamp, Height: h.height, ConsensusData: h.consData, ConsensusPayload: h.consPayload,
		NextBookkeeper: common.Address(h.nextBk), SigData: append([][]byte{}, h.sigData...)}
	for _, k := range h.bookkeepers {
		hd.Bookkeepers = append(hd.Bookkeepers, pub(k))
	}
	return hd
}

func sigsEqual(a []types.Sig, m []mSig) bool {
	if len(a) != len(m) {
		return false
	}
	for i := range a {
		if a[i].M != m[i].m || len(a[i].SigData) != len(m[i].sigData) || len(a[i].PubKeys) != len(m[i].pubs) {
			return false
		}
		for j := range a[i].SigData {
			if !bytes.Equal(a[i].SigData[j], m[i].sigData[j]) {
				return false
			}
		}
		for j := range a[i].PubKeys {
			if !bytes.Equal(keypair.SerializePublicKey(a[i].PubKeys[j]), pubBytes(m[i].pubs[j])) {
				return false
			}
		}
	}
	return true
}

func txEqual(x *types.Transaction, t *mTx) bool {
	ic, ok := x.Payload.(*payload.InvokeCode)
	return ok && x.Version == 0 && x.TxType == types.Invoke && x.Nonce == t.nonce && x.ChainID == t.chainID && x.GasLimit == t.gasLimit &&
		x.GasPrice == t.gasPrice && bytes.Equal(ic.Code, t.code) && len(x.Attributes) == 0 && x.Payer == common.Address(t.payer) &&
		x.CoinType == types.ONG && sigsEqual(x.Sigs, t.sigs)
}

func headerEqual(x *types.Header, h *mHeader) bool {
	if !(x.Version == 0 && x.ChainID == h.chainID && x.PrevBlockHash == common.Uint256(h.prev) && x.TransactionsRoot == common.Uint256(h.txRoot) &&
		x.CrossStateRoot == common.Uint256(h.crossRoot) && x.BlockRoot == common.Uint256(h.blkRoot) && x.Timestamp == h.timestamp &&
		x.Height == h.height && x.ConsensusData == h.consData && bytes.Equal(x.ConsensusPayload, h.consPayload) &&
		x.NextBookkeeper == common.Address(h.nextBk) && len(x.Bookkeepers) == len(h.bookkeepers) && len(x.SigData) == len(h.sigData)) {
		return false
	}
	for i, k := range h.bookkeepers {
		if !bytes.Equal(keypair.SerializePublicKey(x.Bookkeepers[i]), pubBytes(k)) {
			return false
		}
	}
	for i, s := range h.sigData {
		if !bytes.Equal(x.SigData[i], s) {
			return false
		}
	}
	return true
}

func single(k int, seed byte) mSig {
	return mSig{sigData: [][]byte{pattern(65, seed)}, pubs: []int{k}, m: 1}
}
func multi(seed byte) mSig {
	return mSig{sigData: [][]byte{pattern(65, seed), pattern(65, seed+1)}, pubs: []int{1, 2, 3}, m: 2}
}

type hdrSigSet struct {
	bks  []int
	sigs [][]byte
}

func clipHex(b []byte) string {
	if len(b) > 96 {
		return fmt.Sprintf("%x..(%d bytes)", b[:96], len(b))
	}
	return fmt.Sprintf("%x", b)
}

func describeTx(t *mTx) map[string]any {
	return map[string]any{"nonce": t.nonce, "chainid": t.chainID, "gaslimit": t.gasLimit, "gasprice": t.gasPrice, "code_len": len(t.code),
		"payer": fmt.Sprintf("%x", t.payer), "sigs": describeSigs(t.sigs)}
}
func describeSigs(s []mSig) []string {
	var out []string
	for _, x := range s {
		out = append(out, fmt.Sprintf("%d-of-%v/%dsig", x.m, x.pubs, len(x.sigData)))
	}
	return out
}

