// C05 — peer-to-peer frames are integrity-checked and round-trip.
//
// In-process: every instance of every one of the 16 message kinds (field boundary alphabets; lists with 0,1,MAX,MAX+1
// entries; real tx / header / block payloads) is framed with types.WriteMessage, compared with an independent reference
// frame (magic | cmd | length | first 4 bytes of double-SHA-256 | payload), read back with types.ReadMessage and compared
// field by field; two frames back to back must both be read.
// Child processes (`ulimit -v 4000000` + timeout), for a representative instance set of all 16 kinds:
//   frame level   : every truncation, every byte x {^01,^80,00} (magic / length / checksum / payload corruptions must be
//                   rejected, a corrupted command must be rejected or decode as a different known kind), length field x
//                   {len-1, len+1, 0, MAX, MAX+1, 2^32-1} (above MAX: rejected without allocating), wrong magics, unknown
//                   commands, every other known command on the same payload
//   payload level : every truncation / byte corruption / count- and length-prefix splice / prefix pair of the payload,
//                   re-framed with a VALID header so that it reaches the per-kind decoders; never a panic, limits enforced.
package main

import (
	"bytes"
	"fmt"
	"math"
	"os"
	"reflect"
	"runtime"
	"strings"

	"github.com/ontio/ontology-crypto/keypair"
	"github.com/polynetwork/poly/common"
	"github.com/polynetwork/poly/common/config"
	ct "github.com/polynetwork/poly/core/types"
	pc "github.com/polynetwork/poly/p2pserver/common"
	mt "github.com/polynetwork/poly/p2pserver/message/types"
	"verif.local/engine/ev"
)

const magic = uint32(0x8c77ab60)

// ---------------------------------------------------------------------------------------------
// reference frame

func refFrameHdr(mg uint32, cmd string, length uint32, payload []byte) []byte {
	out := le(uint64(mg), 4)
	c := make([]byte, 12)
	copy(c, cmd)
	out = append(out, c...)
	out = append(out, le(uint64(length), 4)...)
	sum := dsha(payload)
	out = append(out, sum[:4]...)
	return out
}

func refFrame(cmd string, payload []byte) []byte {
	return append(refFrameHdr(magic, cmd, uint32(len(payload)), payload), payload...)
}

func region(off int) string {
	switch {
	case off < 4:
		return "magic"
	case off < 16:
		return "cmd"
	case off < 20:
		return "length"
	case off < 24:
		return "checksum"
	}
	return "payload"
}

// ---------------------------------------------------------------------------------------------
// instances: real message + reference payload encoding (with spans) built from the same values

type instance struct {
	cmd   string
	label string
	msg   mt.Message
	e     *enc
	// equal compares the decoded message with the original (nil = reflect.DeepEqual on the message structs)
	equal func(got mt.Message) bool
	// limited: more entries than the per-message limit; the decoder must deliver at most the limit (prefix of the original)
	limited bool
}

func h32(seed byte) (h common.Uint256) {
	if seed == 0 {
		return
	}
	if seed == 0xFF {
		for i := range h {
			h[i] = 0xFF
		}
		return
	}
	copy(h[:], pattern(32, seed))
	return
}

func peerAddr(i int, boundary bool) pc.PeerAddr {
	a := pc.PeerAddr{Time: int64(i), Services: uint64(i) * 3, Port: uint16(20000 + i), ConsensusPort: uint16(30000 + i), ID: uint64(i) << 40}
	copy(a.IpAddr[:], pattern(16, byte(i)))
	if boundary {
		a = pc.PeerAddr{Time: math.MinInt64, Services: math.MaxUint64, Port: 0xFFFF, ConsensusPort: 0xFFFF, ID: math.MaxUint64}
		for j := range a.IpAddr {
			a.IpAddr[j] = 0xFF
		}
	}
	return a
}

func encAddr(as []pc.PeerAddr) *enc {
	e := &enc{}
	e.add("addr.count", "u64", le(uint64(len(as)), 8), uint64(len(as)))
	for _, a := range as {
		e.fixed("addr.time", uint64(a.Time), 8)
		e.fixed("addr.services", a.Services, 8)
		e.raw("addr.ip", a.IpAddr[:])
		e.fixed("addr.port", uint64(a.Port), 2)
		e.fixed("addr.consport", uint64(a.ConsensusPort), 2)
		e.fixed("addr.id", a.ID, 8)
	}
	return e
}

func encVersion(p *mt.VersionPayload) *enc {
	e := &enc{}
	e.fixed("version", uint64(p.Version), 4)
	e.fixed("services", p.Services, 8)
	e.fixed("timestamp", uint64(p.TimeStamp), 8)
	e.fixed("syncport", uint64(p.SyncPort), 2)
	e.fixed("httpinfoport", uint64(p.HttpInfoPort), 2)
	e.fixed("consport", uint64(p.ConsPort), 2)
	e.raw("cap", p.Cap[:])
	e.fixed("nonce", p.Nonce, 8)
	e.fixed("startheight", p.StartHeight, 8)
	e.fixed("relay", uint64(p.Relay), 1)
	b := uint64(0)
	if p.IsConsensus {
		b = 1
	}
	e.fixed("isconsensus", b, 1)
	e.varbytes("softversion", []byte(p.SoftVersion))
	return e
}

func encInv(t common.InventoryType, hs []common.Uint256) *enc {
	e := &enc{}
	e.fixed("inv.type", uint64(t), 1)
	e.add("inv.count", "u32", le(uint64(len(hs)), 4), uint64(len(hs)))
	for _, h := range hs {
		e.raw("inv.hash", h[:])
	}
	return e
}

func hashes(n int) []common.Uint256 {
	if n == 0 {
		return nil
	}
	out := make([]common.Uint256, n)
	for i := range out {
		out[i] = h32(byte(i + 1))
	}
	return out
}

func sampleHeaders() []*mHeader {
	return []*mHeader{
		{},
		{chainID: 2, height: 5, timestamp: 6, consData: 7, consPayload: pattern(1, 0x99), bookkeepers: []int{1}, sigData: [][]byte{pattern(65, 1)}},
		{chainID: math.MaxUint64, height: math.MaxUint32, timestamp: math.MaxUint32, consData: math.MaxUint64, prev: h32(0xFF), txRoot: h32(3), consPayload: pattern(0xFD, 0x99),
			bookkeepers: []int{1, 2, 3}, sigData: [][]byte{pattern(65, 1), pattern(65, 2)}},
	}
}

func sampleTxs() []*mTx {
	return []*mTx{
		{},
		{nonce: 1, chainID: 2, gasLimit: 3, gasPrice: 4, code: pattern(1, 0x51), sigs: []mSig{single(1, 0x10)}},
		{nonce: math.MaxUint32, chainID: math.MaxUint64, code: pattern(0xFD, 0x51), sigs: []mSig{single(1, 0x10), multi(0x30)}},
		{nonce: 9, gasLimit: 0xFD, code: pattern(8, 0x61)}, // small (payload <= 128 bytes) but with zero-copy content
	}
}

func decodeTx(t *mTx) *ct.Transaction {
	tx, err := ct.TransactionFromRawBytes(refTx(t).b)
	if err != nil {
		panic(err)
	}
	return tx
}

type consModel struct {
	version, height, ts uint32
	prev                common.Uint256
	bk                  uint16
	data                []byte
	owner               int
	sig                 []byte
}

func encCons(c *consModel) *enc {
	e := &enc{}
	e.fixed("cons.version", uint64(c.version), 4)
	e.raw("cons.prevhash", c.prev[:])
	e.fixed("cons.height", uint64(c.height), 4)
	e.fixed("cons.bookkeeperindex", uint64(c.bk), 2)
	e.fixed("cons.timestamp", uint64(c.ts), 4)
	e.varbytes("cons.data", c.data)
	e.varbytes("cons.owner", pubBytes(c.owner))
	e.varbytes("cons.signature", c.sig)
	return e
}

func instances(thorough bool) []instance {
	var out []instance
	add := func(cmd, label string, msg mt.Message, e *enc) *instance {
		out = append(out, instance{cmd: cmd, label: cmd + " " + label, msg: msg, e: e})
		return &out[len(out)-1]
	}
	u64s := []uint64{0, 1, 0xFD, 1 << 32, math.MaxUint64}
	for _, h := range u64s {
		e := &enc{}
		e.fixed("height", h, 8)
		add(pc.PING_TYPE, fmt.Sprintf("height=%#x", h), &mt.Ping{Height: h}, e)
		e2 := &enc{}
		e2.fixed("height", h, 8)
		add(pc.PONG_TYPE, fmt.Sprintf("height=%#x", h), &mt.Pong{Height: h}, e2)
	}
	for _, b := range []bool{false, true} {
		e := &enc{}
		v := uint64(0)
		if b {
			v = 1
		}
		e.fixed("isconsensus", v, 1)
		add(pc.VERACK_TYPE, fmt.Sprint(b), &mt.VerACK{IsConsensus: b}, e)
	}
	softs := []string{"", "v", strings.Repeat("a", 0xFC), strings.Repeat("\xff", 0xFD)}
	for vi, base := range []mt.VersionPayload{
		{},
		{Version: 1, Services: 2, TimeStamp: 3, SyncPort: 4, HttpInfoPort: 5, ConsPort: 6, Nonce: 7, StartHeight: 8, Relay: 1},
		{Version: math.MaxUint32, Services: math.MaxUint64, TimeStamp: math.MinInt64, SyncPort: 0xFFFF, HttpInfoPort: 0xFFFF, ConsPort: 0xFFFF,
			Nonce: math.MaxUint64, StartHeight: math.MaxUint64, Relay: 0xFF, IsConsensus: true, Cap: [32]byte(h32(0xFF))},
	} {
		for _, sv := range softs {
			p := base
			p.SoftVersion = sv
			add(pc.VERSION_TYPE, fmt.Sprintf("fields=%d softversion_len=%d", vi, len(sv)), &mt.Version{P: p}, encVersion(&p))
		}
	}
	for _, n := range []int{0, 1, 2, pc.MAX_ADDR_NODE_CNT, pc.MAX_ADDR_NODE_CNT + 1} {
		var as []pc.PeerAddr
		for i := 0; i < n; i++ {
			as = append(as, peerAddr(i, i == 1))
		}
		in := add(pc.ADDR_TYPE, fmt.Sprintf("n=%d", n), &mt.Addr{NodeAddrs: as}, encAddr(as))
		in.limited = n > pc.MAX_ADDR_NODE_CNT
	}
	add(pc.GetADDR_TYPE, "", &mt.AddrReq{}, &enc{})
	add(pc.DISCONNECT_TYPE, "", &mt.Disconnected{}, &enc{})
	for _, l := range []uint8{0, 1, 0xFF} {
		for _, hs := range [][2]byte{{0, 0}, {1, 0xFF}} {
			e := &enc{}
			e.fixed("len", uint64(l), 1)
			a, b := h32(hs[0]), h32(hs[1])
			e.raw("hashstart", a[:])
			e.raw("hashend", b[:])
			add(pc.GET_HEADERS_TYPE, fmt.Sprintf("len=%d hashes=%v", l, hs), &mt.HeadersReq{Len: l, HashStart: a, HashEnd: b}, e)
			e2 := &enc{}
			e2.fixed("len", uint64(l), 1)
			e2.raw("hashstart", a[:])
			e2.raw("hashend", b[:])
			add(pc.GET_BLOCKS_TYPE, fmt.Sprintf("len=%d hashes=%v", l, hs), &mt.BlocksReq{HeaderHashCount: l, HashStart: a, HashStop: b}, e2)
		}
	}
	for _, t := range []common.InventoryType{common.TRANSACTION, common.BLOCK, common.CONSENSUS, 0, 0xFF} {
		for _, n := range []int{0, 1, pc.MAX_INV_BLK_CNT, pc.MAX_INV_BLK_CNT + 1} {
			hs := hashes(n)
			in := add(pc.INV_TYPE, fmt.Sprintf("type=%#x n=%d", byte(t), n), &mt.Inv{P: mt.InvPayload{InvType: t, Blk: hs}}, encInv(t, hs))
			in.limited = n > pc.MAX_INV_BLK_CNT
		}
		for _, hb := range []byte{0, 7, 0xFF} {
			e := &enc{}
			e.fixed("datatype", uint64(t), 1)
			h := h32(hb)
			e.raw("hash", h[:])
			add(pc.GET_DATA_TYPE, fmt.Sprintf("type=%#x hash=%d", byte(t), hb), &mt.DataReq{DataType: t, Hash: h}, e)
		}
	}
	for _, hb := range []byte{0, 7, 0xFF} {
		e := &enc{}
		h := h32(hb)
		e.raw("hash", h[:])
		add(pc.NOT_FOUND_TYPE, fmt.Sprintf("hash=%d", hb), &mt.NotFound{Hash: h}, e)
	}
	// headers
	hdrs := sampleHeaders()
	hdrCounts := []int{0, 1, 2, 3}
	if thorough {
		hdrCounts = append(hdrCounts, pc.MAX_BLK_HDR_CNT)
	}
	for _, n := range hdrCounts {
		e := &enc{}
		e.add("headers.count", "u32", le(uint64(n), 4), uint64(n))
		m := &mt.BlkHeader{}
		var models []*mHeader
		for i := 0; i < n; i++ {
			hm := hdrs[i%len(hdrs)]
			models = append(models, hm)
			e.prefix = "hdr."
			e.header(hm)
			e.prefix = ""
			m.BlkHdr = append(m.BlkHdr, realHeader(hm))
		}
		in := add(pc.HEADERS_TYPE, fmt.Sprintf("n=%d", n), m, e)
		in.equal = func(got mt.Message) bool {
			g, ok := got.(*mt.BlkHeader)
			if !ok || len(g.BlkHdr) != len(models) {
				return false
			}
			for i := range models {
				if !headerEqual(g.BlkHdr[i], models[i]) || g.BlkHdr[i].Hash() != dsha(refHeaderUnsigned(models[i])) {
					return false
				}
			}
			return true
		}
	}
	// tx
	for i, tm := range sampleTxs() {
		tm := tm
		in := add(pc.TX_TYPE, fmt.Sprintf("sample=%d", i), &mt.Trn{Txn: decodeTx(tm)}, refTx(tm))
		in.equal = func(got mt.Message) bool {
			g, ok := got.(*mt.Trn)
			return ok && g.Txn != nil && txEqual(g.Txn, tm) && g.Txn.Hash() == dsha(refTxUnsigned(tm)) && bytes.Equal(g.Txn.Raw, refTx(tm).b)
		}
	}
	// block: 0..3 transactions, with and without the trailing merkle root value
	txs := sampleTxs()
	for n := 0; n <= len(txs); n++ {
		for _, mr := range []byte{0, 9} {
			sel := txs[:n]
			var ids []common.Uint256
			blk := &ct.Block{}
			for _, t := range sel {
				ids = append(ids, dsha(refTxUnsigned(t)))
				blk.Transactions = append(blk.Transactions, decodeTx(t))
			}
			hm := &mHeader{height: uint32(n), txRoot: refRoot(ids), bookkeepers: []int{1, 2}, sigData: [][]byte{pattern(65, 4)}}
			blk.Header = realHeader(hm)
			e := &enc{}
			e.block(hm, sel)
			root := h32(mr)
			e.raw("merkleroot", root[:])
			in := add(pc.BLOCK_TYPE, fmt.Sprintf("ntx=%d merkleroot=%d", n, mr), &mt.Block{Blk: blk, MerkleRoot: root}, e)
			in.equal = func(got mt.Message) bool {
				g, ok := got.(*mt.Block)
				if !ok || g.Blk == nil || g.MerkleRoot != root || !headerEqual(g.Blk.Header, hm) || len(g.Blk.Transactions) != len(sel) {
					return false
				}
				for i := range sel {
					if !txEqual(g.Blk.Transactions[i], sel[i]) || !bytes.Equal(g.Blk.Transactions[i].Raw, refTx(sel[i]).b) {
						return false
					}
				}
				return true
			}
		}
	}
	// consensus
	for i, c := range []*consModel{
		{owner: 1},
		{version: 1, height: 2, ts: 3, bk: 4, prev: h32(5), data: pattern(1, 6), owner: 2, sig: pattern(65, 7)},
		{version: math.MaxUint32, height: math.MaxUint32, ts: math.MaxUint32, bk: 0xFFFF, prev: h32(0xFF), data: pattern(0xFD, 6), owner: 3, sig: pattern(0xFD, 7)},
		{version: 1, height: 2, ts: 3, bk: 4, prev: h32(5), data: pattern(4, 6), owner: 2, sig: pattern(16, 7)}, // small (payload <= 128 bytes)
	} {
		c := c
		m := &mt.Consensus{Cons: mt.ConsensusPayload{Version: c.version, PrevHash: c.prev, Height: c.height, BookkeeperIndex: c.bk, Timestamp: c.ts,
			Data: c.data, Owner: pub(c.owner), Signature: c.sig}}
		in := add(pc.CONSENSUS_TYPE, fmt.Sprintf("sample=%d", i), m, encCons(c))
		in.equal = func(got mt.Message) bool {
			g, ok := got.(*mt.Consensus)
			if !ok {
				return false
			}
			p := g.Cons
			return p.Version == c.version && p.PrevHash == c.prev && p.Height == c.height && p.BookkeeperIndex == c.bk && p.Timestamp == c.ts &&
				bytes.Equal(p.Data, c.data) && bytes.Equal(p.Signature, c.sig) && p.Owner != nil && bytes.Equal(keySer(p.Owner), pubBytes(c.owner))
		}
	}
	return out
}

// all commands MakeEmptyMessage knows
var allCmds = []string{pc.PING_TYPE, pc.VERSION_TYPE, pc.VERACK_TYPE, pc.ADDR_TYPE, pc.GetADDR_TYPE, pc.PONG_TYPE, pc.GET_HEADERS_TYPE, pc.HEADERS_TYPE,
	pc.INV_TYPE, pc.GET_DATA_TYPE, pc.BLOCK_TYPE, pc.TX_TYPE, pc.CONSENSUS_TYPE, pc.NOT_FOUND_TYPE, pc.DISCONNECT_TYPE, pc.GET_BLOCKS_TYPE}

func payloadOf(m mt.Message) ([]byte, error) {
	s := common.NewZeroCopySink(nil)
	err := m.Serialization(s)
	return s.Bytes(), err
}

// ---------------------------------------------------------------------------------------------
// in-process round trip

func checkRoundTrips(r *ev.Run) {
	insts := instances(r.Thorough())
	seenCmd := map[string]bool{}
	for _, k := range allCmds {
		if m, err := mt.MakeEmptyMessage(k); err != nil || m.CmdType() != k {
			r.Violation("MakeEmptyMessage:known-kind-missing:"+k, map[string]any{"err": fmt.Sprint(err)})
		}
	}
	var prevFrame []byte
	for _, in := range insts {
		r.Eval()
		seenCmd[in.cmd] = true
		want := refFrame(in.cmd, in.e.b)
		var frame []byte
		var werr error
		// written behind existing sink content, as the node does when it batches
		pv, p := ev.Guard(func() {
			sink := common.NewZeroCopySink(nil)
			sink.WriteBytes([]byte{1, 2, 3})
			werr = mt.WriteMessage(sink, in.msg)
			frame = sink.Bytes()[3:]
		})
		if p || werr != nil {
			r.Violation("WriteMessage:failed:"+in.cmd, map[string]any{"instance": in.label, "panic": fmt.Sprint(pv), "err": fmt.Sprint(werr)})
			continue
		}
		if !bytes.Equal(frame, want) {
			r.Violation("WriteMessage:frame-differs-from-reference:"+in.cmd+":"+region(firstDiff(frame, want)), map[string]any{"instance": in.label,
				"got": clipHex(frame), "want": clipHex(want)})
			continue
		}
		// single frame, and behind the previous frame on the same stream
		for _, two := range []bool{false, true} {
			stream := append([]byte{}, frame...)
			if two {
				stream = append(append([]byte{}, prevFrame...), frame...)
			}
			rd := bytes.NewReader(stream)
			var got mt.Message
			var n uint32
			var err error
			pv, p := ev.Guard(func() {
				if two && len(prevFrame) > 0 {
					if _, _, e := mt.ReadMessage(rd); e != nil {
						err = fmt.Errorf("first frame of two: %v", e)
						return
					}
				}
				got, n, err = mt.ReadMessage(rd)
			})
			if p {
				r.Violation("ReadMessage:panic:well-formed:"+in.cmd, map[string]any{"instance": in.label, "panic": fmt.Sprint(pv)})
				break
			}
			if err != nil {
				r.Violation("ReadMessage:well-formed-rejected:"+in.cmd, map[string]any{"instance": in.label, "err": err.Error(), "frame": clipHex(frame)})
				break
			}
			if rd.Len() != 0 || int(n) != len(in.e.b) {
				r.Violation("ReadMessage:consumed-wrong-length:"+in.cmd, map[string]any{"instance": in.label, "left": rd.Len(), "reported": n, "payload": len(in.e.b)})
			}
			if got.CmdType() != in.cmd {
				r.Violation("ReadMessage:wrong-kind:"+in.cmd, map[string]any{"instance": in.label, "got": got.CmdType()})
				break
			}
			if in.limited {
				if !limitedOK(in, got) {
					r.Violation("ReadMessage:limit-not-enforced:"+in.cmd, map[string]any{"instance": in.label})
				} else {
					r.Class("over_limit_list_cut_to_limit")
				}
				continue
			}
			eq := false
			if in.equal != nil {
				eq = in.equal(got)
			} else {
				eq = reflect.DeepEqual(got, in.msg)
			}
			back, berr := payloadOf(got)
			if !eq || berr != nil || !bytes.Equal(back, in.e.b) {
				r.Violation("roundtrip-changed-message:"+in.cmd, map[string]any{"instance": in.label, "fields_equal": eq, "reencoded_equal": bytes.Equal(back, in.e.b)})
			} else {
				r.Class("roundtrip_ok")
				r.Case(in.cmd + "/roundtrip_ok")
			}
		}
		prevFrame = frame
		if len(in.e.b) < 80 {
			r.Sample(map[string]any{"instance": in.label, "frame": fmt.Sprintf("%x", frame)})
		}
	}
	for _, k := range allCmds {
		if !seenCmd[k] {
			r.HarnessError("no instance for message kind %s", k)
		}
	}
	r.Note("message_kinds", len(allCmds))
	r.Note("instances", len(insts))
}

// ---------------------------------------------------------------------------------------------
// multi-frame dimension: several frames written back to back into ONE stream, all read while the decoded messages are
// retained, and only after the last read every retained message is compared with what was sent. Then each retained
// message's byte slices are overwritten in turn: no other retained message may change (no shared buffers).

const smallPayload = 128

func sameAsSent(in *instance, got mt.Message) bool {
	if got == nil || got.CmdType() != in.cmd {
		return false
	}
	if in.limited {
		return limitedOK(*in, got)
	}
	eq := false
	if in.equal != nil {
		eq = in.equal(got)
	} else {
		eq = reflect.DeepEqual(got, in.msg)
	}
	back, err := payloadOf(got)
	return eq && err == nil && bytes.Equal(back, in.e.b)
}

// scribble inverts every reachable, settable byte of the []byte values of a decoded message (poly-owned types only).
func scribble(v reflect.Value, depth int) int {
	if depth > 12 || !v.IsValid() {
		return 0
	}
	own := func(t reflect.Type) bool {
		for t.Kind() == reflect.Ptr || t.Kind() == reflect.Slice || t.Kind() == reflect.Array {
			t = t.Elem()
		}
		return t.PkgPath() == "" || strings.Contains(t.PkgPath(), "polynetwork/poly")
	}
	n := 0
	switch v.Kind() {
	case reflect.Ptr, reflect.Interface:
		if v.IsNil() || !own(v.Elem().Type()) {
			return 0
		}
		return scribble(v.Elem(), depth+1)
	case reflect.Struct:
		for i := 0; i < v.NumField(); i++ {
			if v.Type().Field(i).PkgPath == "" { // exported only
				n += scribble(v.Field(i), depth+1)
			}
		}
	case reflect.Slice:
		if v.Type().Elem().Kind() == reflect.Uint8 {
			for i := 0; i < v.Len(); i++ {
				if e := v.Index(i); e.CanSet() {
					e.SetUint(e.Uint() ^ 0xFF)
					n++
				}
			}
			return n
		}
		if !own(v.Type()) {
			return 0
		}
		for i := 0; i < v.Len(); i++ {
			n += scribble(v.Index(i), depth+1)
		}
	}
	return n
}

func checkTuple(r *ev.Run, tuple []*instance) {
	r.Eval()
	labels := make([]string, len(tuple))
	for i, in := range tuple {
		labels[i] = in.label
	}
	desc := map[string]any{"frames": labels}
	sink := common.NewZeroCopySink(nil)
	for _, in := range tuple {
		if err := mt.WriteMessage(sink, in.msg); err != nil {
			desc["err"] = err.Error()
			r.Violation("multi-frame:WriteMessage-failed:"+in.cmd, desc)
			return
		}
	}
	var want []byte
	for _, in := range tuple {
		want = append(want, refFrame(in.cmd, in.e.b)...)
	}
	stream := append([]byte{}, sink.Bytes()...)
	if !bytes.Equal(stream, want) {
		r.Violation("multi-frame:stream-differs-from-reference-frames", desc)
		return
	}
	rd := bytes.NewReader(stream)
	got := make([]mt.Message, len(tuple))
	for i := range tuple {
		var err error
		if pv, p := ev.Guard(func() { got[i], _, err = mt.ReadMessage(rd) }); p || err != nil {
			desc["frame"], desc["err"], desc["panic"] = i, fmt.Sprint(err), fmt.Sprint(pv)
			r.Violation("multi-frame:frame-rejected:"+tuple[i].cmd, desc)
			return
		}
	}
	if rd.Len() != 0 {
		r.Violation("multi-frame:stream-not-consumed", desc)
	}
	// the stream and the writer's buffer are no longer needed by anybody: overwrite them
	for i := range stream {
		stream[i] ^= 0xFF
	}
	for _, b := range [][]byte{sink.Bytes()} {
		for i := range b {
			b[i] ^= 0xFF
		}
	}
	ok := true
	for i, in := range tuple {
		if !sameAsSent(in, got[i]) {
			ok = false
			desc["changed_frame"] = i
			r.Violation("multi-frame:retained-message-changed-by-later-reads:"+in.cmd, desc)
		}
	}
	if !ok {
		return
	}
	// overwrite the byte slices of one retained message at a time; the others must not notice
	for j := len(tuple) - 1; j >= 0; j-- {
		if scribble(reflect.ValueOf(got[j]), 0) == 0 {
			continue
		}
		for i, in := range tuple {
			if i != j && got[i] != nil && !sameAsSent(in, got[i]) {
				desc["overwritten_frame"], desc["changed_frame"] = j, i
				r.Violation("multi-frame:retained-messages-share-memory:"+in.cmd, desc)
				return
			}
		}
		got[j] = nil // its content is destroyed now
	}
	r.Class("multiframe_ok")
}

func checkMultiFrame(r *ev.Run) {
	insts := instances(r.Thorough())
	// (1) every ordered pair of all instances
	pairs := 0
	for i := range insts {
		for j := range insts {
			if r.Expired() {
				r.Capped("multi-frame pairs")
				return
			}
			checkTuple(r, []*instance{&insts[i], &insts[j]})
			pairs++
		}
	}
	// (2) every ordered triple over a per-kind selection: the richest instance with a payload <= 128 bytes and the
	// smallest one above, of every kind that has them
	var sel []*instance
	for _, k := range allCmds {
		var small, large *instance
		for i := range insts {
			in := &insts[i]
			if in.cmd != k || in.limited {
				continue
			}
			if n := len(in.e.b); n <= smallPayload {
				if small == nil || n >= len(small.e.b) {
					small = in
				}
			} else if large == nil || n < len(large.e.b) {
				large = in
			}
		}
		for _, x := range []*instance{small, large} {
			if x != nil {
				sel = append(sel, x)
				r.Case("multi-frame member " + x.label)
			}
		}
	}
	triples := 0
	for _, a := range sel {
		for _, b := range sel {
			for _, c := range sel {
				if r.Expired() {
					r.Capped("multi-frame triples")
					return
				}
				checkTuple(r, []*instance{a, b, c})
				triples++
			}
		}
	}
	r.Note("multi_frame_pairs", pairs)
	r.Note("multi_frame_triples", triples)
	r.Note("multi_frame_triple_members", len(sel))
}

func limitedOK(in instance, got mt.Message) bool {
	switch g := got.(type) {
	case *mt.Addr:
		o := in.msg.(*mt.Addr)
		return len(g.NodeAddrs) <= pc.MAX_ADDR_NODE_CNT && reflect.DeepEqual(g.NodeAddrs, o.NodeAddrs[:len(g.NodeAddrs)])
	case *mt.Inv:
		o := in.msg.(*mt.Inv)
		return len(g.P.Blk) <= pc.MAX_INV_BLK_CNT && g.P.InvType == o.P.InvType && reflect.DeepEqual(g.P.Blk, o.P.Blk[:len(g.P.Blk)])
	}
	return false
}

func firstDiff(a, b []byte) int {
	n := len(a)
	if len(b) < n {
		n = len(b)
	}
	for i := 0; i < n; i++ {
		if a[i] != b[i] {
			return i
		}
	}
	return n
}

// ---------------------------------------------------------------------------------------------
// mutation objects: a representative instance (or two) per kind

func mutObjects(thorough bool) []object {
	pick := map[string]bool{
		"ping height=0x1": true, "pong height=0xffffffffffffffff": true, "verack true": true,
		"version fields=1 softversion_len=0": true, "version fields=2 softversion_len=253": true,
		"addr n=0": true, "addr n=2": true, "getaddr ": true, "disconnect ": true,
		"getheaders len=1 hashes=[1 255]": true, "getblocks len=255 hashes=[1 255]": true,
		"inv type=0x2 n=0": true, "inv type=0x1 n=1": true, "getdata type=0x2 hash=7": true, "notfound hash=7": true,
		"headers n=0": true, "headers n=2": true, "tx sample=0": true, "tx sample=1": true, "block ntx=0 merkleroot=0": true, "block ntx=2 merkleroot=9": true,
		"consensus sample=1": true,
	}
	var out []object
	for _, in := range instances(false) {
		if thorough && len(in.e.b) <= 1024 && !pick[in.label] {
			out = append(out, object{kind: in.cmd, label: in.label, e: in.e})
			continue
		}
		if pick[in.label] {
			out = append(out, object{kind: in.cmd, label: in.label, e: in.e})
			delete(pick, in.label)
		}
	}
	if len(pick) != 0 {
		panic(fmt.Sprintf("mutation object labels not found: %v", pick))
	}
	return out
}

// frame-level cases (class "frame-*": data is a complete frame) ------------------------------------------------------
func frameCases(objs []object, thorough bool, emit func(c *mcase)) {
	max := uint32(pc.MAX_PAYLOAD_LEN)
	for oi, o := range objs {
		payload := o.e.b
		frame := refFrame(o.kind, payload)
		for t := 0; t < len(frame); t++ {
			emit(&mcase{obj: oi, class: "frame-trunc", site: region(t), what: fmt.Sprintf("truncate@%d", t), data: frame[:t:t], expect: "reject"})
		}
		for off := 0; off < len(frame); off++ {
			for _, rep := range []byte{frame[off] ^ 0x01, frame[off] ^ 0x80, 0x00} {
				if rep == frame[off] {
					continue
				}
				m := append([]byte{}, frame...)
				m[off] = rep
				exp := "reject"
				if region(off) == "cmd" {
					exp = "reject-or-alias"
				}
				emit(&mcase{obj: oi, class: "frame-byte", site: region(off), what: fmt.Sprintf("byte@%d=%#02x", off, rep), data: m, expect: exp})
			}
		}
		L := uint32(len(payload))
		for _, l := range []struct {
			v    uint32
			name string
		}{{L - 1, "len-1"}, {L + 1, "len+1"}, {0, "0"}, {max, "MAX"}, {max + 1, "MAX+1"}, {1 << 31, "2^31"}, {math.MaxUint32, "2^32-1"}} {
			if l.v == L || (L == 0 && l.name == "len-1") {
				continue
			}
			exp := "reject"
			if l.v > max {
				exp = "reject-noalloc"
			}
			f := append(refFrameHdr(magic, o.kind, l.v, payload), payload...)
			emit(&mcase{obj: oi, class: "frame-len", site: "length", what: l.name, data: f, expect: exp})
		}
		sum, sumEmpty := dsha(payload), dsha(nil)
		for _, cs := range [][4]byte{{}, {0xFF, 0xFF, 0xFF, 0xFF}, {sumEmpty[0], sumEmpty[1], sumEmpty[2], sumEmpty[3]}, {sum[3], sum[2], sum[1], sum[0]}, {sum[4], sum[5], sum[6], sum[7]}} {
			if bytes.Equal(cs[:], sum[:4]) {
				continue
			}
			f := append([]byte{}, frame...)
			copy(f[20:24], cs[:])
			emit(&mcase{obj: oi, class: "frame-checksum", site: "checksum", what: fmt.Sprintf("%x", cs), data: f, expect: "reject"})
		}
		for _, mg := range []uint32{0, magic + 1, magic ^ 0x80000000, magic >> 8, 0x77ab6000, 0x2d8829df, 0x74746e41} {
			if mg == magic {
				continue
			}
			f := append(refFrameHdr(mg, o.kind, L, payload), payload...)
			emit(&mcase{obj: oi, class: "frame-magic", site: "magic", what: fmt.Sprintf("%#x", mg), data: f, expect: "reject"})
		}
		for _, c := range []string{"", "foo", strings.ToUpper(o.kind), o.kind + "x", o.kind + " ", " " + o.kind, "versionversi", o.kind + "\x00x", "\x00" + o.kind} {
			if len(c) > 12 {
				c = c[:12]
			}
			f := append(refFrameHdr(magic, c, L, payload), payload...)
			emit(&mcase{obj: oi, class: "frame-unknown-cmd", site: "cmd", what: fmt.Sprintf("%q", c), data: f, expect: "reject"})
		}
		for _, c := range allCmds {
			if c == o.kind {
				continue
			}
			f := append(refFrameHdr(magic, c, L, payload), payload...)
			emit(&mcase{obj: oi, class: "frame-other-cmd", site: "foreign-payload", what: o.kind + " payload labelled " + c, data: f, expect: "", decName: "ReadMessage(" + c + ")"})
		}
	}
	// one genuinely oversized frame: MAX+1 payload bytes really present, checksum correct
	emit(&mcase{obj: 0, class: "frame-oversize-payload", site: "length", what: "MAX+1 bytes present", expect: "reject-noalloc", lazy: func() []byte {
		big := make([]byte, max+1)
		return append(refFrameHdr(magic, pc.PING_TYPE, max+1, big), big...)
	}})
	_ = thorough
}

func keySer(k keypair.PublicKey) []byte { return keypair.SerializePublicKey(k) }

// decoder executed in the child
func decodersFor(kind string) []decoder {
	return []decoder{{"ReadMessage(" + kind + ")", func(in []byte, c *mcase) (bool, string) {
		frame := in
		if !strings.HasPrefix(c.class, "frame-") {
			frame = refFrame(kind, in) // payload-level mutation behind a valid header
		}
		var before runtime.MemStats
		if c.expect == "reject-noalloc" {
			runtime.ReadMemStats(&before)
		}
		msg, _, err := mt.ReadMessage(bytes.NewReader(frame))
		if c.expect == "reject-noalloc" {
			var after runtime.MemStats
			runtime.ReadMemStats(&after)
			if after.TotalAlloc-before.TotalAlloc > 1<<20 {
				return err == nil, "oversize-length-allocated-before-rejection"
			}
		}
		if err != nil {
			return false, ""
		}
		switch c.expect {
		case "reject", "reject-noalloc":
			return true, "corrupted-frame-accepted:" + c.class + ":" + c.site
		case "reject-or-alias":
			if msg.CmdType() == kind {
				return true, "corrupted-frame-accepted:" + c.class + ":" + c.site
			}
			return true, "info:cmd_alias"
		}
		// accepted garbage must still respect the per-message limits
		switch g := msg.(type) {
		case *mt.Addr:
			if len(g.NodeAddrs) > pc.MAX_ADDR_NODE_CNT {
				return true, "limit-exceeded:addr"
			}
		case *mt.Inv:
			if len(g.P.Blk) > pc.MAX_INV_BLK_CNT {
				return true, "limit-exceeded:inv"
			}
		}
		return true, ""
	}}}
}

func main() {
	config.DefConfig.P2PNode.NetworkMagic = magic
	spec := &mutSpec{childFlag: "--c05-child", objects: mutObjects, extra: frameCases, decodersFor: decodersFor,
		mainDecoder: func(kind string) string { return "ReadMessage(" + kind + ")" }}
	if len(os.Args) > 1 && os.Args[1] == spec.childFlag {
		childMain(spec, os.Args[2:])
		return
	}
	r := ev.Start("C05", "exploration")
	checkRoundTrips(r)
	checkMultiFrame(r)
	cov := runMutations(r, spec)
	r.Assume("a corrupted command field may legitimately select a different known kind (the command is outside the checksum); counted as cmd_alias, not flagged",
		"a list longer than MAX_ADDR_NODE_CNT / MAX_INV_BLK_CNT is not a well-formed message: the decoder may cut it to the limit or reject it, but must not deliver more",
		"payload-level garbage is delivered behind a valid header (correct magic, length, checksum) because only such payloads reach the per-kind decoders",
		"signature / key bytes are fixed patterns and real P-256 points; nothing is verified by the codec")
	cov["rule"] = "16 kinds, boundary field alphabets, lists 0/1/MAX/MAX+1, real tx/header/block payloads: WriteMessage == reference frame, ReadMessage field-equal, single and back-to-back; multi-frame: every ordered pair of all instances and every ordered triple over a per-kind selection (richest payload <=128 bytes, smallest payload >128 bytes) written into one stream, all read, messages retained and compared only after the last read, then byte slices of each retained message overwritten in turn (no shared memory); " +
		"mutations in child processes (ulimit -v 4000000) on 22 representative payloads (thorough: every instance with a payload of at most 1024 bytes): frame level = every truncation, every byte x 3 values, 7 length values, 5 checksum values, 7 magics, 9 unknown commands, 15 other commands, " +
		"1 real MAX+1-byte payload; payload level (valid header) = every truncation, every byte x 4 values, every count/length prefix x blown-up values, every prefix pair x 3x3"
	if r.NViolations() == 0 { // vacuity guard; a run that already found violations reports those (exit 1), not exit 2
		r.Require("roundtrip_ok", "multiframe_ok", "over_limit_list_cut_to_limit", "mutant_accepted", "mutant_clean_error")
	}
	r.Finish(cov)
}
