// C01 — binary codec round-trips and fails safely on truncated input.
//
// Bounded-exhaustive: every sequence of <= D primitives over a boundary-value alphabet is
//   (1) encoded with common.ZeroCopySink and with common/serialization (streaming) -> bytes must be identical,
//   (2) decoded with common.ZeroCopySource and with common/serialization -> values equal, offsets exact,
//   (3) decoded at EVERY truncation point -> the straddled primitive must report eof / error,
//   (4) decoded with every var-bytes length prefix spliced to {remaining+1, 2^31, 2^63, 2^64-1, 2^64-off, ...}
//       -> eof / error, no panic, no out-of-bounds slice (the input slice has cap == len).
// Plus: Address / Uint256 parse helpers (bytes, hex, base58) and SafeAdd/SafeSub/SafeMul against math/big on a
// boundary cube.
package main

import (
	"bytes"
	"fmt"
	"math"
	"math/big"
	"runtime"
	"runtime/debug"
	"sort"
	"strings"
	"sync"

	"github.com/polynetwork/poly/common"
	ser "github.com/polynetwork/poly/common/serialization"
	"verif.local/engine/ev"
)

type kind int

const (
	kU8 kind = iota
	kU16
	kU32
	kU64
	kI16
	kI32
	kI64
	kBool
	kVarUint
	kVarBytes
	kString
	kAddress
	kHash
	nKinds
)

var kindName = [...]string{"u8", "u16", "u32", "u64", "i16", "i32", "i64", "bool", "varuint", "varbytes", "string", "address", "hash"}

// val is one primitive value of the alphabet. u carries integers (two's complement for signed), b carries bytes.
type val struct {
	k kind
	u uint64
	b []byte
}

func (v val) String() string {
	if v.b != nil || v.k >= kVarBytes {
		h := fmt.Sprintf("%x", v.b)
		if len(h) > 16 {
			h = h[:16] + ".."
		}
		return fmt.Sprintf("%s[len=%d %s]", kindName[v.k], len(v.b), h)
	}
	return fmt.Sprintf("%s(%#x)", kindName[v.k], v.u)
}

func fill(n int, mode int) []byte {
	b := make([]byte, n)
	for i := range b {
		switch mode {
		case 0:
			b[i] = 0
		case 1:
			b[i] = 0xFF
		default:
			b[i] = byte(i*7 + 3)
		}
	}
	return b
}

func alphabet(lens []int, reduced bool) []val {
	var a []val
	add := func(k kind, us ...uint64) {
		for _, u := range us {
			a = append(a, val{k: k, u: u})
		}
	}
	if reduced {
		add(kU8, 0, 0xFD, 0xFF)
		add(kU16, 0xFD, 0xFFFF)
		add(kU32, 0x10000, 0xFFFFFFFF)
		add(kU64, 1<<32, math.MaxUint64)
		add(kI16, 0xFFFF)
		add(kI32, 0x80000000)
		add(kI64, 1<<63)
		add(kBool, 0, 1)
		add(kVarUint, 0xFC, 0xFD, 0xFFFF, 0x10000, 0xFFFFFFFF, 1<<32, math.MaxUint64)
	} else {
		add(kU8, 0, 1, 0x7F, 0x80, 0xFC, 0xFD, 0xFE, 0xFF)
		add(kU16, 0, 1, 0xFC, 0xFD, 0xFF, 0x100, 0x7FFF, 0x8000, 0xFFFF)
		add(kU32, 0, 1, 0xFFFF, 0x10000, 0x7FFFFFFF, 0x80000000, 0xFFFFFFFF)
		add(kU64, 0, 1, 0xFFFFFFFF, 1<<32, 1<<63-1, 1<<63, math.MaxUint64)
		add(kI16, 0, 1, 0xFFFF, 0x8000, 0x7FFF)
		add(kI32, 0, 1, 0xFFFFFFFF, 0x80000000, 0x7FFFFFFF)
		add(kI64, 0, 1, math.MaxUint64, 1<<63, 1<<63-1)
		add(kBool, 0, 1)
		add(kVarUint, 0, 1, 0xFC, 0xFD, 0xFE, 0xFF, 0x100, 0xFFFF, 0x10000, 0xFFFFFFFF, 1<<32, 1<<63, math.MaxUint64)
	}
	for _, k := range []kind{kVarBytes, kString} {
		for _, n := range lens {
			modes := []int{0, 1, 2}
			if n == 0 {
				modes = []int{0}
			} else if reduced {
				modes = []int{1}
			}
			for _, m := range modes {
				a = append(a, val{k: k, b: fill(n, m)})
			}
		}
	}
	for _, k := range []kind{kAddress, kHash} {
		n := common.ADDR_LEN
		if k == kHash {
			n = common.UINT256_SIZE
		}
		modes := []int{0, 1, 2}
		if reduced {
			modes = []int{1}
		}
		for _, m := range modes {
			a = append(a, val{k: k, b: fill(n, m)})
		}
	}
	return a
}

// ---------------------------------------------------------------------------------------------
// encoders

func encSink(s *common.ZeroCopySink, v val) (claimed uint64, hasClaim bool) {
	switch v.k {
	case kU8:
		s.WriteUint8(uint8(v.u))
	case kU16:
		s.WriteUint16(uint16(v.u))
	case kU32:
		s.WriteUint32(uint32(v.u))
	case kU64:
		s.WriteUint64(v.u)
	case kI16:
		s.WriteInt16(int16(uint16(v.u)))
	case kI32:
		s.WriteInt32(int32(uint32(v.u)))
	case kI64:
		s.WriteInt64(int64(v.u))
	case kBool:
		s.WriteBool(v.u != 0)
	case kVarUint:
		return s.WriteVarUint(v.u), true
	case kVarBytes:
		return s.WriteVarBytes(v.b), true
	case kString:
		return s.WriteString(string(v.b)), true
	case kAddress:
		var a common.Address
		copy(a[:], v.b)
		s.WriteAddress(a)
	case kHash:
		var h common.Uint256
		copy(h[:], v.b)
		s.WriteHash(h)
	}
	return 0, false
}

func encStream(w *bytes.Buffer, v val) error {
	switch v.k {
	case kU8:
		return ser.WriteUint8(w, uint8(v.u))
	case kU16, kI16:
		return ser.WriteUint16(w, uint16(v.u))
	case kU32, kI32:
		return ser.WriteUint32(w, uint32(v.u))
	case kU64, kI64:
		return ser.WriteUint64(w, v.u)
	case kBool:
		return ser.WriteBool(w, v.u != 0)
	case kVarUint:
		return ser.WriteVarUint(w, v.u)
	case kVarBytes:
		return ser.WriteVarBytes(w, v.b)
	case kString:
		return ser.WriteString(w, string(v.b))
	case kAddress:
		var a common.Address
		copy(a[:], v.b)
		return a.Serialize(w)
	case kHash:
		var h common.Uint256
		copy(h[:], v.b)
		return h.Serialize(w)
	}
	return nil
}

// ---------------------------------------------------------------------------------------------
// decoders: return (eof/err reported, value equal to v). within reports whether a returned slice lies inside in.

func decSource(src *common.ZeroCopySource, v val) (eof bool, equal bool) {
	switch v.k {
	case kU8:
		x, e := src.NextUint8()
		return e, uint64(x) == v.u
	case kU16:
		x, e := src.NextUint16()
		return e, uint64(x) == v.u
	case kU32:
		x, e := src.NextUint32()
		return e, uint64(x) == v.u
	case kU64:
		x, e := src.NextUint64()
		return e, x == v.u
	case kI16:
		x, e := src.NextInt16()
		return e, x == int16(uint16(v.u))
	case kI32:
		x, e := src.NextInt32()
		return e, x == int32(uint32(v.u))
	case kI64:
		x, e := src.NextInt64()
		return e, x == int64(v.u)
	case kBool:
		x, e := src.NextBool()
		return e, x == (v.u != 0)
	case kVarUint:
		x, e := src.NextVarUint()
		return e, x == v.u
	case kVarBytes:
		x, e := src.NextVarBytes()
		return e, bytes.Equal(x, v.b)
	case kString:
		x, e := src.NextString()
		return e, x == string(v.b)
	case kAddress:
		x, e := src.NextAddress()
		return e, bytes.Equal(x[:], v.b)
	case kHash:
		x, e := src.NextHash()
		return e, bytes.Equal(x[:], v.b)
	}
	return true, false
}

func decStream(r *bytes.Reader, v val) (failed bool, equal bool) {
	switch v.k {
	case kU8:
		x, err := ser.ReadUint8(r)
		return err != nil, uint64(x) == v.u
	case kU16, kI16:
		x, err := ser.ReadUint16(r)
		return err != nil, uint64(x) == v.u
	case kU32, kI32:
		x, err := ser.ReadUint32(r)
		return err != nil, uint64(x) == v.u
	case kU64, kI64:
		x, err := ser.ReadUint64(r)
		return err != nil, x == v.u
	case kBool:
		x, err := ser.ReadBool(r)
		return err != nil, x == (v.u != 0)
	case kVarUint:
		x, err := ser.ReadVarUint(r, 0)
		return err != nil, x == v.u
	case kVarBytes:
		x, err := ser.ReadVarBytes(r)
		return err != nil, bytes.Equal(x, v.b)
	case kString:
		x, err := ser.ReadString(r)
		return err != nil, x == string(v.b)
	case kAddress:
		x, err := ser.ReadAddress(r)
		return err != nil, bytes.Equal(x[:], v.b)
	case kHash:
		x, err := ser.ReadHash(r)
		return err != nil, bytes.Equal(x[:], v.b)
	}
	return true, false
}

func varUintLen(u uint64) int {
	switch {
	case u < 0xFD:
		return 1
	case u <= 0xFFFF:
		return 3
	case u <= 0xFFFFFFFF:
		return 5
	}
	return 9
}

// independent var-uint writer used to build spliced prefixes (the harness does not trust the code under test here)
func refVarUint(u uint64) []byte {
	le := func(n int) []byte {
		b := make([]byte, n)
		for i := 0; i < n; i++ {
			b[i] = byte(u >> (8 * uint(i)))
		}
		return b
	}
	switch varUintLen(u) {
	case 1:
		return []byte{byte(u)}
	case 3:
		return append([]byte{0xFD}, le(2)...)
	case 5:
		return append([]byte{0xFE}, le(4)...)
	}
	return append([]byte{0xFF}, le(8)...)
}

// independent reference size of a primitive
func refSize(v val) int {
	switch v.k {
	case kU8, kBool:
		return 1
	case kU16, kI16:
		return 2
	case kU32, kI32:
		return 4
	case kU64, kI64:
		return 8
	case kVarUint:
		return varUintLen(v.u)
	case kVarBytes, kString:
		return varUintLen(uint64(len(v.b))) + len(v.b)
	case kAddress:
		return 20
	case kHash:
		return 32
	}
	return 0
}

// ---------------------------------------------------------------------------------------------

type worker struct {
	r       *ev.Run
	evals   int64
	truncs  int64
	splices int64
	seqs    int64
	shapes  map[string]bool
	classes map[string]int64
	seen    map[string]bool
	sparse  bool // big-blob pass: truncation points only near primitive / prefix boundaries and every 4096th byte
}

// nearBoundary: t within 16 bytes of a primitive start/end or of the end of a length prefix, or a multiple of 4096.
func nearBoundary(t int, seq []val, ends []int) bool {
	if t%4096 == 0 {
		return true
	}
	start := 0
	for i, e := range ends {
		marks := []int{start, e}
		if seq[i].k == kVarBytes || seq[i].k == kString {
			marks = append(marks, start+varUintLen(uint64(len(seq[i].b))))
		}
		for _, m := range marks {
			if d := t - m; d >= -16 && d <= 16 {
				return true
			}
		}
		start = e
	}
	return false
}

func (w *worker) viol(key string, seq []val, extra map[string]any) {
	if w.seen == nil {
		w.seen = map[string]bool{}
	}
	if w.seen[key] { // same key is reported once; do not pay for formatting it again
		return
	}
	w.seen[key] = true
	d := map[string]any{"sequence": seqString(seq)}
	for k, v := range extra {
		d[k] = v
	}
	w.r.Violation(key, d)
}

func seqString(seq []val) []string {
	out := make([]string, len(seq))
	for i, v := range seq {
		out[i] = v.String()
	}
	return out
}

func shape(seq []val) string {
	s := make([]string, len(seq))
	for i, v := range seq {
		s[i] = kindName[v.k]
	}
	return strings.Join(s, ",")
}

func (w *worker) checkSeq(seq []val) {
	w.seqs++
	w.evals++
	// (1) encode both ways
	var sink *common.ZeroCopySink
	var sbuf bytes.Buffer
	ends := make([]int, len(seq))
	var encPanic any
	rec, p := ev.Guard(func() {
		sink = common.NewZeroCopySink(nil)
		for i, v := range seq {
			before := sink.Size()
			claimed, has := encSink(sink, v)
			if got := sink.Size() - before; int(got) != refSize(v) || (has && claimed != got) {
				w.viol("zc-encode:size:"+kindName[v.k], seq, map[string]any{"i": i, "written": got, "claimed": claimed, "want": refSize(v)})
			}
			if v.k == kVarUint && ser.GetVarUintSize(v.u) != refSize(v) {
				w.viol("GetVarUintSize:mismatch", seq, map[string]any{"i": i})
			}
			ends[i] = int(sink.Size())
			if err := encStream(&sbuf, v); err != nil {
				w.viol("stream-encode:error:"+kindName[v.k], seq, map[string]any{"i": i, "err": err.Error()})
			}
		}
	})
	if p {
		encPanic = rec
		w.viol("encode:panic", seq, map[string]any{"panic": fmt.Sprint(encPanic)})
		return
	}
	full := sink.Bytes()
	if !bytes.Equal(full, sbuf.Bytes()) {
		w.viol("encoders-disagree:"+firstDiffKind(seq, ends, full, sbuf.Bytes()), seq,
			map[string]any{"zero_copy": fmt.Sprintf("%x", clip(full)), "streaming": fmt.Sprintf("%x", clip(sbuf.Bytes()))})
	}
	buf := make([]byte, len(full))
	copy(buf, full)

	// (2) full decode, (3) every truncation point (t == len(buf) is the full decode)
	for t := len(buf); t >= 0; t-- {
		if w.sparse && !nearBoundary(t, seq, ends) {
			continue
		}
		in := buf[:t:t]
		w.truncs++
		// zero-copy
		rec, p := ev.Guard(func() {
			src := common.NewZeroCopySource(in)
			for i, v := range seq {
				eof, eq := decSource(src, v)
				if ends[i] <= t {
					if eof || !eq {
						w.viol("zc-decode:roundtrip:"+kindName[v.k], seq, map[string]any{"i": i, "trunc": t, "eof": eof, "equal": eq})
						return
					}
					if src.Pos() != uint64(ends[i]) {
						w.viol("zc-decode:pos:"+kindName[v.k], seq, map[string]any{"i": i, "trunc": t, "pos": src.Pos(), "want": ends[i]})
						return
					}
					continue
				}
				if !eof {
					w.viol("zc-decode:truncation-accepted:"+kindName[v.k], seq, map[string]any{"i": i, "trunc": t, "of": len(buf)})
				} else if src.Pos() > uint64(t) {
					w.viol("zc-decode:pos-beyond-input:"+kindName[v.k], seq, map[string]any{"i": i, "trunc": t, "pos": src.Pos()})
				}
				return
			}
			if src.Len() != 0 {
				w.viol("zc-decode:leftover", seq, map[string]any{"len": src.Len()})
			}
		})
		if p {
			w.viol("zc-decode:panic", seq, map[string]any{"trunc": t, "of": len(buf), "panic": fmt.Sprint(rec)})
		}
		// streaming
		rec, p = ev.Guard(func() {
			rd := bytes.NewReader(in)
			for i, v := range seq {
				failed, eq := decStream(rd, v)
				if ends[i] <= t {
					if failed || !eq {
						w.viol("stream-decode:roundtrip:"+kindName[v.k], seq, map[string]any{"i": i, "trunc": t, "failed": failed, "equal": eq})
						return
					}
					if consumed := t - rd.Len(); consumed != ends[i] {
						w.viol("stream-decode:pos:"+kindName[v.k], seq, map[string]any{"i": i, "trunc": t, "consumed": consumed, "want": ends[i]})
						return
					}
					continue
				}
				if !failed {
					w.viol("stream-decode:truncation-accepted:"+kindName[v.k], seq, map[string]any{"i": i, "trunc": t, "of": len(buf)})
				}
				return
			}
		})
		if p {
			w.viol("stream-decode:panic", seq, map[string]any{"trunc": t, "of": len(buf), "panic": fmt.Sprint(rec)})
		}
	}
	w.classes["roundtrip_ok"]++
	if !w.sparse {
		w.classes["trunc_rejected"] += int64(len(buf))
	}

	// (4) length-prefix splices on every var-bytes / string position
	for j, v := range seq {
		if v.k != kVarBytes && v.k != kString {
			continue
		}
		start := 0
		if j > 0 {
			start = ends[j-1]
		}
		oldPrefix := varUintLen(uint64(len(v.b)))
		tail := buf[start+oldPrefix:]
		rem := uint64(len(tail))
		cands := map[uint64]string{rem + 1: "remaining+1", 1 << 31: "2^31", 1 << 63: "2^63", math.MaxUint64: "2^64-1", 0xFFFFFFFF: "2^32-1"}
		// values making off+n wrap around to 0, 1 and off-1 for each possible new prefix length
		off := uint64(start + 9) // a prefix >= 2^32 is 9 bytes long
		cands[-off] = "wrap-to-0"
		cands[-off+1] = "wrap-to-1"
		for L, name := range cands {
			if L <= rem {
				continue
			}
			in := make([]byte, 0, start+9+len(tail))
			in = append(in, buf[:start]...)
			in = append(in, refVarUint(L)...)
			in = append(in, tail...)
			in = in[:len(in):len(in)]
			w.splices++
			for mode := 0; mode < 3; mode++ { // 0: Next{VarBytes,String}; 1: NextVarUint+Skip; 2: streaming
				rec, p := ev.Guard(func() {
					if mode == 2 {
						rd := bytes.NewReader(in)
						for i := 0; i < j; i++ {
							if failed, eq := decStream(rd, seq[i]); failed || !eq {
								w.viol("stream-decode:roundtrip-before-splice", seq, map[string]any{"i": i})
								return
							}
						}
						if failed, _ := decStream(rd, v); !failed {
							w.viol("stream-decode:oversize-prefix-accepted:"+name, seq, map[string]any{"j": j, "prefix": L, "remaining": rem})
						}
						return
					}
					src := common.NewZeroCopySource(in)
					for i := 0; i < j; i++ {
						if eof, eq := decSource(src, seq[i]); eof || !eq {
							w.viol("zc-decode:roundtrip-before-splice", seq, map[string]any{"i": i})
							return
						}
					}
					var eof bool
					if mode == 0 {
						eof, _ = decSource(src, v)
					} else {
						n, e := src.NextVarUint()
						if e || n != L {
							w.viol("zc-decode:varuint-prefix", seq, map[string]any{"j": j, "prefix": L, "got": n, "eof": e})
							return
						}
						eof = src.Skip(n)
					}
					if !eof {
						w.viol(fmt.Sprintf("zc-decode:oversize-prefix-accepted:%s:mode%d", name, mode), seq, map[string]any{"j": j, "prefix": L, "remaining": rem})
					} else if src.Pos() > uint64(len(in)) {
						w.viol("zc-decode:pos-beyond-input:splice", seq, map[string]any{"j": j, "prefix": L, "pos": src.Pos()})
					}
				})
				if p {
					w.viol(fmt.Sprintf("splice:panic:%s:mode%d", name, mode), seq, map[string]any{"j": j, "prefix": L, "remaining": rem, "panic": fmt.Sprint(rec)})
				}
			}
			w.classes["splice_rejected"]++
		}
	}
	sh := shape(seq)
	if !w.shapes[sh] {
		w.shapes[sh] = true
	}
}

func clip(b []byte) []byte {
	if len(b) > 64 {
		return b[:64]
	}
	return b
}

func firstDiffKind(seq []val, ends []int, a, b []byte) string {
	n := len(a)
	if len(b) < n {
		n = len(b)
	}
	d := n
	for i := 0; i < n; i++ {
		if a[i] != b[i] {
			d = i
			break
		}
	}
	for i, e := range ends {
		if d < e {
			return kindName[seq[i].k]
		}
	}
	return "length"
}

// enumerate all sequences of exactly depth d over alpha whose first element index is first.
func (w *worker) enumerate(alpha []val, first, d int) {
	seq := make([]val, d)
	seq[0] = alpha[first]
	var rec func(pos int)
	rec = func(pos int) {
		if pos == d {
			w.checkSeq(seq)
			return
		}
		for i := range alpha {
			if w.r.Expired() {
				return
			}
			seq[pos] = alpha[i]
			rec(pos + 1)
		}
	}
	rec(1)
}

func runDepth(r *ev.Run, alpha []val, d int, label string, tot *totals, sparse ...bool) {
	nw := runtime.NumCPU()
	jobs := make(chan int, len(alpha))
	for i := range alpha {
		jobs <- i
	}
	close(jobs)
	var wg sync.WaitGroup
	var mu sync.Mutex
	for k := 0; k < nw; k++ {
		wg.Add(1)
		go func() {
			defer wg.Done()
			w := &worker{r: r, shapes: map[string]bool{}, classes: map[string]int64{}, sparse: len(sparse) > 0 && sparse[0]}
			for first := range jobs {
				if r.Expired() {
					r.Capped(label)
					break
				}
				w.enumerate(alpha, first, d)
			}
			mu.Lock()
			tot.seqs += w.seqs
			tot.truncs += w.truncs
			tot.splices += w.splices
			for s := range w.shapes {
				tot.shapes[s] = true
			}
			for c, n := range w.classes {
				tot.classes[c] += n
			}
			mu.Unlock()
		}()
	}
	wg.Wait()
	if r.Expired() {
		r.Capped(label)
	}
}

type totals struct {
	seqs, truncs, splices int64
	shapes                map[string]bool
	classes               map[string]int64
}

// ---------------------------------------------------------------------------------------------
// SafeAdd / SafeSub / SafeMul against math/big

func safeMath(r *ev.Run) int {
	base := []uint64{0, 1, 2, 3, 0xFF, 0xFFFF, 0x10000, 1 << 31, 1<<32 - 1, 1 << 32, 1<<32 + 1, 1<<63 - 1, 1 << 63, 1<<63 + 1,
		math.MaxUint64 - 1, math.MaxUint64, math.MaxUint64 / 2, math.MaxUint64/2 + 1, math.MaxUint64 / 3, math.MaxUint64/3 + 1,
		0xFFFFFFFF00000000, 0x100000001, 6700417, 641}
	set := map[uint64]bool{}
	for _, x := range base {
		set[x] = true
	}
	var xs []uint64
	for x := range set {
		xs = append(xs, x)
	}
	sort.Slice(xs, func(i, j int) bool { return xs[i] < xs[j] })
	max := new(big.Int).SetUint64(math.MaxUint64)
	mod := new(big.Int).Add(max, big.NewInt(1))
	n := 0
	for _, x := range xs {
		ys := map[uint64]bool{}
		for _, y := range xs {
			ys[y] = true
		}
		// exact overflow boundaries relative to x
		for _, d := range []uint64{0, 1, 2} {
			ys[math.MaxUint64-x-d] = true
			ys[math.MaxUint64-x+d] = true
			ys[x-d] = true
			ys[x+d] = true
			if x != 0 {
				ys[math.MaxUint64/x-d] = true
				ys[math.MaxUint64/x+d] = true
			}
		}
		for y := range ys {
			bx, by := new(big.Int).SetUint64(x), new(big.Int).SetUint64(y)
			type op struct {
				name string
				got  uint64
				flag bool
				want *big.Int
			}
			a, af := common.SafeAdd(x, y)
			s, sf := common.SafeSub(x, y)
			m, mf := common.SafeMul(x, y)
			for _, o := range []op{{"SafeAdd", a, af, new(big.Int).Add(bx, by)}, {"SafeSub", s, sf, new(big.Int).Sub(bx, by)}, {"SafeMul", m, mf, new(big.Int).Mul(bx, by)}} {
				n++
				r.Eval()
				wantFlag := o.want.Sign() < 0 || o.want.Cmp(max) > 0
				if o.flag != wantFlag {
					r.Violation(o.name+":flag", map[string]any{"x": x, "y": y, "flag": o.flag, "want": wantFlag})
				}
				if !wantFlag {
					if !o.want.IsUint64() || o.want.Uint64() != o.got {
						r.Violation(o.name+":value", map[string]any{"x": x, "y": y, "got": o.got, "want": o.want.String()})
					}
					r.Class("safemath_exact")
				} else {
					// wrapped value is what callers would see if they ignored the flag; SafeMul documents nothing, so only Add/Sub are compared
					if o.name != "SafeMul" {
						wrapped := new(big.Int).Mod(o.want, mod)
						if wrapped.Uint64() != o.got {
							r.Violation(o.name+":wrapped-value", map[string]any{"x": x, "y": y, "got": o.got, "want": wrapped.String()})
						}
					}
					r.Class("safemath_overflow")
				}
			}
		}
	}
	r.Case("safemath")
	return n
}

// ---------------------------------------------------------------------------------------------
// Address / Uint256 parse helpers

func parseHelpers(r *ev.Run) int {
	n := 0
	var addrs []common.Address
	for m := 0; m < 3; m++ {
		var a common.Address
		copy(a[:], fill(20, m))
		addrs = append(addrs, a)
	}
	lead := common.Address{}
	lead[19] = 1
	addrs = append(addrs, lead)
	trail := common.Address{}
	trail[0] = 1
	addrs = append(addrs, trail)
	for i := 0; i < 12; i++ {
		addrs = append(addrs, common.AddressFromVmCode([]byte{byte(i)}))
	}
	// byte-slice parsers: every length 0..2*size+1
	for l := 0; l <= 41; l++ {
		for m := 0; m < 3; m++ {
			b := fill(l, m)
			n++
			r.Eval()
			var a common.Address
			var err error
			if rec, p := ev.Guard(func() { a, err = common.AddressParseFromBytes(b) }); p {
				r.Violation("AddressParseFromBytes:panic", map[string]any{"len": l, "panic": fmt.Sprint(rec)})
				continue
			}
			if (err == nil) != (l == 20) || (err == nil && !bytes.Equal(a[:], b)) {
				r.Violation("AddressParseFromBytes:wrong", map[string]any{"len": l, "err": fmt.Sprint(err)})
			}
			if err == nil {
				r.Class("parse_accept")
			} else {
				r.Class("parse_reject")
			}
		}
	}
	for l := 0; l <= 65; l++ {
		for m := 0; m < 3; m++ {
			b := fill(l, m)
			n++
			r.Eval()
			var h common.Uint256
			var err error
			if rec, p := ev.Guard(func() { h, err = common.Uint256ParseFromBytes(b) }); p {
				r.Violation("Uint256ParseFromBytes:panic", map[string]any{"len": l, "panic": fmt.Sprint(rec)})
				continue
			}
			if (err == nil) != (l == 32) || (err == nil && !bytes.Equal(h[:], b)) {
				r.Violation("Uint256ParseFromBytes:wrong", map[string]any{"len": l, "err": fmt.Sprint(err)})
			}
			if err == nil {
				r.Class("parse_accept")
			} else {
				r.Class("parse_reject")
			}
		}
	}
	// hex and base58 forms
	for ai, a := range addrs {
		a := a
		hx := a.ToHexString()
		b58 := a.ToBase58()
		if len(hx) != 40 {
			r.Violation("Address.ToHexString:length", map[string]any{"addr": fmt.Sprintf("%x", a[:]), "hex": hx})
		}
		for t := 0; t <= len(hx); t++ {
			n++
			r.Eval()
			var got common.Address
			var err error
			if rec, p := ev.Guard(func() { got, err = common.AddressFromHexString(hx[:t]) }); p {
				r.Violation("AddressFromHexString:panic", map[string]any{"in": hx[:t], "panic": fmt.Sprint(rec)})
				continue
			}
			if t == len(hx) {
				if err != nil || got != a {
					r.Violation("AddressFromHexString:roundtrip", map[string]any{"in": hx, "err": fmt.Sprint(err)})
				}
				r.Class("parse_accept")
			} else if err == nil {
				r.Violation("AddressFromHexString:truncation-accepted", map[string]any{"in": hx[:t]})
			} else {
				r.Class("parse_reject")
			}
		}
		// base58: every truncation, every single-character substitution from a small set, one appended character
		try := func(s string, label string) {
			n++
			r.Eval()
			var got common.Address
			var err error
			if rec, p := ev.Guard(func() { got, err = common.AddressFromBase58(s) }); p {
				r.Violation("AddressFromBase58:panic:"+label, map[string]any{"in": s, "panic": fmt.Sprint(rec)})
				return
			}
			if s == b58 {
				if err != nil || got != a {
					r.Violation("AddressFromBase58:roundtrip", map[string]any{"addr": fmt.Sprintf("%x", a[:]), "b58": b58, "err": fmt.Sprint(err)})
				}
				r.Class("parse_accept")
				return
			}
			if err == nil {
				// a different string may only be accepted if it is the canonical form of what was returned
				if got.ToBase58() != s {
					r.Violation("AddressFromBase58:corruption-accepted:"+label, map[string]any{"in": s, "orig": b58, "got": fmt.Sprintf("%x", got[:])})
				}
				r.Class("parse_accept_other_canonical")
			} else {
				r.Class("parse_reject")
			}
		}
		for t := 0; t <= len(b58); t++ {
			try(b58[:t], "truncate")
		}
		if ai < 6 {
			for i := 0; i < len(b58); i++ {
				for _, c := range []byte{'1', '2', 'z', 'A', '0', 'l', ' '} {
					if b58[i] == c {
						continue
					}
					try(b58[:i]+string(c)+b58[i+1:], "substitute")
				}
			}
		}
		try(b58+"1", "append")
		try("1"+b58, "prepend")
		try(strings.Repeat("z", 2049), "oversize")
		// Serialization / Deserialization and Serialize / Deserialize
		sink := common.NewZeroCopySink(nil)
		a.Serialization(sink)
		var sb bytes.Buffer
		_ = a.Serialize(&sb)
		if !bytes.Equal(sink.Bytes(), sb.Bytes()) || !bytes.Equal(sink.Bytes(), a[:]) {
			r.Violation("Address:encoders-disagree", map[string]any{"addr": fmt.Sprintf("%x", a[:])})
		}
		for t := 0; t <= 20; t++ {
			n++
			r.Eval()
			var a1, a2 common.Address
			e1 := a1.Deserialization(common.NewZeroCopySource(sink.Bytes()[:t:t]))
			e2 := a2.Deserialize(bytes.NewReader(sink.Bytes()[:t]))
			if t == 20 {
				if e1 != nil || e2 != nil || a1 != a || a2 != a {
					r.Violation("Address:decode-roundtrip", map[string]any{"addr": fmt.Sprintf("%x", a[:])})
				}
			} else if e1 == nil || e2 == nil {
				r.Violation("Address:truncation-accepted", map[string]any{"t": t})
			}
		}
	}
	for m := 0; m < 4; m++ {
		var h common.Uint256
		copy(h[:], fill(32, m))
		if m == 3 {
			h = common.Uint256{}
			h[31] = 1
		}
		hx := h.ToHexString()
		for t := 0; t <= len(hx); t++ {
			n++
			r.Eval()
			var got common.Uint256
			var err error
			if rec, p := ev.Guard(func() { got, err = common.Uint256FromHexString(hx[:t]) }); p {
				r.Violation("Uint256FromHexString:panic", map[string]any{"in": hx[:t], "panic": fmt.Sprint(rec)})
				continue
			}
			if t == len(hx) {
				if err != nil || got != h || len(hx) != 64 {
					r.Violation("Uint256FromHexString:roundtrip", map[string]any{"in": hx, "err": fmt.Sprint(err)})
				}
				r.Class("parse_accept")
			} else if err == nil {
				r.Violation("Uint256FromHexString:truncation-accepted", map[string]any{"in": hx[:t]})
			} else {
				r.Class("parse_reject")
			}
		}
		var sb bytes.Buffer
		_ = h.Serialize(&sb)
		if !bytes.Equal(sb.Bytes(), h[:]) || !bytes.Equal(h.ToArray(), h[:]) {
			r.Violation("Uint256:encode", nil)
		}
		for t := 0; t <= 32; t++ {
			var h2 common.Uint256
			err := h2.Deserialize(bytes.NewReader(h[:t]))
			if (err == nil) != (t == 32) || (err == nil && h2 != h) {
				r.Violation("Uint256.Deserialize:wrong", map[string]any{"t": t})
			}
		}
	}
	r.Case("parse-helpers")
	return n
}

// non-canonical / foreign bytes fed to single-primitive decoders: never a panic; recorded, not judged
func foreignBytes(r *ev.Run) {
	disagree := 0
	for b := 0; b < 256; b++ {
		in := []byte{byte(b)}
		zv, zeof := common.NewZeroCopySource(in).NextBool()
		sv, serr := ser.ReadBool(bytes.NewReader(in))
		r.Eval()
		if zeof != (serr != nil) || (!zeof && zv != sv) {
			disagree++
		}
	}
	r.Note("bool_decoder_disagreements_on_bytes_2_to_255", disagree)
	// every 1..9 byte string made of boundary bytes through NextVarUint / ReadVarUint: both must agree, never panic
	bs := []byte{0x00, 0x01, 0xFC, 0xFD, 0xFE, 0xFF}
	var rec func(cur []byte)
	count := 0
	rec = func(cur []byte) {
		if len(cur) > 0 {
			count++
			r.Eval()
			in := append([]byte(nil), cur...)
			in = in[:len(in):len(in)]
			var zv, sv uint64
			var zeof bool
			var serr error
			var zpos uint64
			var rd *bytes.Reader
			if pv, p := ev.Guard(func() {
				src := common.NewZeroCopySource(in)
				zv, zeof = src.NextVarUint()
				zpos = src.Pos()
				rd = bytes.NewReader(in)
				sv, serr = ser.ReadVarUint(rd, 0)
			}); p {
				r.Violation("varuint-decode:panic", map[string]any{"in": fmt.Sprintf("%x", in), "panic": fmt.Sprint(pv)})
				return
			}
			if zeof != (serr != nil) {
				r.Violation("varuint-decoders-disagree:eof", map[string]any{"in": fmt.Sprintf("%x", in)})
			} else if !zeof {
				if zv != sv || int(zpos) != len(in)-rd.Len() {
					r.Violation("varuint-decoders-disagree:value", map[string]any{"in": fmt.Sprintf("%x", in), "zc": zv, "stream": sv})
				}
				// independent expectation
				need := map[byte]int{0xFD: 3, 0xFE: 5, 0xFF: 9}[in[0]]
				if need == 0 {
					need = 1
				}
				if int(zpos) != need {
					r.Violation("varuint-decode:consumed", map[string]any{"in": fmt.Sprintf("%x", in), "pos": zpos, "want": need})
				}
				r.Class("varuint_bytes_accept")
			} else {
				r.Class("varuint_bytes_reject")
			}
		}
		if len(cur) == 4 {
			return
		}
		for _, b := range bs {
			rec(append(cur, b))
		}
	}
	rec(nil)
	// 5- and 9-byte forms: prefix byte x all-boundary fill
	for _, p := range []byte{0xFE, 0xFF} {
		for _, f := range bs {
			for l := 1; l <= 10; l++ {
				in := append([]byte{p}, bytes.Repeat([]byte{f}, l-1)...)
				in = in[:len(in):len(in)]
				r.Eval()
				src := common.NewZeroCopySource(in)
				_, zeof := src.NextVarUint()
				_, serr := ser.ReadVarUint(bytes.NewReader(in), 0)
				need := 5
				if p == 0xFF {
					need = 9
				}
				if zeof != (l < need) || (serr != nil) != (l < need) {
					r.Violation("varuint-decode:length-rule", map[string]any{"in": fmt.Sprintf("%x", in)})
				}
			}
		}
	}
	r.Note("varuint_byte_strings", count)
}

func main() {
	debug.SetGCPercent(800) // tiny live heap, millions of short-lived decode buffers: fewer collections
	r := ev.Start("C01", "exploration")

	nSafe := safeMath(r)
	nParse := parseHelpers(r)
	foreignBytes(r)

	tot := &totals{shapes: map[string]bool{}, classes: map[string]int64{}}
	full := alphabet([]int{0, 1, 0xFC, 0xFD, 0x100}, false)
	var rule string
	if r.Quick() {
		for d := 1; d <= 3; d++ {
			runDepth(r, full, d, fmt.Sprintf("depth=%d", d), tot)
		}
		rule = fmt.Sprintf("all sequences of 1..3 primitives over %d boundary values (13 kinds)", len(full))
	} else {
		for d := 1; d <= 3; d++ {
			runDepth(r, full, d, fmt.Sprintf("depth=%d", d), tot)
		}
		big := alphabet([]int{0, 1, 0xFC, 0xFD, 0x100, 0xFFFF, 0x10000}, false)
		runDepth(r, big, 2, "big-blobs depth=2", tot, true)
		red := alphabet([]int{0, 0xFC, 0xFD}, true)
		runDepth(r, red, 4, "reduced depth=4", tot)
		rule = fmt.Sprintf("all sequences of 1..3 primitives over %d boundary values; pairs over %d values incl. 0xFFFF/0x10000-byte strings (truncation points for this pass: within 16 bytes of every primitive/prefix boundary and every 4096th byte); all 4-sequences over a reduced %d-value alphabet",
			len(full), len(big), len(red))
	}
	for s := range tot.shapes {
		r.Case(s)
	}
	for c, n := range tot.classes {
		if n > 0 {
			r.Class(c)
		}
		r.Note("count_"+c, n)
	}
	r.Evals(int(tot.seqs))
	r.Sample(map[string]any{"alphabet_size": len(full), "first_values": seqString(full[:8])})
	r.Assume("byte contents limited to all-00, all-FF and a fixed pattern; integer values limited to width boundaries",
		"decoding bytes that no encoder produces (bool bytes 2..255, non-minimal var-uints) is exercised for panic-freedom and cross-decoder agreement of var-uints only; the bool decoders are known to differ there (zero-copy rejects, streaming accepts) which the statement does not cover")
	if r.NViolations() == 0 { // vacuity guard; a run that already found violations reports those (exit 1), not exit 2
		r.Require("roundtrip_ok", "trunc_rejected", "splice_rejected", "safemath_exact", "safemath_overflow", "parse_accept", "parse_reject",
		"varuint_bytes_accept", "varuint_bytes_reject")
	}
	r.Finish(map[string]any{
		"rule":                  rule + "; each: both encoders byte-identical, both decoders exact, EVERY truncation point, every oversize length-prefix splice (remaining+1, 2^31, 2^32-1, 2^63, 2^64-1, wrap-to-0/1); a case = kind-sequence shape",
		"sequences":             tot.seqs,
		"truncation_decodes":    tot.truncs,
		"prefix_splices":        tot.splices,
		"safemath_evaluations":  nSafe,
		"parse_helper_evals":    nParse,
	})
}
