// C20 — each cross-chain message (source chain, cross-chain id) is accepted at most once.
//
// For every router with an offline-synthesisable authentication (lib/ccm adapters: vote, ripple, hsc) the real
// cross_chain_manager.ImportExTransfer is driven on main-net configuration through all sequences (BFS, depth
// quick 4 / thorough 5, deduplicated on the real state dump) of submissions
//
//	((chain,id) ∈ {S1/x, S1/y, S2/x}) × (variant) × (relayer ∈ {0,1}; second relayer for same/height/altproof)
//
// variant ∈ {same, height (other claimed height), altproof (other valid proof bytes), altmsg (other valid
// message carrying the same cross-chain id), bad (invalid authentication)} as far as the router has them.
// Vote-style submissions are Quorum(N)-1 preparatory votes plus the deciding vote; the oracle is evaluated on
// the deciding transaction and the bookkeeping invariants on every transaction.
//
// Oracle (reference model = set of done (chain, id)):
//
//	accepted (tx ok ∧ a cross-state hash is emitted)  ⇒  authentication valid ∧ (chain,id) ∉ done
//	valid ∧ (chain,id) ∉ done                          ⇒  accepted                  (canonical case must pass)
//	accepted        ⇒ exactly one new doneTx key, namely doneTx/LE64(chain)/id
//	not accepted    ⇒ the deciding tx leaves the whole dump unchanged (no doneTx, no request, no vote)
//	every state: number of doneTx keys == |model|, number of request records == |model|
//	same id on the other source chain is independent (follows from the model being keyed by (chain,id)).
package main

import (
	"crypto/sha256"
	"fmt"
	"math"
	"sort"
	"strings"
	"sync"

	"github.com/polynetwork/poly/common/config"
	_ "github.com/polynetwork/poly/native/service"
	"github.com/polynetwork/poly/native/service/utils"
	"verif.local/engine/ev"
	"verif.local/engine/lib/ccm"
	"verif.local/engine/mc"
	"verif.local/engine/polyenv"
)

const (
	H0   = 18823000 + 7           // poly height of every tx: above the HSC/Harmony/Bytom router start height on main net
	S1   = uint64(0)              // chain id 0 is registrable; its records hold the value 0 ("absent" for careless readers)
	S2   = uint64(math.MaxUint64) // 9-byte var-uint
	DST  = uint64(1)
	nVal = 4
)

type state struct {
	D    polyenv.Dump
	Done map[string]bool // model
}

func (s state) key() string {
	var k []string
	for d := range s.Done {
		k = append(k, d)
	}
	sort.Strings(k)
	return strings.Join(k, ",") + "|" + s.D.String()
}

var ccids = [][]byte{{0x01, 0xaa}, {0x02}}

func main() {
	r := ev.Start("C20", "model_checking")
	depth := r.QT(4, 5)
	r.Require("accept", "replay-failed", "invalid-rejected", "other-chain-same-id-accepted", "ids:accept", "ids:replay-rejected", "ids:second-id-accepted")
	vals := polyenv.Keys(nVal)
	polyenv.Setup(config.NETWORK_ID_MAIN_NET, vals)
	polyenv.InstallHeightLedger()
	polyenv.GlobalHeight = H0
	var total mc.Stats
	covered := []string{}
	per := map[string]any{}
	pool := ccm.NewWorlds(16)
	// cheap single-transaction routers first (btc, hsc), then the vote-style ones
	all := append(ccm.FixedAdapters(), ccm.Adapters()...)
	sort.SliceStable(all, func(i, j int) bool { return rank(all[i].Name()) < rank(all[j].Name()) })
	for _, a := range all {
		a := a
		depth := depth
		if a.Name() == "ripple" && r.Quick() {
			depth = 3 // same CheckVotes / doneTx code shape as the vote router, explored one level less in the quick tier
		}
		covered = append(covered, a.Name())
		ider, fixed := a.(ccm.IDer)
		idOf := func(c uint64, i int) []byte {
			if fixed {
				return ider.CrossChainID(c, i)
			}
			return ccids[i]
		}
		// messages
		msgs, alt := map[uint64][][]byte{}, map[uint64][][]byte{}
		for _, c := range []uint64{S1, S2} {
			for i, id := range ccids {
				m := ccm.Msg([]byte{0xe0, byte(i)}, id, []byte{0xf0}, DST, make([]byte, 20), "unlock", a.WrapArgs([]byte{1, 2, 3}))
				m2 := ccm.Msg([]byte{0xe1, byte(i)}, id, []byte{0xf0}, DST, make([]byte, 20), "unlock", a.WrapArgs([]byte{9, 9}))
				msgs[c] = append(msgs[c], ccm.MsgBytes(m))
				alt[c] = append(alt[c], ccm.MsgBytes(m2))
			}
		}
		// id-alphabet messages of chain S1 (indices 2..): see idAlphabet
		ids := idAlphabet()
		for k, id := range ids {
			m := ccm.Msg([]byte{0xe2, byte(k)}, id, []byte{0xf0}, DST, make([]byte, 20), "unlock", a.WrapArgs([]byte{4, byte(k)}))
			m2 := ccm.Msg([]byte{0xe3, byte(k)}, id, []byte{0xf0}, DST, make([]byte, 20), "unlock", a.WrapArgs([]byte{5, byte(k)}))
			msgs[S1] = append(msgs[S1], ccm.MsgBytes(m))
			alt[S1] = append(alt[S1], ccm.MsgBytes(m2))
		}
		w := polyenv.NewWorld()
		w.Genesis(vals)
		ccm.Register(w, vals, ccm.SC{ID: DST, Router: utils.VOTE_ROUTER, Wait: 1, Name: "dst", CCMC: []byte{2}}, -1, H0)
		a.Seed(w, vals, []uint64{S1, S2}, msgs, alt, H0)
		init := state{D: w.Dump(), Done: map[string]bool{}}
		w.Close()
		var events []string
		// (chain,id) pairs: S1/x, S1/y, S2/x (same id on two chains, two ids on one chain); the second relayer
		// (other voters / other account) for the variants same and height.
		for _, ci := range []struct {
			c uint64
			i int
		}{{S1, 0}, {S1, 1}, {S2, 0}} {
			for _, v := range a.Variants() {
				nrel := 1
				if v == ccm.VSame || v == ccm.VHeight {
					nrel = 2
				}
				for rel := 0; rel < nrel; rel++ {
					events = append(events, fmt.Sprintf("%d/%d/%s/%d", ci.c, ci.i, v, rel))
				}
			}
		}
		st := mc.BFS(mc.Config[state]{
			Init: []state{init}, MaxDepth: depth, Workers: 16, Stop: r.Expired,
			Key:    func(s state) string { return s.key() },
			Events: func(s state, d int) []string { return events },
			Inv: func(s state, path []string) {
				nd, nr := ccm.CountPrefix(s.D, ccm.DonePrefix()), ccm.CountPrefix(s.D, ccm.RequestPrefix())
				if nd != len(s.Done) || nr != len(s.Done) {
					r.Violation("C20/"+a.Name()+"/done-or-request-count-differs-from-accepted-messages",
						map[string]any{"router": a.Name(), "path": path, "doneTx_keys": nd, "request_keys": nr, "model_done": len(s.Done)})
				}
			},
			Step: func(s state, e string) (state, bool) {
				var c uint64
				var i, rel int
				var variant string
				f := strings.Split(e, "/")
				fmt.Sscan(f[0], &c)
				fmt.Sscan(f[1], &i)
				variant = f[2]
				fmt.Sscan(f[3], &rel)
				id := fmt.Sprintf("%d/%x", c, idOf(c, i))
				nx := state{Done: map[string]bool{}}
				for k := range s.Done {
					nx.Done[k] = true
				}
				pool.With(s.D, func(w *ccm.W) {
					sub := a.Submit(c, i, variant, rel, 1)
					det := map[string]any{"router": a.Name(), "event": e, "done_before": keysOf(s.Done)}
					fresh := !s.Done[id]
					released := false
					var last polyenv.Result
					lastUnchanged := false
					for k, tx := range sub.Txs {
						before := w.Dump()
						res := w.Exec(tx, H0, 1000)
						after := w.Dump()
						r.Eval()
						last, lastUnchanged = res, after.String() == before.String()
						d := map[string]any{"tx_index": k, "tx_ok": res.OK, "tx_err": fmt.Sprint(res.Err), "cross_hashes": len(res.CrossHashes)}
						for kk, v := range det {
							d[kk] = v
						}
						newDone := newKeys(before, after, ccm.DonePrefix())
						newReq := newKeys(before, after, ccm.RequestPrefix())
						if !res.OK && !lastUnchanged {
							r.Violation("C20/"+a.Name()+"/failed-tx-changed-state", d)
						}
						if len(res.CrossHashes) > 0 && !res.OK {
							r.Violation("C20/"+a.Name()+"/cross-hash-from-failed-tx", d)
						}
						if res.OK && len(res.CrossHashes) > 0 { // accepted
							switch {
							case !fresh || released:
								r.Violation("C20/"+a.Name()+"/replay-accepted/"+variant, d)
							case !sub.TxValid[k]:
								r.Violation("C20/"+a.Name()+"/invalid-submission-accepted", d)
							default:
								r.Class("accept")
								r.Case(a.Name() + "/accept/" + variant)
								if otherChainHas(s.Done, c, idOf(c, i)) {
									r.Class("other-chain-same-id-accepted")
								}
							}
							if len(newDone) != 1 || newDone[0] != ccm.DoneKey(c, idOf(c, i)) {
								d["new_done_keys"] = hexs(newDone)
								r.Violation("C20/"+a.Name()+"/accepted-but-not-marked-done-under-(chain,id)", d)
							}
							released = true
							nx.Done[id] = true
							continue
						}
						// not accepted: nothing but vote bookkeeping may change
						if len(newDone) != 0 || len(newReq) != 0 {
							d["new_done_keys"], d["new_request_keys"] = hexs(newDone), hexs(newReq)
							r.Violation("C20/"+a.Name()+"/marked-done-or-request-without-acceptance", d)
						}
						for ck := range before.Diff(after) {
							if !strings.HasPrefix(ck, ccm.VotePrefix()) {
								d["changed_key"] = fmt.Sprintf("%x", ck)
								r.Violation("C20/"+a.Name()+"/non-accepted-tx-changed-non-vote-state", d)
							}
						}
					}
					det["last_tx_ok"], det["last_tx_err"], det["accepted"] = last.OK, fmt.Sprint(last.Err), released
					switch {
					case released:
					case fresh && sub.Valid:
						r.Violation("C20/"+a.Name()+"/fresh-valid-message-rejected/"+variant, det)
					case !sub.Valid:
						r.Class("invalid-rejected")
						if last.OK { // outsider vote on an already released vote id: success without effect (Status flag)
							r.Class("invalid-noop-success")
						}
						if !lastUnchanged {
							r.Violation("C20/"+a.Name()+"/invalid-submission-left-trace", det)
						}
					default: // replay of a done (chain,id): the completing tx must leave no trace
						if !lastUnchanged {
							r.Violation("C20/"+a.Name()+"/replay-changed-state/"+variant, det)
						}
						if last.OK {
							r.Class("replay-noop-success")
							r.Case(a.Name() + "/replay-noop/" + variant)
						} else {
							r.Class("replay-failed")
							r.Case(a.Name() + "/replay-failed/" + variant)
						}
					}
					if len(s.Done) == 1 {
						r.Sample(det)
					}
					nx.D = w.Dump()
				})
				return nx, true
			},
		})
		total.States += st.States
		total.Transitions += st.Transitions
		if st.MaxDepth > total.MaxDepth {
			total.MaxDepth = st.MaxDepth
		}
		if st.Truncated {
			r.Capped(a.Name() + ": BFS truncated by deadline at depth " + fmt.Sprint(st.MaxDepth))
		}
		idTx := 0
		if !fixed { // the id alphabet needs freely chosen cross-chain ids
			idTx = idPhase(r, a, pool, init.D, ids)
		}
		total.Transitions += idTx
		per[a.Name()] = map[string]any{"max_depth": depth, "states": st.States, "transitions": st.Transitions, "per_depth": st.PerDepth, "events_per_state": len(events),
			"id_alphabet": len(ids), "id_phase_txs": idTx}
	}
	r.Note("routers_covered", covered)
	r.Note("routers_not_covered", ccm.RoutersWithoutAdapter(true))
	r.Note("per_router", per)
	r.Assume("a re-vote on an already released identical (chain,height,extra) returns success without any effect (CheckVotes Status flag): classed replay-noop-success — not accepted, no state change",
		"pre-quorum votes of a replayed message under a new vote id (other height / other message bytes) are recorded as vote bookkeeping; the deciding vote fails on the doneTx check and is rolled back",
		"hsc: only the genesis header is synthesised (further headers need congress seals), so the 'height' variant is not available for hsc")
	r.Finish(map[string]any{
		"rule":   "accepted ⇔ valid ∧ (chain,id) ∉ done; accept marks exactly doneTx/(chain,id); non-accepted deciding tx leaves the dump unchanged",
		"states": total.States, "transitions": total.Transitions, "traces_validated_against_impl": total.Transitions, "max_depth": depth,
		"network": "main net (NETWORK_ID_MAIN_NET), poly height 18823007, 4 validators", "chain_ids": "sources 0 and MaxUint64, destination 1",
	})
}

// idAlphabet: cross-chain ids chosen at the edges of every encoding the done-marker could be squeezed through:
// first byte 0x00 (an eth-style counter left-padded to 32 bytes), first bytes around the var-uint prefixes
// (0xfc..0xff) and small lengths (0x01, 0x1f, 0x20), one-byte ids, the empty id, an id that is a prefix of another,
// ids longer than 32 bytes (33, 64, 0xFD) together with their sha256 digests (an implementation folding long
// ids must not make L and sha256(L) share a marker).
func idAlphabet() [][]byte {
	pad := func(first byte, n int) []byte {
		b := make([]byte, n)
		for i := range b {
			b[i] = byte(0x30 + i)
		}
		b[0] = first
		return b
	}
	counter := make([]byte, 32)
	counter[31] = 0x2a
	ids := [][]byte{counter, {}, {0x00}, {0xfd}, {0xfe}, {0xff}, {0xfd, 0x00, 0x00}, {0x05, 0x06}, {0x05, 0x06, 0x07}}
	for _, f := range []byte{0x01, 0x1f, 0x20, 0xfc, 0xfd, 0xfe, 0xff} {
		ids = append(ids, pad(f, 32))
	}
	for _, n := range []int{33, 64, 0xFD} {
		l := pad(0x77, n)
		d := sha256.Sum256(l)
		ids = append(ids, l, d[:])
	}
	return ids
}

// idPhase: for every ordered pair (a, b) of distinct ids of the alphabet on chain S1: a is accepted, marked done
// under exactly doneTx/LE64(chain)/a, its replays (other relayer; other message with the same id) are rejected
// without trace; then b is still fresh: accepted and marked under doneTx/LE64(chain)/b, and its replay rejected.
// Runs under EnableEventLog ∈ {true,false}; per tx (ok, write set, cross hashes) must not depend on the switch.
func idPhase(r *ev.Run, a ccm.Adapter, pool *ccm.Worlds, base polyenv.Dump, ids [][]byte) int {
	var mu sync.Mutex
	ntx := 0
	digests := map[string][32]byte{}
	// submit runs one submission and judges it. Returns the dump afterwards.
	submit := func(w *ccm.W, tag string, idx int, variant string, rel int, salt uint32, wantAccept bool, evlog bool) {
		id := ids[idx-len(ccids)]
		sub := a.Submit(S1, idx, variant, rel, salt)
		accepted := 0
		lastUnchanged := true
		for k, tx := range sub.Txs {
			before := w.Dump()
			res := w.Exec(tx, H0, 1000)
			after := w.Dump()
			r.Eval()
			lastUnchanged = before.String() == after.String()
			newDone, newReq := newKeys(before, after, ccm.DonePrefix()), newKeys(before, after, ccm.RequestPrefix())
			det := map[string]any{"router": a.Name(), "case": tag, "id": fmt.Sprintf("%x", id), "variant": variant, "tx_index": k, "tx_ok": res.OK,
				"tx_err": fmt.Sprint(res.Err), "event_log": evlog, "new_done_keys": hexs(newDone)}
			h := sha256.New()
			fmt.Fprintf(h, "%v|", res.OK)
			for _, c := range res.CrossHashes {
				h.Write(c[:])
			}
			for _, kv := range res.WriteSet {
				fmt.Fprintf(h, "%d:%s=%d:%s;", len(kv.K), kv.K, len(kv.V), kv.V)
			}
			var dg [32]byte
			copy(dg[:], h.Sum(nil))
			dk := fmt.Sprintf("%s/%d", tag, k)
			mu.Lock()
			ntx++
			if prev, ok := digests[dk]; ok && prev != dg {
				r.Violation("C20/"+a.Name()+"/ids/result-depends-on-event-log-switch", det)
			}
			digests[dk] = dg
			mu.Unlock()
			if !res.OK && !lastUnchanged {
				r.Violation("C20/"+a.Name()+"/ids/failed-tx-changed-state", det)
			}
			if res.OK && (len(res.CrossHashes) > 0 || len(newDone) > 0 || len(newReq) > 0) {
				accepted++
				if !wantAccept || accepted > 1 {
					r.Violation("C20/"+a.Name()+"/ids/replay-accepted", det)
				}
				if len(newDone) != 1 || newDone[0] != ccm.DoneKey(S1, id) {
					r.Violation("C20/"+a.Name()+"/ids/accepted-but-not-marked-done-under-(chain,id)", det)
				}
			}
		}
		det := map[string]any{"router": a.Name(), "case": tag, "id": fmt.Sprintf("%x", id), "variant": variant, "event_log": evlog}
		switch {
		case wantAccept && accepted == 0:
			r.Violation("C20/"+a.Name()+"/ids/fresh-id-rejected", det)
		case wantAccept:
			r.Class("ids:accept")
		default:
			r.Class("ids:replay-rejected")
			if !lastUnchanged {
				r.Violation("C20/"+a.Name()+"/ids/replay-changed-state", det)
			}
		}
	}
	for _, evlog := range []bool{true, false} {
		config.DefConfig.Common.EnableEventLog = evlog
		var wg sync.WaitGroup
		for ai := range ids {
			ai := ai
			wg.Add(1)
			go func() {
				defer wg.Done()
				ia := len(ccids) + ai
				var da polyenv.Dump
				pool.With(base, func(w *ccm.W) {
					t := fmt.Sprintf("a%d", ai)
					submit(w, t+"/first", ia, ccm.VSame, 0, 1, true, evlog)
					submit(w, t+"/replay-same", ia, ccm.VSame, 1, 2, false, evlog)
					submit(w, t+"/replay-altmsg", ia, ccm.VAltMsg, 0, 3, false, evlog)
					da = w.Dump()
				})
				for bi := range ids {
					if bi == ai {
						continue
					}
					ib := len(ccids) + bi
					pool.With(da, func(w *ccm.W) {
						t := fmt.Sprintf("a%d/b%d", ai, bi)
						submit(w, t+"/second-id", ib, ccm.VSame, 0, 4, true, evlog)
						r.Class("ids:second-id-accepted")
						submit(w, t+"/second-id-replay", ib, ccm.VAltMsg, 0, 5, false, evlog)
					})
				}
			}()
		}
		wg.Wait()
	}
	config.DefConfig.Common.EnableEventLog = true
	return ntx
}

func rank(name string) int {
	switch name {
	case "btc":
		return 0
	case "hsc":
		return 1
	case "vote":
		return 2
	}
	return 3
}

func keysOf(m map[string]bool) []string {
	var o []string
	for k := range m {
		o = append(o, k)
	}
	sort.Strings(o)
	return o
}

func otherChainHas(done map[string]bool, c uint64, id []byte) bool {
	o := uint64(S1)
	if c == S1 {
		o = S2
	}
	return done[fmt.Sprintf("%d/%x", o, id)]
}

func newKeys(before, after polyenv.Dump, prefix string) []string {
	b := before.Map()
	var o []string
	for _, kv := range after {
		if strings.HasPrefix(kv.K, prefix) {
			if _, ok := b[kv.K]; !ok {
				o = append(o, kv.K)
			}
		}
	}
	return o
}

func hexs(s []string) []string {
	var o []string
	for _, x := range s {
		o = append(o, fmt.Sprintf("%x", x))
	}
	return o
}
