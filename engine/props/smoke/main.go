// smoke: native world sanity (not a property check).
package main

import (
	"fmt"
	"os"
	"time"

	"github.com/polynetwork/poly/common"
	"github.com/polynetwork/poly/core/types"
	_ "github.com/polynetwork/poly/native/service"
	"github.com/polynetwork/poly/native/service/governance/node_manager"
	"github.com/polynetwork/poly/native/service/utils"
	"verif.local/engine/polyenv"
)

func main() {
	vals := polyenv.Keys(4)
	polyenv.Setup(0, vals)
	polyenv.InstallHeightLedger()
	w := polyenv.NewWorld()
	w.Genesis(vals)
	d := w.Dump()
	fmt.Println("genesis keys:", len(d))
	// register candidate by outsider
	c := polyenv.Key(10)
	p := &node_manager.RegisterPeerParam{PeerPubkey: c.PubHex, Address: c.Addr}
	sink := common.NewZeroCopySink(nil)
	p.Serialization(sink)
	t0 := time.Now()
	tx := polyenv.Tx(utils.NodeManagerContractAddress, node_manager.REGISTER_CANDIDATE, sink.Bytes(), 1, polyenv.Single(c))
	r := w.Exec(tx, 1, 100)
	fmt.Println("register:", r.OK, r.Err, len(r.WriteSet), time.Since(t0))
	tx2 := polyenv.Tx(utils.NodeManagerContractAddress, node_manager.REGISTER_CANDIDATE, sink.Bytes(), 2, polyenv.Single(vals[0]))
	r = w.Exec(tx2, 1, 100)
	fmt.Println("register by wrong signer:", r.OK, r.Err)
	w2 := polyenv.NewWorldFrom(w.Dump())
	fmt.Println("restore equal:", w2.Dump().String() == w.Dump().String())
	dir := polyenv.TmpDir("smoke")
	defer os.RemoveAll(dir)
	ch, err := polyenv.OpenChain(dir, vals)
	if err != nil {
		panic(err)
	}
	b := ch.NextBlock(nil, nil)
	_, err = ch.Commit(b)
	fmt.Println("commit block1:", err, ch.L.GetCurrentBlockHeight())
	b2 := ch.NextBlock([]*types.Transaction{tx}, vals[:3])
	fmt.Println("commit block2 (3 of 4 sigs):", ch.CommitSync(b2), ch.L.GetCurrentBlockHeight())
	ch.Close()
	ch, err = polyenv.OpenChain(dir, vals)
	fmt.Println("reopen:", err, ch.L.GetCurrentBlockHeight())
	ch.Close()
}
