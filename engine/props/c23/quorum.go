package main

// Quorum router (istanbul BFT): a deposit carries its own header (EntranceParam.HeaderOrCrossChainMsg) which the
// handler authenticates against the tracked validator set (proposer seal + committed seals); there is no tracked
// canonical chain and no confirmation count. The clause "block on the tracked canonical chain with enough
// confirmations" is therefore replaced by "header at or above the tracked validator height, sealed by the tracked
// validators"; only unambiguous headers are used (all four validators commit / nobody commits / outsiders commit /
// height below the tracked one): the seal-count threshold itself belongs to another property (C14).

import (
	"encoding/hex"
	"encoding/json"
	"fmt"
	"math/big"
	"strings"

	ecommon "github.com/ethereum/go-ethereum/common"
	"github.com/ethereum/go-ethereum/core/types"
	"github.com/ethereum/go-ethereum/crypto"
	"github.com/ethereum/go-ethereum/rlp"
	"github.com/polynetwork/poly/common"
	cstates "github.com/polynetwork/poly/core/states"
	scom "github.com/polynetwork/poly/native/service/cross_chain_manager/common"
	"github.com/polynetwork/poly/native/service/header_sync/quorum"
	"github.com/polynetwork/poly/native/service/utils"
	"verif.local/engine/ev"
	"verif.local/engine/lib/hsenv"
	"verif.local/engine/lib/posa"
	"verif.local/engine/polyenv"
)

func istanbulHeader(number uint64, root ecommon.Hash, vals []ecommon.Address) *types.Header {
	h := &types.Header{UncleHash: posa.UncleHash, TxHash: types.EmptyRootHash, ReceiptHash: types.EmptyRootHash, Root: root, Difficulty: big.NewInt(1),
		Number: new(big.Int).SetUint64(number), GasLimit: 30_000_000, Time: posa.PastTime + number, MixDigest: quorum.IstanbulDigest}
	setIstanbul(h, &quorum.IstanbulExtra{Validators: vals, Seal: []byte{}, CommittedSeal: [][]byte{}})
	return h
}

func setIstanbul(h *types.Header, x *quorum.IstanbulExtra) {
	p, err := rlp.EncodeToBytes(x)
	if err != nil {
		panic(err)
	}
	h.Extra = append(make([]byte, quorum.IstanbulExtraVanity), p...)
}

// sealIstanbul: proposer seal by `proposer`, committed seals by `committers`.
func sealIstanbul(h *types.Header, vals []ecommon.Address, proposer posa.Key, committers []posa.Key) {
	x := &quorum.IstanbulExtra{Validators: vals, Seal: []byte{}, CommittedSeal: [][]byte{}}
	fb, err := rlp.EncodeToBytes(quorum.IstanbulFilteredHeader(h, false))
	if err != nil {
		panic(err)
	}
	ps, err := crypto.Sign(crypto.Keccak256(crypto.Keccak256(fb)), proposer.Priv)
	if err != nil {
		panic(err)
	}
	x.Seal = ps
	setIstanbul(h, x)
	hash := quorum.GetQuorumHeaderHash(h)
	for _, k := range committers {
		cs, err := crypto.Sign(crypto.Keccak256(quorum.PrepareCommittedSeal(hash)), k.Priv)
		if err != nil {
			panic(err)
		}
		x.CommittedSeal = append(x.CommittedSeal, cs)
	}
	setIstanbul(h, x)
}

type qHeader struct {
	name  string
	raw   []byte
	ok    bool // authenticated by the tracked validator set, not below the tracked height
	world int
	num   uint64
}

func runQuorum(r *ev.Run, env *hsenv.Env, base polyenv.Dump, chain uint64, worlds []*worldState, m1, m2 *msg, slots [4]ecommon.Hash) (int, map[string]any) {
	const tag = "quorum"
	keys := []posa.Key{posa.KeyOf(20), posa.KeyOf(21), posa.KeyOf(22), posa.KeyOf(23)}
	outs := []posa.Key{posa.KeyOf(30), posa.KeyOf(31), posa.KeyOf(32), posa.KeyOf(33)}
	var vals []ecommon.Address
	for _, k := range keys {
		vals = append(vals, k.Addr)
	}
	sim := hsenv.NewSim()
	defer sim.Close()
	sim.Load(base)
	g := istanbulHeader(100, worlds[0].root, vals)
	gj, _ := json.Marshal(g)
	if res := sim.Exec(env.GenesisTx(chain, gj), 2, 200); !res.OK {
		r.HarnessError("quorum: genesis rejected: %v", res.Err)
	}
	rbase := sim.Dump()
	mk := func(name string, num uint64, world int, proposer posa.Key, committers []posa.Key, ok bool) qHeader {
		h := istanbulHeader(num, worlds[world].root, vals)
		sealIstanbul(h, vals, proposer, committers)
		b, _ := json.Marshal(h)
		return qHeader{name, b, ok, world, num}
	}
	hdrs := []qHeader{
		mk("sealed-by-all-validators", 150, 1, keys[0], keys, true),
		mk("sealed-by-all-validators/at-tracked-height", 100, 1, keys[1], keys, true),
		mk("sealed-by-all-validators/fork-state", 150, nMain+1, keys[0], keys, true),
		mk("no-committed-seals", 150, 1, keys[0], nil, false),
		mk("committed-by-outsiders", 150, 1, keys[0], outs, false),
		mk("proposed-by-outsider", 150, 1, outs[0], keys, false),
		mk("below-tracked-height", 99, 1, keys[0], keys, false),
	}
	reqPrefix := polyenv.StorageKey(utils.ConcatKey(utils.CrossChainManagerContractAddress, []byte(scom.REQUEST), utils.GetUint64Bytes(dstChain)))
	evs := extraVariants(m1, m2)
	for _, sh := range shapes { // hash-shape messages ride along as extra variants, proven at their own slot
		evs = append(evs, extraV{name: "exact/" + sh.name, b: serMsg(sh.m)})
	}
	shapeSlot := map[string]ecommon.Hash{}
	for _, sh := range shapes {
		shapeSlot["exact/"+sh.name] = sh.slot
	}
	var nonce uint32 = 990000
	n := 0
	dirty := false
	for _, qh := range hdrs {
		for _, pw := range []int{qh.world, 2} { // proof taken from the header's own world / from another block's world
			pvsBase := proofVariants(worlds[pw], slots[0], slots[1], slots[2], slots[3])
			type pe struct {
				pv named
				e  extraV
			}
			var cases []pe
			for _, pv := range pvsBase {
				for _, e := range evs {
					if _, isShape := shapeSlot[e.name]; !isShape {
						cases = append(cases, pe{pv, e})
					}
				}
			}
			for _, e := range evs {
				if sl, isShape := shapeSlot[e.name]; isShape {
					pvs := proofVariants(worlds[pw], sl, slots[1], slots[2], slots[3])
					for _, pv := range pvs {
						cases = append(cases, pe{pv, e})
					}
					cases = append(cases, pe{pvs[0], evs[0]})
				}
			}
			for _, c := range cases {
				pv, e := c.pv, c.e
				{
					if dirty {
						sim.Load(rbase)
						dirty = false
					}
					pj, _ := json.Marshal(pv.p)
					nonce++
					rel := polyenv.Key(31)
					p := &scom.EntranceParam{SourceChainID: chain, Height: uint32(qh.num), Proof: pj, RelayerAddress: rel.Addr[:], Extra: e.b, HeaderOrCrossChainMsg: qh.raw}
					s := common.NewZeroCopySink(nil)
					p.Serialization(s)
					res := sim.Exec(polyenv.Tx(utils.CrossChainManagerContractAddress, scom.IMPORT_OUTER_TRANSFER_NAME, s.Bytes(), nonce, polyenv.Single(rel)), 5, 500)
					dirty = len(res.WriteSet) > 0
					n++
					r.Eval()
					want := "header-not-authenticated-by-tracked-validators"
					if qh.ok {
						cv := &chainView{best: qh.num, wait: 1, ccmc: ccmc, roots: map[uint64]ecommon.Hash{qh.num: worlds[qh.world].root}}
						want = refAccept(cv, pv.p, e.b, qh.num)
					}
					detail := map[string]any{"router": tag, "header": qh.name, "proof_from_world": worlds[pw].name, "proof_variant": pv.name, "message_variant": e.name,
						"proof": pv.p, "extra": hex.EncodeToString(e.b), "impl_error": fmt.Sprint(res.Err), "reference": want}
					switch {
					case res.OK && want != "":
						r.Violation(tag+"/accepted-although/"+want, detail)
					case !res.OK && want == "":
						k := tag + "/rejected-valid-deposit/" + pv.name
						if strings.HasPrefix(e.name, "exact/") {
							k += "/" + e.name[len("exact/"):]
						}
						r.Violation(k, detail)
					case res.OK:
						r.Class(tag + ":accept")
						r.Class(tag + ":accept:" + pv.name)
						if strings.HasPrefix(e.name, "exact/") {
							r.Class(tag + ":accept-shape:" + e.name[len("exact/"):])
						}
						r.Case(tag + "/accept/" + qh.name + "/" + pv.name + "/" + e.name)
					default:
						r.Class(tag + ":reject")
						r.Class(tag + ":reject:" + want)
						r.Case(tag + "/reject/" + want + "/" + pv.name + "/" + e.name)
					}
					if res.OK {
						exp, _ := decodeMsg(e.b)
						found := 0
						for _, kv := range res.WriteSet {
							if strings.HasPrefix(kv.K, reqPrefix) {
								found++
								val, err := cstates.GetValueFromRawStorageItem([]byte(kv.V))
								mv := new(scom.ToMerkleValue)
								if err == nil {
									err = mv.Deserialization(common.NewZeroCopySource(val))
								}
								if err != nil || exp == nil || mv.FromChainID != chain || !sameMsg(exp, mv.MakeTxParam) {
									r.Violation(tag+"/accepted-message-differs-from-submitted", detail)
								}
							}
						}
						if found != 1 {
							r.Violation(tag+"/accepted-without-exactly-one-request", detail)
						}
					}
				}
			}
		}
	}
	return n, map[string]any{"cases": n, "headers": len(hdrs), "note": "no tracked canonical chain / confirmations in this router: header authenticated by the tracked IBFT validator set instead"}
}
