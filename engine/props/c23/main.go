// C23 — EVM-family deposit proofs are sound and complete (cross_chain_manager eth, bsc, heco, hsc, msc, pixiechain,
// bytom, polygon bor, quorum).
//
// Exploration of the real path ImportExTransfer -> <router>.MakeDepositProposal -> verifyFrom*Tx -> VerifyMerkleProof /
// CheckProofResult over a synthetic but REAL go-ethereum (v1.9.15) secure-trie world state: account trie {CCMC, X1, X2},
// CCMC storage {slot(msg1)=keccak(msg1), slot(msg2)=keccak(msg2), an unrelated slot, a per-block marker}; one world
// state per block, its root inside a header that is synced through the real SyncGenesisHeader / SyncBlockHeader
// (ETH: ethash seal skipped by verifhook.SkipSealFlag; PoSA routers: real validator seals, lib/posa). The tracked chain
// has a trust root, four canonical headers and a lighter fork sibling with another state root.
// The full product  proof variants x submitted-message variants x claimed heights  is submitted, each from the same
// base state, and the outcome is compared (EQUIVALENCE) with an independent reference (ref.go).
package main

import (
	"bytes"
	"encoding/hex"
	"encoding/json"
	"fmt"
	"math/big"
	"os"
	"runtime/debug"
	"strings"
	"sync"
	"sync/atomic"

	ecommon "github.com/ethereum/go-ethereum/common"
	"github.com/ethereum/go-ethereum/crypto"
	"github.com/polynetwork/poly/common"
	"github.com/polynetwork/poly/common/verifhook"
	cstates "github.com/polynetwork/poly/core/states"
	ptypes "github.com/polynetwork/poly/core/types"
	_ "github.com/polynetwork/poly/native/service"
	scom "github.com/polynetwork/poly/native/service/cross_chain_manager/common"
	"github.com/polynetwork/poly/native/service/governance/side_chain_manager"
	hscommon "github.com/polynetwork/poly/native/service/header_sync/common"
	"github.com/polynetwork/poly/native/service/utils"
	"verif.local/engine/ev"
	"verif.local/engine/lib/hsenv"
	"verif.local/engine/lib/posa"
	"verif.local/engine/polyenv"
)

const (
	dstChain = 77 // registered destination chain of the messages
	waitMain = 3  // BlocksToWait of the fully explored chains
)

var (
	ccmc = ecommon.Hex2Bytes("c0ffee00000000000000000000000000000ccccc")
	x1   = ecommon.Hex2Bytes("1111111111111111111111111111111111111111")
	x2   = ecommon.Hex2Bytes("2222222222222222222222222222222222222222")
)

func serMsg(m *msg) []byte {
	s := common.NewZeroCopySink(nil)
	(&scom.MakeTxParam{TxHash: m.TxHash, CrossChainID: m.CrossChainID, FromContractAddress: m.FromContract, ToChainID: m.ToChainID,
		ToContractAddress: m.ToContract, Method: m.Method, Args: m.Args}).Serialization(s)
	return s.Bytes()
}

func word(b []byte) []byte { return crypto.Keccak256(b) }

type named struct {
	name string
	p    *ethProof
}

// proofVariants: every proof of the alphabet for message slot `slot` in world ws (otherSlot holds another message,
// plainSlot an unrelated word, absentSlot nothing).
func proofVariants(ws *worldState, slot, otherSlot, plainSlot, absentSlot ecommon.Hash) []named {
	out := proofVariants0(ws, slot, otherSlot, plainSlot, absentSlot)
	// a slot holding only the trailing 16 bytes of keccak(message) (left-padding must not make it equal)
	return append(out, named{"slot-holding-tail-of-hash", ws.proofFor(ccmc, tailSlot)})
}

var tailSlot = crypto.Keccak256Hash([]byte("low 128 bits of the message hash"))

func proofVariants0(ws *worldState, slot, otherSlot, plainSlot, absentSlot ecommon.Hash) []named {
	base := ws.proofFor(ccmc, slot)
	var out []named
	add := func(n string, p *ethProof) { out = append(out, named{n, p}) }
	add("valid", base)
	// node-list manipulations of both proofs
	for _, which := range []string{"acct", "stor"} {
		get := func(p *ethProof) *[]string {
			if which == "acct" {
				return &p.AccountProof
			}
			return &p.StorageProofs[0].Proof
		}
		n := len(*get(base))
		for i := 0; i < n; i++ {
			p := base.clone()
			l := get(p)
			*l = append(append([]string{}, (*l)[:i]...), (*l)[i+1:]...)
			add(which+"-node-dropped", p)
			p = base.clone()
			l = get(p)
			*l = append(*l, (*l)[i])
			add(which+"-node-duplicated", p)
			p = base.clone()
			l = get(p)
			b, _ := unhex((*l)[i])
			b[len(b)/2] ^= 1
			(*l)[i] = "0x" + hex.EncodeToString(b)
			add(which+"-node-corrupted", p)
			p = base.clone()
			l = get(p)
			*l = (*l)[:i]
			add(which+"-truncated", p)
		}
		p := base.clone()
		l := get(p)
		for i, j := 0, len(*l)-1; i < j; i, j = i+1, j-1 {
			(*l)[i], (*l)[j] = (*l)[j], (*l)[i]
		}
		add(which+"-reversed", p)
		p = base.clone()
		l = get(p)
		*l = append((*l)[1:], (*l)[0])
		add(which+"-rotated", p)
		p = base.clone()
		l = get(p)
		*l = append([]string{"0x" + hex.EncodeToString([]byte("not a trie node at all, just junk"))}, *l...)
		add(which+"-junk-node-added", p)
	}
	// another account that holds the same slot value: complete, internally consistent proof for X1
	add("other-account-x1-full-proof", ws.proofFor(x1, slot))
	p := ws.proofFor(x1, slot)
	p.Address = base.Address
	add("x1-proof-relabelled-as-ccmc", p)
	p = base.clone()
	p.Address = "0x" + hex.EncodeToString(x1)
	add("ccmc-proof-relabelled-as-x1", p)
	p = ws.proofFor(ecommon.Hex2Bytes("3333333333333333333333333333333333333333"), slot)
	p.Address = base.Address
	add("absent-account-proof", p)
	// account fields
	p = base.clone()
	p.Nonce = "0x" + plusOne(ws.byAddr[string(ccmc)].acct.Nonce)
	add("acct-nonce-changed", p)
	p = base.clone()
	p.Balance = "0x" + plusOne(ws.byAddr[string(ccmc)].acct.Balance)
	add("acct-balance-changed", p)
	p = base.clone()
	p.StorageHash = ws.byAddr[string(x1)].acct.Root.Hex()
	add("acct-storagehash-of-x1", p)
	p = base.clone()
	p.StorageHash = ws.byAddr[string(x1)].acct.Root.Hex()
	p.StorageProofs[0].Proof = ws.byAddr[string(x1)].storageNodes(slot)
	add("acct-storagehash-and-storage-proof-of-x1", p)
	p = base.clone()
	p.CodeHash = ws.byAddr[string(x1)].acct.CodeHash.Hex()
	add("acct-codehash-changed", p)
	// slots
	add("other-message-slot", ws.proofFor(ccmc, otherSlot))
	add("unrelated-slot", ws.proofFor(ccmc, plainSlot))
	add("absent-slot-absence-proof", ws.proofFor(ccmc, absentSlot))
	p = base.clone()
	p.StorageProofs[0].Key = otherSlot.Hex()
	add("key-of-other-slot-with-this-proof", p)
	p = ws.proofFor(ccmc, otherSlot)
	p.StorageProofs[0].Key = slot.Hex()
	add("this-key-with-proof-of-other-slot", p)
	p = base.clone()
	p.StorageProofs = nil
	add("no-storage-proof", p)
	p = base.clone()
	p.StorageProofs = append(p.StorageProofs, ws.proofFor(ccmc, otherSlot).StorageProofs[0])
	add("two-storage-proofs", p)
	// encodings
	p = base.clone()
	strip := func(s string) string { return strings.TrimPrefix(s, "0x") }
	p.Address, p.Balance, p.Nonce, p.CodeHash, p.StorageHash = strip(p.Address), strip(p.Balance), strip(p.Nonce), strip(p.CodeHash), strip(p.StorageHash)
	for i := range p.AccountProof {
		p.AccountProof[i] = strip(p.AccountProof[i])
	}
	for i := range p.StorageProofs[0].Proof {
		p.StorageProofs[0].Proof[i] = strip(p.StorageProofs[0].Proof[i])
	}
	p.StorageProofs[0].Key = strip(p.StorageProofs[0].Key)
	add("hex-without-0x", p)
	p = base.clone()
	p.Address = "0x" + strings.ToUpper(strip(p.Address))
	add("address-uppercase", p)
	return out
}

func plusOne(x *big.Int) string { return new(big.Int).Add(x, big.NewInt(1)).Text(16) }

type extraV struct {
	name string
	b    []byte
}

func extraVariants(m1, m2 *msg) []extraV {
	out := []extraV{{"exact", serMsg(m1)}}
	mod := func(n string, f func(m *msg)) {
		c := *m1
		c.TxHash, c.CrossChainID, c.FromContract, c.ToContract, c.Args = append([]byte{}, m1.TxHash...), append([]byte{}, m1.CrossChainID...),
			append([]byte{}, m1.FromContract...), append([]byte{}, m1.ToContract...), append([]byte{}, m1.Args...)
		f(&c)
		out = append(out, extraV{n, serMsg(&c)})
	}
	mod("txhash-changed", func(m *msg) { m.TxHash[0] ^= 1 })
	mod("crosschainid-changed", func(m *msg) { m.CrossChainID[len(m.CrossChainID)-1] ^= 1 })
	mod("fromcontract-changed", func(m *msg) { m.FromContract[3] ^= 0x80 })
	mod("tochainid-changed", func(m *msg) { m.ToChainID++ })
	mod("tocontract-changed", func(m *msg) { m.ToContract = append(m.ToContract, 0) })
	mod("method-changed", func(m *msg) { m.Method = "Unlock" })
	mod("args-changed", func(m *msg) { m.Args[len(m.Args)-1]++ })
	e := serMsg(m1)
	out = append(out, extraV{"truncated", e[:len(e)-1]}, extraV{"trailing-byte", append(append([]byte{}, e...), 0)}, extraV{"empty", nil},
		extraV{"other-message", serMsg(m2)})
	return out
}

// hashShape: a message ground (counter in the args) so that keccak256(message) has a given shape; the storage trie holds
// the value with its leading zero bytes stripped (32, 31, 30 bytes), as a real EVM storage trie does.
type hashShape struct {
	name string
	m    *msg
	slot ecommon.Hash
}

var (
	shapes     []hashShape
	paddedSlot = crypto.Keccak256Hash([]byte("zero-padded 32-byte encoding of a hash with a leading zero byte"))
)

func grind(name string, ok func(h []byte) bool) hashShape {
	for i := 0; ; i++ {
		m := &msg{TxHash: word([]byte("src tx " + name)), CrossChainID: word([]byte("ccid " + name)), FromContract: ccmc[:], ToChainID: dstChain,
			ToContract: bytes.Repeat([]byte{0xdd}, 20), Method: "unlock", Args: []byte(fmt.Sprintf("ground message %s #%d", name, i))}
		if ok(word(serMsg(m))) {
			return hashShape{name, m, slotOf(m.CrossChainID)}
		}
	}
}

type heightV struct {
	name    string
	claimed uint64
	world   int // index of the world state the proof is taken from (0..nMain = main blocks, nMain+1 = fork block)
}

func main() {
	r := ev.Start("C23", "exploration")
	debug.SetGCPercent(25)
	verifhook.SkipSealFlag = true
	env := hsenv.Setup(0)
	w := env.NewWorld()

	m1 := &msg{TxHash: word([]byte("src tx 1")), CrossChainID: word([]byte("ccid 1")), FromContract: ccmc[:], ToChainID: dstChain,
		ToContract: bytes.Repeat([]byte{0xdd}, 20), Method: "unlock", Args: []byte("args of message one")}
	m2 := &msg{TxHash: word([]byte("src tx 2")), CrossChainID: word([]byte("ccid 2")), FromContract: ccmc[:], ToChainID: dstChain,
		ToContract: bytes.Repeat([]byte{0xdd}, 20), Method: "unlock", Args: []byte("args of message two")}
	m3 := &msg{TxHash: word([]byte("src tx 3")), CrossChainID: word([]byte("ccid 3")), FromContract: ccmc[:], ToChainID: dstChain,
		ToContract: bytes.Repeat([]byte{0xdd}, 20), Method: "unlock", Args: []byte("only on the fork")}
	s1, s2, s3 := slotOf(m1.CrossChainID), slotOf(m2.CrossChainID), slotOf(m3.CrossChainID)
	plain := crypto.Keccak256Hash([]byte("some other storage variable"))
	marker := crypto.Keccak256Hash([]byte("block marker"))
	absent := crypto.Keccak256Hash([]byte("never written"))
	shapes = []hashShape{
		grind("hash-with-1-leading-zero-byte", func(h []byte) bool { return h[0] == 0 && h[1] != 0 && h[31] != 0 }),
		grind("hash-with-2-leading-zero-bytes", func(h []byte) bool { return h[0] == 0 && h[1] == 0 && h[2] != 0 && h[31] != 0 }),
		grind("hash-with-trailing-zero-byte", func(h []byte) bool { return h[0] != 0 && h[31] == 0 }),
		grind("hash-with-leading-and-trailing-zero-byte", func(h []byte) bool { return h[0] == 0 && h[1] != 0 && h[31] == 0 }),
	}
	if h := word(serMsg(m1)); h[0] == 0 || h[31] == 0 {
		r.HarnessError("message 1 is meant to have a hash without leading/trailing zero bytes")
	}
	rawSlots[paddedSlot] = true
	var worlds []*worldState
	for i := 0; i <= nMain+1; i++ {
		cs := []slotVal{{s1, word(serMsg(m1))}, {s2, word(serMsg(m2))}, {plain, ecommon.LeftPadBytes([]byte{0x2a}, 32)}, {marker, ecommon.LeftPadBytes([]byte{byte(i + 1)}, 32)},
			{tailSlot, ecommon.LeftPadBytes(word(serMsg(m1))[16:], 32)}}
		for _, sh := range shapes {
			cs = append(cs, slotVal{slot: sh.slot, val: word(serMsg(sh.m))})
		}
		cs = append(cs, slotVal{slot: paddedSlot, val: word(serMsg(shapes[0].m))})
		for f := 0; f < 40; f++ { // filler slots: deeper storage trie
			cs = append(cs, slotVal{crypto.Keccak256Hash([]byte{byte(f), 'f'}), word([]byte{byte(f)})})
		}
		name := fmt.Sprintf("main+%d", i)
		if i == nMain+1 {
			cs = append(cs, slotVal{s3, word(serMsg(m3))})
			name = "fork"
		}
		order := [][]byte{ccmc, x1, x2}
		for f := 0; f < 40; f++ { // filler accounts: deeper account trie
			order = append(order, crypto.Keccak256([]byte{byte(f), 'a'})[:20])
		}
		worlds = append(worlds, newWorld(name, order, map[string][]slotVal{
			string(ccmc): cs,
			string(x1):   {{s1, word(serMsg(m1))}, {marker, ecommon.LeftPadBytes([]byte{byte(i + 1)}, 32)}},
			string(x2):   {{marker, ecommon.LeftPadBytes([]byte{0x77}, 32)}},
		}))
	}
	var roots []ecommon.Hash
	for i := 0; i <= nMain; i++ {
		roots = append(roots, worlds[i].root)
	}
	forkRoot := worlds[nMain+1].root

	keys := make([]posa.Key, 4)
	for i := range keys {
		keys[i] = posa.KeyOf(i)
	}
	chains := []*srcChain{buildEth(roots, forkRoot)}
	for _, rt := range posa.Routers(1000, 64) {
		chains = append(chains, buildPosa(rt, keys, roots, forkRoot))
	}
	only := map[string]bool{}
	for _, a := range strings.Split(os.Getenv("VERIF_C23_ROUTERS"), ",") {
		if a != "" {
			only[a] = true
		}
	}
	chainID := map[string]uint64{}
	chainID1 := map[string]uint64{} // same chain registered with BlocksToWait = 1
	if err := posa.RegisterChain(w, env.Vals, dstChain, utils.ETH_ROUTER, "dst", 1, []byte{9, 9, 9}, nil); err != nil {
		r.HarnessError("%v", err)
	}
	for i, c := range chains {
		chainID[c.name], chainID1[c.name] = uint64(300+i), uint64(400+i)
		for _, x := range []struct {
			id, wait uint64
		}{{chainID[c.name], waitMain}, {chainID1[c.name], 1}} {
			if err := posa.RegisterChain(w, env.Vals, x.id, c.router, fmt.Sprintf("%s-%d", c.name, x.wait), x.wait, ccmc, c.extraInfo); err != nil {
				r.HarnessError("%v", err)
			}
			if sc, err := side_chain_manager.GetSideChain(hsenv.Reader(w), x.id); err != nil || sc == nil || sc.BlocksToWait != x.wait {
				r.HarnessError("side chain %d (%s) not registered: %v", x.id, c.name, err)
			}
		}
	}
	const quorumChain = 350
	if err := posa.RegisterChain(w, env.Vals, quorumChain, utils.QUORUM_ROUTER, "quorum", 1, ccmc, nil); err != nil {
		r.HarnessError("%v", err)
	}
	if sc, err := side_chain_manager.GetSideChain(hsenv.Reader(w), quorumChain); err != nil || sc == nil {
		r.HarnessError("quorum side chain not registered: %v", err)
	}
	base := w.Dump()
	w.Close()

	var total int64
	var mu sync.Mutex
	per := map[string]any{}
	var wg sync.WaitGroup
	sem := make(chan struct{}, 8)
	for _, c := range chains {
		if len(only) > 0 && !only[c.name] {
			continue
		}
		wg.Add(1)
		go func(c *srcChain) {
			defer wg.Done()
			sem <- struct{}{}
			defer func() { <-sem }()
			n, info := runChain(r, env, c, base, chainID[c.name], chainID1[c.name], worlds, m1, m2, m3, [4]ecommon.Hash{s1, s2, plain, absent}, s3)
			atomic.AddInt64(&total, int64(n))
			mu.Lock()
			per[c.name] = info
			mu.Unlock()
		}(c)
	}
	if len(only) == 0 || only["quorum"] {
		wg.Add(1)
		go func() {
			defer wg.Done()
			sem <- struct{}{}
			defer func() { <-sem }()
			n, info := runQuorum(r, env, base, quorumChain, worlds, m1, m2, [4]ecommon.Hash{s1, s2, plain, absent})
			atomic.AddInt64(&total, int64(n))
			mu.Lock()
			per["quorum"] = info
			mu.Unlock()
		}()
	}
	wg.Wait()
	if len(only) == 0 {
		r.Require("quorum:accept", "quorum:reject", "quorum:accept:stor-node-duplicated", "quorum:accept:acct-reversed",
			"quorum:reject:header-not-authenticated-by-tracked-validators", "quorum:reject:address-not-registered-ccmc", "quorum:reject:account-proof-invalid",
			"quorum:reject:claimed-account-differs-from-proven", "quorum:reject:storage-proof-invalid", "quorum:reject:value-not-keccak-of-message")
		for _, sh := range shapes {
			r.Require("quorum:accept-shape:" + sh.name)
		}
		for _, c := range chains {
			r.Require(c.name+":accept", c.name+":reject", c.name+":accept:stor-node-duplicated", c.name+":accept:acct-reversed", c.name+":accept:hex-without-0x",
				c.name+":reject:not-confirmed", c.name+":reject:address-not-registered-ccmc", c.name+":reject:account-proof-invalid",
				c.name+":reject:claimed-account-differs-from-proven", c.name+":reject:storage-proof-invalid", c.name+":reject:value-not-keccak-of-message",
				c.name+":reject:storage-proof-count")
			for _, sh := range shapes {
				r.Require(c.name + ":accept-shape:" + sh.name)
			}
		}
	}
	r.Assume("go-ethereum v1.9.15 trie.VerifyProof / trie.Prove / rlp / Keccak-256 are correct (the reference composes them; the repo composes the same library)",
		"ETH router: the ethash seal check is skipped (verifhook.SkipSealFlag); every other header rule and the fork choice are the real ones",
		"'at least the configured number of confirmations' is read as: bestHeight - height + 1 >= BlocksToWait (the block itself is the first confirmation), i.e. the code's bestHeight-height < BlocksToWait-1 => reject; BlocksToWait in {3 (full product), 1 (height sweep)}",
		"the storage slot is whatever the relayer names in the proof: neither the property nor the handlers tie the slot to the cross-chain id",
		"hash shapes: messages are ground so that keccak256(message) has 1 / 2 leading zero bytes, a trailing zero byte, or both; the synthetic storage trie strips leading zeros as the EVM does (value of 31 / 30 bytes); the zero-padded 32-byte encoding of such a hash (never produced by an EVM) is submitted too and its verdict only recorded (class ...:zero-padded-32-byte-encoding:accepted=...), not judged",
		"quorum router: a deposit carries its own IBFT-sealed header and there is no tracked canonical chain or confirmation count; that clause is replaced by 'header at or above the tracked validator height and sealed by the tracked validators', driven only with unambiguous headers (all four validators commit / none / outsiders / below the tracked height): the seal-count threshold belongs to C14")
	r.Finish(map[string]any{
		"rule":    "accept <=> canonical block at claimed height && best-height+1 >= BlocksToWait && account proof (node-set semantics) yields the claimed account of the REGISTERED CCMC under that block's state root && storage proof yields a value under its storage root && value == keccak256(extra) && extra decodes; accepted MakeTxParam == decode(extra)",
		"routers": per, "blocks_to_wait": []int{waitMain, 1}, "chain": "trust root + 4 canonical headers + 1 lighter fork sibling at root+2, one world state per block",
		"evaluations": total,
	})
}

func importTx(chain uint64, height uint32, proof, extra []byte, nonce uint32) *ptypes.Transaction {
	rel := polyenv.Key(31)
	p := &scom.EntranceParam{SourceChainID: chain, Height: height, Proof: proof, RelayerAddress: rel.Addr[:], Extra: extra}
	s := common.NewZeroCopySink(nil)
	p.Serialization(s)
	return polyenv.Tx(utils.CrossChainManagerContractAddress, scom.IMPORT_OUTER_TRANSFER_NAME, s.Bytes(), nonce, polyenv.Single(rel))
}

func runChain(r *ev.Run, env *hsenv.Env, c *srcChain, base polyenv.Dump, chain, chain1 uint64, worlds []*worldState, m1, m2, m3 *msg,
	slots [4]ecommon.Hash, s3 ecommon.Hash) (int, map[string]any) {
	tag := c.name
	sim := hsenv.NewSim()
	defer sim.Close()
	sim.Load(base)
	for _, id := range []uint64{chain, chain1} {
		if res := sim.Exec(env.GenesisTx(id, c.genesis), 2, 200); !res.OK {
			r.HarnessError("%s: genesis rejected: %v", tag, res.Err)
		}
		if res := sim.Exec(hsenv.HeadersTx(id, c.headers[:nMain]...), 3, 300); !res.OK {
			r.HarnessError("%s: canonical headers rejected: %v", tag, res.Err)
		}
		if res := sim.Exec(hsenv.HeadersTx(id, c.headers[nMain]), 3, 300); !res.OK {
			r.HarnessError("%s: fork sibling rejected: %v", tag, res.Err)
		}
		ns := sim.Reader()
		best, err := c.bestH(ns, id)
		if err != nil || best != c.g+nMain {
			r.HarnessError("%s: best height %d (%v), want %d", tag, best, err, c.g+nMain)
		}
		for h := c.g; h <= c.g+nMain; h++ {
			if got, _ := c.canonHash(ns, id, h); got != c.mainHash[h] {
				r.HarnessError("%s: canonical[%d] = %s, want %s", tag, h, got, c.mainHash[h])
			}
		}
		fk, _ := hex.DecodeString(c.forkHash)
		if sim.Raw(hsenv.HSPrefix(hscommon.HEADER_INDEX, id)+string(fk)) == "" {
			r.HarnessError("%s: fork sibling not stored", tag)
		}
	}
	rbase := sim.Dump()
	roots := map[uint64]ecommon.Hash{}
	for i := 0; i <= nMain; i++ {
		roots[c.g+uint64(i)] = worlds[i].root
	}
	best := c.g + nMain
	reqPrefix := polyenv.StorageKey(utils.ConcatKey(utils.CrossChainManagerContractAddress, []byte(scom.REQUEST), utils.GetUint64Bytes(dstChain)))
	var nonce uint32 = 900000
	n := 0
	dirty := false
	run := func(id uint64, cv *chainView, hv heightV, pv named, evx extraV) {
		pj, _ := json.Marshal(pv.p)
		if dirty {
			sim.Load(rbase)
			dirty = false
		}
		nonce++
		res := sim.Exec(importTx(id, uint32(hv.claimed), pj, evx.b, nonce), 5, 500)
		dirty = len(res.WriteSet) > 0
		n++
		r.Eval()
		if res.Panic != nil {
			r.Class(tag + ":panic")
			r.Note("panics_observed", fmt.Sprint(res.Panic))
		}
		want := refAccept(cv, pv.p, evx.b, hv.claimed)
		caseName := fmt.Sprintf("wait=%d/%s/%s/%s", cv.wait, hv.name, pv.name, evx.name)
		if pv.name == "zero-padded-32-byte-encoding" { // non-canonical encoding: the verdict is recorded, not judged
			r.Class(fmt.Sprintf("%s:%s:accepted=%v(reference-composition=%v)", tag, pv.name, res.OK, want == ""))
			return
		}
		shape := ""
		if strings.HasPrefix(evx.name, "exact/") {
			shape = evx.name[len("exact/"):]
		}
		detail := map[string]any{"router": tag, "blocks_to_wait": cv.wait, "claimed_height": hv.name, "proof_from_world": worlds[hv.world].name,
			"proof_variant": pv.name, "message_variant": evx.name, "proof": pv.p, "extra": hex.EncodeToString(evx.b), "impl_error": fmt.Sprint(res.Err), "reference": want}
		switch {
		case res.OK && want != "":
			r.Violation(tag+"/accepted-although/"+want, detail)
			r.Class(tag + ":accept-flagged")
		case !res.OK && want == "":
			k := tag + "/rejected-valid-deposit/" + pv.name
			if shape != "" {
				k += "/" + shape
			}
			r.Violation(k, detail)
			r.Class(tag + ":reject-flagged")
		case res.OK:
			r.Class(tag + ":accept")
			r.Class(tag + ":accept:" + pv.name)
			if shape != "" {
				r.Class(tag + ":accept-shape:" + shape)
			}
			r.Case(tag + "/accept/" + caseName)
		default:
			r.Class(tag + ":reject")
			r.Class(tag + ":reject:" + want)
			r.Case(tag + "/reject/" + want + "/" + pv.name + "/" + evx.name)
		}
		if res.OK {
			// the accepted message is exactly the submitted one
			exp, _ := decodeMsg(evx.b)
			found := 0
			for _, kv := range res.WriteSet {
				if strings.HasPrefix(kv.K, reqPrefix) {
					found++
					val, err := cstates.GetValueFromRawStorageItem([]byte(kv.V))
					mv := new(scom.ToMerkleValue)
					if err == nil {
						err = mv.Deserialization(common.NewZeroCopySource(val))
					}
					if err != nil || exp == nil || mv.FromChainID != id || !sameMsg(exp, mv.MakeTxParam) {
						detail["stored_request"] = hex.EncodeToString([]byte(kv.V))
						r.Violation(tag+"/accepted-message-differs-from-submitted", detail)
					}
				}
			}
			if found != 1 {
				detail["request_keys"] = found
				r.Violation(tag+"/accepted-without-exactly-one-request", detail)
			}
			if len(pv.name) > 0 && n%7 == 0 {
				r.Sample(map[string]any{"router": tag, "case": caseName, "outcome": "accept"})
			}
		}
	}
	// --- full product with BlocksToWait = 3
	cv := &chainView{best: best, roots: roots, wait: waitMain, ccmc: ccmc}
	hs := []heightV{
		{"root(best-4)", c.g, 0}, {"best-wait(best-3)", c.g + 1, 1}, {"best-wait+1(best-2)", c.g + 2, 2}, {"best-wait+2(best-1)", c.g + 3, 3},
		{"best", c.g + 4, 4}, {"best+1", c.g + 5, 4},
		{"best-2/proof-from-fork-block", c.g + 2, nMain + 1}, {"best-2/proof-from-block-best-3", c.g + 2, 1}, {"best-3/proof-from-block-best-2", c.g + 1, 2},
	}
	evs := extraVariants(m1, m2)
	for _, hv := range hs {
		if r.Expired() {
			r.Capped(tag + ": deadline")
			break
		}
		pvs := proofVariants(worlds[hv.world], slots[0], slots[1], slots[2], slots[3])
		if hv.world == nMain+1 { // the fork block's own message
			pvs = append(pvs, named{"fork-only-message-slot", worlds[hv.world].proofFor(ccmc, s3)})
		}
		for _, pv := range pvs {
			for _, e := range evs {
				run(chain, cv, hv, pv, e)
			}
			if pv.name == "fork-only-message-slot" {
				run(chain, cv, hv, pv, extraV{"fork-message", serMsg(m3)})
			}
		}
	}
	// --- hash shapes: messages whose keccak has leading / trailing zero bytes (stored value of 31 / 30 bytes), every proof
	// variant x every claimed height with the exact message, and the honest proof with another message
	for _, sh := range shapes {
		ex := extraV{name: "exact/" + sh.name, b: serMsg(sh.m)}
		for _, hv := range hs {
			pvs := proofVariants(worlds[hv.world], sh.slot, slots[1], slots[2], slots[3])
			for _, pv := range pvs {
				run(chain, cv, hv, pv, ex)
			}
			run(chain, cv, hv, pvs[0], evs[0])
		}
	}
	// the same hash (one leading zero byte) held as a zero-padded 32-byte string: an encoding no EVM produces
	for _, hv := range hs {
		pv := named{"zero-padded-32-byte-encoding", worlds[hv.world].proofFor(ccmc, paddedSlot)}
		run(chain, cv, hv, pv, extraV{name: "exact/" + shapes[0].name, b: serMsg(shapes[0].m)})
	}
	// --- height sweep with BlocksToWait = 1
	cv1 := &chainView{best: best, roots: roots, wait: 1, ccmc: ccmc}
	for _, hv := range hs {
		for _, pv := range proofVariants(worlds[hv.world], slots[0], slots[1], slots[2], slots[3]) {
			if r.Thorough() {
				for _, e := range evs {
					run(chain1, cv1, hv, pv, e)
				}
			} else if pv.name == "valid" || pv.name == "other-account-x1-full-proof" || pv.name == "stor-reversed" {
				run(chain1, cv1, hv, pv, evs[0])
				run(chain1, cv1, hv, pv, evs[len(evs)-1])
			}
		}
	}
	return n, map[string]any{"cases": n, "trust_root_height": c.g, "best_height": best, "fork_sibling_height": c.forkH,
		"proof_variants": len(proofVariants(worlds[0], slots[0], slots[1], slots[2], slots[3])), "message_variants": len(evs), "height_variants": len(hs)}
}

func sameMsg(a *msg, b *scom.MakeTxParam) bool {
	return b != nil && bytes.Equal(a.TxHash, b.TxHash) && bytes.Equal(a.CrossChainID, b.CrossChainID) && bytes.Equal(a.FromContract, b.FromContractAddress) &&
		a.ToChainID == b.ToChainID && bytes.Equal(a.ToContract, b.ToContractAddress) && a.Method == b.Method && bytes.Equal(a.Args, b.Args)
}
