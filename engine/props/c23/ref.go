package main

// Reference decision for an EVM-family deposit: an independent composition
//   canonical header at the claimed height (with enough confirmations) -> state root
//   -> account RLP of the registered cross-chain contract (account proof, go-ethereum node-SET semantics)
//   -> storage root -> storage value of the named slot (storage proof)
//   -> value == Keccak-256(submitted message), message decodable.
// Only go-ethereum's trie.VerifyProof / rlp / keccak are used; none of the repo's handler code.

import (
	"bytes"
	"encoding/binary"
	"encoding/hex"
	"math/big"
	"strings"

	ecommon "github.com/ethereum/go-ethereum/common"
	"github.com/ethereum/go-ethereum/crypto"
	"github.com/ethereum/go-ethereum/ethdb/memorydb"
	"github.com/ethereum/go-ethereum/rlp"
	"github.com/ethereum/go-ethereum/trie"
)

// chainView is what the reference knows about the tracked chain: the state root of the canonical header per height.
type chainView struct {
	best  uint64
	roots map[uint64]ecommon.Hash // canonical heights only
	wait  uint64                  // BlocksToWait of the side chain
	ccmc  []byte                  // registered CCMCAddress
}

func unhex(s string) ([]byte, bool) {
	s = strings.TrimPrefix(strings.ToLower(s), "0x")
	b, err := hex.DecodeString(s)
	return b, err == nil
}

func unhexBig(s string) (*big.Int, bool) {
	s = strings.TrimPrefix(strings.ToLower(s), "0x")
	return new(big.Int).SetString(s, 16)
}

func nodeSet(nodes []string) (*memorydb.Database, bool) {
	db := memorydb.New()
	for _, n := range nodes {
		b, ok := unhex(n)
		if !ok {
			return nil, false
		}
		db.Put(crypto.Keccak256(b), b)
	}
	return db, true
}

// msg is a decoded cross-chain message (MakeTxParam wire format: var-bytes x3, uint64 LE, var-bytes x3).
type msg struct {
	TxHash, CrossChainID, FromContract []byte
	ToChainID                          uint64
	ToContract                         []byte
	Method                             string
	Args                               []byte
}

func decodeMsg(b []byte) (*msg, bool) {
	off := 0
	varBytes := func() ([]byte, bool) {
		if off >= len(b) {
			return nil, false
		}
		n := uint64(b[off])
		off++
		w := map[uint64]int{0xfd: 2, 0xfe: 4, 0xff: 8}[n]
		if w > 0 {
			if off+w > len(b) {
				return nil, false
			}
			var buf [8]byte
			copy(buf[:], b[off:off+w])
			n = binary.LittleEndian.Uint64(buf[:])
			off += w
		}
		if n > uint64(len(b)-off) {
			return nil, false
		}
		out := b[off : off+int(n)]
		off += int(n)
		return out, true
	}
	m := &msg{}
	var ok bool
	if m.TxHash, ok = varBytes(); !ok {
		return nil, false
	}
	if m.CrossChainID, ok = varBytes(); !ok {
		return nil, false
	}
	if m.FromContract, ok = varBytes(); !ok {
		return nil, false
	}
	if off+8 > len(b) {
		return nil, false
	}
	m.ToChainID = binary.LittleEndian.Uint64(b[off:])
	off += 8
	if m.ToContract, ok = varBytes(); !ok {
		return nil, false
	}
	me, ok := varBytes()
	if !ok {
		return nil, false
	}
	m.Method = string(me)
	if m.Args, ok = varBytes(); !ok {
		return nil, false
	}
	return m, true
}

// refAccept returns "" when the deposit must be accepted, else the first clause of the property that fails.
func refAccept(cv *chainView, p *ethProof, extra []byte, height uint64) string {
	// 1. block on the tracked canonical chain with at least `wait` confirmations (the block itself counts as the first)
	if height > cv.best || cv.best-height+1 < cv.wait {
		return "not-confirmed"
	}
	root, ok := cv.roots[height]
	if !ok {
		return "no-canonical-block"
	}
	// 2. account proof for the REGISTERED contract
	addr, ok := unhex(p.Address)
	if !ok || !bytes.Equal(addr, cv.ccmc) {
		return "address-not-registered-ccmc"
	}
	adb, ok := nodeSet(p.AccountProof)
	if !ok {
		return "account-proof-invalid"
	}
	av, err := trie.VerifyProof(root, crypto.Keccak256(addr), adb)
	if err != nil || av == nil {
		return "account-proof-invalid"
	}
	var a account
	if rlp.DecodeBytes(av, &a) != nil {
		return "account-proof-invalid"
	}
	nonce, ok1 := unhexBig(p.Nonce)
	bal, ok2 := unhexBig(p.Balance)
	sh, ok3 := unhex(p.StorageHash)
	ch, ok4 := unhex(p.CodeHash)
	if !ok1 || !ok2 || !ok3 || !ok4 || nonce.Cmp(a.Nonce) != 0 || bal.Cmp(a.Balance) != 0 ||
		ecommon.BytesToHash(sh) != a.Root || ecommon.BytesToHash(ch) != a.CodeHash {
		return "claimed-account-differs-from-proven"
	}
	// 3. storage proof under the proven storage root
	if len(p.StorageProofs) != 1 {
		return "storage-proof-count"
	}
	sp := p.StorageProofs[0]
	key, ok := unhex(sp.Key)
	if !ok {
		return "storage-proof-invalid"
	}
	sdb, ok := nodeSet(sp.Proof)
	if !ok {
		return "storage-proof-invalid"
	}
	sv, err := trie.VerifyProof(a.Root, crypto.Keccak256(ecommon.BytesToHash(key).Bytes()), sdb)
	if err != nil || sv == nil {
		return "storage-proof-invalid"
	}
	var word []byte
	if rlp.DecodeBytes(sv, &word) != nil || len(word) > 32 {
		return "storage-proof-invalid"
	}
	// 4. value == keccak(message)
	if !bytes.Equal(ecommon.LeftPadBytes(word, 32), crypto.Keccak256(extra)) {
		return "value-not-keccak-of-message"
	}
	if _, ok := decodeMsg(extra); !ok {
		return "message-undecodable"
	}
	return ""
}
