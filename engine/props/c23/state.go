package main

// Synthetic Ethereum-style world states: a real go-ethereum (v1.9.15) secure-trie layout — account trie keyed by
// keccak(address) holding RLP(nonce, balance, storageRoot, codeHash); per-account storage trie keyed by keccak(slot)
// holding RLP(trimmed value) — and eth_getProof-shaped proofs taken from it with trie.Prove.

import (
	"encoding/hex"
	"math/big"

	ecommon "github.com/ethereum/go-ethereum/common"
	"github.com/ethereum/go-ethereum/crypto"
	"github.com/ethereum/go-ethereum/ethdb/memorydb"
	"github.com/ethereum/go-ethereum/light"
	"github.com/ethereum/go-ethereum/rlp"
	"github.com/ethereum/go-ethereum/trie"
)

type account struct {
	Nonce    *big.Int
	Balance  *big.Int
	Root     ecommon.Hash
	CodeHash ecommon.Hash
}

type acctState struct {
	addr    []byte
	acct    account
	storage *trie.Trie
}

type worldState struct {
	name     string
	root     ecommon.Hash
	accounts *trie.Trie
	byAddr   map[string]*acctState
}

func newTrie() *trie.Trie {
	t, err := trie.New(ecommon.Hash{}, trie.NewDatabase(memorydb.New()))
	if err != nil {
		panic(err)
	}
	return t
}

// slotOf is the storage slot a cross-chain contract would use for a message: keccak(crossChainID32 ++ uint256(1)).
// (The handlers do not derive the slot themselves: the relayer names it in the proof.)
func slotOf(crossChainID []byte) ecommon.Hash {
	return crypto.Keccak256Hash(ecommon.LeftPadBytes(crossChainID, 32), ecommon.LeftPadBytes([]byte{1}, 32))
}

type slotVal struct {
	slot ecommon.Hash
	val  []byte // 32-byte word; stored RLP(trim-left-zeroes) as the EVM does
}

// rawSlots: slots stored as RLP of the full zero-padded 32-byte word (a non-canonical encoding no EVM produces).
var rawSlots = map[ecommon.Hash]bool{}

func buildStorage(slots []slotVal) *trie.Trie {
	t := newTrie()
	for _, s := range slots {
		b := ecommon.TrimLeftZeroes(s.val)
		if rawSlots[s.slot] {
			b = s.val
		}
		v, _ := rlp.EncodeToBytes(b)
		t.Update(crypto.Keccak256(s.slot[:]), v)
	}
	return t
}

// newWorld builds a state: accounts maps address -> storage slots.
func newWorld(name string, order [][]byte, accounts map[string][]slotVal) *worldState {
	w := &worldState{name: name, accounts: newTrie(), byAddr: map[string]*acctState{}}
	for i, addr := range order {
		st := buildStorage(accounts[string(addr)])
		a := &acctState{addr: addr, storage: st, acct: account{Nonce: big.NewInt(int64(i + 1)), Balance: big.NewInt(int64(1000 * (i + 1))),
			Root: st.Hash(), CodeHash: crypto.Keccak256Hash(append([]byte("code of "), addr...))}}
		v, _ := rlp.EncodeToBytes(&a.acct)
		w.accounts.Update(crypto.Keccak256(addr), v)
		w.byAddr[string(addr)] = a
	}
	w.root = w.accounts.Hash()
	return w
}

// ethProof mirrors the JSON the relayers submit (eth_getProof result).
type ethProof struct {
	Address       string         `json:"address"`
	Balance       string         `json:"balance"`
	CodeHash      string         `json:"codeHash"`
	Nonce         string         `json:"nonce"`
	StorageHash   string         `json:"storageHash"`
	AccountProof  []string       `json:"accountProof"`
	StorageProofs []storageProof `json:"storageProof"`
}

type storageProof struct {
	Key   string   `json:"key"`
	Value string   `json:"value"`
	Proof []string `json:"proof"`
}

func hexNodes(nl light.NodeList) []string {
	var out []string
	for _, n := range nl {
		out = append(out, "0x"+hex.EncodeToString(n))
	}
	return out
}

func (w *worldState) accountNodes(addr []byte) []string {
	var nl light.NodeList
	if err := w.accounts.Prove(crypto.Keccak256(addr), 0, &nl); err != nil {
		panic(err)
	}
	return hexNodes(nl)
}

func (a *acctState) storageNodes(slot ecommon.Hash) []string {
	var nl light.NodeList
	if err := a.storage.Prove(crypto.Keccak256(slot[:]), 0, &nl); err != nil {
		panic(err)
	}
	return hexNodes(nl)
}

// proofFor is the honest eth_getProof answer for (account, slot) in this state (also for absent slots / accounts).
func (w *worldState) proofFor(addr []byte, slot ecommon.Hash) *ethProof {
	a := w.byAddr[string(addr)]
	p := &ethProof{Address: "0x" + hex.EncodeToString(addr), AccountProof: w.accountNodes(addr)}
	if a == nil { // absent account: empty account fields
		p.Balance, p.Nonce, p.CodeHash, p.StorageHash = "0x0", "0x0", ecommon.Hash{}.Hex(), ecommon.Hash{}.Hex()
		p.StorageProofs = []storageProof{{Key: slot.Hex(), Value: "0x0", Proof: nil}}
		return p
	}
	p.Balance = "0x" + a.acct.Balance.Text(16)
	p.Nonce = "0x" + a.acct.Nonce.Text(16)
	p.CodeHash = a.acct.CodeHash.Hex()
	p.StorageHash = a.acct.Root.Hex()
	p.StorageProofs = []storageProof{{Key: slot.Hex(), Value: "0x0", Proof: a.storageNodes(slot)}}
	return p
}

func (p *ethProof) clone() *ethProof {
	c := *p
	c.AccountProof = append([]string{}, p.AccountProof...)
	c.StorageProofs = nil
	for _, s := range p.StorageProofs {
		s.Proof = append([]string{}, s.Proof...)
		c.StorageProofs = append(c.StorageProofs, s)
	}
	return &c
}
