package main

// Tracked source chains per router: a trust root + four canonical headers + one losing fork sibling, every header
// carrying the state root of its own world state, synced through the real SyncGenesisHeader / SyncBlockHeader.

import (
	"encoding/hex"
	"encoding/json"
	"fmt"
	"math/big"

	ecommon "github.com/ethereum/go-ethereum/common"
	"github.com/ethereum/go-ethereum/core/types"
	"github.com/polynetwork/poly/common/config"
	"github.com/polynetwork/poly/native"
	"github.com/polynetwork/poly/native/service/header_sync/eth"
	"github.com/polynetwork/poly/native/service/utils"
	"verif.local/engine/lib/posa"
)

type srcChain struct {
	name      string
	router    uint64
	extraInfo []byte
	genesis   []byte   // SyncGenesisHeader parameter
	headers   [][]byte // SyncBlockHeader parameters in submission order (main chain, then the fork sibling)
	g         uint64   // height of the trust root
	mainHash  map[uint64]string
	forkHash  string
	forkH     uint64
	canonHash func(ns *native.NativeService, chain uint64, h uint64) (string, error)
	bestH     func(ns *native.NativeService, chain uint64) (uint64, error)
	rt        *posa.Router
}

const nMain = 4 // canonical headers above the trust root

// buildPosa: roots[i] is the state root of main header g+i (i = 0..nMain), forkRoot that of the sibling at g+2.
func buildPosa(rt *posa.Router, keys []posa.Key, roots []ecommon.Hash, forkRoot ecommon.Hash) *srcChain {
	c := &srcChain{name: rt.Name, router: rt.ID, extraInfo: rt.ExtraInfo, rt: rt, mainHash: map[uint64]string{}, canonHash: rt.CanonHash, bestH: rt.CanonHeight}
	c.g = 2000
	if rt.Family == posa.Bor {
		c.g = 6400
	}
	set := []int{0, 1, 2}
	if rt.Family == posa.Clique || rt.Family == posa.Bor {
		set = sortByAddr(keys, set)
	}
	addrs := func(idx []int) []ecommon.Address {
		var o []ecommon.Address
		for _, i := range idx {
			o = append(o, keys[i].Addr)
		}
		return o
	}
	n := uint64(len(set))
	signerAt := func(h uint64) int {
		if rt.Family == posa.Bor {
			return set[0] // the proposer of the genesis snapshot produces the whole sprint
		}
		return set[int(h%n)]
	}
	mk := func(parent *eth.Header, h uint64, root ecommon.Hash, signer int, diff int64, list []byte) *eth.Header {
		x := &eth.Header{UncleHash: posa.UncleHash, TxHash: types.EmptyRootHash, ReceiptHash: types.EmptyRootHash, Root: root,
			Difficulty: big.NewInt(diff), Number: new(big.Int).SetUint64(h), GasLimit: 30_000_000, GasUsed: 21000, Time: posa.PastTime}
		if parent != nil {
			x.ParentHash = rt.Hash(parent)
			x.Time = parent.Time + 20
		}
		if rt.Family != posa.Clique {
			x.Coinbase = keys[signer].Addr
		}
		x.Extra = posa.Extra(posa.Vanity, list)
		rt.Sign(x, keys[signer])
		return x
	}
	inTurn := int64(2)
	if rt.Family == posa.Bor {
		inTurn = int64(n)
	}
	var glist []byte
	if rt.Family != posa.Bor {
		glist = posa.AddrList(addrs(set))
	}
	gh := mk(nil, c.g, roots[0], signerAt(c.g), inTurn, glist)
	c.genesis = rt.GenesisRaw(gh, addrs(set), addrs(set), c.g-200, keys[signerAt(c.g)].Addr)
	c.mainHash[c.g] = hex.EncodeToString(rt.Hash(gh).Bytes())
	prev := gh
	var forkParent *eth.Header
	for i := 1; i <= nMain; i++ {
		h := c.g + uint64(i)
		x := mk(prev, h, roots[i], signerAt(h), inTurn, nil)
		c.headers = append(c.headers, rt.Raw(x))
		c.mainHash[h] = hex.EncodeToString(rt.Hash(x).Bytes())
		if i == 1 {
			forkParent = x
		}
		prev = x
	}
	// losing sibling at g+2: sealed by the validator after the in-turn one, with the out-of-turn difficulty
	c.forkH = c.g + 2
	fs, fd := set[int((c.forkH+1)%n)], int64(1)
	if rt.Family == posa.Bor {
		fs, fd = set[1], int64(n)-1
	}
	f := mk(forkParent, c.forkH, forkRoot, fs, fd, nil)
	c.headers = append(c.headers, rt.Raw(f))
	c.forkHash = hex.EncodeToString(rt.Hash(f).Bytes())
	return c
}

func sortByAddr(keys []posa.Key, idx []int) []int {
	s := append([]int{}, idx...)
	for i := 0; i < len(s); i++ {
		for j := i + 1; j < len(s); j++ {
			if string(keys[s[j]].Addr[:]) < string(keys[s[i]].Addr[:]) {
				s[i], s[j] = s[j], s[i]
			}
		}
	}
	return s
}

// ---------------------------------------------------------------------------------------------
// ETH router (PoW; the ethash seal check is skipped by verifhook.SkipSealFlag, every other header rule is real)

func ethChild(p *eth.Header, dt uint64, root ecommon.Hash, label string) *eth.Header {
	h := &eth.Header{ParentHash: p.Hash(), UncleHash: types.EmptyUncleHash, TxHash: types.EmptyRootHash, ReceiptHash: types.EmptyRootHash, Root: root,
		Number: new(big.Int).Add(p.Number, big.NewInt(1)), GasLimit: p.GasLimit, Time: p.Time + dt, Extra: []byte(label)}
	if h.Number.Uint64() >= config.GetEth1559Height(config.DefConfig.P2PNode.NetworkId) {
		if !eth.VerifIsLondon(p) {
			h.GasLimit = p.GasLimit * eth.ElasticityMultiplier
		}
		h.BaseFee = eth.CalcBaseFee(p)
	}
	h.GasUsed = h.GasLimit / 2
	switch {
	case eth.VerifIsArrowGlacier(h):
		h.Difficulty = eth.VerifDiffWithDelay(big.NewInt(10_700_000), h.Time, p)
	case eth.VerifIsLondon(h):
		h.Difficulty = eth.VerifDiffWithDelay(big.NewInt(9_700_000), h.Time, p)
	default:
		h.Difficulty = eth.VerifDiffPreLondon(new(big.Int).SetUint64(h.Time), p)
	}
	return h
}

func mustJSON(v any) []byte {
	b, err := json.Marshal(v)
	if err != nil {
		panic(err)
	}
	return b
}

func buildEth(roots []ecommon.Hash, forkRoot ecommon.Hash) *srcChain {
	c := &srcChain{name: "eth", router: utils.ETH_ROUTER, mainHash: map[uint64]string{}, g: 5_000_000}
	c.canonHash = func(ns *native.NativeService, chain uint64, h uint64) (string, error) {
		x, _, err := eth.GetHeaderByHeight(ns, h, chain)
		if err != nil {
			return "", nil // no canonical entry
		}
		return hex.EncodeToString(x.Hash().Bytes()), nil
	}
	c.bestH = func(ns *native.NativeService, chain uint64) (uint64, error) {
		return eth.GetCurrentHeaderHeight(ns, chain)
	}
	g := &eth.Header{UncleHash: types.EmptyUncleHash, TxHash: types.EmptyRootHash, ReceiptHash: types.EmptyRootHash, Root: roots[0],
		Difficulty: new(big.Int).Lsh(big.NewInt(1), 40), Number: new(big.Int).SetUint64(c.g), GasLimit: 15_000_000, GasUsed: 7_500_000,
		Time: posa.PastTime, Extra: []byte("c23-root")}
	c.genesis = mustJSON(*g)
	c.mainHash[c.g] = hex.EncodeToString(g.Hash().Bytes())
	prev := g
	var forkParent *eth.Header
	for i := 1; i <= nMain; i++ {
		x := ethChild(prev, 5, roots[i], fmt.Sprintf("main%d", i)) // dt 5: difficulty rises
		c.headers = append(c.headers, mustJSON(*x))
		c.mainHash[c.g+uint64(i)] = hex.EncodeToString(x.Hash().Bytes())
		if i == 1 {
			forkParent = x
		}
		prev = x
	}
	c.forkH = c.g + 2
	f := ethChild(forkParent, 20, forkRoot, "fork") // dt 20: difficulty falls -> lighter sibling
	c.headers = append(c.headers, mustJSON(*f))
	c.forkHash = hex.EncodeToString(f.Hash().Bytes())
	return c
}
