package main

import (
	"fmt"
	"os"
	"runtime/pprof"
	"time"

	_ "github.com/polynetwork/poly/native/service"
	"github.com/polynetwork/poly/native/service/utils"
	"verif.local/engine/lib/ccm"
	"verif.local/engine/polyenv"
)

func main() {
	vals := polyenv.Keys(4)
	polyenv.Setup(0, vals)
	polyenv.InstallHeightLedger()
	w := polyenv.NewWorld()
	w.Genesis(vals)
	ccm.Register(w, vals, ccm.SC{ID: 11, Router: utils.VOTE_ROUTER, Wait: 1, Name: "src", CCMC: []byte{1}}, -1, 1)
	ccm.Register(w, vals, ccm.SC{ID: 12, Router: utils.VOTE_ROUTER, Wait: 1, Name: "dst", CCMC: []byte{2}}, -1, 1)
	d := w.Dump()
	fmt.Println("keys", len(d))
	msg := ccm.MsgBytes(ccm.Msg([]byte{1}, []byte{2}, []byte{3}, 12, make([]byte, 20), "m", nil))
	f, _ := os.Create("/tmp/c25probe.prof")
	pprof.StartCPUProfile(f)
	pool := ccm.NewWorlds(1)
	t0 := time.Now()
	for i := 0; i < 200; i++ {
		pool.With(d, func(w *ccm.W) {
			t1 := time.Now()
			tx := ccm.VoteImport(11, 7, msg, vals[i%4], uint32(i))
			t2 := time.Now()
			r := w.Exec(tx, 2, 1000)
			t3 := time.Now()
			_ = w.Dump()
			if i < 3 {
				fmt.Println(r.OK, r.Err, "tx", t2.Sub(t1), "exec", t3.Sub(t2), "dump", time.Since(t3))
			}
		})
	}
	fmt.Println("per step", time.Since(t0)/200)
	pprof.StopCPUProfile()
}
