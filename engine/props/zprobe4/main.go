package main

import (
	"fmt"

	"github.com/polynetwork/poly/common/config"
	_ "github.com/polynetwork/poly/native/service"
	"github.com/polynetwork/poly/native/service/utils"
	"verif.local/engine/lib/ccm"
	"verif.local/engine/polyenv"
)

func main() {
	vals := polyenv.Keys(4)
	polyenv.Setup(config.NETWORK_ID_MAIN_NET, vals)
	polyenv.InstallHeightLedger()
	polyenv.GlobalHeight = 18823000
	const H = 18823000
	w := polyenv.NewWorld()
	w.Genesis(vals)
	ccmc := make([]byte, 20)
	ccmc[0] = 0xcc
	ccm.Register(w, vals, ccm.SC{ID: 11, Router: utils.HSC_ROUTER, Wait: 1, Name: "hsc", CCMC: ccmc}, -1, H)
	ccm.Register(w, vals, ccm.SC{ID: 12, Router: utils.VOTE_ROUTER, Wait: 1, Name: "dst", CCMC: []byte{2}}, -1, H)
	msg := ccm.MsgBytes(ccm.Msg([]byte{1}, []byte{2}, []byte{3}, 12, make([]byte, 20), "m", nil))
	msg2 := ccm.MsgBytes(ccm.Msg([]byte{1}, []byte{2}, []byte{3}, 12, make([]byte, 20), "m", []byte{9}))
	st := ccm.NewEthState(ccmc, [][]byte{msg, msg2})
	r := w.Exec(ccm.HscGenesisTx(11, st.Root, 1000, 1, polyenv.Multi(vals)), H-1, 1000)
	fmt.Println("genesis below start:", r.OK, r.Err)
	r = w.Exec(ccm.HscGenesisTx(11, st.Root, 1000, 1, polyenv.Single(vals[0])), H, 1000)
	fmt.Println("genesis non-operator:", r.OK, r.Err)
	r = w.Exec(ccm.HscGenesisTx(11, st.Root, 1000, 1, polyenv.Multi(vals)), H, 1000)
	fmt.Println("genesis:", r.OK, r.Err)
	rel := polyenv.Key(700)
	r = w.Exec(ccm.HscImport(11, 1000, st.Proof(0, false), msg, rel, 1), H-1, 1000)
	fmt.Println("import below start:", r.OK, r.Err)
	r = w.Exec(ccm.HscImport(11, 1000, st.Proof(0, false), msg2, rel, 1), H, 1000)
	fmt.Println("import wrong extra:", r.OK, r.Err)
	r = w.Exec(ccm.HscImport(11, 1000, st.Proof(0, false), msg, rel, 1), H, 1000)
	fmt.Println("import:", r.OK, r.Err, len(r.CrossHashes), len(r.WriteSet))
	r = w.Exec(ccm.HscImport(11, 1000, st.Proof(0, true), msg, rel, 2), H, 1000)
	fmt.Println("replay dup-node proof:", r.OK, r.Err)
	r = w.Exec(ccm.HscImport(11, 1000, st.Proof(1, false), msg2, rel, 3), H, 1000)
	fmt.Println("replay other slot same ccid:", r.OK, r.Err)
	for n := 1; n <= 8; n++ {
		v := polyenv.Keys(n)
		polyenv.Setup(config.NETWORK_ID_MAIN_NET, v)
		w := polyenv.NewWorld()
		w.Genesis(v)
		fmt.Println("mainnet genesis N", n, len(w.Dump()))
	}
}
