// C42 — quorum thresholds guarantee intersection.
//
// Model + conformance:
//  1. the threshold EXPRESSIONS are extracted from the Go source (go/ast, on every run) and evaluated for N = 1..10000
//     against N-(N-1)/3 and ceil(2N/3);
//  2. a table of those extracted values (N = 1..MaxN) is generated as TLA+ module CodeTable and TLC explores every
//     pair of subsets of 1..n for every n <= MaxN (explicit state) checking |A∩B| > f for sets meeting the NODE's thresholds;
//  3. Apalache checks the arithmetic core for all n (symbolic, unbounded);
//  4. the extraction is cross-checked dynamically: measured acceptance boundary of the real getCommitConsensus and of the
//     real CheckConsensusSigns (approveCandidate through the production tx path) for small N.
package main

import (
	"bytes"
	"fmt"
	"go/ast"
	"go/parser"
	"go/printer"
	"go/token"
	"os"
	"os/exec"
	"path/filepath"
	"regexp"
	"strconv"
	"strings"

	"github.com/polynetwork/poly/common"
	"github.com/polynetwork/poly/common/config"
	"github.com/polynetwork/poly/consensus/vbft"
	"github.com/polynetwork/poly/core/types"
	_ "github.com/polynetwork/poly/native/service"
	"github.com/polynetwork/poly/native/service/governance/node_manager"
	"github.com/polynetwork/poly/native/service/governance/signature_manager"
	"github.com/polynetwork/poly/native/service/utils"
	"verif.local/engine/ev"
	"verif.local/engine/lib/src"
	"verif.local/engine/polyenv"
)

type site struct {
	name, file, fn string
	// how to find the expression inside fn
	find func(body *ast.BlockStmt) []ast.Expr
	kind string // "block" (N-f), "gov" (ceil 2N/3), "legacy" (N-6N/7), "commit" (N-f, signers needed = value-1)
}

func isIdent(e ast.Expr, name string) bool {
	id, ok := e.(*ast.Ident)
	return ok && id.Name == name
}

// comparisons `num <op> EXPR`
func cmpWithNum(body *ast.BlockStmt) []ast.Expr {
	var out []ast.Expr
	ast.Inspect(body, func(n ast.Node) bool {
		if b, ok := n.(*ast.BinaryExpr); ok {
			switch b.Op {
			case token.GEQ, token.LSS, token.GTR, token.LEQ:
				if isIdent(b.X, "num") {
					out = append(out, b.Y)
				}
			}
		}
		return true
	})
	return out
}

func assignM(define bool) func(body *ast.BlockStmt) []ast.Expr {
	return func(body *ast.BlockStmt) []ast.Expr {
		var out []ast.Expr
		ast.Inspect(body, func(n ast.Node) bool {
			if a, ok := n.(*ast.AssignStmt); ok && len(a.Lhs) == 1 && len(a.Rhs) == 1 && isIdent(a.Lhs[0], "m") {
				if (a.Tok == token.DEFINE) == define {
					out = append(out, a.Rhs[0])
				}
			}
			return true
		})
		return out
	}
}

// `len(signCount[..])+1 >= EXPR`
func commitCmp(body *ast.BlockStmt) []ast.Expr {
	var out []ast.Expr
	ast.Inspect(body, func(n ast.Node) bool {
		if b, ok := n.(*ast.BinaryExpr); ok && b.Op == token.GEQ {
			var buf bytes.Buffer
			printer.Fprint(&buf, token.NewFileSet(), b.X)
			if strings.Contains(buf.String(), "signCount") {
				out = append(out, b.Y)
			}
		}
		return true
	})
	return out
}

// defs holds the single-assignment local definitions (x := expr) of the function being analysed, so that a
// threshold hoisted into a local variable is still resolved.
var defs map[string]ast.Expr

func collectDefs(body *ast.BlockStmt) {
	defs = map[string]ast.Expr{}
	count := map[string]int{}
	ast.Inspect(body, func(n ast.Node) bool {
		if a, ok := n.(*ast.AssignStmt); ok && len(a.Lhs) == 1 && len(a.Rhs) == 1 {
			if id, ok := a.Lhs[0].(*ast.Ident); ok {
				count[id.Name]++
				defs[id.Name] = a.Rhs[0]
			}
		}
		return true
	})
	for k, c := range count {
		if c != 1 {
			delete(defs, k)
		}
	}
}

// eval evaluates an integer expression in which the validator-count variables (sum, N, len(...)) denote N.
func eval(e ast.Expr, N int64) (int64, error) {
	switch x := e.(type) {
	case *ast.ParenExpr:
		return eval(x.X, N)
	case *ast.BasicLit:
		if x.Kind != token.INT {
			return 0, fmt.Errorf("literal %s", x.Value)
		}
		return strconv.ParseInt(x.Value, 0, 64)
	case *ast.Ident:
		if x.Name == "sum" || x.Name == "N" {
			return N, nil
		}
		if d, ok := defs[x.Name]; ok {
			return eval(d, N)
		}
		return 0, fmt.Errorf("unknown identifier %s", x.Name)
	case *ast.CallExpr:
		if isIdent(x.Fun, "len") {
			return N, nil
		}
		// a call of a helper defined in the same file with one integer parameter: f(n) { a := ..; return expr }
		if id, ok := x.Fun.(*ast.Ident); ok && len(x.Args) == 1 {
			if fd, ok := fileFuncs[id.Name]; ok && fd.Type.Params != nil && len(fd.Type.Params.List) == 1 && len(fd.Type.Params.List[0].Names) == 1 {
				arg, err := eval(x.Args[0], N)
				if err != nil {
					return 0, err
				}
				return evalFunc(fd, arg)
			}
		}
		return 0, fmt.Errorf("call")
	case *ast.BinaryExpr:
		a, err := eval(x.X, N)
		if err != nil {
			return 0, err
		}
		b, err := eval(x.Y, N)
		if err != nil {
			return 0, err
		}
		switch x.Op {
		case token.ADD:
			return a + b, nil
		case token.SUB:
			return a - b, nil
		case token.MUL:
			return a * b, nil
		case token.QUO:
			if b == 0 {
				return 0, fmt.Errorf("div0")
			}
			return a / b, nil
		}
	}
	return 0, fmt.Errorf("unsupported expression %T", e)
}

// fileFuncs: the function declarations of the file being analysed (for inlining quorum helpers).
var fileFuncs map[string]*ast.FuncDecl

// evalFunc evaluates a straight-line integer helper: assignments of integer expressions followed by a return.
func evalFunc(fd *ast.FuncDecl, arg int64) (int64, error) {
	saved := defs
	defer func() { defs = saved }()
	env := map[string]int64{fd.Type.Params.List[0].Names[0].Name: arg}
	for _, st := range fd.Body.List {
		switch t := st.(type) {
		case *ast.AssignStmt:
			if len(t.Lhs) != 1 || len(t.Rhs) != 1 {
				return 0, fmt.Errorf("helper %s: unsupported assignment", fd.Name.Name)
			}
			id, ok := t.Lhs[0].(*ast.Ident)
			if !ok {
				return 0, fmt.Errorf("helper %s: unsupported assignment", fd.Name.Name)
			}
			v, err := evalEnv(t.Rhs[0], env)
			if err != nil {
				return 0, err
			}
			env[id.Name] = v
		case *ast.ReturnStmt:
			if len(t.Results) != 1 {
				return 0, fmt.Errorf("helper %s: unsupported return", fd.Name.Name)
			}
			return evalEnv(t.Results[0], env)
		default:
			return 0, fmt.Errorf("helper %s: unsupported statement %T", fd.Name.Name, st)
		}
	}
	return 0, fmt.Errorf("helper %s: no return", fd.Name.Name)
}

func evalEnv(e ast.Expr, env map[string]int64) (int64, error) {
	switch x := e.(type) {
	case *ast.ParenExpr:
		return evalEnv(x.X, env)
	case *ast.BasicLit:
		return strconv.ParseInt(x.Value, 0, 64)
	case *ast.Ident:
		if v, ok := env[x.Name]; ok {
			return v, nil
		}
		return 0, fmt.Errorf("unknown identifier %s in helper", x.Name)
	case *ast.CallExpr:
		if id, ok := x.Fun.(*ast.Ident); ok && len(x.Args) == 1 {
			if id.Name == "int" || id.Name == "uint32" || id.Name == "uint64" || id.Name == "int64" || id.Name == "uint" {
				return evalEnv(x.Args[0], env)
			}
			if fd, ok := fileFuncs[id.Name]; ok {
				a, err := evalEnv(x.Args[0], env)
				if err != nil {
					return 0, err
				}
				return evalFunc(fd, a)
			}
		}
		return 0, fmt.Errorf("unsupported call in helper")
	case *ast.BinaryExpr:
		a, err := evalEnv(x.X, env)
		if err != nil {
			return 0, err
		}
		b, err := evalEnv(x.Y, env)
		if err != nil {
			return 0, err
		}
		switch x.Op {
		case token.ADD:
			return a + b, nil
		case token.SUB:
			return a - b, nil
		case token.MUL:
			return a * b, nil
		case token.QUO:
			if b == 0 {
				return 0, fmt.Errorf("div0")
			}
			return a / b, nil
		}
	}
	return 0, fmt.Errorf("unsupported expression %T in helper", e)
}

func exprString(e ast.Expr) string {
	var buf bytes.Buffer
	printer.Fprint(&buf, token.NewFileSet(), e)
	return buf.String()
}

func specBlock(n int64) int64  { return n - (n-1)/3 }
func specGov(n int64) int64    { return (2*n + 2) / 3 } // = ceil(2n/3)
func specLegacy(n int64) int64 { return n - 6*n/7 }

func main() {
	r := ev.Start("C42", "model_checking")
	sites := []site{
		{"ledger.verifyHeader.new", "core/store/ledgerstore/ledger_store.go", "verifyHeader", assignM(true), "block"},
		{"ledger.verifyHeader.legacy", "core/store/ledgerstore/ledger_store.go", "verifyHeader", assignM(false), "legacy"},
		{"node_manager.CheckConsensusSigns", "native/service/governance/node_manager/utils.go", "CheckConsensusSigns", cmpWithNum, "gov"},
		{"consensus_vote.CheckVotes", "native/service/cross_chain_manager/consensus_vote/utils.go", "CheckVotes", cmpWithNum, "gov"},
		{"signature_manager.CheckSigns", "native/service/governance/signature_manager/utils.go", "CheckSigns", cmpWithNum, "gov"},
		{"vbft.getCommitConsensus", "consensus/vbft/node_utils.go", "getCommitConsensus", commitCmp, "commit"},
	}
	const NMAX = 10000
	tableN := r.QT(9, 11)
	table := map[string][]int64{}
	extracted := map[string][]string{}
	for _, s := range sites {
		fset := token.NewFileSet()
		f, err := parser.ParseFile(fset, src.Path(s.file), nil, 0)
		if err != nil {
			r.HarnessError("parse %s: %v", s.file, err)
		}
		var exprs []ast.Expr
		fileFuncs = map[string]*ast.FuncDecl{}
		for _, d := range f.Decls {
			if fd, ok := d.(*ast.FuncDecl); ok && fd.Recv == nil && fd.Body != nil {
				fileFuncs[fd.Name.Name] = fd
			}
		}
		for _, d := range f.Decls {
			if fd, ok := d.(*ast.FuncDecl); ok && fd.Name.Name == s.fn && fd.Body != nil {
				exprs = s.find(fd.Body)
				collectDefs(fd.Body)
			}
		}
		if s.name == "ledger.verifyHeader.new" && len(exprs) > 1 {
			exprs = exprs[:1] // first `m :=` is the vbft branch; the second belongs to the non-vbft (dbft) branch
		}
		if len(exprs) == 0 {
			// a refactoring moved the expression: not an alarm; the dynamic measurements below still bind what they cover.
			r.Note("extraction_failed:"+s.name, "no threshold expression found in "+s.file+":"+s.fn)
			r.Class("extraction_failed")
			continue
		}
		for _, e := range exprs {
			es := exprString(e)
			extracted[s.name] = append(extracted[s.name], es)
			bad := int64(-1)
			var got, want int64
			for n := int64(1); n <= NMAX; n++ {
				v, err := eval(e, n)
				if err != nil {
					r.Note("extraction_unsupported:"+s.name, es+": "+err.Error())
					r.Class("extraction_failed")
					bad = -2
					break
				}
				var w int64
				switch s.kind {
				case "block", "commit":
					w = specBlock(n)
				case "gov":
					w = specGov(n)
				case "legacy":
					w = specLegacy(n)
				}
				r.Eval()
				if v != w && bad < 0 {
					bad, got, want = n, v, w
				}
			}
			if bad == -2 {
				continue
			}
			r.Case(s.name + ":" + es)
			r.Class("threshold_evaluated")
			if bad > 0 {
				r.Violation("threshold-formula:"+s.name, map[string]any{"site": s.name, "file": s.file, "func": s.fn,
					"expression": es, "first_N": bad, "node_computes": got, "formula": want})
			}
			if s.kind != "legacy" {
				var row []int64
				for n := int64(1); n <= int64(tableN); n++ {
					v, _ := eval(e, n)
					row = append(row, v)
				}
				table[s.name] = row
			}
		}
	}
	r.Note("extracted_expressions", extracted)
	// the legacy override does not intersect (C14's stated exception): reported, never alarmed.
	r.Note("legacy_rule_intersects", false)

	// ---- TLC: explicit subsets with the node's thresholds -----------------------------------------
	row := func(name string, spec func(int64) int64) string {
		v, ok := table[name]
		if !ok { // extraction failed: fall back to the formula so the model still runs; noted above
			for n := int64(1); n <= int64(tableN); n++ {
				v = append(v, spec(n))
			}
		}
		var s []string
		for _, x := range v {
			s = append(s, strconv.FormatInt(x, 10))
		}
		return "<<" + strings.Join(s, ",") + ">>"
	}
	work := filepath.Join(polyenv.TmpDir("c42"))
	defer os.RemoveAll(work)
	for _, m := range []string{"quorum.tla", "quorumA.tla"} {
		b, err := os.ReadFile(filepath.Join(ev.Root, "models", m))
		if err != nil {
			r.HarnessError("model %s: %v", m, err)
		}
		os.WriteFile(filepath.Join(work, m), b, 0o644)
	}
	// gov table: the weakest of the governance-style sites at each N (all are expected equal)
	ct := "---- MODULE CodeTable ----\n" +
		"CodeBlock == " + row("ledger.verifyHeader.new", specBlock) + "\n" +
		"CodeGov == " + row("node_manager.CheckConsensusSigns", specGov) + "\n" +
		"CodeVote == " + row("consensus_vote.CheckVotes", specGov) + "\n====\n"
	os.WriteFile(filepath.Join(work, "CodeTable.tla"), []byte(ct), 0o644)
	cfg := fmt.Sprintf("CONSTANT MaxN = %d\nINIT Init\nNEXT Next\nINVARIANT InvBlock\nINVARIANT InvGov\nINVARIANT InvVote\n", tableN)
	os.WriteFile(filepath.Join(work, "quorum.cfg"), []byte(cfg), 0o644)
	cmd := exec.Command("tlc", "-workers", "12", "-config", "quorum.cfg", "quorum.tla")
	cmd.Dir = work
	out, err := cmd.CombinedOutput()
	so := string(out)
	states, distinct := int64(0), int64(0)
	if m := regexp.MustCompile(`(\d+) states generated, (\d+) distinct states found`).FindStringSubmatch(so); m != nil {
		states, _ = strconv.ParseInt(m[1], 10, 64)
		distinct, _ = strconv.ParseInt(m[2], 10, 64)
	}
	switch {
	case strings.Contains(so, "No error has been found"):
		r.Class("tlc_ran")
	case strings.Contains(so, "is violated"):
		r.Class("tlc_ran")
		inv := regexp.MustCompile(`Invariant (\w+) is violated`).FindStringSubmatch(so)
		st := regexp.MustCompile(`(?s)The behavior up to this point is:(.*?)\n\d+ states generated`).FindStringSubmatch(so)
		name := "?"
		if inv != nil {
			name = inv[1]
		}
		trace := ""
		if st != nil {
			trace = strings.TrimSpace(st[1])
		}
		// conformance of the counterexample: it is a pair of sets meeting the thresholds the node really computes
		// (the table is the node's own expression), so the witness is concrete as it stands.
		r.Violation("intersection:"+name, map[string]any{"invariant": name, "tlc_trace": trace, "code_table": ct})
	default:
		_ = err
		r.HarnessError("TLC did not complete: %s", tail(so, 800))
	}
	// ---- Apalache: arithmetic core for all n --------------------------------------------------------
	apaOK := false
	acmd := exec.Command("apalache-mc", "check", "--length=0", "--inv=Inv", "--out-dir="+filepath.Join(work, "apa"), "quorumA.tla")
	acmd.Dir = work
	aout, _ := acmd.CombinedOutput()
	if strings.Contains(string(aout), "The outcome is: NoError") {
		apaOK = true
		r.Class("apalache_ok")
	} else if strings.Contains(string(aout), "The outcome is: Error") {
		r.Violation("intersection:arithmetic-core", map[string]any{"apalache": tail(string(aout), 1500)})
	} else {
		r.Note("apalache_unavailable", tail(string(aout), 400))
	}

	// ---- dynamic cross-check 1: real getCommitConsensus ---------------------------------------------
	dyn := int64(0)
	for N := 4; N <= r.QT(40, 100); N++ {
		C := (N - 1) / 3
		need := -1
		for k := 0; k <= N; k++ {
			var cs []uint32
			for i := 0; i < k; i++ {
				cs = append(cs, uint32(i+2))
			}
			dyn++
			r.Eval()
			if vbft.VerifC42CommitQuorum(N, C, cs, 1) {
				need = k
				break
			}
		}
		want := N - (N-1)/3 - 1
		r.Case(fmt.Sprintf("commit N=%d need=%d", N, need))
		if need != want {
			r.Violation("threshold-measured:vbft.getCommitConsensus", map[string]any{"N": N, "C": C, "signers_needed_measured": need, "formula_N-f-1": want})
		}
	}
	// ---- dynamic cross-check 2: real CheckConsensusSigns through approveCandidate --------------------
	for N := 4; N <= r.QT(7, 10); N++ {
		vals := polyenv.Keys(N)
		polyenv.Setup(0, vals)
		polyenv.InstallHeightLedger()
		w := polyenv.NewWorld()
		w.Genesis(vals)
		cand := polyenv.Key(100)
		sink := common.NewZeroCopySink(nil)
		(&node_manager.RegisterPeerParam{PeerPubkey: cand.PubHex, Address: cand.Addr}).Serialization(sink)
		if res := w.Exec(polyenv.Tx(utils.NodeManagerContractAddress, node_manager.REGISTER_CANDIDATE, sink.Bytes(), 1, polyenv.Single(cand)), 1, 10); !res.OK {
			r.HarnessError("registerCandidate failed: %v", res.Err)
		}
		need := -1
		for k := 1; k <= N; k++ {
			v := vals[k-1]
			s2 := common.NewZeroCopySink(nil)
			(&node_manager.PeerParam{PeerPubkey: cand.PubHex, Address: v.Addr}).Serialization(s2)
			before := w.Dump()
			res := w.Exec(polyenv.Tx(utils.NodeManagerContractAddress, node_manager.APPROVE_CANDIDATE, s2.Bytes(), uint32(10+k), polyenv.Single(v)), 1, 10)
			dyn++
			r.Eval()
			if !res.OK {
				r.HarnessError("approveCandidate failed: %v", res.Err)
			}
			applied := false
			for key := range before.Diff(w.Dump()) {
				if strings.Contains(key, node_manager.PEER_POOL) {
					applied = true
				}
			}
			if applied {
				need = k
				break
			}
		}
		w.Close()
		want := (2*N + 2) / 3
		r.Case(fmt.Sprintf("gov N=%d need=%d", N, need))
		if need != want {
			r.Violation("threshold-measured:node_manager.CheckConsensusSigns", map[string]any{"N": N, "approvals_needed_measured": need, "formula_ceil(2N/3)": want})
		}
	}
	// ---- dynamic cross-check 2b: governance thresholds are thresholds on DISTINCT validators -----------------------
	// signature_manager.AddSignature (CheckSigns) and node_manager approvals (CheckConsensusSigns): the quorum event / effect
	// must need ceil(2N/3) distinct validators under every submission pattern of the alphabet — each validator once; each
	// validator followed by a re-submission of identical bytes; each validator followed by a re-submission with other
	// signature bytes; all re-submissions by the first validator only.
	for N := 1; N <= r.QT(8, 10); N++ {
		want := (2*N + 2) / 3
		for _, pat := range []string{"once", "resubmit-same", "resubmit-other-bytes", "first-validator-repeats"} {
			vals := polyenv.Keys(N)
			polyenv.Setup(0, vals)
			polyenv.InstallHeightLedger()
			w := polyenv.NewWorld()
			w.Genesis(vals)
			nonce := uint32(1)
			fired := func(res polyenv.Result) bool {
				if res.Notify == nil {
					return false
				}
				for _, e := range res.Notify.Notify {
					if st, ok := e.States.([]interface{}); ok && len(st) > 0 && st[0] == "AddSignatureQuorum" {
						return true
					}
				}
				return false
			}
			submit := func(v *polyenv.Acct, sig []byte) bool {
				sk := common.NewZeroCopySink(nil)
				(&signature_manager.AddSignatureParam{Address: v.Addr, SideChainID: 7, Subject: []byte("subject-c42"), Signature: sig}).Serialization(sk)
				nonce++
				res := w.Exec(polyenv.Tx(utils.SignatureManagerContractAddress, signature_manager.ADD_SIGNATURE, sk.Bytes(), nonce, polyenv.Single(v)), 1, 10)
				dyn++
				r.Eval()
				if !res.OK {
					r.HarnessError("addSignature failed: %v", res.Err)
				}
				return fired(res)
			}
			need := -1
			for k := 1; k <= N && need < 0; k++ {
				v := vals[k-1]
				if submit(v, []byte{1, byte(k)}) {
					need = k
					break
				}
				switch pat {
				case "resubmit-same":
					if submit(v, []byte{1, byte(k)}) {
						need = k
					}
				case "resubmit-other-bytes":
					if submit(v, []byte{2, byte(k)}) || submit(v, []byte{3, byte(k)}) {
						need = k
					}
				case "first-validator-repeats":
					if submit(vals[0], []byte{4, byte(k)}) {
						need = k
					}
				}
			}
			w.Close()
			r.Case(fmt.Sprintf("sigmgr N=%d %s need=%d", N, pat, need))
			if need != want {
				r.Violation("threshold-measured:signature_manager.CheckSigns", map[string]any{"N": N, "pattern": pat,
					"distinct_validators_at_quorum_event": need, "formula_ceil(2N/3)": want})
			}
		}
	}
	// ---- dynamic cross-check 3: real ledger verifyHeader (block path), all three rules --------------
	for N := 1; N <= r.QT(8, 10); N++ {
		for _, mode := range []string{"vbft-legacy", "vbft-new", "dbft"} {
			need := measureLedger(r, N, mode)
			dyn++
			var want int
			switch mode {
			case "vbft-legacy":
				want = N - 6*N/7
			default:
				want = N - (N-1)/3
			}
			r.Case(fmt.Sprintf("ledger %s N=%d need=%d", mode, N, need))
			if need != want {
				r.Violation("threshold-measured:ledger.verifyHeader."+mode, map[string]any{"N": N, "rule": mode,
					"signatures_needed_measured": need, "formula": want})
			}
		}
	}
	r.Class("dynamic_measured")
	r.Require("threshold_evaluated", "tlc_ran", "dynamic_measured")
	r.Sample(map[string]any{"CodeTable": ct})
	r.Sample(map[string]any{"extracted": extracted})
	r.Assume("worst-case overlap of sets of sizes a,b in an n-set is a+b-n (validated by the explicit TLC run for n<=MaxN)",
		"Apalache (symbolic) covers all n for the arithmetic core; TLC (explicit) covers n<=MaxN",
		"the legacy override N-6N/7 (non-main nets, main-net height<=20,000,000) does not intersect; it is C14's stated exception")
	r.Finish(map[string]any{
		"rule":        fmt.Sprintf("threshold expressions extracted from source and evaluated for N=1..%d; TLC explicit subsets for every n<=%d with the node's own thresholds; Apalache for all n; measured boundaries of getCommitConsensus / CheckConsensusSigns", NMAX, tableN),
		"states":      distinct,
		"transitions": states,
		"traces_validated_against_impl": dyn,
		"tlc_states_generated":          states,
		"tlc_distinct_states":           distinct,
		"tlc_max_n":                     tableN,
		"apalache_all_n_ok":             apaOK,
		"checker_cmd":                   "tlc -config quorum.cfg quorum.tla ; apalache-mc check --length=0 --inv=Inv quorumA.tla",
	})
}

// measureLedger returns the least number k of distinct validator signatures with which the real ledger commits
// block 1 (AddBlock -> verifyHeader), for N validators under the given rule; -1 if none is accepted.
func measureLedger(r *ev.Run, N int, mode string) int {
	vals := polyenv.Keys(N)
	net := uint32(0)
	if mode == "vbft-new" {
		net = config.NETWORK_ID_MAIN_NET
	}
	polyenv.Setup(net, vals)
	if mode == "dbft" {
		config.DefConfig.Genesis.ConsensusType = "dbft"
		defer func() { config.DefConfig.Genesis.ConsensusType = config.CONSENSUS_TYPE_VBFT }()
	}
	for k := 0; k <= N; k++ {
		r.Eval()
		dir := polyenv.TmpDir("c42l")
		ch, err := polyenv.OpenChain(dir, vals)
		if err != nil {
			os.RemoveAll(dir)
			r.HarnessError("open chain N=%d %s: %v", N, mode, err)
		}
		if mode == "vbft-new" {
			last := &types.Header{Version: types.CURR_HEADER_VERSION, ChainID: polyenv.ChainID(), Height: 20000005,
				Timestamp: ch.Genesis.Header.Timestamp + 1000000, ConsensusData: 1, ConsensusPayload: polyenv.VbftPayload(0, nil)}
			ch.L.VerifC14SetHeaderTip(20000005, last, false, 16)
		}
		var b *types.Block
		if mode == "dbft" {
			// every bookkeeper is listed (the address must match NextBookkeeper); only the first k sign
			b = ch.NextBlock(nil, vals)
			b.Header.SigData = b.Header.SigData[:k]
		} else {
			b = ch.NextBlock(nil, vals[:k])
		}
		err = ch.CommitSync(b)
		ok := err == nil && ch.L.GetCurrentBlockHeight() == 1
		ch.Close()
		os.RemoveAll(dir)
		if ok {
			return k
		}
	}
	return -1
}

func tail(s string, n int) string {
	if len(s) > n {
		return s[len(s)-n:]
	}
	return s
}
