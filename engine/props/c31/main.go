// C31 — Ontology and NEO light clients follow authenticated validator changes.
//
// ONT. The real header_sync contract (ONT router) is driven on a native World. Trust root: genesis header at
// height 0 recording peer set S0 (N=4). Synthetic headers (real ontology types, real P-256 signatures) exist for
// heights on both sides of the key heights 10 and 20: (5,-) (10,cfg S1) (11,-) (15,-) (20,cfg S2) (21,-)
// [thorough: + (10,-) (15,cfg S2) (25,-)], S1 (N=5) and S2 (N=7) overlapping their predecessors in 2 resp. 1
// members. Every header comes in 16 signer variants: for X ∈ {S0,S1,S2}: ok (⌈|X|/3⌉ distinct members exclusive
// to X), under (one fewer), dup (one member listed ⌈|X|/3⌉ times), foreign (one fewer + an outsider), badsig
// (last signature over another message); plus the two members shared by S0 and S1. mc.BFS explores ALL orders
// of submission to depth quick 4 / thorough 6, states deduplicated on the real storage dump.
//
// Reference model (shares no code with the implementation): stored heights, key height -> peer set, both
// derived only from the headers the implementation accepted. Per transition:
//
//	header newly stored at h  ⇒  a key height k < h exists in the model and, for P = peers(max such k),
//	                              |{distinct members of P with a valid signature on the header}|*3 ≥ |P|
//	no header stored           ⇒  the whole dump is unchanged
//	recorded peer sets (decoded from storage) == model (so a set is recorded only from an accepted header
//	                              that carries it, with exactly its peers); KEY_HEIGHTS strictly descending
//	ok-variant signed by the set in force must be accepted (else harness error)
//
// NEO / NEO N3. Trust root: genesis header index 5, NextConsensus = script hash of A (3-of-4). Events: header
// index ∈ {3,5,8,12} × NextConsensus ∈ {A,B,C} × witness script ∈ {A,B,C} × signatures ∈ {ok, under, dup,
// reordered, foreign, badsig, all-n} plus two-header batches; all sequences to depth quick 3 / thorough 4.
//
//	tracked (index, NextConsensus) changes ⇒ some submitted header has exactly the new (index, NextConsensus),
//	     index > tracked index, witness script hash == tracked NextConsensus, ≥ m distinct valid member signatures
//	canonical change must be accepted (else harness error).
package main

import (
	"encoding/binary"
	"encoding/hex"
	"fmt"
	"sort"
	"strings"
	"sync"

	_ "github.com/polynetwork/poly/native/service"
	"github.com/polynetwork/poly/native/service/utils"
	"verif.local/engine/ev"
	"verif.local/engine/lib/hsenv"
	on "verif.local/engine/lib/ontneo"
	"verif.local/engine/mc"
	"verif.local/engine/polyenv"
)

var (
	r    *ev.Run
	vals []*polyenv.Acct
	sims = sync.Pool{New: func() any { return hsenv.NewSim() }}
)

const workers = 8

func must(err error, what string) {
	if err != nil {
		r.HarnessError("%s: %v", what, err)
	}
}

func mustOK(res polyenv.Result, what string) {
	if !res.OK {
		r.HarnessError("%s: %v", what, res.Err)
	}
}

func baseWorld() *polyenv.World {
	w := polyenv.NewWorld()
	w.Genesis(vals)
	return w
}

// ---------------------------------------------------------------------------------------------
// storage decoding (independent of the repo's decoders)

type rd struct {
	b   []byte
	bad bool
}

func (x *rd) take(n int) []byte {
	if len(x.b) < n {
		x.bad = true
		return make([]byte, n)
	}
	v := x.b[:n]
	x.b = x.b[n:]
	return v
}
func (x *rd) u32() uint32 { return binary.LittleEndian.Uint32(x.take(4)) }
func (x *rd) u64() uint64 { return binary.LittleEndian.Uint64(x.take(8)) }
func (x *rd) varuint() uint64 {
	f := x.take(1)[0]
	switch f {
	case 0xfd:
		return uint64(binary.LittleEndian.Uint16(x.take(2)))
	case 0xfe:
		return uint64(x.u32())
	case 0xff:
		return x.u64()
	}
	return uint64(f)
}
func (x *rd) varbytes() []byte { return x.take(int(x.varuint())) }

// item strips the StorageItem wrapper: version byte ++ varbytes(value).
func item(raw string) *rd {
	x := &rd{b: []byte(raw)}
	x.take(1)
	return &rd{b: x.varbytes()}
}

// ---------------------------------------------------------------------------------------------
// ONT

const ontChain = 31

type ontEvent struct {
	id      string
	height  uint32
	cfg     int // -1 none, else index into sets
	variant string
	signers []on.OntSigner
	raw     []byte
}

type ontState struct {
	D      polyenv.Dump
	Stored map[uint32]string // model: height -> accepted event id
	Keys   map[uint32]int    // model: key height -> set index
}

func (s ontState) clone() ontState {
	n := ontState{Stored: map[uint32]string{}, Keys: map[uint32]int{}}
	for k, v := range s.Stored {
		n.Stored[k] = v
	}
	for k, v := range s.Keys {
		n.Keys[k] = v
	}
	return n
}

func (s ontState) key() string {
	var p []string
	for h, e := range s.Stored {
		p = append(p, fmt.Sprintf("%d=%s", h, e))
	}
	sort.Strings(p)
	return strings.Join(p, ";") + "|" + s.D.String()
}

func ontPart() mc.Stats {
	depth := r.QT(4, 6)
	S0 := polyenv.KeysFrom(100, 4)
	S1 := polyenv.KeysFrom(102, 5)
	S2 := polyenv.KeysFrom(106, 7)
	sets := [][]*polyenv.Acct{S0, S1, S2}
	F := polyenv.Key(199)
	member := make([]map[string]bool, 3)
	for i, s := range sets {
		member[i] = map[string]bool{}
		for _, k := range s {
			member[i][k.PubHex] = true
		}
	}
	// members exclusive to a set, in order
	excl := [][]*polyenv.Acct{{polyenv.Key(100), polyenv.Key(101)}, {polyenv.Key(104), polyenv.Key(105)},
		{polyenv.Key(107), polyenv.Key(108), polyenv.Key(109)}}
	g := func(ks ...*polyenv.Acct) []on.OntSigner {
		out := make([]on.OntSigner, len(ks))
		for i, k := range ks {
			out[i] = on.OntSigner{Key: k}
		}
		return out
	}
	type variant struct {
		name    string
		signers []on.OntSigner
	}
	var variants []variant
	for x := range sets {
		e := excl[x]
		need := len(e)
		variants = append(variants, variant{fmt.Sprintf("ok:S%d", x), g(e...)})
		variants = append(variants, variant{fmt.Sprintf("under:S%d", x), g(e[:need-1]...)})
		var dup []*polyenv.Acct
		for i := 0; i < need; i++ {
			dup = append(dup, e[0])
		}
		variants = append(variants, variant{fmt.Sprintf("dup:S%d", x), g(dup...)})
		variants = append(variants, variant{fmt.Sprintf("foreign:S%d", x), append(g(e[:need-1]...), on.OntSigner{Key: F})})
		b := g(e...)
		b[need-1].Bad = true
		variants = append(variants, variant{fmt.Sprintf("badsig:S%d", x), b})
	}
	variants = append(variants, variant{"ok:S0∩S1", g(polyenv.Key(102), polyenv.Key(103))})
	type base struct {
		h   uint32
		cfg int
	}
	bases := []base{{5, -1}, {10, 1}, {11, -1}, {15, -1}, {20, 2}, {21, -1}}
	if r.Thorough() {
		bases = append(bases, base{10, -1}, base{15, 2}, base{25, -1})
	}
	var events []string
	evs := map[string]*ontEvent{}
	for bi, b := range bases {
		for _, v := range variants {
			var peers []*polyenv.Acct
			cfg := "-"
			if b.cfg >= 0 {
				peers = sets[b.cfg]
				cfg = fmt.Sprintf("S%d", b.cfg)
			}
			e := &ontEvent{id: fmt.Sprintf("h=%d/cfg=%s/%s", b.h, cfg, v.name), height: b.h, cfg: b.cfg, variant: v.name, signers: v.signers}
			e.raw = on.OntHeader(b.h, peers, uint64(1000+bi), v.signers)
			events = append(events, e.id)
			evs[e.id] = e
		}
	}
	w := baseWorld()
	must(on.RegisterSideChain(w, vals, ontChain, utils.ONT_ROUTER, "ont", []byte{1}, nil), "register ont")
	mustOK(w.Exec(on.GenesisTx(vals, ontChain, on.OntHeader(0, S0, 1, nil)), 5, 500), "ont genesis")
	init := ontState{D: w.Dump(), Stored: map[uint32]string{0: "genesis"}, Keys: map[uint32]int{0: 0}}
	w.Close()
	idxPrefix := hsenv.HSPrefix("headerIndex", ontChain)
	peerPrefix := hsenv.HSPrefix("consensusPeer", ontChain)
	khKey := hsenv.HSPrefix("keyHeights", ontChain)

	check := func(s ontState, e *ontEvent, nd polyenv.Dump, res polyenv.Result, path []string) (accepted bool) {
		dm := nd.Map()
		_, accepted = dm[idxPrefix+string(utils.GetUint32Bytes(e.height))]
		_, had := s.Stored[e.height]
		changed := nd.String() != s.D.String()
		detail := func(extra map[string]any) map[string]any {
			d := map[string]any{"router": "ont", "path": path, "event": e.id, "header_hex": hex.EncodeToString(e.raw),
				"model_key_heights": fmt.Sprint(s.Keys), "model_stored": fmt.Sprint(s.Stored), "tx_ok": res.OK, "tx_err": fmt.Sprint(res.Err)}
			for k, v := range extra {
				d[k] = v
			}
			return d
		}
		if had {
			r.Class("ont:resubmitted-height")
			if changed {
				r.Violation("ont:state-changed-by-header-at-already-stored-height", detail(nil))
			}
			return false
		}
		// peer set in force: greatest key height strictly below h
		k, found := uint32(0), false
		for kh := range s.Keys {
			if kh < e.height && (!found || kh > k) {
				k, found = kh, true
			}
		}
		dv, size := 0, 0
		if found {
			P := member[s.Keys[k]]
			size = len(P)
			seen := map[string]bool{}
			for _, sg := range e.signers {
				if !sg.Bad && !sg.NoSig && P[sg.Key.PubHex] {
					seen[sg.Key.PubHex] = true
				}
			}
			dv = len(seen)
		}
		enough := found && dv*3 >= size
		vk := e.variant[:strings.Index(e.variant, ":")]
		if accepted {
			r.Class("ont:accept")
			r.Case(fmt.Sprintf("ont/accept/%s/inforce=S%d", e.variant, s.Keys[k]))
			if !enough {
				r.Violation("ont:header-accepted-without-one-third-of-distinct-peers-at-greatest-key-height-below:"+vk,
					detail(map[string]any{"key_height_in_force": k, "peer_set_size": size, "distinct_valid_members": dv}))
			}
		} else {
			r.Class("ont:reject")
			r.Case(fmt.Sprintf("ont/reject/%s/inforce=S%d", e.variant, s.Keys[k]))
			if changed {
				r.Violation("ont:state-changed-without-accepted-header", detail(nil))
			}
			if found && e.variant == fmt.Sprintf("ok:S%d", s.Keys[k]) {
				r.HarnessError("ont canonical header rejected: %s after %v: %v", e.id, path, res.Err)
			}
		}
		return accepted
	}
	// recorded peer sets / key heights must equal the model
	inv := func(s ontState, path []string) {
		got := map[uint32]string{}
		for _, kv := range s.D {
			if strings.HasPrefix(kv.K, peerPrefix) && len(kv.K) == len(peerPrefix)+4 {
				x := item(kv.V)
				x.u64()
				h := x.u32()
				n := int(x.varuint())
				var ids []string
				for i := 0; i < n; i++ {
					x.u32()
					ids = append(ids, string(x.varbytes()))
				}
				sort.Strings(ids)
				if x.bad {
					ids = append(ids, "UNDECODABLE")
				}
				got[h] = strings.Join(ids, ",")
			}
		}
		want := map[uint32]string{}
		for h, si := range s.Keys {
			var ids []string
			for _, k := range sets[si] {
				ids = append(ids, k.PubHex)
			}
			sort.Strings(ids)
			want[h] = strings.Join(ids, ",")
		}
		if fmt.Sprint(got) != fmt.Sprint(want) {
			r.Violation("ont:recorded-peer-sets-differ-from-configs-of-accepted-headers",
				map[string]any{"router": "ont", "path": path, "recorded_heights": keysOf(got), "model_heights": keysOf(want)})
		}
		var list []uint32
		if raw, ok := s.D.Map()[khKey]; ok {
			x := item(raw)
			n := int(x.varuint())
			for i := 0; i < n; i++ {
				list = append(list, x.u32())
			}
		}
		okList := len(list) == len(want)
		for i := range list {
			if _, in := want[list[i]]; !in || (i > 0 && list[i] >= list[i-1]) {
				okList = false
			}
		}
		if !okList {
			r.Violation("ont:key-heights-list-not-strictly-descending-or-differs-from-model",
				map[string]any{"router": "ont", "path": path, "key_heights": list, "model_heights": keysOf(want)})
		}
	}
	st := mc.BFS(mc.Config[ontState]{
		Init: []ontState{init}, MaxDepth: depth, Workers: workers, Stop: r.Expired,
		Key:    func(s ontState) string { return s.key() },
		Events: func(s ontState, d int) []string { return events },
		Inv:    inv,
		Step: func(s ontState, id string) (ontState, bool) {
			e := evs[id]
			sim := sims.Get().(*hsenv.Sim)
			defer sims.Put(sim)
			sim.Load(s.D)
			res := sim.Exec(on.HeadersTx(ontChain, e.raw), 10, 1000)
			r.Eval()
			nd := sim.Dump()
			n := s.clone()
			n.D = nd
			return n, true
		},
		Check: nil,
	})
	_ = check
	return st
}

func keysOf(m map[uint32]string) []uint32 {
	var k []uint32
	for h := range m {
		k = append(k, h)
	}
	sort.Slice(k, func(i, j int) bool { return k[i] < k[j] })
	return k
}

func main() {
	r = ev.Start("C31", "model_checking")
	vals = polyenv.Keys(4)
	polyenv.Setup(0, vals)
	polyenv.InstallHeightLedger()
	st := ontPart()
	fmt.Println(st)
	r.Finish(map[string]any{})
}
