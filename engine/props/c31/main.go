// C31 — Ontology and NEO light clients follow authenticated validator changes.
//
// ONT. The real header_sync contract (ONT router) is driven on a native World. Trust root: genesis header at
// height 0 recording peer set S0 (N=4). Synthetic headers (real ontology types, real P-256 signatures) exist for
// heights on both sides of the key heights: (0,cfg S2: same height as the trust root) (5,-) (10,cfg S1) (11,-) (15,-) (20,cfg S2) (21,-)
// [thorough: + (1,cfg S1) (15,cfg S2)], S1 (N=5) and S2 (N=7) overlapping their predecessors in 2 resp. 1
// members. Every header comes in 25 signer variants (bookkeeper list and SigData are independent ordered lists): for X ∈ {S0,S1,S2}: ok (⌈|X|/3⌉ distinct members exclusive
// to X), under (one fewer), dup (one member listed ⌈|X|/3⌉ times), foreign (one fewer + an outsider), badsig
// (last signature over another message), nonsigners-then-outsiders (quorum-many members listed first who do NOT
// sign, then signing outsiders), nonsigners-then-dup (… then one member repeated, signing), outsider-first; plus the
// two members shared by S0 and S1. mc.BFS explores ALL orders
// of submission to depth quick 4 / thorough 5, states deduplicated on the real storage dump.
//
// BATCHING: a second BFS delivers headers grouped into ONE syncBlockHeader call: all header sequences of length ≤ 3
// (distinct heights; signers ∈ {quorum of S0, of S1, of S2, mixed below every threshold}) in ALL compositions into
// transactions ([a][b][c], [a,b][c], [a][b,c], [a,b,c]). The model walks a batch in order, so a key height recorded
// by an earlier header of the same batch is in force for the later ones; honest batches must be accepted.
//
// Reference model (shares no code with the implementation): stored heights, key height -> peer set, both
// derived only from the headers the implementation accepted. Per transition:
//
//	header newly stored at h  ⇒  a key height k < h exists in the model and, for P = peers(max such k),
//	                              |{distinct members of P with a valid signature on the header}|*3 ≥ |P|
//	no header stored           ⇒  the whole dump is unchanged
//	recorded peer sets (decoded from storage) == model (so a set is recorded only from an accepted header
//	                              that carries it, with exactly its peers); KEY_HEIGHTS strictly descending
//	ok-variant signed by the set in force must be accepted (else harness error)
//
// NEO / NEO N3 / N3 legacy. Trust root: genesis header index 5 (second run: index 0 with header indices {0,1,8,12}),
// NextConsensus = script hash of A (3-of-4). Events: header
// index ∈ {3,5,8,12,20} × NextConsensus ∈ {A,B,C} × witness script ∈ {A,B,C} × signatures ∈ {ok, under, dup,
// reordered, foreign, badsig, all-n} plus ALL ordered two-header batches over a reduced alphabet (one call); all sequences to depth quick 3 / thorough 4.
//
//	tracked (index, NextConsensus) changes ⇒ some submitted header has exactly the new (index, NextConsensus),
//	     index > tracked index, witness script hash == tracked NextConsensus, ≥ m distinct valid member signatures
//	canonical change must be accepted (else harness error).
package main

import (
	"encoding/binary"
	"encoding/hex"
	"fmt"
	"runtime/debug"
	"sort"
	"strings"
	"sync"

	_ "github.com/polynetwork/poly/native/service"
	"github.com/polynetwork/poly/native/service/utils"
	"verif.local/engine/ev"
	"verif.local/engine/lib/hsenv"
	on "verif.local/engine/lib/ontneo"
	"verif.local/engine/mc"
	"verif.local/engine/polyenv"
)

var (
	r    *ev.Run
	vals []*polyenv.Acct
	sims = make(chan *hsenv.Sim, workers) // fixed free list (a sync.Pool would drop and re-create 10 MiB Sims at every GC)
)

func getSim() *hsenv.Sim  { return <-sims }
func putSim(s *hsenv.Sim) { sims <- s }

const workers = 8

// canonicalRejected: a well-formed canonical input was refused. On the unchanged tree that means the harness
// builds wrong inputs (exit 2); but a mutant that verifies against the WRONG validator set refuses the canonical
// input AND accepts a forged one, so the verdict is postponed to the end: violations win over this error.
var (
	canonMu  sync.Mutex
	canonErr string
)

func canonicalRejected(format string, a ...any) {
	canonMu.Lock()
	if canonErr == "" {
		canonErr = fmt.Sprintf(format, a...)
	}
	canonMu.Unlock()
}

func must(err error, what string) {
	if err != nil {
		r.HarnessError("%s: %v", what, err)
	}
}

func mustOK(res polyenv.Result, what string) {
	if !res.OK {
		r.HarnessError("%s: %v", what, res.Err)
	}
}

func baseWorld() *polyenv.World {
	w := polyenv.NewWorld()
	w.Genesis(vals)
	return w
}

// ---------------------------------------------------------------------------------------------
// storage decoding (independent of the repo's decoders)

type rd struct {
	b   []byte
	bad bool
}

func (x *rd) take(n int) []byte {
	if len(x.b) < n {
		x.bad = true
		return make([]byte, n)
	}
	v := x.b[:n]
	x.b = x.b[n:]
	return v
}
func (x *rd) u32() uint32 { return binary.LittleEndian.Uint32(x.take(4)) }
func (x *rd) u64() uint64 { return binary.LittleEndian.Uint64(x.take(8)) }
func (x *rd) varuint() uint64 {
	f := x.take(1)[0]
	switch f {
	case 0xfd:
		return uint64(binary.LittleEndian.Uint16(x.take(2)))
	case 0xfe:
		return uint64(x.u32())
	case 0xff:
		return x.u64()
	}
	return uint64(f)
}
func (x *rd) varbytes() []byte { return x.take(int(x.varuint())) }

// item strips the StorageItem wrapper: version byte ++ varbytes(value).
func item(raw string) *rd {
	x := &rd{b: []byte(raw)}
	x.take(1)
	return &rd{b: x.varbytes()}
}

// ---------------------------------------------------------------------------------------------
// ONT

const ontChain = 31

type ontEvent struct {
	id      string
	height  uint32
	cfg     int // -1 none, else index into sets
	variant string
	keys    []*polyenv.Acct // listed bookkeepers, in order
	sigs    []on.OntSig     // SigData, in order (independent of keys)
	raw     []byte
}

type ontState struct {
	D      polyenv.Dump
	Stored map[uint32]string // model: height -> accepted event id
	Keys   map[uint32]int    // model: key height -> set index
	ok     bool              // outcome of the transaction that led here (not part of the key)
	err    string
	used   int // batch mode: headers submitted so far on this path
}

func (s ontState) clone() ontState {
	n := ontState{Stored: map[uint32]string{}, Keys: map[uint32]int{}, used: s.used}
	for k, v := range s.Stored {
		n.Stored[k] = v
	}
	for k, v := range s.Keys {
		n.Keys[k] = v
	}
	return n
}

func (s ontState) key() string {
	var p []string
	for h, e := range s.Stored {
		p = append(p, fmt.Sprintf("%d=%s", h, e))
	}
	sort.Strings(p)
	return strings.Join(p, ";") + "|" + s.D.String()
}

func ontPart() mc.Stats {
	depth := r.QT(4, 5) // depth 6 (51,791 states, 3.9M transitions, 6.4 GB, 37 min on the loaded box) was completed once without violation
	S0 := polyenv.KeysFrom(100, 4)
	S1 := polyenv.KeysFrom(102, 5)
	S2 := polyenv.KeysFrom(106, 7)
	sets := [][]*polyenv.Acct{S0, S1, S2}
	F := polyenv.KeysFrom(196, 3)
	member := make([]map[string]bool, 3)
	for i, s := range sets {
		member[i] = map[string]bool{}
		for _, k := range s {
			member[i][k.PubHex] = true
		}
	}
	// members exclusive to a set, in order
	excl := [][]*polyenv.Acct{{polyenv.Key(100), polyenv.Key(101)}, {polyenv.Key(104), polyenv.Key(105)},
		{polyenv.Key(107), polyenv.Key(108), polyenv.Key(109)}}
	type variant struct {
		name string
		keys []*polyenv.Acct
		sigs []on.OntSig
	}
	by := func(ks ...*polyenv.Acct) []on.OntSig {
		out := make([]on.OntSig, len(ks))
		for i, k := range ks {
			out[i] = on.OntSig{By: k}
		}
		return out
	}
	paired := func(name string, ks ...*polyenv.Acct) variant {
		return variant{name, append([]*polyenv.Acct{}, ks...), by(ks...)}
	}
	cat := func(l ...[]*polyenv.Acct) []*polyenv.Acct {
		var o []*polyenv.Acct
		for _, x := range l {
			o = append(o, x...)
		}
		return o
	}
	var variants []variant
	for x := range sets {
		e := excl[x]
		need := len(e)
		variants = append(variants, paired(fmt.Sprintf("ok:S%d", x), e...))
		variants = append(variants, paired(fmt.Sprintf("under:S%d", x), e[:need-1]...))
		var dup []*polyenv.Acct
		for i := 0; i < need; i++ {
			dup = append(dup, e[0])
		}
		variants = append(variants, paired(fmt.Sprintf("dup:S%d", x), dup...))
		variants = append(variants, paired(fmt.Sprintf("foreign:S%d", x), cat(e[:need-1], F[:1])...))
		b := paired(fmt.Sprintf("badsig:S%d", x), e...)
		b.sigs[need-1].Bad = true
		variants = append(variants, b)
		// layout: the first ceil(N/3) listed bookkeepers are members who do NOT sign; the signatures come from outsiders /
		// from one member repeated; an outsider listed first
		variants = append(variants, variant{fmt.Sprintf("nonsigners-then-outsiders:S%d", x), cat(e, F[:need]), by(F[:need]...)})
		variants = append(variants, variant{fmt.Sprintf("nonsigners-then-dup:S%d", x), cat(e, dup), by(dup...)})
		variants = append(variants, paired(fmt.Sprintf("outsider-first:S%d", x), cat(F[:1], e[:need-1])...))
	}
	variants = append(variants, paired("ok:S0∩S1", polyenv.Key(102), polyenv.Key(103)))
	type base struct {
		h   uint32
		cfg int
	}
	// (0,S2): a header at the genesis height must never replace the trust root; (1,S1): key header right above it
	bases := []base{{0, 2}, {5, -1}, {10, 1}, {11, -1}, {15, -1}, {20, 2}, {21, -1}}
	if r.Thorough() {
		bases = append(bases, base{1, 1}, base{15, 2})
	}
	var events []string
	evs := map[string]*ontEvent{}
	for bi, b := range bases {
		for _, v := range variants {
			var peers []*polyenv.Acct
			cfg := "-"
			if b.cfg >= 0 {
				peers = sets[b.cfg]
				cfg = fmt.Sprintf("S%d", b.cfg)
			}
			e := &ontEvent{id: fmt.Sprintf("h=%d/cfg=%s/%s", b.h, cfg, v.name), height: b.h, cfg: b.cfg, variant: v.name, keys: v.keys, sigs: v.sigs}
			e.raw = on.OntHeaderLayout(b.h, peers, uint64(1000+bi), v.keys, v.sigs)
			events = append(events, e.id)
			evs[e.id] = e
		}
	}
	w := baseWorld()
	must(on.RegisterSideChain(w, vals, ontChain, utils.ONT_ROUTER, "ont", []byte{1}, nil), "register ont")
	mustOK(w.Exec(on.GenesisTx(vals, ontChain, on.OntHeader(0, S0, 1, nil)), 5, 500), "ont genesis")
	init := ontState{D: w.Dump(), Stored: map[uint32]string{0: "genesis"}, Keys: map[uint32]int{0: 0}}
	w.Close()
	idxPrefix := hsenv.HSPrefix("headerIndex", ontChain)
	peerPrefix := hsenv.HSPrefix("consensusPeer", ontChain)
	khKey := hsenv.HSPrefix("keyHeights", ontChain)

	// inForce: peer set index at the greatest model key height strictly below h.
	inForce := func(keys map[uint32]int, h uint32) (uint32, int, bool) {
		k, found := uint32(0), false
		for kh := range keys {
			if kh < h && (!found || kh > k) {
				k, found = kh, true
			}
		}
		return k, keys[k], found
	}
	storedAt := func(d map[string]string, h uint32) bool {
		_, in := d[idxPrefix+string(utils.GetUint32Bytes(h))]
		return in
	}
	// check evaluates one transaction carrying a batch of 1..3 headers. The model walks the batch in order: a key
	// height recorded by an earlier header of the same batch counts for the later ones.
	check := func(s ontState, batch []*ontEvent, bid string, nd polyenv.Dump, txOK bool, txErr string, path []string) {
		dm := nd.Map()
		changed := nd.String() != s.D.String()
		m := s.clone()
		var hx []string
		for _, e := range batch {
			hx = append(hx, hex.EncodeToString(e.raw))
		}
		detail := func(extra map[string]any) map[string]any {
			d := map[string]any{"router": "ont", "path": path, "event": bid, "headers_in_one_tx": len(batch), "headers_hex": hx,
				"model_key_heights": fmt.Sprint(s.Keys), "model_stored": fmt.Sprint(s.Stored), "tx_ok": txOK, "tx_err": txErr}
			for k, v := range extra {
				d[k] = v
			}
			return d
		}
		tag := ""
		if len(batch) > 1 {
			tag = "/batch"
		}
		nAccepted, nFresh := 0, 0
		honest := true // every fresh header is the ok-variant of the set in force (sequentially)
		hm := s.clone()
		for _, e := range batch {
			if _, had := hm.Stored[e.height]; had {
				continue
			}
			_, si, found := inForce(hm.Keys, e.height)
			if !found || e.variant != fmt.Sprintf("ok:S%d", si) {
				honest = false
				break
			}
			hm.Stored[e.height] = e.id
			if e.cfg >= 0 {
				hm.Keys[e.height] = e.cfg
			}
		}
		for _, e := range batch {
			if _, had := m.Stored[e.height]; had {
				r.Class("ont:resubmitted-height")
				continue
			}
			nFresh++
			accepted := storedAt(dm, e.height)
			k, si, found := inForce(m.Keys, e.height)
			dv, size := 0, 0
			if found {
				P := member[si]
				size = len(P)
				seen := map[string]bool{}
				for _, sg := range e.sigs {
					if !sg.Bad && P[sg.By.PubHex] {
						seen[sg.By.PubHex] = true
					}
				}
				dv = len(seen)
			}
			enough := found && dv*3 >= size
			vk := e.variant[:strings.Index(e.variant, ":")]
			if len(path) >= 2 && (e.variant == "ok:S1" || e.variant == "dup:S1") {
				r.Sample(map[string]any{"router": "ont", "path": path, "header": e.id, "stored": accepted, "key_height_in_force": k, "distinct_valid_members": dv, "peer_set_size": size})
			}
			if accepted {
				nAccepted++
				r.Class("ont:accept")
				r.Case(fmt.Sprintf("ont/accept%s/%s/inforce=S%d", tag, e.variant, si))
				if !enough {
					r.Violation("ont:header-accepted-without-one-third-of-distinct-peers-at-greatest-key-height-below:"+vk,
						detail(map[string]any{"offending_header": e.id, "key_height_in_force": k, "peer_set_in_force": fmt.Sprintf("S%d", si), "peer_set_size": size, "distinct_valid_members": dv}))
				}
				m.Stored[e.height] = e.id
				if e.cfg >= 0 {
					m.Keys[e.height] = e.cfg
				}
			} else {
				r.Class("ont:reject")
				r.Case(fmt.Sprintf("ont/reject%s/%s/inforce=S%d", tag, e.variant, si))
			}
		}
		if len(batch) > 1 {
			r.Class("ont:batch")
		}
		if nAccepted == 0 && changed {
			if nFresh == 0 {
				r.Violation("ont:state-changed-by-header-at-already-stored-height", detail(nil))
			} else {
				r.Violation("ont:state-changed-without-accepted-header", detail(nil))
			}
		}
		if honest && nFresh > 0 && nAccepted < nFresh {
			canonicalRejected("ont honest header(s) rejected: %s after %v: %v", bid, path, txErr)
		}
	}
	// recorded peer sets / key heights must equal the model
	inv := func(s ontState, path []string) {
		got := map[uint32]string{}
		for _, kv := range s.D {
			if strings.HasPrefix(kv.K, peerPrefix) && len(kv.K) == len(peerPrefix)+4 {
				x := item(kv.V)
				x.u64()
				h := x.u32()
				n := int(x.varuint())
				var ids []string
				for i := 0; i < n; i++ {
					x.u32()
					ids = append(ids, string(x.varbytes()))
				}
				sort.Strings(ids)
				if x.bad {
					ids = append(ids, "UNDECODABLE")
				}
				got[h] = strings.Join(ids, ",")
			}
		}
		want := map[uint32]string{}
		for h, si := range s.Keys {
			var ids []string
			for _, k := range sets[si] {
				ids = append(ids, k.PubHex)
			}
			sort.Strings(ids)
			want[h] = strings.Join(ids, ",")
		}
		if fmt.Sprint(got) != fmt.Sprint(want) {
			r.Violation("ont:recorded-peer-sets-differ-from-configs-of-accepted-headers",
				map[string]any{"router": "ont", "path": path, "recorded_heights": keysOf(got), "model_heights": keysOf(want)})
		}
		var list []uint32
		if raw, ok := s.D.Map()[khKey]; ok {
			x := item(raw)
			n := int(x.varuint())
			for i := 0; i < n; i++ {
				list = append(list, x.u32())
			}
		}
		okList := len(list) == len(want)
		for i := range list {
			if _, in := want[list[i]]; !in || (i > 0 && list[i] >= list[i-1]) {
				okList = false
			}
		}
		if !okList {
			r.Violation("ont:key-heights-list-not-strictly-descending-or-differs-from-model",
				map[string]any{"router": "ont", "path": path, "key_heights": list, "model_heights": keysOf(want)})
		}
	}
	batches := map[string][]*ontEvent{}
	for _, id := range events {
		batches[id] = []*ontEvent{evs[id]}
	}
	step := func(s ontState, id string) (ontState, bool) {
		batch := batches[id]
		var raws [][]byte
		for _, e := range batch {
			raws = append(raws, e.raw)
		}
		sim := getSim()
		defer putSim(sim)
		sim.Load(s.D)
		res := sim.Exec(on.HeadersTx(ontChain, raws...), 10, 1000)
		r.Eval()
		n := s.clone()
		n.D = sim.Dump()
		n.ok, n.err = res.OK, fmt.Sprint(res.Err)
		n.used = s.used + len(batch)
		dm := n.D.Map()
		for _, e := range batch {
			if _, had := n.Stored[e.height]; !had && storedAt(dm, e.height) {
				n.Stored[e.height] = e.id
				if e.cfg >= 0 {
					n.Keys[e.height] = e.cfg
				}
			}
		}
		return n, true
	}
	chk := func(prev ontState, id string, next ontState, path []string) {
		check(prev, batches[id], id, next.D, next.ok, next.err, path)
	}
	st := mc.BFS(mc.Config[ontState]{
		Init: []ontState{init}, MaxDepth: depth, Workers: workers, Stop: r.Expired,
		Key:    func(s ontState) string { return s.key() },
		Events: func(s ontState, d int) []string { return events },
		Inv:    inv, Step: step, Check: chk,
	})
	// BATCHING dimension: all header sequences of length <= 3 over a reduced alphabet (heights around the key heights,
	// signers ∈ {quorum of S0, of S1, of S2, mixed below every threshold}), distinct heights, in ALL compositions into
	// transactions ([a][b][c], [a,b][c], [a][b,c], [a,b,c]): an event is a batch of 1..3 headers in ONE syncBlockHeader
	// call and a path may carry at most 3 headers in total.
	var small []*ontEvent
	for bi, b := range bases {
		if b.h == 0 {
			continue
		}
		for _, v := range variants {
			if !strings.HasPrefix(v.name, "ok:S") || strings.Contains(v.name, "∩") {
				continue
			}
			small = append(small, evs[fmt.Sprintf("h=%d/cfg=%s/%s", b.h, cfgName(b.cfg), v.name)])
		}
		var peers []*polyenv.Acct
		if b.cfg >= 0 {
			peers = sets[b.cfg]
		}
		mixed := []*polyenv.Acct{excl[0][0], excl[1][0]}
		e := &ontEvent{id: fmt.Sprintf("h=%d/cfg=%s/mixed:below-threshold", b.h, cfgName(b.cfg)), height: b.h, cfg: b.cfg, variant: "mixed:below-threshold", keys: mixed, sigs: by(mixed...)}
		e.raw = on.OntHeaderLayout(b.h, peers, uint64(1000+bi), e.keys, e.sigs)
		small = append(small, e)
	}
	bySize := map[int][]string{}
	var gen func(cur []*ontEvent)
	gen = func(cur []*ontEvent) {
		if len(cur) > 0 {
			var ids []string
			for _, e := range cur {
				ids = append(ids, e.id)
			}
			id := "[" + strings.Join(ids, " + ") + "]"
			batches[id] = append([]*ontEvent{}, cur...)
			bySize[len(cur)] = append(bySize[len(cur)], id)
		}
		if len(cur) == 3 {
			return
		}
	next:
		for _, e := range small {
			for _, c := range cur {
				if c.height == e.height {
					continue next
				}
			}
			gen(append(cur, e))
		}
	}
	gen(nil)
	sb := mc.BFS(mc.Config[ontState]{
		Init: []ontState{init}, MaxDepth: 3, Workers: workers, Stop: r.Expired,
		Key: func(s ontState) string { return fmt.Sprintf("%d|", s.used) + s.key() },
		Events: func(s ontState, d int) []string {
			var ev []string
			for sz := 1; sz <= 3-s.used; sz++ {
				ev = append(ev, bySize[sz]...)
			}
			return ev
		},
		Inv: inv, Step: step, Check: chk,
	})
	r.Note("ont_batch_mode", map[string]any{"member_headers": len(small), "batches_of_1": len(bySize[1]), "batches_of_2": len(bySize[2]), "batches_of_3": len(bySize[3]),
		"states": sb.States, "transitions": sb.Transitions, "max_depth_txs": sb.MaxDepth, "truncated": sb.Truncated})
	add(&st, sb)
	return st
}

func cfgName(c int) string {
	if c < 0 {
		return "-"
	}
	return fmt.Sprintf("S%d", c)
}

func keysOf(m map[uint32]string) []uint32 {
	var k []uint32
	for h := range m {
		k = append(k, h)
	}
	sort.Slice(k, func(i, j int) bool { return k[i] < k[j] })
	return k
}

// ---------------------------------------------------------------------------------------------
// NEO / NEO N3

type neoHdr struct {
	index   uint32
	next    int // set whose script hash is the header's NextConsensus
	script  int // set whose script is the witness verification script (and whose keys sign)
	variant string
	dv      int // distinct members of set `script` with a valid signature in the invocation script
}

type neoEvent struct {
	id   string
	hdrs []neoHdr
	raws [][]byte
}

type neoState struct {
	D  polyenv.Dump
	H  uint32 // model: tracked index
	NC int    // model: tracked set
}

type neoKit struct {
	name   string
	router uint64
	chain  uint64
	extra  []byte
	m, n   []int    // per set
	hash   []string // per set: script hash bytes (as stored)
	header func(index uint32, next, script int, list []on.Sig, salt uint64) []byte
}

func sigVariants(m, n int) map[string][]on.Sig {
	seq := func(ks ...int) []on.Sig {
		var l []on.Sig
		for _, k := range ks {
			l = append(l, on.Sig{K: k})
		}
		return l
	}
	rng := func(a, b int) []int { // a..b-1
		var o []int
		for i := a; i < b; i++ {
			o = append(o, i)
		}
		return o
	}
	v := map[string][]on.Sig{}
	v["ok"] = seq(rng(0, m)...)
	v["under"] = seq(rng(0, m-1)...)
	v["tail"] = seq(rng(n-m, n)...)
	v["all"] = seq(rng(0, n)...)
	var dup, rev []int
	for i := 0; i < m; i++ {
		dup = append(dup, 0)
		rev = append(rev, m-1-i)
	}
	v["dup"] = seq(dup...)
	v["reordered"] = seq(rev...)
	v["foreign"] = append(seq(rng(0, m-1)...), on.Sig{Foreign: true})
	v["badsig"] = append(seq(rng(0, m-1)...), on.Sig{K: m - 1, Bad: true})
	return v
}

func distinctGood(l []on.Sig) int {
	seen := map[int]bool{}
	for _, e := range l {
		if !e.Foreign && !e.Bad {
			seen[e.K] = true
		}
	}
	return len(seen)
}

// neoPart explores one router from a trust root at index g; idxs are the header indices of the alphabet.
func neoPart(k neoKit, g uint32, idxs []uint32) mc.Stats {
	if g == 0 {
		k.chain += 10
	}
	depth := r.QT(3, 4)
	names := []string{"A", "B", "C"}
	var events []string
	evs := map[string]*neoEvent{}
	salt := uint64(1)
	mk := func(index uint32, next, script int, vn string) (neoHdr, []byte) {
		l := sigVariants(k.m[script], k.n[script])[vn]
		salt++
		return neoHdr{index, next, script, vn, distinctGood(l)}, k.header(index, next, script, l, salt)
	}
	vnames := []string{"ok", "under", "tail", "all", "dup", "reordered", "foreign", "badsig"}
	for _, idx := range idxs {
		for next := 0; next < 3; next++ {
			for script := 0; script < 3; script++ {
				for _, vn := range vnames {
					h, raw := mk(idx, next, script, vn)
					e := &neoEvent{id: fmt.Sprintf("idx=%d/next=%s/witness=%s/%s", idx, names[next], names[script], vn), hdrs: []neoHdr{h}, raws: [][]byte{raw}}
					events = append(events, e.id)
					evs[e.id] = e
				}
			}
		}
	}
	// two-header batches (ONE syncBlockHeader call): all ordered pairs of distinct-index headers over a reduced alphabet
	// index ∈ {8,12} × NextConsensus ∈ {A,B,C} × witness ∈ {A,B} × {ok, under}
	type member struct {
		h   neoHdr
		raw []byte
		id  string
	}
	var mem []member
	for _, idx := range []uint32{8, 12} {
		for next := 0; next < 3; next++ {
			for script := 0; script < 2; script++ {
				for _, vn := range []string{"ok", "under"} {
					h, raw := mk(idx, next, script, vn)
					mem = append(mem, member{h, raw, fmt.Sprintf("idx=%d/next=%s/witness=%s/%s", idx, names[next], names[script], vn)})
				}
			}
		}
	}
	for _, a := range mem {
		for _, b := range mem {
			if a.h.index == b.h.index {
				continue
			}
			e := &neoEvent{id: "batch[" + a.id + " + " + b.id + "]", hdrs: []neoHdr{a.h, b.h}, raws: [][]byte{a.raw, b.raw}}
			events = append(events, e.id)
			evs[e.id] = e
		}
	}
	w := baseWorld()
	must(on.RegisterSideChain(w, vals, k.chain, k.router, k.name, []byte{5, 0, 0, 0}, k.extra), "register "+k.name)
	mustOK(w.Exec(on.GenesisTx(vals, k.chain, k.header(g, 0, 1, nil, 0)), 5, 500), k.name+" genesis")
	init := neoState{D: w.Dump(), H: g, NC: 0}
	w.Close()
	trackedKey := hsenv.HSPrefix("consensusPeer", k.chain)
	decode := func(d polyenv.Dump) (uint32, string, bool) {
		raw, ok := d.Map()[trackedKey]
		if !ok {
			return 0, "", false
		}
		x := item(raw)
		x.u64()
		h := x.u32()
		nc := string(x.varbytes())
		return h, nc, !x.bad
	}
	if h, nc, ok := decode(init.D); !ok || h != g || nc != k.hash[0] {
		r.HarnessError("%s: genesis did not record (g, A): %v %x %v", k.name, h, nc, ok)
	}
	st := mc.BFS(mc.Config[neoState]{
		Init: []neoState{init}, MaxDepth: depth, Workers: workers, Stop: r.Expired,
		Key:    func(s neoState) string { return fmt.Sprintf("%d/%d|", s.H, s.NC) + s.D.String() },
		Events: func(s neoState, d int) []string { return events },
		Step: func(s neoState, id string) (neoState, bool) {
			e := evs[id]
			sim := getSim()
			defer putSim(sim)
			sim.Load(s.D)
			res := sim.Exec(on.HeadersTx(k.chain, e.raws...), 10, 1000)
			r.Eval()
			n := neoState{D: sim.Dump(), H: s.H, NC: s.NC}
			if res.Panic != nil {
				r.Class(k.name + ":panic")
			}
			h, nc, ok := decode(n.D)
			if !ok {
				n.H, n.NC = 0, -1
				return n, true
			}
			n.H, n.NC = h, -1
			for i, hx := range k.hash {
				if hx == nc {
					n.NC = i
				}
			}
			return n, true
		},
		Check: func(prev neoState, id string, next neoState, path []string) {
			e := evs[id]
			changedTracked := prev.H != next.H || prev.NC != next.NC
			detail := func() map[string]any {
				var hx []string
				for _, raw := range e.raws {
					hx = append(hx, hex.EncodeToString(raw))
				}
				return map[string]any{"router": k.name, "path": path, "event": e.id, "headers_hex": hx,
					"tracked_before": fmt.Sprintf("(index %d, set %d)", prev.H, prev.NC), "tracked_after": fmt.Sprintf("(index %d, set %d)", next.H, next.NC),
					"tracked_threshold": k.m[prev.NC]}
			}
			if !changedTracked {
				r.Class(k.name + ":no-change")
				if next.D.String() != prev.D.String() {
					r.Violation(k.name+":state-changed-without-tracked-validator-change", detail())
				}
				// canonical single header must be accepted
				if len(e.hdrs) == 1 {
					h := e.hdrs[0]
					if h.index > prev.H && h.next != prev.NC && h.script == prev.NC && (h.variant == "ok" || h.variant == "tail" || h.variant == "all") {
						canonicalRejected("%s canonical validator change rejected: %s after %v", k.name, e.id, path)
					}
				}
				return
			}
			r.Class(k.name + ":change")
			if len(path) >= 2 {
				r.Sample(map[string]any{"router": k.name, "path": path, "tracked_before": fmt.Sprintf("(%d,%s)", prev.H, names[prev.NC]), "tracked_after": fmt.Sprintf("(%d,%d)", next.H, next.NC)})
			}
			// justified: the new tracked state is reachable by applying the submitted headers in order, each one verified
			// either against the state tracked when the transaction started (what the contract does) or against the
			// state produced by an earlier justified header of the same batch (sequential following is legitimate too)
			type tr struct {
				h  uint32
				nc int
			}
			reach := []tr{{prev.H, prev.NC}}
			var vk string
			for _, h := range e.hdrs {
				if h.index == next.H && h.next == next.NC {
					vk = h.variant
				}
				for _, t := range append([]tr{}, reach...) {
					if t.nc >= 0 && h.index > t.h && h.next != t.nc && h.script == t.nc && h.dv >= k.m[t.nc] {
						reach = append(reach, tr{h.index, h.next})
					}
				}
			}
			justified := false
			for _, t := range reach[1:] {
				if t.h == next.H && t.nc == next.NC {
					justified = true
				}
			}
			if len(e.hdrs) > 1 {
				r.Class(k.name + ":batch-change")
			}
			r.Case(fmt.Sprintf("%s/change/%s", k.name, vk))
			if !justified {
				why := "no-submitted-header-carries-the-new-state"
				for _, h := range e.hdrs {
					if h.index == next.H && h.next == next.NC {
						switch {
						case h.index <= prev.H:
							why = "index-not-higher"
						case h.script != prev.NC:
							why = "witness-script-not-tracked"
						default:
							why = "not-enough-distinct-valid-signatures:" + h.variant
						}
					}
				}
				r.Violation(k.name+":validator-change-accepted:"+why, detail())
			}
		},
	})
	return st
}

func neoKitLegacy() neoKit {
	out := polyenv.Key(299)
	sets := []*on.NeoSet{on.NewNeoSet(3, polyenv.KeysFrom(200, 4), out), on.NewNeoSet(2, polyenv.KeysFrom(210, 3), out), on.NewNeoSet(3, polyenv.KeysFrom(220, 4), out)}
	k := neoKit{name: "neo", router: utils.NEO_ROUTER, chain: 41}
	for _, s := range sets {
		k.m = append(k.m, s.M)
		k.n = append(k.n, len(s.Pairs))
		k.hash = append(k.hash, string(s.Hash.Bytes()))
	}
	k.header = func(index uint32, next, script int, list []on.Sig, salt uint64) []byte {
		h, msg := on.NeoHeaderUnsigned(index, sets[next].Hash, salt)
		return on.NeoHeaderBytes(h, sets[script].Sign(msg).Invocation(list), sets[script].Script)
	}
	return k
}

func neo3Kit() neoKit {
	const magic = 0x334f454e
	out := polyenv.Key(399)
	sets := []*on.Neo3Set{on.NewNeo3Set(3, polyenv.KeysFrom(300, 4), out), on.NewNeo3Set(2, polyenv.KeysFrom(310, 3), out), on.NewNeo3Set(3, polyenv.KeysFrom(320, 4), out)}
	k := neoKit{name: "neo3", router: utils.NEO3_ROUTER, chain: 42, extra: on.MagicBytes(magic)}
	for _, s := range sets {
		k.m = append(k.m, s.M)
		k.n = append(k.n, len(s.Pairs))
		k.hash = append(k.hash, string(s.Hash.ToByteArray()))
	}
	k.header = func(index uint32, next, script int, list []on.Sig, salt uint64) []byte {
		h, msg := on.Neo3HeaderUnsigned(index, sets[next].Hash, salt, magic)
		return on.Neo3HeaderBytes(h, sets[script].Sign(msg).Invocation(list), sets[script].Script)
	}
	return k
}

func neo3LegacyKit() neoKit {
	const magic = 0x334f454e
	out := polyenv.Key(399)
	sets := []*on.Neo3LSet{on.NewNeo3LSet(3, polyenv.KeysFrom(300, 4), out), on.NewNeo3LSet(2, polyenv.KeysFrom(310, 3), out), on.NewNeo3LSet(3, polyenv.KeysFrom(320, 4), out)}
	k := neoKit{name: "neo3legacy", router: utils.NEO3_LEGACY_ROUTER, chain: 43, extra: on.MagicBytes(magic)}
	for _, s := range sets {
		k.m = append(k.m, s.M)
		k.n = append(k.n, len(s.Pairs))
		k.hash = append(k.hash, string(s.Hash.ToByteArray()))
	}
	k.header = func(index uint32, next, script int, list []on.Sig, salt uint64) []byte {
		h, msg := on.Neo3LHeaderUnsigned(index, sets[next].Hash, salt, magic)
		return on.Neo3LHeaderBytes(h, sets[script].Sign(msg).Invocation(list), sets[script].Script)
	}
	return k
}

func add(a *mc.Stats, b mc.Stats) {
	a.States += b.States
	a.Transitions += b.Transitions
	if b.MaxDepth > a.MaxDepth {
		a.MaxDepth = b.MaxDepth
	}
	a.Truncated = a.Truncated || b.Truncated
}

func main() {
	r = ev.Start("C31", "model_checking")
	r.Require("ont:accept", "ont:reject", "ont:resubmitted-height", "ont:batch", "neo:change", "neo:no-change", "neo:batch-change", "neo3:batch-change", "neo3legacy:batch-change", "neo3:change", "neo3:no-change", "neo3legacy:change", "neo3legacy:no-change")
	vals = polyenv.Keys(4)
	polyenv.Setup(0, vals)
	polyenv.InstallHeightLedger()
	for i := 0; i < workers; i++ {
		sims <- hsenv.NewSim()
	}
	debug.SetMemoryLimit(6 << 30)
	var total mc.Stats
	per := map[string]any{}
	so := ontPart()
	add(&total, so)
	per["ont"] = map[string]any{"states": so.States, "transitions": so.Transitions, "max_depth": so.MaxDepth, "per_depth": so.PerDepth, "fixpoint": !so.DepthCapped && !so.Truncated}
	for _, k := range []neoKit{neoKitLegacy(), neo3Kit(), neo3LegacyKit()} {
		s := neoPart(k, 5, []uint32{3, 5, 8, 12, 20})
		add(&total, s)
		per[k.name] = map[string]any{"states": s.States, "transitions": s.Transitions, "max_depth": s.MaxDepth, "per_depth": s.PerDepth, "fixpoint": !s.DepthCapped && !s.Truncated}
		// boundary: trust root at index 0 (a tracked index of 0 must not be confused with "nothing tracked")
		z := neoPart(k, 0, []uint32{0, 1, 8, 12})
		add(&total, z)
		per[k.name+"/root-at-index-0"] = map[string]any{"states": z.States, "transitions": z.Transitions, "max_depth": z.MaxDepth, "per_depth": z.PerDepth, "fixpoint": !z.DepthCapped && !z.Truncated}
	}
	if total.Truncated {
		r.Capped("deadline reached inside a BFS")
	}
	if canonErr != "" && r.NViolations() == 0 {
		r.HarnessError("%s", canonErr)
	}
	if canonErr != "" {
		r.Note("canonical_input_rejected", canonErr)
	}
	fmt.Println("per-router:", per)
	r.Assume("ECDSA P-256 / SHA-256 are sound", "ONT headers carry no parent linkage check in the contract: heights are independent events",
		"NEO N3 legacy router is driven with headers built by the legacy client library")
	r.Finish(map[string]any{
		"rule":                          "ONT: header stored ⇒ ≥ceil(|P|/3) distinct valid members of P = peers(greatest recorded key height < h); recorded peer sets == configs of accepted headers. NEO/N3: tracked change ⇒ index higher ∧ witness script == tracked ∧ ≥m distinct valid signatures",
		"states":                        total.States,
		"transitions":                   total.Transitions,
		"traces_validated_against_impl": total.Transitions,
		"max_depth":                     total.MaxDepth,
		"per_router":                    per,
		"ont_depth":                     r.QT(4, 5),
		"neo_depth":                     r.QT(3, 4),
	})
}
