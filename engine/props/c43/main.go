// C43 — wallet accounts round-trip and are password-protected.
//
// Bounded-exhaustive over {key scheme/curve × signature scheme} × password alphabet × label alphabet ×
// {create, import of exported metadata, import of an externally protected key} × wallet kind
// {default scrypt parameters, low-security parameters as written by WalletData.ToLowSecurity}.
// Every account is saved by the real wallet code, the file is REOPENED, and
//   (1) its own password opens it through GetAccountByAddress / ByLabel / ByIndex (/ GetDefaultAccount) to the same
//       private key, public key, address and signature scheme;
//   (2) every OTHER password — the rest of the alphabet and the byte-level neighbours (suffix NUL / space, prefix,
//       dropped last byte, case flip, empty, doubled, NFC/NFD twin) — is refused;
//   (3) ChangePassword / UnLockAccount sequences do not open a back door.
// Scratch wallets live under $VERIF_TMP and are removed.
package main

import (
	"bytes"
	"crypto/aes"
	"crypto/cipher"
	"crypto/sha256"
	"encoding/hex"
	"fmt"
	"os"
	"path/filepath"
	"strings"
	"sync"
	"unicode"

	"github.com/ontio/ontology-crypto/ec"
	"github.com/ontio/ontology-crypto/keypair"
	s "github.com/ontio/ontology-crypto/signature"
	"github.com/polynetwork/poly/account"
	"github.com/polynetwork/poly/core/types"
	"golang.org/x/crypto/ed25519"
	"golang.org/x/crypto/scrypt"
	"verif.local/engine/ev"
	"verif.local/engine/polyenv"
)

type scheme struct {
	name  string
	kt    keypair.KeyType
	curve byte
	sig   s.SignatureScheme
}

var curves = []struct {
	name  string
	label byte
}{{"P224", keypair.P224}, {"P256", keypair.P256}, {"P384", keypair.P384}, {"P521", keypair.P521}, {"secp256k1", keypair.SECP256K1}}

var ecdsaSigs = []s.SignatureScheme{s.SHA224withECDSA, s.SHA256withECDSA, s.SHA384withECDSA, s.SHA512withECDSA,
	s.SHA3_224withECDSA, s.SHA3_256withECDSA, s.SHA3_384withECDSA, s.SHA3_512withECDSA, s.RIPEMD160withECDSA}

func schemes(all bool) []scheme {
	var out []scheme
	if all {
		for _, c := range curves {
			for _, sg := range ecdsaSigs {
				out = append(out, scheme{"ECDSA-" + c.name + "/" + sg.Name(), keypair.PK_ECDSA, c.label, sg})
			}
		}
	} else {
		// every signature scheme once on its natural curve, plus secp256k1
		nat := []byte{keypair.P224, keypair.P256, keypair.P384, keypair.P521, keypair.P224, keypair.P256, keypair.P384, keypair.P521, keypair.P256}
		for i, sg := range ecdsaSigs {
			out = append(out, scheme{fmt.Sprintf("ECDSA-%d/%s", nat[i], sg.Name()), keypair.PK_ECDSA, nat[i], sg})
		}
		out = append(out, scheme{"ECDSA-secp256k1/SHA256withECDSA", keypair.PK_ECDSA, keypair.SECP256K1, s.SHA256withECDSA})
	}
	out = append(out, scheme{"SM2/SM3withSM2", keypair.PK_SM2, keypair.SM2P256V1, s.SM3withSM2})
	out = append(out, scheme{"Ed25519/SHA512withEDDSA", keypair.PK_EDDSA, keypair.ED25519, s.SHA512withEDDSA})
	return out
}

var passwords = [][]byte{
	[]byte("a"),
	[]byte("password"),
	bytes.Repeat([]byte("x"), 64),
	[]byte("pässwörd-✓"),
	[]byte("p\x00q"),    // embedded NUL
	[]byte("\u00e9"),  // é, NFC
}

// whitespace / terminator / encoding family around one base password: every operation that takes a password must use
// the bytes verbatim (no trimming, no padding, no string conversion).
var wsPasswords = [][]byte{
	[]byte("pw\n"),          // trailing newline (read from a pipe)
	[]byte("pw "),           // trailing space
	[]byte(" pw"),           // leading space
	[]byte("p w"),           // inner space
	[]byte("\tpw\t"),        // tabs
	[]byte(" \n\t "),        // only whitespace
	[]byte("pw\x00"),        // NUL-terminated (HMAC twin of "pw": a counted non-alarm when "pw" opens it)
	[]byte("\xff\xfepw\x80"), // not UTF-8
	bytes.Repeat([]byte("long password \n"), 14), // 210 bytes (> HMAC block)
}

var labels = []string{"", "acct", "ünï-✓", "q\"uo\\te\nline"}

type named struct {
	name string
	pw   []byte
}

// hmacKey is what scrypt (PBKDF2-HMAC-SHA256, RFC 2104) actually keys on: a password longer than the 64-byte block
// is replaced by its SHA-256, a shorter one is zero-padded to 64 bytes. Two byte strings with the same hmacKey ARE the
// same password for any PBKDF2/scrypt based scheme ("a" and "a\x00"); that is a property of HMAC, not of the wallet,
// so such twins are not "other" passwords. They are still tried and counted (hmac_twin_*).
func hmacKey(pw []byte) [64]byte {
	var k [64]byte
	if len(pw) > 64 {
		h := sha256.Sum256(pw)
		copy(k[:], h[:])
	} else {
		copy(k[:], pw)
	}
	return k
}

// others = every password that is NOT pw: the rest of the alphabet + byte-level neighbours of pw.
// twins = neighbours that are the same HMAC key.
func others(pw []byte) (out []named, twins []named) {
	add := func(n string, b []byte) {
		if bytes.Equal(b, pw) {
			return
		}
		if hmacKey(b) == hmacKey(pw) {
			twins = append(twins, named{n, append([]byte{}, b...)})
			return
		}
		for _, o := range out {
			if bytes.Equal(o.pw, b) {
				return
			}
		}
		out = append(out, named{n, append([]byte{}, b...)})
	}
	// two unrelated passwords of the alphabet (rotating with the password under test) — the neighbours below are the
	// informative ones, each costs one KDF
	h := int(hmacKey(pw)[0]) + len(pw)
	for _, i := range []int{h % len(passwords), (h + 3) % len(passwords)} {
		add(fmt.Sprintf("alphabet-%d", i), passwords[i])
	}
	add("empty", nil)
	add("append-nul", append(append([]byte{}, pw...), 0))
	add("append-space", append(append([]byte{}, pw...), ' '))
	add("prepend-space", append([]byte{' '}, pw...))
	if len(pw) > 0 {
		add("drop-last-byte", pw[:len(pw)-1])
		fl := append([]byte{}, pw...)
		if unicode.IsLower(rune(fl[0])) {
			fl[0] = byte(unicode.ToUpper(rune(fl[0])))
		} else {
			fl[0] ^= 0x20
		}
		add("flip-case-first", fl)
	}
	add("trimmed-space", bytes.TrimSpace(pw))
	add("trimmed-right", bytes.TrimRight(pw, " \t\r\n"))
	add("trimmed-left", bytes.TrimLeft(pw, " \t\r\n"))
	add("padded-newline", append(append([]byte{}, pw...), '\n'))

	if i := bytes.IndexByte(pw, 0); i >= 0 {
		add("cut-at-nul", pw[:i])
		add("cut-after-nul", pw[:i+1])
	}
	if string(pw) == "\u00e9" {
		add("nfd-twin", []byte("e\u0301"))
	}
	return out, twins
}

type acctSpec struct {
	variant string // create | import-meta | import-ext | legacy-ctr
	sch     scheme
	pw      []byte
	label   string
}

type walletSpec struct {
	id    int
	kind  string // default | lowsec
	accts []acctSpec
}

type made struct {
	spec    acctSpec
	addr    string
	privSer []byte
	pubSer  []byte
	label   string
	live    bool // the account exists in the wallet and is expected to be openable
}

func openWallet(r *ev.Run, path, kind string) account.Client {
	cli, err := account.Open(path)
	if err != nil {
		r.HarnessError("open %s: %v", path, err)
	}
	if kind == "lowsec" && cli.GetAccountNum() == 0 && cli.GetWalletData().Scrypt.N != 4096 {
		wd := cli.GetWalletData()
		if err := wd.ToLowSecurity([][]byte{}); err != nil {
			r.HarnessError("ToLowSecurity: %v", err)
		}
		if err := wd.Save(path); err != nil {
			r.HarnessError("save: %v", err)
		}
		cli, err = account.Open(path)
		if err != nil {
			r.HarnessError("reopen %s: %v", path, err)
		}
		if cli.GetWalletData().Scrypt.N != 4096 {
			r.HarnessError("low-security parameters not persisted")
		}
	}
	return cli
}

func sameAccount(got *account.Account, m *made) string {
	if got == nil {
		return "nil account"
	}
	if !bytes.Equal(keypair.SerializePrivateKey(got.PrivateKey), m.privSer) {
		return "private key differs"
	}
	if !bytes.Equal(keypair.SerializePublicKey(got.PublicKey), m.pubSer) {
		return "public key differs"
	}
	if got.Address.ToBase58() != m.addr {
		return "address differs"
	}
	if got.SigScheme != m.spec.sch.sig {
		return "signature scheme differs"
	}
	return ""
}

// legacyCTR protects a key the way old wallets did (aes-256-ctr, salt derived from the address) — the format the
// wallet still accepts on import ("ctr mode is remain for old accounts").
func legacyCTR(pri keypair.PrivateKey, addr string, pwd []byte, p *keypair.ScryptParam) *keypair.ProtectedKey {
	d := sha256.Sum256([]byte(addr))
	d = sha256.Sum256(d[:])
	dkey, err := scrypt.Key(pwd, d[:4], p.N, p.R, p.P, p.DKLen)
	if err != nil {
		panic(err)
	}
	res := &keypair.ProtectedKey{Address: addr, EncAlg: "aes-256-ctr", Hash: "sha256"}
	var plain []byte
	switch t := pri.(type) {
	case *ec.PrivateKey:
		plain = t.D.Bytes()
		res.Alg = "ECDSA"
		if t.Algorithm == ec.SM2 {
			res.Alg = "SM2"
		}
		res.Param = map[string]string{"curve": t.Params().Name}
	case ed25519.PrivateKey:
		plain = []byte(t)
		res.Alg = "Ed25519"
	}
	block, _ := aes.NewCipher(dkey[len(dkey)-32:])
	out := make([]byte, len(plain))
	cipher.NewCTR(block, dkey[:16]).XORKeyStream(out, plain)
	res.Key = out
	return res
}

func metaOf(prot *keypair.ProtectedKey, pub keypair.PublicKey, label string, sig s.SignatureScheme) *account.AccountMetadata {
	return &account.AccountMetadata{Label: label, KeyType: prot.Alg, Curve: prot.Param["curve"], Address: prot.Address,
		PubKey: hex.EncodeToString(keypair.SerializePublicKey(pub)), SigSch: sig.Name(), Salt: prot.Salt, Key: prot.Key,
		EncAlg: prot.EncAlg, Hash: prot.Hash}
}

func det(ws walletSpec, a acctSpec, extra map[string]any) map[string]any {
	d := map[string]any{"wallet_kind": ws.kind, "variant": a.variant, "scheme": a.sch.name, "password_hex": hex.EncodeToString(a.pw),
		"label": a.label}
	for k, v := range extra {
		d[k] = v
	}
	return d
}

func runWallet(r *ev.Run, base string, ws walletSpec) {
	dir := filepath.Join(base, fmt.Sprintf("w%04d", ws.id))
	if err := os.MkdirAll(dir, 0o755); err != nil {
		r.HarnessError("mkdir: %v", err)
	}
	defer os.RemoveAll(dir)
	path := filepath.Join(dir, "wallet.dat")
	cli := openWallet(r, path, ws.kind)
	param := cli.GetWalletData().Scrypt
	var ms []*made
	for j, a := range ws.accts {
		m := &made{spec: a, label: a.label}
		kp := ws.kind + ":" + a.variant
		switch a.variant {
		case "create":
			before := cli.GetAccountNum()
			acc, err := cli.NewAccount(a.label, a.sch.kt, a.sch.curve, a.sch.sig, a.pw)
			r.Eval()
			if len(a.pw) == 0 {
				if err == nil || acc != nil || cli.GetAccountNum() != before {
					r.Violation(kp+":empty-password-not-refused", det(ws, a, nil))
				}
				r.Class("create_empty_password_refused")
				continue
			}
			if err != nil {
				r.Violation(kp+":NewAccount-failed", det(ws, a, map[string]any{"err": err.Error()}))
				continue
			}
			m.addr, m.privSer, m.pubSer, m.live = acc.Address.ToBase58(), keypair.SerializePrivateKey(acc.PrivateKey), keypair.SerializePublicKey(acc.PublicKey), true
			if acc.Address != types.AddressFromPubKey(acc.PublicKey) || acc.SigScheme != a.sch.sig {
				r.Violation(kp+":NewAccount-inconsistent-account", det(ws, a, nil))
			}
		case "import-meta":
			// export from a source wallet of the same kind; the source account is created under default parameters
			// and re-protected by the wallet's own ToLowSecurity for the low-security kind.
			spath := filepath.Join(dir, fmt.Sprintf("src%d.dat", j))
			src, err := account.Open(spath)
			if err != nil {
				r.HarnessError("open src: %v", err)
			}
			acc, err := src.NewAccount(a.label, a.sch.kt, a.sch.curve, a.sch.sig, a.pw)
			if err != nil {
				r.Violation(kp+":source-NewAccount-failed", det(ws, a, map[string]any{"err": err.Error()}))
				continue
			}
			if ws.kind == "lowsec" {
				wd := src.GetWalletData()
				if err := wd.ToLowSecurity([][]byte{a.pw}); err != nil {
					r.Violation(kp+":ToLowSecurity-failed", det(ws, a, map[string]any{"err": err.Error()}))
					continue
				}
				if err := wd.Save(spath); err != nil {
					r.HarnessError("save src: %v", err)
				}
				if src, err = account.Open(spath); err != nil {
					r.HarnessError("reopen src: %v", err)
				}
			}
			meta := src.GetAccountMetadataByAddress(acc.Address.ToBase58())
			if meta == nil {
				r.Violation(kp+":metadata-missing", det(ws, a, nil))
				continue
			}
			if err := cli.ImportAccount(meta); err != nil {
				r.Violation(kp+":ImportAccount-failed", det(ws, a, map[string]any{"err": err.Error()}))
				continue
			}
			r.Eval()
			m.addr, m.privSer, m.pubSer, m.live = acc.Address.ToBase58(), keypair.SerializePrivateKey(acc.PrivateKey), keypair.SerializePublicKey(acc.PublicKey), true
		case "import-ext", "legacy-ctr":
			pri, pub, err := keypair.GenerateKeyPair(a.sch.kt, a.sch.curve)
			if err != nil {
				r.HarnessError("keygen %s: %v", a.sch.name, err)
			}
			ad := types.AddressFromPubKey(pub)
			addr := ad.ToBase58()
			var prot *keypair.ProtectedKey
			if a.variant == "legacy-ctr" {
				prot = legacyCTR(pri, addr, a.pw, param)
			} else if prot, err = keypair.EncryptWithCustomScrypt(pri, addr, a.pw, param); err != nil {
				r.HarnessError("encrypt: %v", err)
			}
			if err := cli.ImportAccount(metaOf(prot, pub, a.label, a.sch.sig)); err != nil {
				r.Violation(kp+":ImportAccount-failed", det(ws, a, map[string]any{"err": err.Error()}))
				continue
			}
			r.Eval()
			m.addr, m.privSer, m.pubSer, m.live = addr, keypair.SerializePrivateKey(pri), keypair.SerializePublicKey(pub), true
		}
		ms = append(ms, m)
	}
	// ---- reopen the file: everything below is answered from what was saved
	cli = openWallet(r, path, ws.kind)
	if cli.GetAccountNum() != len(ms) {
		r.Violation(ws.kind+":account-count-after-reopen", map[string]any{"got": cli.GetAccountNum(), "want": len(ms)})
	}
	for idx, m := range ms {
		a := m.spec
		kp := ws.kind + ":" + a.variant
		// vacuity classes: what is due for this account (a check that cannot be carried out is a violation below)
		r.Class("roundtrip_checked/" + a.variant)
		r.Class("other_password_checked")
		if a.variant != "legacy-ctr" && len(a.pw) != 0 {
			switch idx {
			case 1:
				r.Class("changepassword_checked")
			case 2:
				r.Class("unlock_checked")
			}
		}
		if cli.GetAccountMetadataByAddress(m.addr) == nil {
			r.Violation(kp+":account-missing-after-reopen", det(ws, a, map[string]any{"index": idx + 1, "accounts_in_file": cli.GetAccountNum()}))
			continue
		}
		if len(a.pw) == 0 {
			// The wallet refuses the empty password everywhere (NewAccount and decryption); an imported key protected
			// with "" can therefore never be opened. Recorded as an observation; every other password must still fail.
			acc, err := cli.GetAccountByAddress(m.addr, a.pw)
			r.Eval()
			if err == nil && sameAccount(acc, m) != "" {
				r.Violation(kp+":empty-password-opens-wrong-key", det(ws, a, nil))
			}
			if err != nil {
				r.Class("import_empty_password_unopenable")
			}
		}
		broken := false
		if len(a.pw) != 0 {
			type getter struct {
				name string
				f    func() (*account.Account, error)
			}
			gs := []getter{{"ByAddress", func() (*account.Account, error) { return cli.GetAccountByAddress(m.addr, a.pw) }},
				{"ByIndex", func() (*account.Account, error) { return cli.GetAccountByIndex(idx+1, a.pw) }}}
			if m.label != "" {
				gs = append(gs, getter{"ByLabel", func() (*account.Account, error) { return cli.GetAccountByLabel(m.label, a.pw) }})
			}
			if idx == 0 {
				gs = append(gs, getter{"Default", func() (*account.Account, error) { return cli.GetDefaultAccount(a.pw) }})
			}
			for _, g := range gs {
				var acc *account.Account
				var err error
				rec, p := ev.Guard(func() { acc, err = g.f() })
				r.Eval()
				switch {
				case p:
					r.Violation(kp+":own-password:panic:"+g.name, det(ws, a, map[string]any{"panic": fmt.Sprint(rec)}))
					broken = true
				case err != nil:
					r.Violation(kp+":own-password-rejected:"+g.name, det(ws, a, map[string]any{"err": err.Error(), "index": idx + 1}))
					broken = true
				default:
					if why := sameAccount(acc, m); why != "" {
						r.Violation(kp+":own-password-opens-different-account:"+g.name, det(ws, a, map[string]any{"why": why, "index": idx + 1}))
						broken = true
					} else {
						r.Class("roundtrip_ok")
						r.Class("roundtrip_ok/" + a.variant)
					}
				}
				if broken {
					break
				}
			}
			r.Case(fmt.Sprintf("%s/%s/%s/pw%x/label%q", ws.kind, a.variant, a.sch.name, a.pw, m.label))
			if broken {
				r.Class("roundtrip_broken")
			}
			if meta := cli.GetAccountMetadataByAddress(m.addr); meta == nil || meta.PubKey != hex.EncodeToString(m.pubSer) || meta.Address != m.addr || meta.Label != m.label {
				r.Violation(kp+":metadata-after-reopen", det(ws, a, map[string]any{"meta": fmt.Sprintf("%+v", meta)}))
			}
		}
		// every other password must be refused
		oth, twins := others(a.pw)
		for _, tw := range twins {
			acc, err := cli.GetAccountByAddress(m.addr, tw.pw)
			r.Eval()
			switch {
			case err != nil:
				r.Class("hmac_twin_refused")
			case sameAccount(acc, m) == "":
				r.Class("hmac_twin_opens_same_key")
			default:
				r.Violation(kp+":hmac-twin-opens-different-key", det(ws, a, map[string]any{"twin": tw.name}))
			}
		}
		for oi, o := range oth {
			if r.Expired() {
				r.Capped("deadline inside other-password loop")
				return
			}
			get := func() (*account.Account, error) { return cli.GetAccountByAddress(m.addr, o.pw) }
			switch oi % 7 { // spread the other getters over the list (they share getAccount)
			case 3:
				get = func() (*account.Account, error) { return cli.GetAccountByIndex(idx+1, o.pw) }
			case 5:
				if m.label != "" {
					get = func() (*account.Account, error) { return cli.GetAccountByLabel(m.label, o.pw) }
				}
			}
			var acc *account.Account
			var err error
			rec, p := ev.Guard(func() { acc, err = get() })
			r.Eval()
			if p {
				r.Violation(kp+":other-password:panic", det(ws, a, map[string]any{"other": o.name, "other_hex": hex.EncodeToString(o.pw), "panic": fmt.Sprint(rec)}))
				continue
			}
			if err == nil || acc != nil {
				same := acc != nil && sameAccount(acc, m) == ""
				cls := ":" + strings.SplitN(o.name, "-", 2)[0]
				if a.variant == "legacy-ctr" {
					cls = "" // one defect, one key
				}
				r.Violation(kp+":other-password-accepted"+cls, det(ws, a, map[string]any{"other": o.name,
					"other_hex": hex.EncodeToString(o.pw), "returned_the_real_key": same}))
			} else {
				r.Class("other_password_refused")
			}
		}
		if a.variant == "legacy-ctr" || len(a.pw) == 0 || broken {
			continue
		}
		wrong := oth[idx%3].pw
		switch idx {
		case 1: // ChangePassword: wrong old password refused and harmless; right one re-protects and is saved
			newPw := append(append([]byte{' '}, a.pw...), '\n') // the new password is a padded neighbour of the old one
			if err := cli.ChangePassword(m.addr, wrong, newPw); err == nil {
				r.Violation(kp+":ChangePassword-with-wrong-old-password-accepted", det(ws, a, nil))
			}
			if err := cli.ChangePassword(m.addr, a.pw, newPw); err != nil {
				r.Violation(kp+":ChangePassword-failed", det(ws, a, map[string]any{"err": err.Error()}))
				break
			}
			c3 := openWallet(r, path, ws.kind)
			acc, err := c3.GetAccountByAddress(m.addr, newPw)
			r.Evals(4)
			if err != nil || sameAccount(acc, m) != "" {
				r.Violation(kp+":new-password-after-ChangePassword-and-reopen", det(ws, a, map[string]any{"err": fmt.Sprint(err)}))
			} else {
				r.Class("changepassword_ok")
			}
			if acc, err := c3.GetAccountByAddress(m.addr, a.pw); err == nil || acc != nil {
				r.Violation(kp+":old-password-still-valid-after-ChangePassword", det(ws, a, nil))
			}
			cli = c3
			m.spec.pw = newPw
		case 2: // UnLockAccount must not let another password in
			if err := cli.UnLockAccount(m.addr, 3600, wrong); err == nil {
				r.Violation(kp+":UnLockAccount-with-other-password-accepted", det(ws, a, nil))
			}
			if cli.GetUnlockAccount(m.addr) != nil {
				r.Violation(kp+":account-unlocked-without-password", det(ws, a, nil))
			}
			if err := cli.UnLockAccount(m.addr, 3600, a.pw); err != nil {
				r.Violation(kp+":UnLockAccount-failed", det(ws, a, map[string]any{"err": err.Error()}))
				break
			}
			if why := sameAccount(cli.GetUnlockAccount(m.addr), m); why != "" {
				r.Violation(kp+":unlocked-account-differs", det(ws, a, map[string]any{"why": why}))
			}
			acc, err := cli.GetAccountByAddress(m.addr, wrong)
			r.Evals(3)
			if err == nil || acc != nil {
				r.Violation(kp+":other-password-accepted-while-unlocked", det(ws, a, nil))
			} else {
				r.Class("unlock_sequence_ok")
			}
			cli.LockAccount(m.addr)
			if cli.GetUnlockAccount(m.addr) != nil {
				r.Violation(kp+":LockAccount-ineffective", det(ws, a, nil))
			}
		}
	}
}

func main() {
	r := ev.Start("C43", "exploration")
	polyenv.Setup(0, polyenv.Keys(1))
	base := polyenv.TmpDir("c43-")
	defer os.RemoveAll(base)
	// vacuity classes are counted on the attempt (reference) side: a failed attempt is a violation, not a vacuous run
	r.Require("roundtrip_checked/create", "roundtrip_checked/import-meta", "roundtrip_checked/import-ext", "other_password_checked",
		"changepassword_checked", "unlock_checked", "create_empty_password_refused",
		"seq_checked", "seq_last/export-low", "seq_last/export", "seq_last/clone-mutate", "seq_last/delete", "seq_export_file_checked")

	sch := schemes(r.Thorough())
	var flat []struct {
		kind string
		a    acctSpec
	}
	n := 0
	add := func(kind, variant string, sc scheme, pw []byte) {
		lb := labels[n%len(labels)]
		if lb != "" {
			lb = fmt.Sprintf("%s#%d", lb, n) // unique inside a wallet ("" may repeat: unlabeled accounts)
		}
		n++
		flat = append(flat, struct {
			kind string
			a    acctSpec
		}{kind, acctSpec{variant, sc, pw, lb}})
	}
	// first (so that a capped run has them): empty password, legacy protection format, creation in a low-security wallet
	add("default", "create", sch[1], nil)
	add("lowsec", "import-ext", sch[1], nil)
	add("lowsec", "import-ext", sch[len(sch)-1], nil)
	for _, sc := range []scheme{sch[1], sch[len(sch)-2], sch[len(sch)-1]} {
		add("lowsec", "legacy-ctr", sc, passwords[1])
	}
	if r.Thorough() {
		for pi := 0; pi < 3; pi++ {
			add("lowsec", "create", sch[1], passwords[pi])
		}
	}
	if r.Thorough() {
		// ordered so that a deadline-capped run is still broad: every wallet mixes the three paths (rotating which
		// one gets the ChangePassword / UnLock sequence) and the two wallet kinds alternate in the work list.
		vs := []string{"create", "import-ext", "import-meta"}
		allPw := append(append([][]byte{}, passwords...), wsPasswords...)
		for si, sc := range sch {
			for pi, pw := range allPw {
				for _, kind := range []string{"default", "lowsec"} {
					for k := 0; k < 3; k++ {
						v := vs[(k+si+pi)%3]
						if kind == "lowsec" && v == "create" && !(sc.curve == keypair.P256 && sc.sig == s.SHA256withECDSA) {
							continue // one scheme is enough to exhibit / watch the create-in-lowsec case
						}
						add(kind, v, sc, pw)
					}
				}
			}
		}
	} else {
		for si, sc := range sch { // default wallet, create: every scheme, passwords rotating
			add("default", "create", sc, passwords[si%len(passwords)])
		}
		for pi, pw := range passwords {
			add("default", "import-ext", sch[(pi*2+1)%len(sch)], pw)
			add("default", "import-meta", sch[(pi*2)%len(sch)], pw)
		}
		for si, sc := range sch { // low-security wallet: scheme × password matrix on the external-import path (every pair of
			for pi, pw := range passwords { // scheme and password class twice)
				if (si+pi)%2 == 0 {
					add("lowsec", "import-ext", sc, pw)
				}
			}
		}
		for wi, pw := range wsPasswords { // whitespace family × every path
			add("lowsec", "create", sch[(wi*5+1)%len(sch)], pw)
			add("lowsec", "import-ext", sch[(wi*5+2)%len(sch)], pw)
			add("lowsec", "import-meta", sch[(wi*5+3)%len(sch)], pw)
		}
		for _, wi := range []int{0, 2, 5} {
			add("default", "create", sch[1], wsPasswords[wi])
		}
		for pi, pw := range passwords {
			add("lowsec", "import-meta", sch[(pi*2+3)%len(sch)], pw)
		}
		for pi := 0; pi < 3; pi++ {
			add("lowsec", "create", sch[1], passwords[pi])
		}
	}
	// wallets of three accounts of one kind; the two kinds alternate in the work list
	perKind := map[string][]walletSpec{}
	for _, kind := range []string{"default", "lowsec"} {
		var cur []acctSpec
		flush := func() {
			if len(cur) > 0 {
				perKind[kind] = append(perKind[kind], walletSpec{kind: kind, accts: cur})
				cur = nil
			}
		}
		for _, f := range flat {
			if f.kind != kind {
				continue
			}
			cur = append(cur, f.a)
			if len(cur) == 3 {
				flush()
			}
		}
		flush()
	}
	var wallets []walletSpec
	for i := 0; i < len(perKind["default"]) || i < len(perKind["lowsec"]); i++ {
		for _, kind := range []string{"default", "lowsec"} {
			if i < len(perKind[kind]) {
				ws := perKind[kind][i]
				ws.id = len(wallets)
				wallets = append(wallets, ws)
			}
		}
	}
	partSeq(r, base) // first: cheap, and it must not be the part a loaded host cuts
	var wg sync.WaitGroup
	ch := make(chan walletSpec)
	for w := 0; w < 16; w++ {
		wg.Add(1)
		go func() {
			defer wg.Done()
			for ws := range ch {
				if r.Expired() {
					r.Capped("wallet list cut by deadline")
					continue
				}
				runWallet(r, base, ws)
			}
		}()
	}
	for _, ws := range wallets {
		ch <- ws
	}
	close(ch)
	wg.Wait()
	for i := 0; i < len(flat) && i < 60; i += 11 {
		a := flat[i].a
		r.Sample(map[string]any{"wallet_kind": flat[i].kind, "variant": a.variant, "scheme": a.sch.name, "password_hex": hex.EncodeToString(a.pw), "label": a.label})
	}
	os.RemoveAll(base) // Finish exits the process: deferred calls do not run
	r.Note("accounts", len(flat))
	r.Note("wallet_files", len(wallets))
	r.Assume("key generation and salts use crypto/rand (not part of the decision)",
		"the empty password is refused by the wallet on creation and on every decryption; an imported key protected with \"\" is counted (import_empty_password_unopenable), not alarmed",
		"labels are valid UTF-8 (encoding/json replaces invalid bytes on save)",
		"quick tier: default-parameter wallets (scrypt N=16384) carry every scheme and every password once per path; the full scheme × password matrix runs on low-security wallets (N=4096, WalletData.ToLowSecurity)")
	r.Finish(map[string]any{
		"rule": fmt.Sprintf("%d key/signature schemes × %d passwords × paths {create, import-meta, import-ext} × wallet kinds {default, lowsec} (%s), wallets of 3 accounts; per account: own password via ByAddress/ByIndex/ByLabel/Default after reopen, ~12 other passwords (alphabet + byte neighbours), ChangePassword (2nd account) and UnLockAccount (3rd account) sequences; plus empty password and legacy aes-256-ctr imports; part S: every sequence of length ≤ %d over the 13-operation alphabet {new, import, chpw, setlabel, setdefault, chsig, delete, reload, export, export-clone, export-low, clone-mutate, getdata} after setup [new] on a cheap-scrypt wallet + 5 cmd-shaped sequences on a default wallet; after every sequence: live wallet in memory, original file reloaded, every exported file reloaded",
			len(sch), len(passwords)+len(wsPasswords), map[bool]string{true: "full product", false: "quick: full matrix on lowsec/import-ext, covering rows elsewhere"}[r.Thorough()], r.QT(3, 4)),
	})
}
