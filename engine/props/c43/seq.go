// C43, part S — operation sequences on an OPEN wallet, including the wallet-level operations of cmd/account_cmd.go
// (export = GetWalletData().Save(other), low-security export = GetWalletData().Clone().ToLowSecurity(pw).Save(other)),
// Clone followed by mutation of the clone, interleaved with the ClientImpl operations.
//
// Every sequence over the alphabet up to the depth is replayed from scratch on real files. After the LAST step of every
// sequence (every prefix is itself an enumerated sequence, so this is "after every step"):
//   (a) in memory, before any further save: every live account opens with its password to the same key pair /
//       address / signature scheme, another password is refused, count / default / labels agree with the model;
//   (b) the original wallet file is reloaded into a fresh client: same checks;
//   (c) every exported file is reloaded (with the file's own scrypt parameters): every account of the snapshot taken at
//       export time opens with its password to the same key pair, another password is refused.
// The live wallet uses cheap custom scrypt parameters (N=256,r=8,p=1 — the wallet file format carries its parameters
// and the code honours them) so that the sequence space is affordable; a few cmd-shaped sequences also run on a
// default-parameter wallet.
package main

import (
	"bytes"
	"encoding/hex"
	"fmt"
	"os"
	"path/filepath"
	"strings"
	"sync"

	"github.com/ontio/ontology-crypto/keypair"
	s "github.com/ontio/ontology-crypto/signature"
	"github.com/polynetwork/poly/account"
	"github.com/polynetwork/poly/core/types"
	"verif.local/engine/ev"
)

var seqOps = []string{"new", "import", "chpw", "setlabel", "setdefault", "chsig", "delete", "reload",
	"export", "export-clone", "export-low", "clone-mutate", "getdata"}

var (
	// both passwords carry whitespace / non-text bytes: every password-taking operation must use them verbatim
	pwA = []byte("pw-A\n")
	pwB = []byte(" pw\tB\x00\xff ")
	pwX = []byte("pw-a\n") // an "other" password (case neighbour of pwA, not an HMAC twin of either)
)

type macct struct {
	addr      string
	priv, pub []byte
	pw        []byte
	label     string
	sig       s.SignatureScheme
	ecdsa     bool
}

type mfile struct {
	path  string
	how   string
	accts []macct
}

type seqEnv struct {
	r       *ev.Run
	dir     string
	path    string
	cli     account.Client
	live    []*macct
	def     string
	exports []mfile
	n       int // name counter
	kind    string
}

func (e *seqEnv) snapshot() []macct {
	out := make([]macct, len(e.live))
	for i, a := range e.live {
		out[i] = *a
		out[i].pw = append([]byte{}, a.pw...)
	}
	return out
}

func newSeqEnv(r *ev.Run, base string, id int, kind string) *seqEnv {
	dir := filepath.Join(base, fmt.Sprintf("s%06d", id))
	if err := os.MkdirAll(dir, 0o755); err != nil {
		r.HarnessError("mkdir: %v", err)
	}
	e := &seqEnv{r: r, dir: dir, path: filepath.Join(dir, "wallet.dat"), kind: kind}
	cli, err := account.Open(e.path)
	if err != nil {
		r.HarnessError("open: %v", err)
	}
	if kind == "cheap" {
		wd := cli.GetWalletData()
		wd.Scrypt = &keypair.ScryptParam{N: 256, R: 8, P: 1, DKLen: 64}
		if err := wd.Save(e.path); err != nil {
			r.HarnessError("save: %v", err)
		}
		if cli, err = account.Open(e.path); err != nil {
			r.HarnessError("reopen: %v", err)
		}
		if cli.GetWalletData().Scrypt.N != 256 {
			r.HarnessError("custom scrypt parameters not persisted")
		}
	}
	e.cli = cli
	return e
}

// step applies one operation to the real wallet and to the model. ok=false: not applicable in this state.
// A returned string is a violation kind (the operation itself misbehaved).
func (e *seqEnv) step(op string) (ok bool, bad string) {
	e.n++
	switch op {
	case "new":
		pw, kt, cv, sg, ec := pwA, keypair.PK_ECDSA, byte(keypair.P256), s.SHA256withECDSA, true
		if len(e.live)%2 == 1 {
			pw, kt, cv, sg, ec = pwB, keypair.PK_EDDSA, byte(keypair.ED25519), s.SHA512withEDDSA, false
		}
		label := fmt.Sprintf("n%d", e.n)
		acc, err := e.cli.NewAccount(label, kt, cv, sg, pw)
		if err != nil {
			return true, "NewAccount-failed: " + err.Error()
		}
		e.add(&macct{acc.Address.ToBase58(), keypair.SerializePrivateKey(acc.PrivateKey), keypair.SerializePublicKey(acc.PublicKey), pw, label, sg, ec})
	case "import":
		pri, pub, err := keypair.GenerateKeyPair(keypair.PK_ECDSA, keypair.P256)
		if err != nil {
			e.r.HarnessError("keygen: %v", err)
		}
		ad := types.AddressFromPubKey(pub)
		addr := ad.ToBase58()
		prot, err := keypair.EncryptWithCustomScrypt(pri, addr, pwB, e.cli.GetWalletData().Scrypt)
		if err != nil {
			e.r.HarnessError("encrypt: %v", err)
		}
		label := fmt.Sprintf("i%d", e.n)
		if err := e.cli.ImportAccount(metaOf(prot, pub, label, s.SHA256withECDSA)); err != nil {
			return true, "ImportAccount-failed: " + err.Error()
		}
		e.add(&macct{addr, keypair.SerializePrivateKey(pri), keypair.SerializePublicKey(pub), pwB, label, s.SHA256withECDSA, true})
	case "chpw":
		if len(e.live) == 0 {
			return false, ""
		}
		a := e.live[0]
		np := pwA
		if bytes.Equal(a.pw, pwA) {
			np = pwB
		}
		if err := e.cli.ChangePassword(a.addr, bytes.TrimSpace(a.pw), np); err == nil {
			return true, "ChangePassword-accepted-trimmed-old-password"
		}
		if err := e.cli.ChangePassword(a.addr, a.pw, np); err != nil {
			return true, "ChangePassword-failed: " + err.Error()
		}
		a.pw = np
	case "setlabel":
		if len(e.live) == 0 {
			return false, ""
		}
		a := e.live[len(e.live)-1]
		l := fmt.Sprintf("L%d", e.n)
		if err := e.cli.SetLabel(a.addr, l); err != nil {
			return true, "SetLabel-failed: " + err.Error()
		}
		a.label = l
	case "setdefault":
		if len(e.live) < 2 {
			return false, ""
		}
		a := e.live[len(e.live)-1]
		if err := e.cli.SetDefaultAccount(a.addr); err != nil {
			return true, "SetDefaultAccount-failed: " + err.Error()
		}
		e.def = a.addr
	case "chsig":
		var a *macct
		for _, x := range e.live {
			if x.ecdsa {
				a = x
				break
			}
		}
		if a == nil {
			return false, ""
		}
		ns := s.SHA3_256withECDSA
		if a.sig == ns {
			ns = s.SHA256withECDSA
		}
		if err := e.cli.ChangeSigScheme(a.addr, ns); err != nil {
			return true, "ChangeSigScheme-failed: " + err.Error()
		}
		a.sig = ns
	case "delete":
		if len(e.live) < 2 {
			return false, ""
		}
		i := len(e.live) - 1
		if e.live[i].addr == e.def {
			i--
		}
		a := e.live[i]
		if acc, err := e.cli.DeleteAccount(a.addr, bytes.TrimSpace(a.pw)); err == nil || acc != nil {
			return true, "DeleteAccount-accepted-trimmed-password"
		}
		acc, err := e.cli.DeleteAccount(a.addr, a.pw)
		if err != nil || acc == nil {
			return true, "DeleteAccount-failed: " + fmt.Sprint(err)
		}
		e.live = append(e.live[:i:i], e.live[i+1:]...)
	case "reload":
		cli, err := account.Open(e.path)
		if err != nil {
			return true, "reopen-failed: " + err.Error()
		}
		e.cli = cli
	case "export", "export-clone", "export-low":
		if len(e.live) == 0 {
			return false, ""
		}
		target := filepath.Join(e.dir, fmt.Sprintf("export%d.dat", len(e.exports)))
		wd := e.cli.GetWalletData()
		if op != "export" {
			wd = wd.Clone()
		}
		if op == "export-low" { // exactly cmd/account_cmd.go accountExport --low-security
			pws := make([][]byte, len(e.live))
			for i, a := range e.live {
				pws[i] = append([]byte{}, a.pw...)
			}
			if err := wd.ToLowSecurity(pws); err != nil {
				return true, "ToLowSecurity-failed: " + err.Error()
			}
		}
		if err := wd.Save(target); err != nil {
			return true, "export-Save-failed: " + err.Error()
		}
		e.exports = append(e.exports, mfile{target, op, e.snapshot()})
	case "clone-mutate":
		// everything a holder of a clone may do to it by assignment (the way reencrypt / SetLabel / SetKeyPair do);
		// nothing is saved. The live wallet must not notice.
		c := e.cli.GetWalletData().Clone()
		c.Name, c.Version, c.Extra = "mutated", "9.9", "x"
		c.Scrypt.N, c.Scrypt.P = 2, 1
		for _, a := range c.Accounts {
			a.SetLabel("mutated")
			a.SetKeyPair(&keypair.ProtectedKey{Address: "Amutated", EncAlg: "aes-256-gcm", Key: []byte{1, 2, 3}, Alg: "SM2",
				Salt: []byte{9}, Hash: "x", Param: map[string]string{"curve": "nope"}})
			a.SigSch, a.PubKey, a.IsDefault, a.Lock = "SM3withSM2", "00", !a.IsDefault, true
		}
		c.AddAccount(&account.AccountData{Label: "ghost"})
		if len(c.Accounts) > 1 {
			c.DelAccount("Amutated")
		}
	case "getdata":
		wd := e.cli.GetWalletData()
		if len(wd.Accounts) != len(e.live) {
			return true, fmt.Sprintf("GetWalletData-account-count %d want %d", len(wd.Accounts), len(e.live))
		}
		for i, a := range e.live {
			if wd.Accounts[i].Address != a.addr || wd.Accounts[i].Label != a.label {
				return true, "GetWalletData-order-or-label"
			}
		}
	}
	return true, ""
}

func (e *seqEnv) add(a *macct) {
	if len(e.live) == 0 {
		e.def = a.addr
	}
	e.live = append(e.live, a)
}

// checkClient: every account of the model opens with its password to the same key pair; another password is refused.
func checkClient(cli account.Client, accts []macct, def string, full, wrongPw bool) string {
	if cli.GetAccountNum() != len(accts) {
		return fmt.Sprintf("account-count:%d-want-%d", cli.GetAccountNum(), len(accts))
	}
	for i, a := range accts {
		acc, err := cli.GetAccountByAddress(a.addr, a.pw)
		if err != nil {
			return "own-password-rejected"
		}
		if acc == nil {
			return "account-missing"
		}
		if !bytes.Equal(keypair.SerializePrivateKey(acc.PrivateKey), a.priv) || !bytes.Equal(keypair.SerializePublicKey(acc.PublicKey), a.pub) ||
			acc.Address.ToBase58() != a.addr {
			return "own-password-opens-different-key"
		}
		if acc.SigScheme != a.sig {
			return "signature-scheme-differs"
		}
		if wrongPw {
			if acc2, err := cli.GetAccountByAddress(a.addr, pwX); err == nil || acc2 != nil {
				return "other-password-accepted"
			}
			if acc2, err := cli.GetAccountByAddress(a.addr, bytes.TrimSpace(a.pw)); err == nil || acc2 != nil {
				return "trimmed-password-accepted"
			}
		}
		if full {
			if m := cli.GetAccountMetadataByIndex(i + 1); m == nil || m.Address != a.addr || m.Label != a.label || m.PubKey != hex.EncodeToString(a.pub) {
				return "metadata-by-index-differs"
			}
			if m := cli.GetAccountMetadataByLabel(a.label); m == nil || m.Address != a.addr {
				return "label-lookup-differs"
			}
		}
	}
	if full && len(accts) > 0 {
		if m := cli.GetDefaultAccountMetadata(); m == nil || m.Address != def {
			return "default-account-differs"
		}
	}
	return ""
}

func runSeq(r *ev.Run, base string, id int, kind string, prefix, seq []string) {
	e := newSeqEnv(r, base, id, kind)
	defer os.RemoveAll(e.dir)
	all := append(append([]string{}, prefix...), seq...)
	d := func(extra map[string]any) map[string]any {
		m := map[string]any{"wallet": kind, "setup": prefix, "sequence": seq}
		for k, v := range extra {
			m[k] = v
		}
		return m
	}
	for i, op := range all {
		var ok bool
		var bad string
		rec, p := ev.Guard(func() { ok, bad = e.step(op) })
		if p {
			r.Violation("seq:"+op+":panic", d(map[string]any{"step": i, "panic": fmt.Sprint(rec)}))
			return
		}
		if !ok {
			r.Class("seq_pruned_not_applicable")
			return
		}
		if bad != "" {
			r.Violation("seq:"+op+":"+strings.SplitN(bad, ":", 2)[0], d(map[string]any{"step": i, "what": bad}))
			return
		}
	}
	r.Eval()
	r.Class("seq_checked")
	last := ""
	if len(seq) > 0 {
		last = seq[len(seq)-1]
		r.Class("seq_last/" + last)
	}
	r.Case(kind + "/" + strings.Join(seq, ","))
	live := e.snapshot()
	// (a) in memory, right after the last operation
	var why string
	if rec, p := ev.Guard(func() { why = checkClient(e.cli, live, e.def, true, true) }); p {
		why = "panic:" + fmt.Sprint(rec)
	}
	if why != "" {
		r.Violation("seq:live-memory:"+strings.SplitN(why, ":", 2)[0], d(map[string]any{"why": why}))
	}
	// (b) the original file, reloaded
	fresh, err := account.Open(e.path)
	if err != nil {
		r.Violation("seq:live-file:reopen-failed", d(map[string]any{"err": err.Error()}))
	} else {
		if rec, p := ev.Guard(func() { why = checkClient(fresh, live, e.def, true, true) }); p {
			why = "panic:" + fmt.Sprint(rec)
		}
		if why != "" {
			r.Violation("seq:live-file:"+strings.SplitN(why, ":", 2)[0], d(map[string]any{"why": why}))
		}
	}
	// (c) every exported file, reloaded with its own parameters, against the snapshot taken at export time
	for xi, x := range e.exports {
		r.Class("seq_export_file_checked")
		cx, err := account.Open(x.path)
		if err != nil {
			r.Violation("seq:export-file:reopen-failed", d(map[string]any{"how": x.how, "err": err.Error()}))
			continue
		}
		if x.how == "export-low" && cx.GetWalletData().Scrypt.N != 4096 {
			r.Violation("seq:export-file:not-low-security", d(map[string]any{"n": cx.GetWalletData().Scrypt.N}))
		}
		// the other-password probe on a (60 ms/KDF) low-security export is made when the export is the sequence's last
		// or only export operation; its own-password / same-key check is made after every sequence
		wrong := x.how != "export-low" || xi == len(e.exports)-1 && (last == "export-low" || len(seq) <= 2)
		if rec, p := ev.Guard(func() { why = checkClient(cx, x.accts, "", false, wrong) }); p {
			why = "panic:" + fmt.Sprint(rec)
		}
		if why != "" {
			r.Violation("seq:export-file:"+x.how+":"+strings.SplitN(why, ":", 2)[0], d(map[string]any{"why": why}))
		}
	}
}

func partSeq(r *ev.Run, base string) {
	depth := r.QT(3, 4)
	type job struct {
		kind   string
		prefix []string
		seq    []string
	}
	var jobs []job
	prefix := []string{"new"}
	var rec func(cur []string)
	rec = func(cur []string) {
		jobs = append(jobs, job{"cheap", prefix, append([]string{}, cur...)})
		if len(cur) == depth {
			return
		}
		for _, op := range seqOps {
			rec(append(cur, op))
		}
	}
	rec(nil)
	// shorter sequences first (a capped run is then complete up to some depth)
	byLen := make([][]job, depth+1)
	for _, j := range jobs {
		byLen[len(j.seq)] = append(byLen[len(j.seq)], j)
	}
	jobs = jobs[:0]
	// cmd-shaped sequences on a default-parameter wallet (scrypt N=16384) come first
	for _, sq := range [][]string{{"export-low"}, {"export-low", "setlabel"}, {"export-low", "chpw", "reload"}, {"export-clone", "clone-mutate", "reload"},
		{"export", "chpw"}} {
		jobs = append(jobs, job{"default", []string{"new"}, sq})
	}
	for _, l := range byLen {
		jobs = append(jobs, l...)
	}
	var wg sync.WaitGroup
	ch := make(chan int, 64)
	for w := 0; w < 16; w++ {
		wg.Add(1)
		go func() {
			defer wg.Done()
			for i := range ch {
				if r.Expired() {
					r.Capped("sequence list cut by deadline")
					continue
				}
				runSeq(r, base, i, jobs[i].kind, jobs[i].prefix, jobs[i].seq)
			}
		}()
	}
	for i := range jobs {
		ch <- i
	}
	close(ch)
	wg.Wait()
	r.Note("sequence_depth", depth)
	r.Note("sequences_enumerated", len(jobs))
	r.Note("sequence_alphabet", seqOps)
}
