// C06 — the block-hash accumulator (merkle.CompactMerkleTree + file hash store) is a correct
// append-only RFC 6962 Merkle tree.
//
// Three exhaustive spaces, all driving the real /repo/merkle code and comparing every step with the
// textbook recursion in engine/lib/rfc6962:
//
//	A  linear histories 0..N for 3 leaf families x 5 storage modes (nil store, mem store, file store,
//	   file store reopened after every append, Marshal->UnMarshal after every append): after every
//	   step root == MTH, predictions (GetRootWithNewLeaf / GetRootWithNewLeaves, k=0..K and up to
//	   the next power of two) == MTH of the extended list == root after really appending, prediction
//	   leaves the tree untouched, and row n of the proof grid (every m<n inclusion proof in both
//	   formats, every m<=n consistency proof) is accepted by the node's own verifiers; then the whole
//	   (m,n) grid again on the final tree.
//	B  rewind/fork: for every n<=NR and every admissible m<=n the hash file of the size-n tree is
//	   reopened with tree_size m (the crash-recovery path: file ahead of the persisted compact state),
//	   continued with DIFFERENT leaves past the old end of file, and checked as in A. Every
//	   inadmissible open (tree_size > what the file holds, truncated file) must be refused.
//	C  mc.BFS over operation sequences (append x 3 leaf kinds, predict, marshal-reload, file reopen)
//	   to a depth, every successor re-materialised from its dump through the real restart path.
package main

import (
	"bytes"
	"crypto/sha256"
	"encoding/binary"
	"encoding/hex"
	"fmt"
	"os"
	"path/filepath"
	"sync"
	"sync/atomic"
	"time"

	"github.com/polynetwork/poly/common"
	"github.com/polynetwork/poly/merkle"
	"verif.local/engine/ev"
	ref "verif.local/engine/lib/rfc6962"
	"verif.local/engine/mc"
)

type U = common.Uint256

var (
	r       *ev.Run
	tmpRoot string
	ver     = merkle.NewMerkleVerifier()
	nTrans  int64 // operations executed on the real tree and compared with the reference
	nStates int64 // distinct (history, storage mode) tree states visited in A and B
	nProofs int64
	rfcEq   int64 // proofs byte-identical to the RFC 6962 reference PATH / PROOF
	rfcNe   int64
	fileSeq int64
)

func tr(n int) { atomic.AddInt64(&nTrans, int64(n)) }

// ---------------------------------------------------------------- worlds (leaf families)

type world struct {
	fam  string
	data [][]byte
	lh   []ref.H
	root []U // root[n] = MTH(D[0:n])
}

func sha(tag string, i int) []byte {
	var b [8]byte
	binary.BigEndian.PutUint64(b[:], uint64(i))
	h := sha256.Sum256(append([]byte(tag), b[:]...))
	return h[:]
}

func leafData(fam string, i int) []byte {
	switch fam {
	case "distinct":
		return sha("d", i)
	case "allequal":
		return sha("e", 0)
	case "mixed": // runs of equal leaves, variable-length (incl. empty) data, distinct ones
		switch {
		case i%5 == 0:
			l := (i / 5) % 4 * 11 // lengths 0, 11, 22, 32
			if l > 32 {
				l = 32
			}
			return sha("v", i)[:l]
		case i%4 == 3 || i%4 == 2:
			return sha("e", i/4)
		}
		return sha("d", i)
	case "alt": // continuation used after a rewind
		return sha("alt", i)
	}
	panic(fam)
}

func mkWorld(fam string, data [][]byte) *world {
	w := &world{fam: fam, data: data}
	for _, d := range data {
		w.lh = append(w.lh, ref.Leaf(d))
	}
	for n := 0; n <= len(data); n++ {
		w.root = append(w.root, U(ref.MTH(w.lh[:n])))
	}
	return w
}

func family(fam string, n int) *world {
	data := make([][]byte, n)
	for i := range data {
		data[i] = leafData(fam, i)
		if len(data[i]) > 32 {
			data[i] = data[i][:32]
		}
	}
	return mkWorld(fam, data)
}

// ---------------------------------------------------------------- helpers on the real tree

func tmpFile() string {
	return filepath.Join(tmpRoot, fmt.Sprintf("hs-%d.db", atomic.AddInt64(&fileSeq, 1)))
}

func cloneHashes(h []U) []U { return append([]U{}, h...) }

func guard(key string, detail map[string]any, f func()) bool {
	if rec, p := ev.Guard(f); p {
		detail["panic"] = fmt.Sprint(rec)
		r.Violation("panic:"+key, detail)
		r.Class("panic")
		return false
	}
	return true
}

func det(w *world, mode string, kv ...any) map[string]any {
	d := map[string]any{"family": w.fam, "mode": mode}
	for i := 0; i+1 < len(kv); i += 2 {
		d[fmt.Sprint(kv[i])] = kv[i+1]
	}
	return d
}

// checkRow: every proof that ends at size n, produced by tree t (t.TreeSize() >= n), must be accepted
// by the node's own verifiers against the reference root of D[0:n].
func checkRow(t *merkle.CompactMerkleTree, w *world, n int, mode string, rfcCompare bool) {
	rootN := w.root[n]
	for m := 0; m < n; m++ {
		var proof []U
		var err error
		if !guard("InclusionProof:"+mode, det(w, mode, "m", m, "n", n), func() { proof, err = t.InclusionProof(uint32(m), uint32(n)) }) {
			continue
		}
		tr(3)
		atomic.AddInt64(&nProofs, 2)
		if err != nil {
			r.Violation("InclusionProof:error:"+mode, det(w, mode, "m", m, "n", n, "err", err.Error()))
			continue
		}
		if e := ver.VerifyLeafHashInclusion(U(w.lh[m]), uint32(m), proof, rootN, uint32(n)); e != nil {
			r.Violation("inclusion-proof-rejected:VerifyLeafHashInclusion:"+mode, det(w, mode, "m", m, "n", n, "err", e.Error()))
		} else if e := ver.VerifyLeafInclusion(w.data[m], uint32(m), proof, rootN, uint32(n)); e != nil {
			r.Violation("inclusion-proof-rejected:VerifyLeafInclusion:"+mode, det(w, mode, "m", m, "n", n, "err", e.Error()))
		} else {
			r.Class("inclusion_accept")
		}
		if rfcCompare {
			sib, _ := ref.Path(m, w.lh[:n])
			eq := len(sib) == len(proof)
			for i := 0; eq && i < len(sib); i++ {
				eq = U(sib[i]) == proof[i]
			}
			if eq {
				atomic.AddInt64(&rfcEq, 1)
			} else {
				atomic.AddInt64(&rfcNe, 1)
			}
		}
		var path []byte
		if !guard("MerkleInclusionLeafPath:"+mode, det(w, mode, "m", m, "n", n), func() { path, err = t.MerkleInclusionLeafPath(w.data[m], uint32(m), uint32(n)) }) {
			continue
		}
		if err != nil {
			r.Violation("MerkleInclusionLeafPath:error:"+mode, det(w, mode, "m", m, "n", n, "err", err.Error()))
			continue
		}
		val, e := merkle.MerkleProve(path, rootN[:])
		if e != nil {
			r.Violation("leafpath-rejected:MerkleProve:"+mode, det(w, mode, "m", m, "n", n, "err", e.Error()))
		} else if !bytes.Equal(val, w.data[m]) {
			r.Violation("leafpath-wrong-value:MerkleProve:"+mode, det(w, mode, "m", m, "n", n))
		} else {
			r.Class("leafpath_accept")
		}
	}
	for m := 1; m <= n; m++ {
		var proof []U
		if !guard("ConsistencyProof:"+mode, det(w, mode, "m", m, "n", n), func() { proof = t.ConsistencyProof(uint32(m), uint32(n)) }) {
			continue
		}
		tr(2)
		atomic.AddInt64(&nProofs, 1)
		if e := ver.VerifyConsistency(uint32(m), uint32(n), w.root[m], rootN, proof); e != nil {
			r.Violation("consistency-proof-rejected:"+mode, det(w, mode, "m", m, "n", n, "err", e.Error()))
		} else {
			r.Class("consistency_accept")
		}
		if rfcCompare {
			p := ref.Proof(m, w.lh[:n])
			eq := len(p) == len(proof)
			for i := 0; eq && i < len(p); i++ {
				eq = U(p[i]) == proof[i]
			}
			if eq {
				atomic.AddInt64(&rfcEq, 1)
			} else {
				atomic.AddInt64(&rfcNe, 1)
			}
		}
	}
	// old size 0: outside RFC 6962's 0 < m <= n; the file-backed accumulator must still not crash and the
	// verifier must accept (vacuous). The mem store (tests only, no production caller) is only measured.
	var proof []U
	rec, p := ev.Guard(func() { proof = t.ConsistencyProof(0, uint32(n)) })
	tr(1)
	if p {
		if mode == "mem" {
			r.Class("m0_memstore_panic")
			r.Note("consistency_m0_memstore", fmt.Sprintf("ConsistencyProof(0,n>=1) panics on memHashStore (%v); memHashStore has no production caller; measured, not flagged", rec))
		} else {
			r.Violation("panic:ConsistencyProof(0,n):"+mode, det(w, mode, "n", n, "panic", fmt.Sprint(rec)))
		}
	} else if e := ver.VerifyConsistency(0, uint32(n), U(ref.Empty()), rootN, proof); e != nil {
		r.Violation("consistency-proof-rejected:m=0:"+mode, det(w, mode, "n", n, "err", e.Error()))
	} else {
		r.Class("consistency_m0_accept")
	}
}

func fileBytes(name string) []byte {
	// a hash file of <= ~600 leaves is < 40 KiB; anything huge is a wrongly placed (sparse) write and is
	// reported instead of being read into memory
	if fi, err := os.Stat(name); err == nil && fi.Size() > 16<<20 {
		r.Violation("hash-file:absurd-size", map[string]any{"bytes": fi.Size()})
		return nil
	}
	b, err := os.ReadFile(name)
	if err != nil {
		r.HarnessError("read %s: %v", name, err)
	}
	return b
}

// ---------------------------------------------------------------- A: linear histories

type chainOut struct {
	marshal [][]byte // marshal[n]: compact state persisted at size n
	file    [][]byte // file[n]: hash file content at size n (n <= keep)
}

func asU(d []byte) (U, bool) {
	var u U
	if len(d) != 32 {
		return u, false
	}
	copy(u[:], d)
	return u, true
}

func runChain(w *world, mode string, N, K, keep int, rfcN int) *chainOut {
	out := &chainOut{}
	var store merkle.HashStore
	name := ""
	switch mode {
	case "nil":
	case "mem":
		store = merkle.NewMemHashStore()
	default:
		name = tmpFile()
		var err error
		store, err = merkle.NewFileHashStore(name, 0)
		if err != nil {
			r.HarnessError("NewFileHashStore: %v", err)
		}
	}
	t := merkle.NewTree(0, nil, store)
	pend := map[int][]U{}
	var tu *merkle.CompactMerkleTree
	for n := 0; ; n++ {
		if r.Expired() {
			r.Capped(fmt.Sprintf("chain %s/%s stopped at n=%d", w.fam, mode, n))
			break
		}
		atomic.AddInt64(&nStates, 1)
		r.Eval()
		r.Case(fmt.Sprintf("chain/%s/%s/n=%d", w.fam, mode, n))
		// --- predictions straight after the append, before anything asked for Root() (no cached root)
		{
			var g0 U
			if guard("GetRootWithNewLeaves:"+mode, det(w, mode, "n", n, "k", 0), func() { g0 = t.GetRootWithNewLeaves(nil) }) {
				tr(1)
				if g0 != w.root[n] {
					r.Violation("predicted-root-mismatch:GetRootWithNewLeaves:uncached:"+mode, det(w, mode, "n", n, "k", 0, "got", g0.ToHexString()))
				} else {
					r.Class("prediction_ok")
				}
			}
			if u, ok := asU(w.data[n]); ok {
				var g1 U
				if guard("GetRootWithNewLeaf:"+mode, det(w, mode, "n", n), func() { g1 = t.GetRootWithNewLeaf(u) }) {
					tr(1)
					if g1 != w.root[n+1] {
						r.Violation("predicted-root-mismatch:GetRootWithNewLeaf:uncached:"+mode, det(w, mode, "n", n, "got", g1.ToHexString()))
					} else {
						r.Class("prediction_ok")
					}
				}
			}
		}
		// --- state check
		root := t.Root()
		tr(1)
		if root != w.root[n] || int(t.TreeSize()) != n {
			r.Violation("root-mismatch:"+mode, det(w, mode, "n", n, "got", root.ToHexString(), "want", w.root[n].ToHexString(), "size", t.TreeSize()))
		} else {
			r.Class("root_ok")
		}
		for _, p := range pend[n] {
			if p != root {
				r.Violation("predicted-root-differs-from-root-after-append:"+mode, det(w, mode, "n", n))
			} else {
				r.Class("prediction_realised")
			}
		}
		delete(pend, n)
		m0, _ := t.Marshal()
		out.marshal = append(out.marshal, m0)
		var f0 []byte
		if name != "" && n <= keep {
			f0 = fileBytes(name)
			if mode == "file" {
				out.file = append(out.file, f0)
			}
		}
		if n <= 8 && mode == "file" {
			r.Sample(map[string]any{"family": w.fam, "n": n, "root": root.ToHexString(), "hashes": len(t.Hashes()), "file_bytes": len(f0)})
		}
		// --- predictions
		ks := []int{}
		for k := 0; k <= K; k++ {
			ks = append(ks, k)
		}
		p2 := 1
		for p2 <= n {
			p2 *= 2
		}
		if p2-n+1 > K && p2-n+1 <= 80 {
			ks = append(ks, p2-n, p2-n+1) // up to and across the next power of two
		}
		for _, k := range ks {
			if n+k > len(w.data) {
				continue
			}
			var leaves []U
			ok := true
			for i := n; i < n+k && ok; i++ {
				var u U
				u, ok = asU(w.data[i])
				leaves = append(leaves, u)
			}
			if !ok {
				r.Class("prediction_skipped_non32byte_leaf")
				continue
			}
			var got U
			if !guard("GetRootWithNewLeaves:"+mode, det(w, mode, "n", n, "k", k), func() { got = t.GetRootWithNewLeaves(leaves) }) {
				continue
			}
			tr(1)
			if got != w.root[n+k] {
				r.Violation("predicted-root-mismatch:GetRootWithNewLeaves:"+mode, det(w, mode, "n", n, "k", k, "got", got.ToHexString(), "want", w.root[n+k].ToHexString()))
			} else {
				r.Class("prediction_ok")
			}
			if k > 0 && n+k <= N {
				pend[n+k] = append(pend[n+k], got)
			}
			if k == 1 {
				var g1 U
				if guard("GetRootWithNewLeaf:"+mode, det(w, mode, "n", n), func() { g1 = t.GetRootWithNewLeaf(leaves[0]) }) {
					tr(1)
					if g1 != w.root[n+1] {
						r.Violation("predicted-root-mismatch:GetRootWithNewLeaf:"+mode, det(w, mode, "n", n, "got", g1.ToHexString(), "want", w.root[n+1].ToHexString()))
					} else {
						r.Class("prediction_ok")
					}
					if n+1 <= N {
						pend[n+1] = append(pend[n+1], g1)
					}
				}
			}
		}
		// predictions must not change the tree (root, compact state, hash file)
		m1, _ := t.Marshal()
		if t.Root() != root || !bytes.Equal(m0, m1) || int(t.TreeSize()) != n {
			r.Violation("prediction-mutated-tree:"+mode, det(w, mode, "n", n))
		}
		if f0 != nil && !bytes.Equal(f0, fileBytes(name)) {
			r.Violation("prediction-mutated-hash-file:"+mode, det(w, mode, "n", n))
		}
		// --- save / reload
		switch mode {
		case "file-marshal", "nil", "mem":
			if mode == "nil" {
				// a long-lived tree object that has answered Root() for the previous size is reloaded
				// from the current snapshot (and, every 4th step, rolled back one size first)
				if tu == nil {
					tu = merkle.NewTree(0, nil, nil)
				}
				_ = tu.Root()
				seqs := [][]byte{m0}
				if n%4 == 3 {
					seqs = [][]byte{out.marshal[n-1], m0}
				}
				for i, snap := range seqs {
					want := w.root[n]
					if len(seqs) == 2 && i == 0 {
						want = w.root[n-1]
					}
					var e error
					if guard("UnMarshal:reused", det(w, mode, "n", n), func() { e = tu.UnMarshal(append([]byte{}, snap...)) }) {
						tr(1)
						if e != nil || tu.Root() != want {
							r.Violation("reload-marshal:reused-object-differs", det(w, mode, "n", n, "step", i, "err", fmt.Sprint(e)))
						} else {
							r.Class("reload_marshal_ok")
						}
					}
				}
			}
			// in-memory round trip on every step for file-marshal; on nil/mem only compare a side copy
			t2 := merkle.NewTree(0, nil, store)
			var err error
			if guard("UnMarshal:"+mode, det(w, mode, "n", n), func() { err = t2.UnMarshal(m0) }) {
				tr(2)
				m2, _ := t2.Marshal()
				if err != nil || t2.Root() != root || int(t2.TreeSize()) != n || !bytes.Equal(m2, m0) {
					r.Violation("reload-marshal:tree-differs:"+mode, det(w, mode, "n", n, "err", fmt.Sprint(err)))
				} else {
					r.Class("reload_marshal_ok")
				}
				if mode == "file-marshal" {
					t = t2 // history continues on the reloaded object
				}
			}
		case "file-reopen":
			store.Close()
			var err error
			store, err = merkle.NewFileHashStore(name, uint32(n))
			tr(2)
			if err != nil {
				r.Violation("reopen-file:refused-valid-file", det(w, mode, "n", n, "err", err.Error()))
				return out
			}
			t = merkle.NewTree(uint32(n), cloneHashes(t.Hashes()), store)
			if t.Root() != root {
				r.Violation("reopen-file:tree-differs", det(w, mode, "n", n))
			} else {
				r.Class("reopen_file_ok")
			}
		}
		// --- proofs of row n on the live tree
		if store != nil {
			checkRow(t, w, n, mode, mode == "file" && n <= rfcN)
		}
		if n == N {
			break
		}
		d := w.data[n]
		if !guard("Append:"+mode, det(w, mode, "n", n), func() { t.Append(d) }) {
			break
		}
		tr(1)
	}
	// --- the whole grid again on the final tree (tree size > n for all but the last row)
	if store != nil && (mode == "file" || mode == "mem" || mode == "file-reopen") {
		for n := 0; n <= int(t.TreeSize()); n++ {
			if r.Expired() {
				r.Capped(fmt.Sprintf("final grid %s/%s stopped at n=%d", w.fam, mode, n))
				break
			}
			checkRow(t, w, n, mode, false)
		}
	}
	if store != nil {
		store.Close()
	}
	if name != "" {
		// inadmissible opens of the final file
		final := fileBytes(name)
		n := int(t.TreeSize())
		for _, c := range []struct {
			cut  int
			size int
		}{{0, n + 1}, {0, n + 2}, {0, 2*n + 1}, {1, n}, {32, n}, {len(final), n}} {
			if n == 0 || c.cut > len(final) {
				continue
			}
			nm := tmpFile()
			_ = os.WriteFile(nm, final[:len(final)-c.cut], 0o644)
			hs, err := merkle.NewFileHashStore(nm, uint32(c.size))
			tr(1)
			if err == nil {
				hs.Close()
				r.Violation("reopen-file:accepted-short-file", det(w, mode, "file_bytes", len(final)-c.cut, "tree_size", c.size))
			} else {
				r.Class("short_file_refused")
			}
			os.Remove(nm)
		}
		os.Remove(name)
	}
	return out
}

// ---------------------------------------------------------------- B: rewind / fork

func runForks(base *world, co *chainOut, NR int, workers int) {
	type job struct{ m, n int }
	jobs := make(chan job, 64)
	var wg sync.WaitGroup
	for i := 0; i < workers; i++ {
		wg.Add(1)
		go func() {
			defer wg.Done()
			for j := range jobs {
				fork(base, co, j.m, j.n)
			}
		}()
	}
	for n := 0; n <= NR && n < len(co.file); n++ {
		if r.Expired() {
			r.Capped(fmt.Sprintf("forks stopped at n=%d", n))
			break
		}
		for m := 0; m <= n; m++ {
			jobs <- job{m, n}
		}
	}
	close(jobs)
	wg.Wait()
}

func fork(base *world, co *chainOut, m, n int) {
	mode := "fork"
	r.Eval()
	r.Case(fmt.Sprintf("fork/%s/m=%d/n=%d", base.fam, m, n))
	name := tmpFile()
	content := append([]byte{}, co.file[n]...)
	if (m+n)%3 == 0 {
		content = append(content, 0xAA, 0xBB, 0xCC, 0xDD, 0xEE, 0xFF, 0x11) // ragged tail of a torn later write
	}
	_ = os.WriteFile(name, content, 0o644)
	defer os.Remove(name)
	// every tree_size the file cannot serve must be refused
	for _, bad := range []int{n + 1, n + 2} {
		if len(co.file[n])%32 != 0 {
			break
		}
		hs, err := merkle.NewFileHashStore(name, uint32(bad))
		tr(1)
		if err == nil {
			hs.Close()
			r.Violation("reopen-file:accepted-short-file", det(base, mode, "file_bytes", len(content), "tree_size", bad, "n", n))
		} else {
			r.Class("short_file_refused")
		}
	}
	hs, err := merkle.NewFileHashStore(name, uint32(m))
	tr(1)
	if err != nil {
		r.Violation("reopen-file:refused-valid-file", det(base, mode, "m", m, "n", n, "err", err.Error()))
		return
	}
	defer hs.Close()
	var t *merkle.CompactMerkleTree
	if (m+n)%2 == 0 {
		t = merkle.NewTree(0, nil, hs)
		if e := t.UnMarshal(co.marshal[m]); e != nil {
			r.Violation("reload-marshal:error:fork", det(base, mode, "m", m, "err", e.Error()))
			return
		}
	} else {
		hashes := make([]U, (len(co.marshal[m])-4)/32)
		for i := range hashes {
			copy(hashes[i][:], co.marshal[m][4+32*i:])
		}
		t = merkle.NewTree(uint32(m), hashes, hs)
	}
	tr(1)
	atomic.AddInt64(&nStates, 1)
	if t.Root() != base.root[m] {
		r.Violation("reopen-file:tree-differs", det(base, mode, "m", m, "n", n))
		return
	}
	r.Class("reopen_file_ok")
	checkRow(t, base, m, mode, false) // proofs of the rewound tree out of the longer file
	// continue with different leaves past the old end of file
	data := append([][]byte{}, base.data[:m]...)
	final := n + 2
	for i := m; i < final; i++ {
		data = append(data, leafData("alt", i))
	}
	w := mkWorld(base.fam+"+alt", data)
	for i := m; i < final; i++ {
		d := data[i]
		if !guard("Append:fork", det(w, mode, "m", m, "n", n, "i", i), func() { t.Append(d) }) {
			return
		}
		tr(2)
		atomic.AddInt64(&nStates, 1)
		if t.Root() != w.root[i+1] {
			r.Violation("root-mismatch:fork", det(w, mode, "m", m, "n", n, "size", i+1))
			return
		}
		r.Class("root_ok")
	}
	for s := m + 1; s <= final; s++ {
		// quick: the boundary rows of the rewritten region; thorough: every row
		if r.Thorough() || s == m+1 || s >= n {
			checkRow(t, w, s, mode, false)
		}
	}
}

// ---------------------------------------------------------------- C: mc.BFS over operation sequences

type st struct {
	seq     string // leaf kinds appended so far: e (equal), d (distinct by position), s (short / empty data)
	mode    byte   // 'n' nil store, 'f' file store
	marshal []byte
	store   []byte
	// observations of the transition that produced this state
	root    U
	pred    U
	predK   int
	predOK  bool
	errText string
}

func bfsLeaf(kind byte, i int) []byte {
	switch kind {
	case 'e':
		return sha("e", 0)
	case 'd':
		return sha("d", i)
	}
	return sha("s", i)[:i%3*5] // 0, 5 or 10 bytes
}

func bfsWorld(seq string, extra int) *world {
	data := make([][]byte, 0, len(seq)+extra)
	for i := 0; i < len(seq); i++ {
		data = append(data, bfsLeaf(seq[i], i))
	}
	for i := len(seq); i < len(seq)+extra; i++ {
		data = append(data, bfsLeaf('d', i))
	}
	return mkWorld("bfs:"+seq, data)
}

// materialise re-creates the real tree of a state through the real restart path.
func materialise(s st) (*merkle.CompactMerkleTree, merkle.HashStore, string, error) {
	var hs merkle.HashStore
	name := ""
	if s.mode == 'f' {
		name = tmpFile()
		if err := os.WriteFile(name, s.store, 0o644); err != nil {
			return nil, nil, "", err
		}
		var err error
		hs, err = merkle.NewFileHashStore(name, binary.BigEndian.Uint32(s.marshal))
		if err != nil {
			os.Remove(name)
			return nil, nil, "", err
		}
	}
	t := merkle.NewTree(0, nil, hs)
	if err := t.UnMarshal(s.marshal); err != nil {
		return nil, nil, "", err
	}
	return t, hs, name, nil
}

func dump(s st, t *merkle.CompactMerkleTree, name string) st {
	m, _ := t.Marshal()
	nx := st{seq: s.seq, mode: s.mode, marshal: m, root: t.Root()}
	if name != "" {
		nx.store = fileBytes(name)
	}
	return nx
}

func runBFS(depth, workers int) mc.Stats {
	empty, _ := merkle.NewTree(0, nil, nil).Marshal()
	key := func(s st) string {
		h := sha256.Sum256(s.store)
		return string(s.mode) + hex.EncodeToString(s.marshal) + hex.EncodeToString(h[:])
	}
	return mc.BFS(mc.Config[st]{
		Init: []st{{mode: 'n', marshal: empty, root: U(ref.Empty())}, {mode: 'f', marshal: empty, root: U(ref.Empty())}},
		Events: func(s st, d int) []string {
			e := []string{"P:0", "P:1", "P:2", "P:3", "P1", "RM"}
			if s.mode == 'f' {
				e = append(e, "RF")
			}
			if len(s.seq) < depth {
				e = append(e, "A:e", "A:d", "A:s")
			}
			return e
		},
		Step: func(s st, e string) (st, bool) {
			t, hs, name, err := materialise(s)
			if err != nil {
				return st{seq: s.seq, mode: s.mode, errText: "materialise: " + err.Error()}, true
			}
			defer func() {
				if hs != nil {
					hs.Close()
				}
				if name != "" {
					os.Remove(name)
				}
			}()
			var nx st
			rec, p := ev.Guard(func() {
				switch {
				case e[0] == 'A':
					t.Append(bfsLeaf(e[2], len(s.seq)))
					nx = dump(s, t, name)
					nx.seq = s.seq + e[2:]
				case e == "P1":
					u, _ := asU(bfsLeaf('d', len(s.seq)))
					g := t.GetRootWithNewLeaf(u)
					nx = dump(s, t, name)
					nx.pred, nx.predK, nx.predOK = g, 1, true
				case e[0] == 'P':
					k := int(e[2] - '0')
					var lv []U
					for i := 0; i < k; i++ {
						u, _ := asU(bfsLeaf('d', len(s.seq)+i))
						lv = append(lv, u)
					}
					g := t.GetRootWithNewLeaves(lv)
					nx = dump(s, t, name)
					nx.pred, nx.predK, nx.predOK = g, k, true
				case e == "RM":
					b, _ := t.Marshal()
					t2 := merkle.NewTree(uint32(len(s.seq)), cloneHashes(t.Hashes()), hs)
					if err := t2.UnMarshal(b); err != nil {
						nx = st{seq: s.seq, mode: s.mode, errText: err.Error()}
						return
					}
					nx = dump(s, t2, name)
				case e == "RF":
					hs.Close()
					h2, err := merkle.NewFileHashStore(name, t.TreeSize())
					if err != nil {
						hs = nil
						nx = st{seq: s.seq, mode: s.mode, errText: err.Error()}
						return
					}
					hs = h2
					t2 := merkle.NewTree(t.TreeSize(), cloneHashes(t.Hashes()), h2)
					nx = dump(s, t2, name)
				}
			})
			if p {
				nx = st{seq: s.seq, mode: s.mode, errText: fmt.Sprint("panic: ", rec)}
			}
			return nx, true
		},
		Key: key,
		Check: func(prev st, e string, nx st, path []string) {
			r.Eval()
			tr(1)
			d := map[string]any{"ops": path, "mode": string(nx.mode)}
			if nx.errText != "" {
				d["err"] = nx.errText
				r.Violation("bfs:op-failed:"+e[:1], d)
				return
			}
			w := bfsWorld(nx.seq, 3)
			n := len(nx.seq)
			if nx.root != w.root[n] || int(binary.BigEndian.Uint32(nx.marshal)) != n {
				r.Violation("bfs:root-mismatch:"+e[:1], d)
			} else {
				r.Class("root_ok")
			}
			if e[0] != 'A' && key(nx) != key(prev) {
				r.Violation("bfs:tree-not-preserved:"+e, d)
			} else if e[0] == 'R' {
				r.Class("reload_marshal_ok")
			}
			if nx.predOK {
				if nx.pred != w.root[n+nx.predK] {
					r.Violation("bfs:predicted-root-mismatch:"+e, d)
				} else {
					r.Class("prediction_ok")
				}
			}
		},
		Inv: func(s st, path []string) {
			if s.errText != "" || s.mode != 'f' {
				return
			}
			r.Case("bfs/" + s.seq)
			t, hs, name, err := materialise(s)
			if err != nil {
				r.Violation("bfs:materialise", map[string]any{"ops": path, "err": err.Error()})
				return
			}
			w := bfsWorld(s.seq, 0)
			for n := 0; n <= len(s.seq); n++ {
				checkRow(t, w, n, "bfs", false)
			}
			hs.Close()
			os.Remove(name)
		},
		MaxDepth: 0,
		Workers:  workers,
		Stop:     r.Expired,
	})
}

// ---------------------------------------------------------------- main

func main() {
	r = ev.Start("C06", "model_checking")
	t0 := time.Now()
	N := r.QT(70, 520)    // linear histories
	K := r.QT(4, 9)       // prediction widths 0..K (+ up to / across the next power of two)
	NR := r.QT(33, 72)    // rewind / fork grid
	D := r.QT(7, 9)       // BFS: appends per history (3 leaf kinds)
	NL := r.QT(70, 160)   // MerkleLeafPath / HashFullTree grid
	rfcN := r.QT(70, 130) // rows compared byte-for-byte with the RFC reference prover
	r.Require("root_ok", "prediction_ok", "prediction_realised", "reload_marshal_ok", "reopen_file_ok",
		"short_file_refused", "inclusion_accept", "leafpath_accept", "consistency_accept", "consistency_m0_accept")
	base := os.Getenv("VERIF_TMP")
	if base == "" {
		base = "/verif/.tmp"
	}
	_ = os.MkdirAll(base, 0o755)
	var err error
	tmpRoot, err = os.MkdirTemp(base, "c06-")
	if err != nil {
		r.HarnessError("tmp: %v", err)
	}
	cleanup := func() { os.RemoveAll(tmpRoot) }
	defer cleanup()

	// ---- A
	fams := []string{"distinct", "allequal", "mixed"}
	modes := []string{"nil", "mem", "file", "file-reopen", "file-marshal"}
	outs := map[string]*chainOut{}
	worlds := map[string]*world{}
	var mu sync.Mutex
	var wg sync.WaitGroup
	for _, f := range fams {
		w := family(f, N+81)
		worlds[f] = w
		for _, m := range modes {
			wg.Add(1)
			go func(w *world, m string) {
				defer wg.Done()
				o := runChain(w, m, N, K, NR, rfcN)
				if m == "file" {
					mu.Lock()
					outs[w.fam] = o
					mu.Unlock()
				}
			}(w, m)
		}
	}
	wg.Wait()
	r.Note("phase_A_done_s", time.Since(t0).Seconds())
	statesA, transA := atomic.LoadInt64(&nStates), atomic.LoadInt64(&nTrans)

	// ---- TreeHasher.HashFullTree and MerkleLeafPath (the level-by-level tree used for cross-state roots)
	for _, f := range fams {
		w := worlds[f]
		for n := 0; n <= NL && n <= N; n++ {
			if r.Expired() {
				r.Capped("HashFullTree/MerkleLeafPath grid")
				break
			}
			var got U
			if guard("HashFullTree", det(w, "-", "n", n), func() { got = merkle.TreeHasher{}.HashFullTree(w.data[:n]) }) {
				tr(1)
				if got != w.root[n] {
					r.Violation("HashFullTree:mismatch", det(w, "-", "n", n))
				} else {
					r.Class("root_ok")
				}
			}
			lhs := make([]U, n)
			for i := range lhs {
				lhs[i] = U(w.lh[i])
			}
			for i := 0; i < n; i++ {
				var path []byte
				var err error
				if !guard("MerkleLeafPath", det(w, "-", "i", i, "n", n), func() { path, err = merkle.MerkleLeafPath(w.data[i], lhs) }) {
					continue
				}
				tr(2)
				atomic.AddInt64(&nProofs, 1)
				if err != nil {
					r.Violation("MerkleLeafPath:error", det(w, "-", "i", i, "n", n, "err", err.Error()))
					continue
				}
				val, e := merkle.MerkleProve(path, w.root[n][:])
				if e != nil || !bytes.Equal(val, w.data[i]) {
					r.Violation("leafpath-rejected:MerkleLeafPath", det(w, "-", "i", i, "n", n, "err", fmt.Sprint(e)))
				} else {
					r.Class("leafpath_accept")
				}
			}
		}
	}

	r.Note("phase_leafpath_done_s", time.Since(t0).Seconds())
	// ---- B
	forkFams := fams // every append fsyncs (~2 ms): quick rewinds one family, thorough all three
	if r.Quick() {
		forkFams = []string{"mixed"}
	}
	for _, f := range forkFams {
		if outs[f] != nil {
			runForks(worlds[f], outs[f], NR, 12)
		}
	}
	statesB, transB := atomic.LoadInt64(&nStates)-statesA, atomic.LoadInt64(&nTrans)-transA

	r.Note("phase_B_done_s", time.Since(t0).Seconds())
	// ---- C
	before := atomic.LoadInt64(&nTrans)
	bst := runBFS(D, 12)
	if bst.Truncated {
		r.Capped(fmt.Sprintf("BFS truncated at depth %d", bst.MaxDepth))
	}
	_ = before

	if ne := atomic.LoadInt64(&rfcNe); ne > 0 {
		r.Note("proofs_differing_from_rfc_reference_prover", ne)
	}
	r.Assume("SHA-256 collision resistance (distinct histories give distinct trees)",
		"old size 0 is outside RFC 6962's consistency-proof domain (0 < m <= n); checked for no-crash + vacuous acceptance on the file store only")
	cleanup()
	r.Finish(map[string]any{
		"rule": fmt.Sprintf("A: sizes 0..%d x families %v x modes %v, predictions k=0..%d and to/across next power of two, proof row n on the live tree + full (m,n) grid on the final tree; "+
			"B: families %v: every (m<=n<=%d) rewind of the hash file with a different continuation to n+2 (ragged tail on every third), inadmissible opens refused; "+
			"C: BFS over {append e/d/s, predict k=0..3, GetRootWithNewLeaf, marshal-reload, file reopen} x {nil store, file store}, up to %d appends; "+
			"HashFullTree + MerkleLeafPath grid n<=%d; a state is one (history, storage mode) tree, a transition one real operation compared with the reference", N, fams, modes, K, forkFams, NR, D, NL),
		"states":                        statesA + statesB + int64(bst.States),
		"transitions":                   atomic.LoadInt64(&nTrans),
		"traces_validated_against_impl": atomic.LoadInt64(&nTrans),
		"max_depth":                     N,
		"max_size":                      N,
		"linear_states":                 statesA, "linear_transitions": transA,
		"fork_states": statesB, "fork_transitions": transB,
		"bfs_states": bst.States, "bfs_transitions": bst.Transitions, "bfs_max_depth": bst.MaxDepth, "bfs_per_depth": bst.PerDepth,
		"proofs_generated_and_verified":     atomic.LoadInt64(&nProofs),
		"proofs_identical_to_rfc_reference": atomic.LoadInt64(&rfcEq),
	})
}
